"""C07 / C09 / C10 — module Session: TLC behaviours replayed on a socket-less pair of real sessions (see the harness)."""
import json, os, random, re, shutil
from vlib import tlc, tlaval, gorun, core

PROPS = ['C07', 'C09', 'C10']
INSTR = {"files": {
    "queue.go": {"funcs": ["queue.markWorking"]},
    "session.go": {"funcs": ["Session.wakeUpPeer"]},
    # observation hook only: the harness overwrites the payload of every buffer at the moment it is recycled
    "buffer_manager.go": {"entry": ["bufferList.push"]},
}}
HARNESS = ['zz_vs_sched.go', 'zz_freelist_test.go', 'zz_pair_test.go', 'zz_session_test.go']
SLUGS = ['close-via-queue-after-fallback', 'socket-before-poll', 'server-recreates-closed-stream']
WITNESS = {
    # (i) shm message, fallback message, close element consumed by the drain before the fallback event is read
    'close-via-queue-after-fallback': dict(nstreams=1, qcap=2, steps=[
        ('Open', 'A', 1), ('FlushPut', 'A', 1), ('WCas', 'A', 1), ('WSend', 'A', 1), ('Exhaust', 'A', 1),
        ('FlushFallback', 'A', 1), ('Close', 'A', 1), ('Deliver', 'B', 0), ('Read', 'B', 1), ('ReadEnd', 'B', 1)]),
    # (ii) writer 1 has won the working flag but not written its polling event; stream 2 flushes (no wake-up of its own)
    # and closes with the queue full, so its close goes through the socket and is handled before its data
    'socket-before-poll': dict(nstreams=2, qcap=2, steps=[
        ('Open', 'A', 1), ('Open', 'A', 2), ('FlushPut', 'A', 1), ('WCas', 'A', 1), ('FlushPut', 'A', 2), ('WCas', 'A', 2),
        ('Close', 'A', 2), ('WSend', 'A', 1), ('Deliver', 'B', 0), ('Deliver', 'B', 0)]),
}
# the same class seen by a reader (C07): the stream exists at the server, its second message is queued without a wake-up,
# the close goes through the socket and is handled first
WITNESS_C07_SBP = dict(nstreams=2, qcap=2, steps=[
    ('Open', 'A', 1), ('Open', 'A', 2), ('FlushPut', 'A', 2), ('WCas', 'A', 2), ('WSend', 'A', 2), ('Deliver', 'B', 0),
    ('Read', 'B', 2), ('FlushPut', 'A', 1), ('WCas', 'A', 1), ('FlushPut', 'A', 2), ('WCas', 'A', 2), ('Close', 'A', 2),
    ('Deliver', 'B', 0), ('ReadEnd', 'B', 2)])
# execution classes that are outside what the model explores for a property without being a violation of it
SKIP = {'C07': ['server-recreates-closed-stream'], 'C09': ['server-recreates-closed-stream']}
WITNESS['server-recreates-closed-stream'] = dict(nstreams=1, qcap=2, steps=[
    ('Open', 'A', 1), ('Exhaust', 'A', 1), ('FlushFallback', 'A', 1), ('FlushFallback', 'A', 1), ('Deliver', 'B', 0),
    ('Close', 'B', 1), ('WCas', 'B', 1), ('WSend', 'B', 1), ('Deliver', 'A', 0), ('Close', 'A', 1), ('Deliver', 'B', 0)])


def mc_files(streams, qcap, ma, mb, mexh, prune, invs, mbad=0):
    wrapper = '---- MODULE MC_Session ----\nEXTENDS Session\n' \
              'mcMaxMsgs == [e \\in {"A","B"} |-> IF e = "A" THEN %d ELSE %d]\n====\n' % (ma, mb)
    cfg = 'SPECIFICATION Spec\nCONSTANTS\n  Streams = {%s}\n  QCap = %d\n  MaxMsgs <- mcMaxMsgs\n  MaxExh = %d\n  MaxBad = %d\n%s\nVIEW View\n' \
          'INVARIANTS %s\nPROPERTIES Monotone\nCHECK_DEADLOCK FALSE\n' % (
              ', '.join(map(str, streams)), qcap, mexh, mbad, 'CONSTRAINT NoKnownFinding' if prune else '', invs)
    return {'MC_Session.tla': wrapper, 'mc.cfg': cfg}


INVS = 'G_Order G_CloseAfterData G_LedgerExact G_AllBack G_PeerLearns'


def per_stream(v, streams):
    if isinstance(v, dict):
        return [v[s] for s in streams]
    return list(v)


def expect(st, streams):
    x = {'sst': {}, 'queue': {}, 'sock': {}, 'flag': {}, 'pend': {}, 'inuse': st['inuse'], 'err': st['lastErr'], 'kf': st['kf']}
    for e in ('A', 'B'):
        x['sst'][e] = per_stream(st['sst'][e], streams)
        x['queue'][e] = [[el[0], 1 if el[1] == 'c' else 0] for el in st['queue'][e]]
        sk = []
        for ev in st['sock'][e]:
            if ev[0] == 'poll':
                sk.append([1, 0])
            elif ev[0] == 'fb':
                sk.append([2, ev[1]])
            else:
                sk.append([3, ev[1]])
        x['sock'][e] = sk
        x['flag'][e] = st['flag'][e]
        x['pend'][e] = [len(p) for p in per_stream(st['pend'][e], streams)]
    return x


def step_of(label):
    label = label.replace('\\', '')
    m = re.match(r'(\w+)(?:\((.*)\))?', label)
    act = m.group(1)
    args = [a.strip().strip('"') for a in (m.group(2) or '').split(',') if a.strip()]
    if act == 'Exhaust':
        return {'a': act, 'e': 'A', 's': 1}
    if act == 'Open':
        return {'a': act, 'e': 'A', 's': int(args[0])}
    if act == 'Deliver':
        return {'a': act, 'e': args[0], 's': 0}
    return {'a': act, 'e': args[0], 's': int(args[1])}


def schedules_from_graph(nodes, edges, inits, streams, rng, max_paths=None):
    paths, remaining = tlc.cover_paths(inits, edges, max_paths=max_paths)
    parsed = {}

    def node(n):
        if n not in parsed:
            parsed[n] = expect(tlaval.parse_state(nodes[n]), streams)
        return parsed[n]
    scheds = []
    for pi, path in enumerate(paths):
        steps = []
        for e in path:
            s, d, label = edges[e]
            st = step_of(label)
            st['x'] = node(d)
            steps.append(st)
        scheds.append({'name': 'cover-%d' % pi, 'steps': steps})
    return scheds, remaining


def schedules_from_behaviours(behs, streams, prefix):
    scheds = []
    for bi, beh in enumerate(behs):
        steps = []
        for label, st in beh[1:]:
            s = step_of(label)
            s['x'] = expect(st, streams)
            steps.append(s)
        scheds.append({'name': '%s-%d' % (prefix, bi), 'steps': steps})
    return scheds


def staged_flush_retry(ck, prop, qcap=2):
    """the Flush that finds the queue full and succeeds on a retry (a path of its own in Stream.Flush): staged on a real
    session pair; used by C09 (ledger) and C05 (the retried element must not be stranded)"""
    job = {'nstreams': 1, 'qcap': qcap, 'known': [], 'schedules': [], 'staged': True,
           'random': {'n': 0, 'seed': 1, 'steps': 0, 'streams': 1}}
    r = harness(ck, prop, job)
    if r is not None and r.get('staged'):
        ck.cov['staged_flush_retry_scenarios'] = r['staged']
        ck.add('evaluations', len(r['staged']))
    return r


def harness(ck, prop, job, report=True):
    g = gorun.run_harness('^TestVS_Session$', HARNESS, INSTR, inputs={'job': job}, timeout=2400)
    if g.result is None:
        ck.inconc('harness produced no result (rc=%d): %s' % (g.rc, g.out[-1500:]))
        return None
    r = g.result
    if report:
        for v in r['violations']:
            if v['property'] == prop:
                ck.violation('%s (%s): %s' % (v['kind'], v['schedule'], v['detail']),
                             {'kind': 'schedule', 'nstreams': v['nstreams'], 'qcap': v['qcap'], 'msglen': job.get('msglen', 3),
                              'steps': [[s['a'], s['e'], s['s']] for s in (v['steps'] or [])], 'detail': v['detail']})
            else:
                ck.notes.append("also saw a %s violation (%s: %s) - reported by that property's own check"
                                % (v['property'], v['kind'], v['detail'][:100]))
        if r['drift_count']:
            for d in r['drift']:
                print('SPEC-DRIFT module=Session at=%s' % d[:600])
            ck.cov['spec_drift'] = True
            if r.get('drift_first_steps'):
                print('SPEC-DRIFT first drifting behaviour: ' + ' '.join('%s(%s,%d)' % (s['a'], s['e'], s['s']) for s in r['drift_first_steps']))
    return r


def run(prop, tier, seed, replay=None):
    ck = core.Check(prop, 'model_checking', tier, seed)
    rng = random.Random(ck.seed)
    ck.assumptions += [
        'real Session/Stream/queue/buffer code on a socket-less pair (real shared memory mapped twice, real queues, '
        'real protocol handlers and send loops); the epoll loop is replaced by the harness delivering one recorded '
        'socket event at a time, which makes every interleaving of API calls and event handling reachable',
        'writers are parked only where the spec has a step boundary (after the element is on the queue, after the working '
        'flag is won); the drain of the queue by a polling event is atomic at this level (its interleaving with producers '
        'is module IOQueue)',
        'synchronous API (no StreamCallbacks; callback mode is module Callback, C20); each message is 3 bytes in one buffer, or 9 bytes in a chain of three buffers (every second configuration)',
        'named restriction of the model: the server end closes a stream locally only when no client data for it is in flight',
    ]
    known = core.known_findings()
    listed = [s for s in SLUGS if (prop, s) in known]
    if replay:
        rep = json.load(open(replay))
        if rep.get('kind') == 'history':
            from checks import bytepipe
            return bytepipe.run(prop, tier, seed, replay=replay)
        if 'events' in rep:
            from checks import callback
            return callback.run(prop, tier, seed, replay=replay)
        if rep.get('kind') == 'blocking-read':
            from checks import blocking
            ck.cov['evaluations'] = 1
            ck.cov['distinct_nontrivial'] = 1
            blocking.c07_replay(ck, rep)
            return ck.finish()
        if rep['steps'] == [] or str(rep.get('detail', '')).startswith('flush-retry'):
            job = {'nstreams': 1, 'qcap': rep.get('qcap', 2), 'known': [], 'schedules': [], 'staged': True,
                   'random': {'n': 0, 'seed': 1, 'steps': 0, 'streams': 1}}
            ck.cov['evaluations'] = 1
            ck.cov['distinct_nontrivial'] = 1
            harness(ck, prop, job)
            return ck.finish()
        job = {'nstreams': rep['nstreams'], 'qcap': rep['qcap'], 'known': [], 'msglen': rep.get('msglen', 3),
               'schedules': [{'name': 'replay', 'steps': [{'a': a, 'e': e, 's': s} for a, e, s in rep['steps']]}],
               'random': {'n': 0, 'seed': 1, 'steps': 0, 'streams': 1}}
        ck.cov['evaluations'] = 1
        ck.cov['distinct_nontrivial'] = 1
        harness(ck, prop, job)
        return ck.finish()

    ck.cov['tlc_configs'] = []
    # ---- 1. exhaustive small configurations (known-finding classes pruned), edge cover replayed
    plans = [([1], 2, 3, 0, 2), ([1], 2, 2, 1, 1)] if tier == 'quick' else \
            [([1], 2, 3, 0, 2), ([1], 2, 2, 1, 2), ([1, 2], 2, 1, 0, 0), ([1], 1, 2, 1, 1)]
    for pi, (streams, qcap, ma, mb, mexh) in enumerate(plans):
        # every second configuration is replayed with 9-byte messages: each message is then a chain of three buffers
        msglen = 9 if pi % 2 == 1 else 3
        ck.log('TLC exhaustive: streams %s, queue cap %d, msgs A=%d B=%d, exhaust toggles %d' % (streams, qcap, ma, mb, mexh))
        res, nodes, edges, inits = tlc.dump_graph('MC_Session', 'mc.cfg', timeout=1500,
                                                  extra_files=mc_files(streams, qcap, ma, mb, mexh, True, INVS))
        if res.violation:
            ck.inconc('TLC reports %s on the Session specification with the listed finding classes pruned (design-level lead)' % res.violation)
            return ck.finish()
        if not res.ok or not edges:
            ck.inconc('TLC did not complete: %s' % (res.error or res.out[-400:]))
            return ck.finish()
        ck.add('states', res.distinct)
        ck.add('transitions', len(edges))
        scheds, remaining = schedules_from_graph(nodes, edges, inits, streams, rng)
        total_paths = len(scheds)
        if tier == 'quick' and len(scheds) > 4500:
            scheds = rng.sample(scheds, 1200)
        job = {'nstreams': len(streams), 'qcap': qcap, 'known': listed + SKIP.get(prop, []), 'schedules': scheds,
               'staged': (prop == 'C09' and not ck.cov.get('staged_fault_scenarios')), 'msglen': msglen,
               'random': {'n': 0, 'seed': ck.seed, 'steps': 0, 'streams': 1}}
        ck.log('graph ready: %d cover paths, replaying %d' % (total_paths, len(scheds)))
        r = harness(ck, prop, job)
        if r is None:
            return ck.finish()
        ck.log('replayed')
        ck.add('traces_validated_against_impl', r['conforming'])
        ck.add('replayed_behaviours', r['replayed'])
        ck.add('replay_steps', r['steps'])
        ck.add('end_state_checks', r['end_checks'])
        ck.add('eos_checks', r['eos_checks'])
        if r.get('staged'):
            ck.cov['staged_fault_scenarios'] = r['staged']
        ck.cov['tlc_configs'].append('Session streams=%s qcap=%d msgs=(%d,%d) exhaust<=%d, %d-byte messages, finding classes pruned: %d states, '
                                     '%d transitions, depth %d; %d of %d cover paths replayed, %d conforming'
                                     % (streams, qcap, ma, mb, mexh, msglen, res.distinct, len(edges), res.depth, r['replayed'], total_paths, r['conforming']))
        if scheds:
            ck.sample({'tlc_behaviour_replayed': [(s['a'], s['e'], s['s']) for s in scheds[len(scheds) // 2]['steps']]})
        if ck.violations:
            return ck.finish()
    ck.cov['exhaustive'] = True
    ck.cov.setdefault('spec_drift', False)

    # ---- 2. design check WITHOUT pruning: TLC must find exactly the listed classes (evidence that the classifier is not vacuous)
    un = tlc.run('MC_Session', 'mc.cfg', timeout=600, extra_files=mc_files([1], 2, 2, 1, 1, False, 'CloseAfterData'))
    ck.cov['design_counterexample_without_pruning'] = (un.violation or 'none') + (
        ' kf=%s' % un.trace[-1][1].get('kf') if un.violation and un.trace else '')

    ck.log('design counterexample run done')
    # ---- 2b. design check with the fault "corrupt queue element" (PutBad): the ledger / order / close invariants hold on the
    # design when the element is skipped; the real-code side of this fault is the staged scenario corrupt-offset/*
    bad = tlc.run('MC_Session', 'mc.cfg', timeout=600, extra_files=mc_files([1], 2, 2, 0, 1, True, INVS, mbad=1))
    if bad.ok:
        ck.add('states', bad.distinct)
        ck.cov['tlc_configs'].append('Session streams=[1] qcap=2 msgs=(2,0) exhaust<=1 corrupt elements<=1 (fault PutBad), finding classes '
                                     'pruned: %d states, depth %d, invariants %s hold (design only; bound to the code by the staged '
                                     'scenario corrupt-offset/behind-good-message)' % (bad.distinct, bad.depth, INVS))
    else:
        ck.notes.append('design run with the corrupt-element fault did not complete cleanly: %s' % (bad.violation or bad.error or bad.out[-200:]))
    # ---- 3. known findings: replay the witnesses on the real code
    wscheds = []
    for slug, wit in WITNESS.items():
        if prop == 'C07' and slug == 'socket-before-poll':
            wit = WITNESS_C07_SBP
        if slug in SKIP.get(prop, []):
            continue
        wscheds.append({'name': 'witness-' + slug, 'nstreams': wit['nstreams'], 'raw': True,
                        'steps': [{'a': a, 'e': e, 's': s} for a, e, s in wit['steps']]})
    job = {'nstreams': 1, 'qcap': 2, 'known': [], 'schedules': wscheds, 'random': {'n': 0, 'seed': 1, 'steps': 0, 'streams': 1}}
    r = harness(ck, prop, job, report=False)
    if r is None:
        return ck.finish()
    for ws in wscheds:
        slug = ws['name'][len('witness-'):]
        vs = [v for v in r['violations'] if v['property'] == prop and v['schedule'] == ws['name']]
        if vs:
            if (prop, slug) in known:
                ck.known(slug, known[(prop, slug)] + ' [witness replayed on real code: %s]' % vs[0]['detail'])
            else:
                ck.violation('%s: %s' % (slug, vs[0]['detail']),
                             {'kind': 'schedule', 'nstreams': ws['nstreams'], 'qcap': 2,
                              'steps': [[s['a'], s['e'], s['s']] for s in ws['steps']], 'detail': vs[0]['detail']})
        elif (prop, slug) in known:
            ck.notes.append('listed known finding %s: witness did not reproduce for this property on this tree' % slug)
    ck.log('witnesses done')
    # ---- 4. random histories on the real code (oracles only), and TLC simulation of larger instances replayed
    if not ck.violations:
        sres, behs = tlc.simulate('MC_Session', 'mc.cfg', num=120 if tier == 'quick' else 1500, depth=60, seed=ck.seed, timeout=900,
                                  extra_files=mc_files([1, 2], 2, 2, 1, 1, True, INVS))
        scheds = schedules_from_behaviours(behs, [1, 2], 'sim')
        job = {'nstreams': 2, 'qcap': 2, 'known': listed + SKIP.get(prop, []), 'schedules': scheds, 'msglen': 9 if ck.seed % 2 else 3,
               'random': {'n': 150 if tier == 'quick' else 5000, 'seed': ck.seed, 'steps': 40, 'streams': 3}}
        r = harness(ck, prop, job)
        if r is not None:
            ck.add('traces_validated_against_impl', r['conforming'])
            ck.add('replayed_behaviours', r['replayed'])
            ck.add('replay_steps', r['steps'])
            ck.add('end_state_checks', r['end_checks'])
            ck.cov['random_histories_on_real_code'] = r['random_runs']
            ck.cov['known_finding_class_executions'] = r['known_hits']
            ck.cov['tlc_configs'].append('simulation streams={1,2} msgs=(2,1) exhaust<=1: %d behaviours replayed, %d conforming'
                                         % (r['replayed'], r['conforming']))
            for s in r['samples']:
                ck.sample('random history on real code: ' + s)
    if prop == 'C09' and not ck.violations:
        # buffer-level histories (multi-slice and mixed shm/heap messages, partial reads, pins, reuse): module BytePipe
        from checks import bytepipe
        bytepipe.run('C09', tier, seed, ck=ck, finish=False)
    if prop == 'C09' and not ck.violations:
        # callback mode at access granularity: Close racing the event loop's delivery, ledger and free-list integrity
        # checked after both ends closed (module Callback)
        from checks import callback
        callback.run('C09', tier, seed, ck=ck, finish=False)
    if prop == 'C07' and not ck.violations:
        # a blocked reader racing the delivery of the peer's last data and its close (select with both arms ready): module
        # Blocking, read waiter; "told the stream ended with the flushed bytes delivered and unread" is a C07 verdict
        from checks import blocking
        blocking.c07_read_overtake(ck, tier)
    if prop == 'C10' and not ck.violations:
        # callback mode: Close from another goroutine / from inside OnData, callbacks exactly once (module Callback)
        from checks import callback
        callback.run('C10', tier, seed, ck=ck, finish=False)
    if tier == 'thorough' and not ck.violations:
        for (streams, qcap, ma, mb, mexh) in [([1, 2], 2, 1, 1, 0), ([1, 2], 2, 1, 1, 1)]:
            big = tlc.run('MC_Session', 'mc.cfg', timeout=2400, extra_files=mc_files(streams, qcap, ma, mb, mexh, True, INVS))
            if big.violation:
                ck.inconc('TLC reports %s on the larger configuration %s' % (big.violation, streams))
            elif big.ok:
                ck.add('states', big.distinct)
                ck.add('transitions', big.generated)
                ck.cov['tlc_configs'].append('Session streams=%s msgs=(%d,%d) exhaust<=%d (TLC only): %d states, %.0fs'
                                             % (streams, ma, mb, mexh, big.distinct, big.wall))
    return ck.finish()
