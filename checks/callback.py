"""C20 (and the callback-mode part of C10) — module Callback, binding B1 on the real hand-off code."""
import json, os, random, re
from vlib import tlc, tlaval, gorun, core

PROPS = ['C20']
INSTR = {"files": {"stream.go": {"funcs": ["Stream.fillDataToReadBuffer", "Stream.Close", "Stream.close", "Stream.halfClose",
                                           "Stream.getStreamState"], "noLock": []},
                   # observation hook only: payload of every recycled buffer is overwritten by the harness
                   "buffer_manager.go": {"entry": ["bufferList.push"]}}}
# finer instrumentation for the random real interleavings: the lock of pendingData is a scheduling point too, so that
# "flag read / data added" orderings inside fillDataToReadBuffer and the goroutine's exit re-check can be separated
INSTR_FINE = {"files": {"stream.go": {"funcs": INSTR["files"]["stream.go"]["funcs"] + ["pendingData.add", "pendingData.moveTo", "pendingData.clear"]},
                        "buffer_manager.go": INSTR["files"]["buffer_manager.go"]}}
# statement-granular instrumentation of the stream layer's buffer bookkeeping: these sections rely on locks only (no
# atomics), so their interleavings (Close/clean against the event loop's delivery, moveTo against add) need a scheduling
# point in front of every statement
INSTR_STMT = {"files": {"stream.go": {"funcs": INSTR["files"]["stream.go"]["funcs"], "everyStmt": ["pendingData.*", "Stream.clean"]},
                        "buffer.go": {"everyStmt": ["linkedBuffer.recycle", "linkedBuffer.cleanPinnedList", "linkedBuffer.clean"], "addrLocks": ["recycleMux"]},
                        "buffer_slice.go": {"everyStmt": ["sliceList.*"]},
                        "buffer_manager.go": INSTR["files"]["buffer_manager.go"]}}
INSTRS = {'fine': INSTR_FINE, 'stmt': INSTR_STMT}
HARNESS = ['zz_vs_sched.go', 'zz_freelist_test.go', 'zz_pair_test.go', 'zz_session_test.go', 'zz_callback_test.go']
SLUGS = ['peer-close-before-offer', 'close-during-callback']
INVS = 'Serial NoDupOffer OrderOffer NoStranding PeerLearns CallbackOnce CleanAlone OnDataHoldsRole'
WITNESS = {
    # data followed by the peer's close in the same drain: the offering loop is gated by IsOpen()
    ('C20', 'peer-close-before-offer'): dict(events='ddc', user=False, inon=False, steps=[
        'EData', 'EChk', 'ECas', 'ERechk:1', 'EData', 'GMove:1', 'EChk', 'ECas', 'EClose', 'EHalf', 'GLoop:1', 'GClr:1', 'GLdCcs:1']),
    # Close() from another goroutine while a callback is in process: deferred path, nobody tells the peer
    ('C10', 'close-during-callback'): dict(events='dd', user=True, inon=False, steps=[
        'EData', 'EChk', 'ECas', 'ERechk:1', 'EData', 'UStart', 'GMove:1', 'PubClose1:0', 'PubClose2:0', 'PubClose3:0', 'GLoop:1', 'URet',
        'GClr:1', 'GLdCcs:1', 'CloseBegin:1', 'CloseCas:1', 'CloseWait:1', 'EChk', 'CloseClean:1', 'GClosingRet:1']),
    # Close() inside OnData
    ('C10', 'close-during-callback#ondata'): dict(events='d', user=False, inon=True, steps=[
        'EData', 'EChk', 'ECas', 'ERechk:1', 'GMove:1', 'GLoop:1']),
}


def files(events, user, inon, prune, invs=INVS, props='NothingAfterClose RecycleOnlyIdle'):
    w = '---- MODULE MC_Callback ----\nEXTENDS Callback\nmcEvents == <<%s>>\n====\n' % ', '.join('"%s"' % e for e in events)
    cfg = 'SPECIFICATION Spec\nCONSTANTS\n  Events <- mcEvents\n  UserClose = %s\n  CloseInOnData = %s\n%s\nINVARIANTS %s\nPROPERTIES %s\nCHECK_DEADLOCK FALSE\n' % (
        'TRUE' if user else 'FALSE', 'TRUE' if inon else 'FALSE', 'CONSTRAINT NoKnownFinding' if prune else '', invs, props)
    return {'MC_Callback.tla': w, 'mc.cfg': cfg}


def expect(st):
    return {'state': st['state'], 'pending': len(st['pending']), 'recv': len(st['recv']), 'offered': list(st['offered']),
            'cip': st['cip'], 'ccs': st['ccs'], 'wg': st['wg'], 'inondata': st['inOnData'], 'localcb': st['localCb'],
            'remotecb': st['remoteCb'], 'peer': st['peerNotified']}


def step_of(label, src, dst):
    m = re.match(r'(\w+)(?:\((\d+)\))?', label)
    st = {'a': m.group(1), 'c': int(m.group(2)) if m.group(2) else 0, 'g': 0}
    if st['a'] in ('ECas', 'ERechk'):
        for g in (1, 2):
            if src['gpc'][g - 1] == 'none' and dst['gpc'][g - 1] == 'go':
                st['g'] = g
    return st


def wit_steps(lst):
    out = []
    for x in lst:
        a, _, c = x.partition(':')
        st = {'a': a, 'c': int(c) if c else 0, 'g': 0}
        if a in ('ECas', 'ERechk') and c:
            st = {'a': a, 'c': 0, 'g': int(c)}
        out.append(st)
    return out


def harness(ck, job, instr=None):
    g = gorun.run_harness('^TestVS_Callback$', HARNESS, instr or INSTR, inputs={'job': job}, timeout=2400)
    if g.result is None:
        ck.inconc('harness produced no result (rc=%d): %s' % (g.rc, g.out[-1500:]))
        return None
    return g.result


def report(ck, prop, r):
    for v in r['violations']:
        if v['property'] == prop:
            ck.violation('%s (%s, events=%s userClose=%s closeInOnData=%s): %s' % (v['kind'], v['schedule'], v['events'], v['userclose'], v['inondata'], v['detail']),
                         {'kind': 'schedule', 'events': v['events'], 'userclose': v['userclose'], 'inondata': v['inondata'],
                          'fine': ('stmt' if v['schedule'].startswith('random/stmt') else 'fine') if v['schedule'].startswith('random') else False,
                          'keeppinned': v.get('keeppinned', False),
                          'steps': [[s['a'], s['c'], s['g']] for s in v['steps']], 'detail': v['detail']})
        else:
            ck.notes.append("also saw a %s violation (%s: %s)" % (v['property'], v['kind'], v['detail'][:100]))
    if r['drift_count']:
        for d in r['drift']:
            print('SPEC-DRIFT module=Callback at=%s' % d[:500])
        ck.cov['spec_drift'] = True


def run(prop, tier, seed, replay=None, ck=None, finish=True):
    ck = ck or core.Check(prop, 'model_checking', tier, seed)
    fin = ck.finish if finish else (lambda: None)
    rng = random.Random(ck.seed)
    ck.assumptions += [
        'real Stream.fillDataToReadBuffer / halfClose / Close / close and the callback goroutine closure under the '
        'serialising scheduler (gopool.Go -> scheduler thread, wait-group wait scheduler-aware); one TLA+ action = one '
        'scheduling step of the real code (atomic operations on callbackInProcess, callbackCloseState, state; entering '
        'and leaving OnData)',
        'messages are delivered through the real IO queue and handlePolling of a socket-less session pair; OnData reads '
        'everything that is available (partial consumption is exercised by BytePipe at the buffer level)',
        'bounded: up to 4 events per stream, one user Close, Close inside the first OnData',
    ]
    known = core.known_findings()
    listed = [s for s in SLUGS if ('C20', s) in known or ('C10', s) in known]
    if replay:
        rep = json.load(open(replay))
        job = {'schedules': [{'name': 'replay', 'events': rep['events'], 'userclose': rep['userclose'], 'inondata': rep['inondata'], 'raw': True,
                              'keeppinned': rep.get('keeppinned', False),
                              'steps': [{'a': a, 'c': c, 'g': g} for a, c, g in rep['steps']]}], 'known': [], 'random': {'n': 0, 'seed': 1}}
        ck.cov['evaluations'] = 1
        ck.cov['distinct_nontrivial'] = 1
        r = harness(ck, job, INSTRS.get(rep.get('fine') if rep.get('fine') is not True else 'fine'))
        if r:
            report(ck, prop, r)
        return fin()

    scen = [('ddc', False, False), ('dd', True, False), ('dc', True, False), ('dd', False, True)]
    if prop == 'C10':
        scen = [('dd', True, False), ('dc', True, False), ('dd', False, True)]
    if prop == 'C09':
        scen = [('ddc', False, False), ('dd', True, False), ('dd', False, True)]
    if tier == 'thorough':
        scen += [('ddd', False, False), ('c', True, False), ('dddd', False, False), ('dddc', False, False), ('ddd', True, False), ('ddc', True, False), ('dc', False, True), ('ddd', True, True)]
    ck.cov.setdefault('tlc_configs', [])
    scheds = []
    for (ev, user, inon) in scen:
        res, nodes, edges, inits = tlc.dump_graph('MC_Callback', 'mc.cfg', timeout=900, extra_files=files(ev, user, inon, True))
        if res.violation:
            ck.inconc('TLC reports %s on the Callback specification (events %s) with the listed classes pruned' % (res.violation, ev))
            return fin()
        if not res.ok:
            ck.inconc('TLC did not complete: %s' % (res.error or res.out[-300:]))
            return fin()
        ck.add('states', res.distinct)
        ck.add('transitions', len(edges))
        parsed = {k: tlaval.parse_state(v) for k, v in nodes.items()}
        paths, remaining = tlc.cover_paths(inits, edges)
        for pi, path in enumerate(paths):
            steps = []
            for e in path:
                s, d, label = edges[e]
                st = step_of(label, parsed[s], parsed[d])
                st['x'] = expect(parsed[d])
                steps.append(st)
            scheds.append({'name': '%s/%s/%s-cover-%d' % (ev, int(user), int(inon), pi), 'events': ev, 'userclose': user,
                           'inondata': inon, 'steps': steps})
        ck.cov['tlc_configs'].append('Callback events=%s userClose=%s closeInOnData=%s, classes pruned: %d states, %d transitions, %d cover paths'
                                     % (ev, user, inon, res.distinct, len(edges), len(paths)))
    # liveness on the design: every behaviour settles (no lost hand-off) under weak fairness
    lv = None if prop in ('C10', 'C09') else tlc.run('MC_Callback', 'mc.cfg', timeout=600, extra_files={**files('ddd', False, False, True), 'mc.cfg':
        files('ddd', False, False, True)['mc.cfg'].replace('SPECIFICATION Spec', 'SPECIFICATION FairSpec').replace('PROPERTIES NothingAfterClose RecycleOnlyIdle', 'PROPERTIES NothingAfterClose RecycleOnlyIdle EventuallySettled')})
    if lv is not None:
        ck.cov['liveness_eventually_settled'] = 'holds (%d states)' % lv.distinct if lv.ok else (lv.violation or lv.error or 'timeout')
    # design counterexamples without pruning (classifier not vacuous)
    if prop not in ('C10', 'C09'):
        un = tlc.run('MC_Callback', 'mc.cfg', timeout=600, extra_files=files('ddc', False, False, False, 'RawNoStranding'))
        ck.cov['design_counterexample_without_pruning'] = '%s kf=%s' % (un.violation, un.trace[-1][1].get('kf') if un.trace else None)
    # witnesses of the known findings
    for (wp, slug), wit in WITNESS.items():
        if wp != prop and not (prop == 'C20' and wp == 'C10'):
            continue
        scheds.append({'name': 'witness-%s-%s' % (wp, slug), 'events': wit['events'], 'userclose': wit['user'], 'inondata': wit['inon'],
                       'raw': True, 'steps': wit_steps(wit['steps'])})
    job = {'schedules': scheds, 'known': listed, 'random': {'n': 200 if tier == 'quick' else 6000, 'seed': ck.seed}}
    r = harness(ck, job)
    if r is None:
        return fin()
    wit_v = [v for v in r['violations'] if v['schedule'].startswith('witness-')]
    r['violations'] = [v for v in r['violations'] if not v['schedule'].startswith('witness-')]
    report(ck, prop, r)
    for v in wit_v:
        _, wp, slug = v['schedule'].split('-', 2)
        base = slug.split('#')[0]
        if v['property'] != wp:
            continue
        if (wp, base) in known:
            if wp == prop:
                ck.known(base, known[(wp, base)] + ' [witness %s replayed on real code: %s]' % (slug, v['detail']))
            else:
                ck.notes.append('witness of listed finding %s/%s reproduced (%s)' % (wp, base, v['detail'][:160]))
        elif wp == prop:
            ck.violation('%s: %s' % (slug, v['detail']), {'kind': 'schedule', 'events': v['events'], 'userclose': v['userclose'],
                                                           'inondata': v['inondata'], 'steps': [[s['a'], s['c'], s['g']] for s in v['steps']]})
    # random interleavings with the finer instrumentation (oracles only)
    if not ck.violations:
        fjob = {'schedules': [], 'known': listed, 'random': {'n': 300 if tier == 'quick' else 6000, 'seed': ck.seed + 1000}}
        fr = harness(ck, fjob, INSTR_FINE)
        if fr is not None:
            report(ck, prop, fr)
            ck.cov['random_interleavings_fine_grained'] = fr['random_runs']
            ck.cov['random_fine_steps'] = fr['random_steps']
    # random interleavings with a scheduling point in front of every statement of the buffer bookkeeping (oracles only)
    if not ck.violations:
        sjob = {'schedules': [], 'known': listed, 'random': {'n': 20000 if tier == 'quick' else 200000, 'seed': ck.seed + 2000, 'tag': '/stmt'}}
        sr = harness(ck, sjob, INSTR_STMT)
        if sr is not None:
            report(ck, prop, sr)
            ck.cov['random_interleavings_statement_granular'] = sr['random_runs']
            ck.cov['random_statement_granular_steps'] = sr['random_steps']
            ck.cov['statement_granular_points_executed'] = sr.get('points', {})
            ck.add('callback_ledger_checks', sr.get('ledger_checks', 0))
    ck.add('traces_validated_against_impl', r['conforming'])
    ck.cov['replayed_behaviours'] = r['replayed']
    ck.cov['replay_steps'] = r['steps']
    ck.cov['conforming_behaviours'] = r['conforming']
    ck.cov.setdefault('spec_drift', False)
    ck.cov['random_interleavings_on_real_code'] = r['random_runs']
    ck.cov['settle_checks'] = r['settle_checks']
    ck.cov['ondata_calls'] = r['ondata_calls']
    ck.add('callback_ledger_checks', r.get('ledger_checks', 0))
    ck.cov['known_finding_class_executions'] = r['known_hits']
    ck.cov['exhaustive'] = True
    for s in r['samples']:
        ck.sample('random interleaving on real code: ' + s)
    if scheds:
        ck.sample({'tlc_behaviour_replayed': scheds[0]['name'], 'steps': [(s['a'], s['c']) for s in scheds[0]['steps']]})
    return fin()
