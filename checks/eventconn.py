"""C18 - module EventConn: the event connection moves bytes exactly once and in order under any kernel IO.

Design verdict: TLC on specs/EventConn.tla (write loop x kernel FIFO x onReadReady window) and specs/EventConnWriters.tla
(the `writing` flag / sendCh / notifyContinueWriteCh protocol of Session).  Binding to the real code of the current tree:
  window : edge cover of TLC's state graph replayed 1:1 on the real connEventHandler (every read size TLC chose is
           produced by the real kernel through a datagram socketpair); byte scale and 512 KiB-unit scale (real 1 MiB / 4 MiB
           literals: threshold callback and shrink path)
  pipe   : real write/writev stepped one syscall at a time against a real stream socket with a minimal send buffer, the
           environment taken from TLC simulation runs and the seed; the kernel's answers are logged and the traces are
           validated against the spec (Trace_EventConn)
  writers: TLC behaviours of EventConnWriters replayed on the real Session.wakeUpPeer / hotRestart / send with gates at
           every atomic access
  e2e    : free-running real epoll loop, concurrent senders through the real Session code, bursts > 1 MiB / > 4 MiB
"""
import json, os, random, re, shutil, time
from vlib import tlc, tlaval, gorun, core

PROPS = ['C18']

HARNESS = ['zz_vs_sched.go', 'zz_eventconn_test.go']
INSTR = {"files": {
    "event_dispatcher_linux.go": {"funcs": ["connEventHandler.write", "connEventHandler.doWritev"]},
    "session.go": {"funcs": ["Session.wakeUpPeer", "Session.hotRestart", "Session.send"], "noLock": []},
}}
TEST = '^TestVS_EventConn$'
REAL_T, REAL_S = 1048576, 4194304
UNIT = 524288          # bytes per model byte in the scaled replay: Threshold 2 units = 1 MiB, ShrinkMin 8 units = 4 MiB

CFG = """SPECIFICATION Spec
CONSTANTS
  N = %(N)d
  MsgEnds = {%(ends)s}
  SockCap = %(cap)d
  SockMin = %(smin)d
  InitLen = %(init)d
  Threshold = %(T)d
  ShrinkMin = %(S)d
  Greedy = %(greedy)s
  MaxRead = %(maxread)d
  Consume = "%(consume)s"
  Lean = %(lean)s
INVARIANTS WindowOK ContentOK KernelOK QuiescentOK ConsumedOK
CHECK_DEADLOCK TRUE
"""

TRACE_CFG = """SPECIFICATION TraceSpec
INVARIANT TraceKernelOK
POSTCONDITION TraceAccepted
CHECK_DEADLOCK FALSE
"""


def cfg(N, ends, cap, smin, init, T=REAL_T, S=REAL_S, greedy=False, maxread=1000, consume='any', lean=False):
    return CFG % dict(N=N, ends=', '.join(map(str, ends)), cap=cap, smin=smin, init=init, T=T, S=S,
                      greedy='TRUE' if greedy else 'FALSE', maxread=maxread, consume=consume,
                      lean='TRUE' if lean else 'FALSE')


OPS = {'RStart': 1, 'RTop': 2, 'RSys': 3, 'REagain': 4, 'RCallback': 5}


def state_vec(st):
    return [len(st['buf']), st['rs'], st['re'], st['consumed'], 1 if st['rpc'] == 'idle' else 0]


def step_of(label):
    m = re.match(r'(\w+)(?:\((\d+)\))?', label)
    return OPS.get(m.group(1), 0), int(m.group(2) or 0)


def window_schedules(nodes_txt, edges, inits, rng, unit, initlen, N, prefix, max_paths=None, prefer=None):
    """edge cover of the state graph -> schedules for the harness"""
    paths, remaining = tlc.cover_paths(inits, edges, rng=rng)
    if max_paths is not None and len(paths) > max_paths:
        # keep the paths that exercise the rare edges first (threshold callbacks, shrink), then a seeded sample
        scored = []
        for p in paths:
            labels = [edges[e][2] for e in p]
            scored.append((prefer(p, labels) if prefer else 0, rng.random(), p))
        scored.sort(key=lambda x: (-x[0], x[1]))
        paths = [p for _, _, p in scored[:max_paths]]
    parsed, index, states = {}, {}, []

    def node(nid):
        if nid not in index:
            parsed[nid] = tlaval.parse_state(nodes_txt[nid])
            index[nid] = len(states)
            states.append(state_vec(parsed[nid]))
        return index[nid]

    scheds = []
    init_idx = node(inits[0])
    for pi, path in enumerate(paths):
        steps = []
        for e in path:
            s, d, label = edges[e]
            op, arg = step_of(label)
            steps.append([op, arg, node(d)])
        scheds.append({'name': '%s-%d' % (prefix, pi), 'unit': unit, 'initlen': initlen, 'n': N, 'init': init_idx,
                       'steps': steps})
    return scheds, states, remaining, parsed


def merge_states(job_states, scheds, states):
    """append a module-local state table to the job-wide one, shifting the indexes"""
    base = len(job_states)
    job_states.extend(states)
    for s in scheds:
        s['init'] += base
        for st in s['steps']:
            st[2] += base


def eager_subgraph(nodes, edges, silent_enabled, silent_labels):
    """The interleavings a free-running goroutine can realise: in a state where one of its channel receives (a `silent`
    action) is enabled, nothing else happens first. Sub-graph of the full state graph TLC has checked."""
    cache = {}

    def sil(nid):
        if nid not in cache:
            cache[nid] = silent_enabled(nodes[nid])
        return cache[nid]
    return [(s, d, l) for (s, d, l) in edges if re.match(r'\w+', l).group(0) in silent_labels or not sil(s)]


def walks_from_graph(nodes_txt, edges, inits, rng, num, depth):
    """random walks over the state graph TLC dumped = behaviours of the specification, as [(label, state)]"""
    from collections import defaultdict
    out = defaultdict(list)
    for (s, d, l) in edges:
        if s != d:
            out[s].append((d, l))
    parsed = {}

    def st(nid):
        if nid not in parsed:
            parsed[nid] = tlaval.parse_state(nodes_txt[nid])
        return parsed[nid]
    behs = []
    for _ in range(num):
        cur = inits[0]
        beh = [('Init', st(cur))]
        for _ in range(depth):
            if not out[cur]:
                break
            cur, lab = rng.choice(out[cur])
            beh.append((lab, st(cur)))
        behs.append(beh)
    return behs


def pipe_from_behaviour(beh, rng, name):
    """A TLC simulation run of EventConn -> environment script for the real pipe: which process moves when, message sizes
    (scaled so that the real kernel produces partial writes), how much the callback consumes (as a share of what it is
    offered). The kernel's answers are whatever the real kernel does."""
    scale = rng.choice([700, 1100, 1900, 2600])
    ops, cons = [], []
    cur = None
    prev = beh[0][1]
    for label, st in beh[1:]:
        name_, arg = re.match(r'(\w+)(?:\((\d+)\))?', label).groups()
        if name_ == 'WStart':
            # size of the message that starts here = distance to the next message end, from the spec state
            ops.append([0, ('size', prev['wbase'])])
        elif name_ in ('WSys', 'WEagain'):
            ops.append([1])
        elif name_ == 'WReady':
            ops.append([2])
        elif name_ == 'RStart':
            cur = []
            cons.append(cur)
            ops.append([3, len(cons) - 1])
        elif name_ == 'RCallback' and cur is not None:
            avail = prev['re'] - prev['rs']
            cur.append(1000 * int(arg) // avail if avail else 0)
        prev = st
    return ops, cons, scale


def build_pipe(ck, rng, tier, behs):
    scen = []
    for bi, (beh, ends) in enumerate(behs):
        ends = sorted(ends)
        ops, cons, scale = pipe_from_behaviour(beh, rng, 'sim')
        out = []
        for op in ops:
            if op[0] == 0:
                base = op[1][1]
                nxt = min(e for e in ends if e > base)
                out.append([0, (nxt - base) * scale + rng.randrange(0, 50)])
            else:
                out.append(op)
        scen.append({'name': 'tlcsim-%d' % bi, 'sndbuf': rng.choice([1, 1, 6000, 20000]),
                     'initlen': rng.choice([16, 100, 4096, 65536]), 'ops': out, 'cons': cons})
    # seeded environment scripts with writev and more extreme sizes
    nrand = 40 if tier == 'quick' else 400
    for i in range(nrand):
        ops, cons = [], []
        nmsg = rng.randrange(1, 6)
        for _ in range(nmsg):
            r = rng.random()
            if r < 0.25:
                ops.append([4, rng.randrange(1 << 30), rng.choice([2, 3, 5, 7])])        # writev, few large slices
            elif r < 0.4:
                ops.append([4, rng.randrange(1 << 30), rng.choice([255, 256, 257, 300, 520])])  # > len(ioves) slices
            else:
                ops.append([0, rng.choice([1, 2, 7, 100, 2239, 2240, 2241, 4480, 5000, 9000, 20000, 70000])])
            for _ in range(rng.randrange(0, 12)):
                r2 = rng.random()
                if r2 < 0.55:
                    ops.append([1])
                elif r2 < 0.7:
                    ops.append([2])
                else:
                    cons.append([rng.choice([0, 0, 1, 500, 999, 1000, 1000]) for _ in range(3)])
                    ops.append([3, len(cons) - 1])
        scen.append({'name': 'seed-%d' % i, 'sndbuf': rng.choice([1, 1, 3000, 6000, 20000]),
                     'initlen': rng.choice([1, 3, 16, 100, 4096, 65536]), 'ops': ops, 'cons': cons})
    return scen


def build_e2e(ck, rng, tier):
    e2e, burst = [], []
    n = 4 if tier == 'quick' else 24
    for i in range(n):
        tcp = (i % 4 == 1)
        e2e.append({'name': 'e2e-%d' % i, 'seed': rng.randrange(1 << 30), 'tcp': tcp,
                    'sndbuf': 1 if not tcp else 4096, 'rcvbuf': 0 if not tcp else 4096,
                    'hotw': 3, 'bodyw': 3, 'pollw': 1, 'perw': 60 if tcp else (120 if tier == 'quick' else 300),
                    # (TCP with 4 KiB windows moves ~100 KB/s because of delayed ACKs: keep its volume small)
                    'maxbody': rng.choice([3000, 9000, 30000]) if i % 4 in (0, 2) else rng.choice([600, 2000]),
                    'consume': i % 4})
    mib = 1 << 20
    nb = 1 if tier == 'quick' else 4
    for i in range(nb):
        writes = []
        total = 0
        while total < 13 * mib:
            w = rng.choice([1, 7, 65536, 65537, mib - 1, mib, mib + 1, 3 * mib + 5, 2 * mib, 300000])
            writes.append(w)
            total += w
        burst.append({'name': 'burst-%d' % i, 'seed': rng.randrange(1 << 30), 'tcp': i % 2 == 1,
                      'sndbuf': rng.choice([1, 0, 262144]) if i % 2 == 0 else 0, 'writes': writes,
                      'hold': [8 * mib + rng.randrange(1, mib // 2), 1, 1, 2 * mib, 1]})
    return e2e, burst


def absorb(ck, r, part_filter=None):
    """harness result -> verdicts"""
    for v in (r.get('violations') or [])[:3]:
        ck.violation('%s/%s (%s): %s' % (v['part'], v['kind'], v['name'], v['detail']), v['replay'])
    for d in r.get('drift') or []:
        print('SPEC-DRIFT module=EventConn at=%s' % d)
        ck.cov['spec_drift'] = True
    for n in r.get('notes') or []:
        ck.notes.append(n)


def run_trace_validation(trace_file):
    """-> dict(ok, nruns, events, states, wall, line, violation, ctx, error) or None when there is nothing to validate"""
    lines = [json.loads(l) for l in open(trace_file) if l.strip()]
    total, ends = 0, []
    for ev in lines:
        if ev['ev'] == 'msg':
            total += ev['size']
            ends.append(total)
    if not ends:
        return None
    params = ('---- MODULE EventConnTraceParams ----\nTracePath == "%s"\nTraceN == %d\nTraceMsgEnds == {%s}\n====\n'
              % (trace_file, total, ', '.join(map(str, ends))))
    tv = tlc.run('Trace_EventConn', 'trace.cfg', workers=1, timeout=900,
                 extra_files={'trace.cfg': TRACE_CFG, 'EventConnTraceParams.tla': params})
    out = dict(ok=tv.ok, nruns=sum(1 for ev in lines if ev['ev'] == 'reset'), events=len(lines), states=tv.distinct,
               wall=tv.wall, violation=tv.violation, error=tv.error or tv.out[-400:], line=0, ctx=[])
    if tv.violation:
        m = re.search(r'TRACE-REJECTED-AT-LINE", (\d+)', tv.out)
        out['line'] = int(m.group(1)) if m else 0
        out['ctx'] = lines[max(0, out['line'] - 4):out['line']] if out['line'] else []
    return out


def apply_trace_validation(ck, tv):
    if tv is None:
        return
    if tv['ok']:
        ck.add('traces_validated_against_impl', tv['nruns'])
        ck.cov['real_write_traces_accepted'] = tv['nruns']
        ck.cov['real_write_trace_events'] = tv['events']
        ck.cov['tlc_configs'].append('Trace_EventConn: %d recorded write-loop runs, %d events, %d states, %.1fs'
                                     % (tv['nruns'], tv['events'], tv['states'], tv['wall']))
    elif tv['violation']:
        print('SPEC-DRIFT module=EventConn at=write trace line %s: the real write loop took a step the specification '
              'does not allow (%s); context %s' % (tv['line'] or '?', tv['violation'], json.dumps(tv['ctx'])))
        ck.cov['spec_drift'] = True
        ck.notes.append('write-loop trace rejected at line %s (%s)' % (tv['line'] or '?', tv['violation']))
    else:
        ck.inconc('trace validation did not complete: ' + tv['error'])


def run(prop, tier, seed, replay=None):
    ck = core.Check(prop, 'model_checking', tier, seed)
    rng = random.Random(ck.seed)
    ck.assumptions += [
        'the kernel is a FIFO byte pipe per direction: write(2)/read(2) move a prefix of what is offered/available, EAGAIN '
        'otherwise; edge-triggered epoll reports readiness after every state change (modelled as environment actions; '
        'conformance by running the real syscalls on AF_UNIX datagram/stream socketpairs and TCP loopback)',
        'byte scale of the exhaustive model is small (<= 9 bytes, buffer 1-2 bytes); the 1 MiB threshold and 4 MiB shrink '
        'literals are reached in a 512 KiB-unit instance of the same specification replayed with real sizes',
        'close / EPIPE / read errors are outside C18 (sizes, kernel IO, pacing, concurrent writers)',
        'the callback commits at most what it was offered (commitRead(n) with n > offered is a caller error)',
    ]
    ck.cov['tlc_configs'] = []
    known = core.known_findings()
    if replay:
        return do_replay(ck, replay)

    job = {'instr': True, 'states': [], 'window': [], 'pipe': [], 'e2e': [], 'burst': [], 'writers': [], 'wstates': [],
           'dispatch': [], 'dstates': [], 'probes': ['writev-empty-slice', 'data-then-close']}

    # ---- all TLC runs of the tier, side by side (each is small; the wall time is JVM start-up)
    quick = tier == 'quick'
    small = dict(N=5, ends=[2, 5], cap=2, smin=2, init=2) if quick else dict(N=6, ends=[1, 3, 6], cap=2, smin=2, init=2)
    small2 = dict(N=6, ends=[1, 4, 6], cap=3, smin=3, init=1, lean=True)
    # quick: everything is in the socket at once (the reader-side choices are all there, few writer interleavings)
    unitc = dict(N=9, ends=[9], cap=9, smin=9, init=1, T=2, S=8, maxread=2, consume='edges', lean=True) if quick else \
        dict(N=10, ends=[10], cap=2, smin=2, init=1, T=2, S=8, maxread=2, consume='edges', lean=True)
    logic = dict(N=7 if quick else 9, ends=[3, 7] if quick else [3, 9], cap=3, smin=2, init=1, T=3, S=4)
    simc = dict(N=9, ends=[2, 5, 9], cap=3, smin=2, init=2, greedy=True)
    wfull = dict(c1=2, c2=2, sub=2) if quick else dict(c1=3, c2=2, sub=3)
    wrep = dict(c1=2, c2=2, sub=2)
    drep = dict(fills=2, maxin=2) if quick else dict(fills=3, maxin=3)     # dumped: verdict and replay instance in one
    dfull = drep
    from concurrent.futures import ThreadPoolExecutor
    nw = 4
    os.environ.setdefault('JAVA_TOOL_OPTIONS', '-Xmx4g -XX:ParallelGCThreads=4')
    ex = ThreadPoolExecutor(max_workers=12)
    # (one JVM per dumped graph: the replay instances are the Eager sub-graphs, cut out in Python)
    f_drep = ex.submit(tlc.dump_graph, 'EventConnDispatch', 'd.cfg', 900, 2, {'d.cfg': dcfg(**drep)})
    f_small = ex.submit(tlc.dump_graph, 'EventConn', 'mc.cfg', 900, nw, {'mc.cfg': cfg(**small)})
    f_small2 = ex.submit(tlc.dump_graph, 'EventConn', 'mc.cfg', 900, nw, {'mc.cfg': cfg(**small2)}) if not quick else None
    f_unit = ex.submit(tlc.dump_graph, 'EventConn', 'mc.cfg', 900, nw, {'mc.cfg': cfg(**unitc)})
    f_logic = ex.submit(tlc.run, 'EventConn', 'mc.cfg', nw, 900, {'mc.cfg': cfg(**logic)}) if not quick else None
    f_wfull = ex.submit(tlc.run, 'EventConnWriters', 'w.cfg', nw, 900, {'w.cfg': WCFG % dict(eager='FALSE', **wfull)}) \
        if not quick else None
    f_wrep = ex.submit(tlc.dump_graph, 'EventConnWriters', 'w.cfg', 900, nw, {'w.cfg': WCFG % dict(eager='FALSE', **wrep)})
    f_sim = ex.submit(tlc.simulate, 'EventConn', 'mc.cfg', 300, 80, ck.seed, 600, {'mc.cfg': cfg(**simc)}) \
        if not quick else None
    f_dfull = None
    # sensitivity instance (thorough): the switch-shaped dispatch must strand the writer in the model
    f_dsens = ex.submit(tlc.run, 'EventConnDispatch', 'd.cfg', 2, 900, {'d.cfg': dcfg(first=True, **drep)}) if not quick else None
    wd = tlc.scratch('vec')
    try:
        # ---- harness run A (needs only the simulation runs): the real pipe under environment scripts from TLC simulation
        #      and the seed, the free-running parts, the probes; then validation of the recorded write-loop traces.
        #      It runs while the state graphs are still being computed.
        res, nodes, edges, inits = f_small.result()
        edges = list(dict.fromkeys(edges))       # (the dot dump repeats an edge when TLC generates a successor twice)
        if not tlc_ok(ck, res, edges, 'EventConn byte scale'):
            return ck.finish()
        # environment scripts for the real pipe: behaviours of the specification - random walks over the dumped graph
        # (quick) plus TLC -simulate runs of a larger instance (thorough)
        behs = [(b, small['ends']) for b in walks_from_graph(nodes, edges, inits, rng, 30, 80)]
        if f_sim:
            sres, sb = f_sim.result()
            behs += [(b, simc['ends']) for b in sb]
        jobA = dict(job)
        jobA['pipe'] = build_pipe(ck, rng, tier, behs)
        jobA['e2e'], jobA['burst'] = build_e2e(ck, rng, tier)
        jobA['trace_file'] = os.path.join(wd, 'wtrace.ndjson')
        # ---- event-mask dimension of handleEvent: behaviours staged on the real epoll dispatcher (run A)
        resd2, nodesd, edgesd, initsd = f_drep.result()
        edgesd = list(dict.fromkeys(edgesd))
        resd = f_dfull.result() if f_dfull else None
        jobA['dispatch'], jobA['dstates'] = [], []
        if not dispatch_part(ck, jobA, rng, tier, resd, dfull, resd2, nodesd, edgesd, initsd, drep):
            return ck.finish()
        if f_dsens:
            rs_ = f_dsens.result()
            ck.cov['dispatch_sensitivity_instance'] = ('switch-shaped handleEvent (FirstMatchOnly): TLC reports %s after %d '
                                                       'states' % (rs_.violation or 'NO violation', rs_.distinct))
            if rs_.violation != 'NotStranded':
                ck.notes.append('the sensitivity instance of EventConnDispatch did not produce the expected NotStranded '
                                'counterexample: ' + str(rs_.violation or rs_.error))
        ck.cov['pipe_scripts_from_tlc_simulation'] = len(behs)
        hto = 300 if quick else 2400

        def run_a():
            wda = os.path.join(wd, 'a')
            os.makedirs(wda)
            ga = gorun.run_harness(TEST, HARNESS, INSTR, inputs={'job': jobA}, timeout=hto, workdir=wda)
            tv = None
            if ga.result and ga.result.get('complete') and not ga.result.get('violations') \
                    and os.path.exists(jobA['trace_file']):
                tv = run_trace_validation(jobA['trace_file'])
            return ga, tv
        f_a = ex.submit(run_a)

        res2, nodes2, edges2, inits2 = f_small2.result() if f_small2 else (None, None, None, None)
        res3, nodes3, edges3, inits3 = f_unit.result()
        edges3 = list(dict.fromkeys(edges3))
        if edges2:
            edges2 = list(dict.fromkeys(edges2))
        res4 = f_logic.result() if f_logic else None
        resw = f_wfull.result() if f_wfull else None
        resw2, nodesw, edgesw, initsw = f_wrep.result()
        edgesw = list(dict.fromkeys(edgesw))
        ck.log('TLC runs done')

        # ---- 1. design verdict + window replay, byte scale: write loop x kernel x read window, all kernel answers
        if not tlc_ok(ck, res, edges, 'EventConn byte scale'):
            return ck.finish()
        ck.add('states', res.distinct)
        ck.add('transitions', len(set(edges)))
        ck.cov['exhaustive'] = True
        ck.cov['tlc_configs'].append('EventConn N=%(N)d MsgEnds=%(ends)s SockCap=%(cap)d InitLen=%(init)d, any read/write split, '
                                     'any consumption' % small + ': %d distinct states, %d transitions, depth %d, %.1fs'
                                     % (res.distinct, len(set(edges)), res.depth, res.wall))
        scheds, states, remaining, _ = window_schedules(nodes, edges, inits, rng, 1, small['init'], small['N'], 'bytes')
        merge_states(job['states'], scheds, states)
        job['window'] += scheds
        ck.cov['byte_scale_cover_paths'] = len(scheds)
        ck.cov['byte_scale_edges_uncovered'] = remaining
        sample_sched = scheds[len(scheds) // 2] if scheds else None

        # a second byte-scale instance: 1-byte initial buffer, three messages, exact capacity 3 (more expansion / compaction)
        if res2 is not None:
            if not tlc_ok(ck, res2, edges2, 'EventConn byte scale (reader centred)'):
                return ck.finish()
            ck.add('states', res2.distinct)
            ck.add('transitions', len(set(edges2)))
            ck.cov['tlc_configs'].append('EventConn reader-centred N=6 MsgEnds={1,4,6} SockCap=3 InitLen=1: %d distinct states, '
                                         '%d transitions, depth %d, %.1fs' % (res2.distinct, len(set(edges2)), res2.depth, res2.wall))
            scheds2, states2, remaining2, _ = window_schedules(nodes2, edges2, inits2, rng, 1, 1, 6, 'bytes1')
            merge_states(job['states'], scheds2, states2)
            job['window'] += scheds2
            ck.cov['byte_scale_cover_paths'] += len(scheds2)
            ck.cov['byte_scale_edges_uncovered'] += remaining2

        # ---- 2. the same specification with the code's literals in 512 KiB units (Threshold 2 = 1 MiB, ShrinkMin 8 = 4 MiB)
        if not tlc_ok(ck, res3, edges3, 'EventConn unit scale'):
            return ck.finish()
        ck.add('states', res3.distinct)
        ck.add('transitions', len(set(edges3)))
        ck.cov['tlc_configs'].append('EventConn 512KiB-unit instance N=%d SockCap=%d InitLen=1 Threshold=2 ShrinkMin=8 MaxRead=2: '
                                     '%d distinct states, %d transitions, depth %d, %.1fs'
                                     % (unitc['N'], unitc['cap'], res3.distinct, len(set(edges3)), res3.depth, res3.wall))
        blen = {}

        def buflen(nid):
            if nid not in blen:
                m = re.search(r'buf = <<(.*?)>>', nodes3[nid], re.S)
                blen[nid] = m.group(1).count(',') + 1 if m and m.group(1).strip() else 0
            return blen[nid]

        def prefer3(path, labels):
            sc = 0
            for e in path:
                s_, d_, lab = edges3[e]
                if lab.startswith('RCallback'):
                    if buflen(d_) < buflen(s_):
                        sc += 5
                    if 'rpc = "top"' in nodes3[d_]:
                        sc += 1
                    if buflen(s_) > 8 and not re.search(r'/\\ rs = 0\b', nodes3[d_]):
                        sc += 3          # partial consumption while the buffer is beyond the shrink limit
            return sc

        nsel = 40 if quick else 400
        scheds3, states3, remaining3, _ = window_schedules(nodes3, edges3, inits3, rng, UNIT, 1, unitc['N'], 'unit', max_paths=nsel,
                                                           prefer=prefer3)
        merge_states(job['states'], scheds3, states3)
        job['window'] += scheds3
        ck.cov['unit_scale_paths_replayed'] = len(scheds3)

        # ---- 3. scaled-down literals (Threshold 3, ShrinkMin 4) with every kernel answer: the threshold / shrink logic itself
        if res4 is not None:
            if res4.violation or not res4.ok:
                ck.inconc('TLC on EventConn (scaled literals): %s' % (res4.violation or res4.error or 'timeout'))
                return ck.finish()
            ck.add('states', res4.distinct)
            ck.add('transitions', res4.generated)
            ck.cov['tlc_configs'].append('EventConn scaled literals N=%d Threshold=3 ShrinkMin=4 SockCap=3 SockMin=2 (fuzzy '
                                         'capacity): %d distinct states, depth %d, %.1fs'
                                         % (logic['N'], res4.distinct, res4.depth, res4.wall))

        # ---- 4. writer protocol
        if not writers_part(ck, job, rng, tier, resw, wfull, resw2, nodesw, edgesw, initsw, wrep):
            return ck.finish()

        # ---- harness run B: window replay + writer protocol replay
        jobB = dict(job)
        jobB['probes'] = []
        jobB['dispatch'], jobB['dstates'] = [], []
        ck.log('harness: %d window behaviours, %d writer schedules | %d pipe scripts, %d e2e, %d bursts (already running)'
               % (len(job['window']), len(job['writers']), len(jobA['pipe']), len(jobA['e2e']), len(jobA['burst'])))
        wdb = os.path.join(wd, 'b')
        os.makedirs(wdb)
        gb = gorun.run_harness(TEST, HARNESS, INSTR, inputs={'job': jobB}, timeout=hto, workdir=wdb)
        ga, tv = f_a.result()
        job['pipe'], job['e2e'], job['burst'] = jobA['pipe'], jobA['e2e'], jobA['burst']
        job['dispatch'], job['dstates'] = jobA['dispatch'], jobA['dstates']
        merged = {}
        bad = False
        for g, jb in ((gb, jobB), (ga, jobA)):
            if g.result:
                absorb(ck, g.result)
            if g.result is None or not g.result.get('complete'):
                bad = True
                if not crash_verdict(ck, g, jb) and not ck.violations:
                    ck.inconc('harness did not finish (rc=%d): %s' % (g.rc, g.out[-1500:]))
            for k, v in (g.result or {}).items():
                if isinstance(v, int) and not isinstance(v, bool):
                    merged[k] = merged.get(k, 0) + v
        if sample_sched:
            ck.sample({'tlc_behaviour_replayed_on_real_onReadReady': sample_sched['name'],
                       'steps[op(1 RStart,2 RTop,3 RSys n,4 REagain,5 RCallback k,0 writer/kernel),arg,state]':
                           sample_sched['steps'][:40]})
        if bad:
            if not ck.violations and not ck.inconclusive:
                ck.inconc('harness did not finish')
            ck.add('traces_validated_against_impl', 0)
            return ck.finish()
        for k in ('win_replayed', 'win_conforming', 'win_steps', 'win_callbacks', 'win_compared', 'win_expands',
                  'win_shrinks', 'win_threshold_callbacks', 'pipe_run', 'pipe_syscalls', 'pipe_partial_writes',
                  'pipe_eagain', 'pipe_blocked_waits', 'pipe_bytes', 'e2e_run',
                  'e2e_events', 'e2e_bytes', 'e2e_callbacks', 'e2e_partial_consumptions', 'burst_run',
                  'burst_shrinks', 'burst_threshold_callbacks', 'wr_replayed', 'wr_conforming', 'wr_steps',
                  'disp_replayed', 'disp_conforming', 'disp_steps', 'disp_epoll_rounds',
                  'disp_in_out_events_while_writer_parked', 'disp_rdhup_in_events', 'disp_bytes_not_offered_at_close',
                  'disp_writer_wakeups'):
            ck.cov[k] = merged.get(k, 0)
        ck.cov['pipe_distinct_kernel_patterns'] = ga.result.get('pipe_distinct_kernel_patterns', 0)
        ck.cov['burst_max_buffer'] = ga.result.get('burst_max_buffer', 0)
        ck.add('traces_validated_against_impl', merged.get('win_conforming', 0) + merged.get('wr_conforming', 0)
               + merged.get('disp_conforming', 0))
        ck.cov['instrumentation'] = gb.report
        ck.cov['harness_times_ms'] = {'A': ga.result.get('times_ms'), 'B': gb.result.get('times_ms')}
        ck.cov['harness_wall_s'] = {'A': round(ga.wall, 1), 'B': round(gb.wall, 1)}
        for smp in ga.result.get('samples') or []:
            ck.sample(smp)
        if job['e2e']:
            ck.sample({'e2e_config': job['e2e'][0]})
        handle_probes(ck, ga.result, known)
        apply_trace_validation(ck, tv)
    finally:
        ex.shutdown(wait=True)
        shutil.rmtree(wd, ignore_errors=True)

    # ---- 6. thorough: the race-detector build (event_dispatcher_race_linux.go) under the same window / e2e / burst jobs,
    #         larger exhaustive instances
    if tier == 'thorough' and not ck.violations and not ck.inconclusive:
        thorough(ck, job, rng)
    return ck.finish()


def crash_verdict(ck, g, job):
    """The test process died. If the goroutine that panicked was running LIBRARY code (the epoll loop or the send loop of
    the real code, which the harness cannot recover) while the harness drove a known scenario, that is the real code
    crashing on a concrete input: a violation with that scenario as replay. A panic in harness code is not."""
    out = g.out
    i = out.find('panic: ')
    if i < 0 or 'test timed out' in out:
        return False
    m = re.search(r'goroutine \d+ \[running\]:\n(.*?)(?:\n\n|\Z)', out[i:], re.S)
    if not m:
        return False
    files = re.findall(r'\n\t(\S+\.go):(\d+)', '\n' + m.group(1))
    files = [(f, l) for f, l in files if '/runtime/' not in f and '/testing/' not in f]
    if not files:
        return False
    top = os.path.basename(files[0][0])
    if top.startswith('zz_'):
        return False
    prog = re.findall(r'ECPROGRESS (\w+) (\d+) (\S+)', out)
    if not prog:
        return False
    part, idx, name = prog[-1][0], int(prog[-1][1]), prog[-1][2]
    key = {'window': 'window', 'pipe': 'pipe', 'writers': 'writers', 'e2e': 'e2e', 'burst': 'burst',
           'dispatch': 'dispatch'}[part]
    if part in ('window', 'writers', 'dispatch'):
        return False     # those run in harness goroutines that recover; a crash there is not attributable
    item = job[key][idx]
    rep = {'part': part, 'cfg': item} if part in ('e2e', 'burst') else {'part': 'pipe', 'scen': item}
    msg = out[i:].split('\n')[0]
    ck.violation('%s (%s): the library panicked in its own goroutine while moving bytes: %s at %s:%s'
                 % (part, name, msg, top.replace('instr_', ''), files[0][1]), rep)
    return True


def tlc_ok(ck, res, edges, what):
    if res.violation:
        ck.inconc('TLC reports %s on the specification itself (%s) - a design-level lead, not a verdict on the code: %s'
                  % (res.violation, what, res.cmd))
        return False
    if not res.ok or not edges:
        ck.inconc('TLC did not complete (%s): %s' % (what, res.error or ('timeout' if res.timeout else res.out[-400:])))
        return False
    return True


def handle_probes(ck, r, known):
    pr = r.get('probes') or {}
    ck.cov['probes'] = pr
    out = pr.get('writev-empty-slice')
    if out and out != 'ok':
        slug = 'writev-empty-slice'
        if ('C18', slug) in known:
            ck.known(slug, '%s [witness on this tree: writev([]byte("ab"), []byte{}, []byte("cd")) -> %s]'
                     % (known[('C18', slug)], out))
        else:
            ck.violation('writev with an empty slice among its data: %s (connEventHandler.doWritev takes &data[i][0])' % out,
                         {'part': 'probe', 'probe': slug})


# ------------------------------------------------------------------------------------------------ writer protocol

WCFG = """SPECIFICATION Spec
CONSTANTS
  Calls1 = %(c1)d
  Calls2 = %(c2)d
  Submits = %(sub)d
  Eager = %(eager)s
INVARIANTS Mutex NoInterleave WireOK QuiescentOK SubmitOrder
CHECK_DEADLOCK TRUE
"""


def writers_part(ck, job, rng, tier, res, full, r2, nodes, edges, inits, rep):
    if res is not None:
        if res.violation or not res.ok:
            ck.inconc('TLC on EventConnWriters: %s' % (res.violation or res.error or 'timeout'))
            return False
        ck.add('states', res.distinct)
        ck.add('transitions', res.generated)
        ck.cov['tlc_configs'].append('EventConnWriters 2 fast-path senders (%d/%d calls) + %d queued events + send loop, every '
                                     'interleaving: %d distinct states, depth %d, %.1fs'
                                     % (full['c1'], full['c2'], full['sub'], res.distinct, res.depth, res.wall))
    if r2.violation or not r2.ok or not edges:
        ck.inconc('TLC on EventConnWriters (graph instance): %s' % (r2.violation or r2.error or 'timeout'))
        return False
    ck.add('states', r2.distinct)
    ck.add('transitions', len(set(edges)))
    ck.cov['tlc_configs'].append('EventConnWriters %d/%d calls + %d queued events + send loop, every interleaving (graph '
                                 'dumped): %d distinct states, %d transitions, depth %d, %.1fs'
                                 % (rep['c1'], rep['c2'], rep['sub'], r2.distinct, len(set(edges)), r2.depth, r2.wall))
    full_edges = len(set(edges))
    edges = eager_subgraph(nodes, edges,
                           lambda t: ('lpc = "recv"' in t and 'sendCh = <<>>' not in t) or
                                     ('lpc = "tokwait"' in t and re.search(r'/\\ tok = 1\b', t) is not None),
                           ('LoopRecv', 'LoopTok'))
    paths, remaining = tlc.cover_paths(inits, edges, rng=rng)
    maxp = 150 if tier == 'quick' else 1500
    if len(paths) > maxp:
        rng.shuffle(paths)
        paths = paths[:maxp]
    index, states = {}, job['wstates']
    lcode = {'recv': 0, 'cas': 1, 'tokwait': 2, 'store': 3}

    def node(nid):
        if nid not in index:
            st = tlaval.parse_state(nodes[nid])
            index[nid] = len(states)
            states.append([st['writing'], len(st['sendCh']), st['tok'], sum(1 for x in st['wire'] if x[1] == 1),
                           lcode[st['lpc']]])
        return index[nid]

    init = node(inits[0])
    for pi, path in enumerate(paths):
        steps = []
        for e in path:
            s, d, label = edges[e]
            m = re.match(r'(\w+)(?:\((\d+)\))?', label)
            th, kind = WACT[m.group(1)]
            steps.append([th or int(m.group(2) or 0), kind, node(d)])
        job['writers'].append({'name': 'wr-%d' % pi, 'calls': [rep['c1'], rep['c2'], rep['sub']], 'init': init, 'steps': steps})
    ck.cov['tlc_configs'].append('EventConnWriters replay = sub-graph with eager channel receives: %d of %d transitions, '
                                 '%d cover paths replayed' % (len(set(edges)), full_edges, len(job['writers'])))
    return True


DCFG = """SPECIFICATION Spec
CONSTANTS
  Fills = %(fills)d
  MaxIn = %(maxin)d
  MayClose = %(close)s
  FirstMatchOnly = %(first)s
  Eager = %(eager)s
INVARIANTS NotStranded InboundOK OutboundOK TokenOK
CHECK_DEADLOCK TRUE
"""
DOPS = {'WBegin': 1, 'WWake': 2, 'PeerDrainAll': 3, 'PeerSend': 4, 'PeerClose': 5, 'Harvest': 6}


def dcfg(fills, maxin, close=True, first=False, eager=False):
    b = lambda x: 'TRUE' if x else 'FALSE'
    return DCFG % dict(fills=fills, maxin=maxin, close=b(close), first=b(first), eager=b(eager))


def dispatch_part(ck, job, rng, tier, rfull, full, r2, nodes, edges, inits, rep):
    """EventConnDispatch: verdict instance (every interleaving) + replay instance (graph -> cover paths for the harness)"""
    if rfull is not None:
        if rfull.violation or not rfull.ok:
            ck.inconc('TLC on EventConnDispatch: %s' % (rfull.violation or rfull.error or 'timeout'))
            return False
        ck.add('states', rfull.distinct)
        ck.add('transitions', rfull.generated)
        ck.cov['tlc_configs'].append('EventConnDispatch Fills=%d MaxIn=%d peer may close, every interleaving of writer / peer '
                                     '/ epoll rounds (all coalesced masks): %d distinct states, depth %d, %.1fs'
                                     % (full['fills'], full['maxin'], rfull.distinct, rfull.depth, rfull.wall))
    if r2.violation or not r2.ok or not edges:
        ck.inconc('TLC on EventConnDispatch (graph instance): %s' % (r2.violation or r2.error or 'timeout'))
        return False
    ck.add('states', r2.distinct)
    ck.add('transitions', len(set(edges)))
    ck.cov['tlc_configs'].append('EventConnDispatch Fills=%d MaxIn=%d peer may close, every interleaving of writer / peer / '
                                 'epoll rounds, all coalesced masks (graph dumped): %d distinct states, %d transitions, depth '
                                 '%d, %.1fs' % (rep['fills'], rep['maxin'], r2.distinct, len(set(edges)), r2.depth, r2.wall))
    full_edges = len(set(edges))
    edges = eager_subgraph(nodes, edges,
                           lambda t: 'wpc = "wait"' in t and re.search(r'/\\ tok = 1\b', t) is not None, ('WWake',))
    paths, remaining = tlc.cover_paths(inits, edges, rng=rng)
    index, states = {}, job['dstates']
    wcode = {'idle': 0, 'wait': 1, 'done': 2, 'failed': 2}
    bits = {'IN': 1, 'OUT': 2, 'RDHUP': 4}

    def node(nid):
        if nid not in index:
            st = tlaval.parse_state(nodes[nid])
            index[nid] = len(states)
            states.append([wcode[st['wpc']], st['tok'], st['delivered'], 1 if st['closedSeen'] else 0, st['drained'],
                           1 if (st['wpc'] == 'wait' and st['tok'] == 1) else 0, sum(bits[x] for x in st['lastMask'])])
        return index[nid]

    init = node(inits[0])
    for pi, path in enumerate(paths):
        steps = []
        for e in path:
            s_, d_, label = edges[e]
            steps.append([DOPS.get(re.match(r'\w+', label).group(0), 0), node(d_)])
        job['dispatch'].append({'name': 'disp-%d' % pi, 'fills': rep['fills'], 'init': init, 'steps': steps})
    ck.cov['tlc_configs'].append('EventConnDispatch replay = sub-graph in which the woken writer runs first: %d of %d '
                                 'transitions, %d cover paths, %d edges uncovered' % (len(set(edges)), full_edges, len(paths), remaining))
    return True


# action name -> [thread (0: from the label argument), kind]; kind 1 begin call, 0 one atomic access, 2 silent, 3 submit
WACT = {'Begin': [0, 1], 'FastStat': [0, 0], 'FastCAS': [0, 0], 'FastStore': [0, 0], 'Submit': [4, 3],
        'LoopRecv': [3, 2], 'LoopCAS': [3, 0], 'LoopTok': [3, 2], 'LoopStore': [3, 0], 'Terminated': [9, 9]}


# ------------------------------------------------------------------------------------------------ thorough / replay

def thorough(ck, job, rng):
    big = dict(N=7, ends=[3, 7], cap=3, smin=2, init=2)
    res = tlc.run('EventConn', 'mc.cfg', timeout=1500, extra_files={'mc.cfg': cfg(**big)})
    if res.ok:
        ck.add('states', res.distinct)
        ck.add('transitions', res.generated)
        ck.cov['tlc_configs'].append('EventConn N=7 MsgEnds={3,7} SockCap=3 SockMin=2 InitLen=2: %d distinct, depth %d, %.0fs'
                                     % (res.distinct, res.depth, res.wall))
    elif res.violation:
        ck.inconc('TLC reports %s on the larger instance' % res.violation)
        return
    # the race build selects event_dispatcher_race_linux.go (not instrumented: no pipe / writers part)
    rjob = dict(job)
    rjob['instr'] = False
    rjob['pipe'] = []
    rjob['writers'] = []
    rjob['window'] = job['window'][:3000]
    rjob['burst'] = job['burst'][:1]
    rjob['e2e'] = job['e2e'][:8]
    g = gorun.run_harness(TEST, HARNESS, None, inputs={'job': rjob}, timeout=2400, race=True)
    if g.result is None or not g.result.get('complete'):
        if 'DATA RACE' in g.out:
            ck.notes.append('race detector reported a data race in the -race run: ' + g.out[g.out.find('DATA RACE'):][:600])
        ck.inconc('race-build harness produced no result (rc=%d): %s' % (g.rc, g.out[-800:]))
        return
    absorb(ck, g.result)
    ck.cov['race_build_window_replayed'] = g.result.get('win_replayed', 0)
    ck.cov['race_build_window_conforming'] = g.result.get('win_conforming', 0)
    ck.cov['race_build_e2e_run'] = g.result.get('e2e_run', 0)
    nrace = g.out.count('WARNING: DATA RACE')
    ck.cov['race_detector_reports'] = nrace
    if nrace:
        blocks = re.findall(r'WARNING: DATA RACE\n(.*?)\n\n(.*?)\n\n', g.out, re.S)
        kinds = set()
        for a, b in blocks:
            fa = [l.strip() for l in a.split('\n') if 'shmipc-go.' in l][:2]
            fb = [l.strip() for l in b.split('\n') if 'shmipc-go.' in l][:2]
            kinds.add(' / '.join(x.split('shmipc-go.')[-1] for x in fa) + '  vs  ' + ' / '.join(x.split('shmipc-go.')[-1] for x in fb))
        ck.cov['race_detector_report_kinds'] = sorted(kinds)
        ck.notes.append('the race detector reported %d races in the -race run; kinds: %s. close(onWriteReadyCh) in deferredClose '
                        'vs asyncNotify in onWriteReady is a race of the library\'s close path (outside C18: close is not '
                        'quantified; see NOTES)' % (nrace, '; '.join(sorted(kinds))))
    ck.add('traces_validated_against_impl', g.result.get('win_conforming', 0))


def do_replay(ck, path):
    rep_file = json.load(open(path))
    rep = json.loads(json.dumps(rep_file))     # worked on below; the file content is what gets re-written on a violation
    part = rep.get('part')
    job = {'instr': True, 'states': [], 'window': [], 'pipe': [], 'e2e': [], 'burst': [], 'writers': [], 'wstates': [],
           'dispatch': [], 'dstates': [], 'probes': []}
    if part == 'window':
        sched = rep['sched']
        # rebuild a dense state table from the sparse one stored in the replay file
        table = rep['states']
        idx = {}
        for k in sorted(table, key=int):
            idx[int(k)] = len(job['states'])
            job['states'].append(table[k])
        sched['init'] = idx[sched['init']]
        for st in sched['steps']:
            st[2] = idx[st[2]]
        job['window'] = [sched]
    elif part == 'pipe':
        job['pipe'] = [rep['scen']]
    elif part == 'e2e':
        job['e2e'] = [rep['cfg']] * 5     # free running: the interleaving is not reproducible, the configuration is
    elif part == 'burst':
        job['burst'] = [rep['cfg']]
    elif part == 'writers':
        job['writers'] = [rep['sched']]
        job['wstates'] = rep['wstates']
    elif part == 'dispatch':
        job['dispatch'] = [rep['sched']]
        job['dstates'] = rep['dstates']
    elif part == 'probe':
        job['probes'] = [rep['probe']]
    g = gorun.run_harness(TEST, HARNESS, INSTR, inputs={'job': job}, timeout=900)
    ck.add('states', 0)
    ck.add('transitions', 0)
    ck.add('traces_validated_against_impl', 0)
    ck.sample(rep if part != 'window' else {'replayed': rep['sched']['name']})
    if g.result is None or not g.result.get('complete'):
        if not crash_verdict(ck, g, job):
            ck.inconc('harness did not finish: ' + g.out[-800:])
        return ck.finish()
    ck.cov['evaluations'] = 1
    for v in g.result.get('violations') or []:
        ck.violation('%s/%s: %s' % (v['part'], v['kind'], v['detail']), rep_file, name=os.path.basename(path))
    pr = g.result.get('probes') or {}
    if part == 'probe' and pr.get(rep['probe'], 'ok') != 'ok':
        ck.violation('probe %s: %s' % (rep['probe'], pr[rep['probe']]), rep_file, name=os.path.basename(path))
    return ck.finish()
