"""C11 - module Blocking: no stream or session call blocks forever.

1. TLC checks Blocking.tla exhaustively (safety invariants + leads-to under weak fairness) for every waiter
   (read / flush / accept / send) on small constants and dumps the state graphs.
2. Edge-cover paths of the graphs become schedules; the Go harness (zz_blocking_test.go) stages each of them on REAL
   streams/sessions with gates and goroutine-state inspection, evaluates the property oracles on the real run and
   records what it observed after every step.
3. The recorded sequences are validated against the TLC state graph (code -> spec): every harness step must be a
   transition of the specification (library-internal steps folded) whose target state projects onto the observation.
"""
import json, os, random, re, time, shutil
from concurrent.futures import ThreadPoolExecutor
from vlib import tlc, tlaval, gorun, core

PROPS = ['C11']
PKEYS_UNUSED = {'read': ('need', 'chunks', 'maxarr', 'deadlines', 'events', 'maxt', 'inittok'),
         'flush': ('qcap', 'preload', 'maxretry', 'wdeadline', 'maxt'), 'accept': ('maxbacklog',),
         'send': ('scap', 'spre', 'cwt', 'maxt')}

HARNESS = ['zz_vs_sched.go', 'zz_pair_test.go', 'zz_blocking_test.go']
INSTR = {"files": {
    # preSelect: a scheduling point "Stream.readMore:select#k" in front of every select of readMore, so that events can be
    # delivered after the state test (IsOpen saw "open") and before the select is evaluated
    "stream.go": {"funcs": ["pendingData.moveTo", "pendingData.clear", "pendingData.add", "Stream.getStreamState",
                            "Stream.readMore"], "preSelect": ["Stream.readMore"]},
    "queue.go": {"funcs": ["queue.put"]},
}}

CFG = """SPECIFICATION Spec
CONSTANTS
  Modes <- ModesV
  ReadCfgs <- ReadCfgsV
  FlushCfgs <- FlushCfgsV
  Need = 2
  AllChunks = {1, 2}
  MaxRetry = 10
  MaxBacklog = %(maxbacklog)d
  SCap = %(scap)d
  SPre = %(spre)d
  CWT = %(cwt)d
  SMaxT = %(smaxt)d
  NSteps = 3
  IT = 1
  IMaxT = 1
INVARIANTS %(invs)s
%(props)s
CHECK_DEADLOCK FALSE
"""

INVS = {'read': ['NoBadResult', 'ReadTypeOK', 'NoEosWithData'], 'flush': ['FlushResultOK'], 'accept': ['AcceptResultOK'],
        'send': ['SendResultOK'], 'init': ['InitResultOK']}
LIVE = {'read': ['ReadReturns', 'ReadReturnsAnyClose'], 'flush': ['FlushReturns'], 'accept': ['AcceptReturns'], 'send': ['SendReturns', 'WakeReturns'], 'init': ['InitReturns']}


def tlaset(xs):
    return '{' + ', '.join(('"%s"' % x) if isinstance(x, str) else str(x) for x in xs) + '}'


def rcfg(id, dl, chunks, maxarr, events, maxt, inittok, cb=False):
    return dict(id=id, dl=dl, chunks=chunks, maxarr=maxarr, events=events, maxt=maxt, inittok=inittok, cb=cb)


def fcfg(id, qcap, preload, wdl, maxt):
    return dict(id=id, qcap=qcap, preload=preload, wdl=wdl, maxt=maxt)


def mkrun(name, modes, rcfgs, fcfgs, maxbacklog=2, scap=2, spre=1, cwt=1, smaxt=1, props=None, invs=None):
    """One TLC run: every behaviour picks its mode and configuration in Init."""
    mc = 'MC_Blocking_%s' % name
    rtxt = ', '.join('[id |-> %d, dl |-> <<%s>>, chunks |-> %s, maxarr |-> %d, events |-> %s, maxt |-> %d, inittok |-> %s, cb |-> %s]' % (
        r['id'], ', '.join(map(str, r['dl'])), tlaset(r['chunks']), r['maxarr'], tlaset(r['events']), r['maxt'],
        tlaset(r['inittok']), 'TRUE' if r.get('cb') else 'FALSE') for r in rcfgs)
    ftxt = ', '.join('[id |-> %d, qcap |-> %d, preload |-> %d, wdl |-> %d, maxt |-> %d]' % (
        f['id'], f['qcap'], f['preload'], f['wdl'], f['maxt']) for f in fcfgs)
    if invs is None:
        invs = [x for m in modes for x in INVS[m]]
    if props is None:
        props = [x for m in modes for x in LIVE[m]]
    files = {
        mc + '.tla': '---- MODULE %s ----\nEXTENDS Blocking\nModesV == %s\nReadCfgsV == {%s}\nFlushCfgsV == {%s}\n====\n' % (
            mc, tlaset(modes), rtxt, ftxt),
        mc + '.cfg': CFG % dict(maxbacklog=maxbacklog, scap=scap, spre=spre, cwt=cwt, smaxt=smaxt, invs=' '.join(invs),
                                props=('PROPERTIES ' + ' '.join(props)) if props else ''),
    }
    return dict(name=name, module=mc, cfg=mc + '.cfg', files=files, modes=modes,
                rcfgs={r['id']: r for r in rcfgs}, fcfgs={f['id']: f for f in fcfgs},
                consts=dict(maxbacklog=maxbacklog, scap=scap, spre=spre, cwt=cwt, smaxt=smaxt, need=2, maxretry=10),
                invs=invs, props=props)


ALLEV = ['arr', 'half', 'close', 'sess']
# callback mode: the reader is the callback goroutine, blocked in ReadBytes(2) inside OnData after a 1-byte message
CB7 = rcfg(7, [0], [1], 2, ALLEV, 0, [0], cb=True)
CB8 = rcfg(8, [1], [1], 1, ['arr', 'half'], 1, [0], cb=True)       # ... with a read deadline
CB_SLUG = 'callback-close-leaves-reader-blocked'      # fixed by 0f276d8; the must-replays cb-blocked-local-close* are its regression


def configs(tier):
    quick = mkrun('q', ['read', 'flush', 'accept', 'send', 'init'], [
        # one read without deadline, every releasing event, stale or no notification token at entry
        rcfg(1, [0], [1, 2], 2, ['arr', 'half', 'close'], 0, [0, 1]),
        # ... and the session dying (Close / peer disappeared) with the teardown posted to the event loop
        rcfg(5, [0], [1], 2, ['arr', 'close', 'sess'], 0, [0]),
        # two reads with deadlines (timer reuse across calls), data and peer close
        rcfg(2, [1, 2], [2], 1, ['arr', 'half'], 2, [0]),
        CB7, CB8,
    ], [
        # Flush against a full queue: attempt 0 + 10 retries; the peer may drain the queue, close; the session may close
        fcfg(1, 1, 1, 0, 0),
        fcfg(2, 1, 1, 1, 1),
    ])
    if tier != 'thorough':
        return [quick]
    big = mkrun('t', ['read', 'flush'], [
        rcfg(3, [1], [1, 2], 2, ALLEV, 1, [0]),
        rcfg(4, [1, 2], [1, 2], 2, ALLEV, 2, [0]),
    ], [
        fcfg(3, 1, 1, 2, 2),
        fcfg(4, 3, 2, 1, 1),
    ])
    return [quick, big]


# ------------------------------------------------------------------ graph handling

class Graph:
    def __init__(self, cfg, res, nodes, edges, inits):
        self.cfg, self.res, self.inits = cfg, res, inits
        self.txt = nodes
        self.edges = edges
        self.out = {}
        for idx, (s, d, l) in enumerate(edges):
            self.out.setdefault(s, []).append((l, d, idx))
        self._st = {}
        self._proj = {}

    def state(self, n):
        if n not in self._st:
            self._st[n] = tlaval.parse_state(self.txt[n])
        return self._st[n]

    def mode(self, n):
        return self.state(n)['mode']

    def proj(self, n):
        if n not in self._proj:
            st = self.state(n)
            p = PROJ[st['mode']](st)
            p['cid'] = st['rc']['id'] if st['mode'] == 'read' else st['fc']['id'] if st['mode'] == 'flush' else 0
            self._proj[n] = p
        return self._proj[n]


def label(l):
    m = re.match(r'(\w+)(?:\((\d+)\))?', l)
    return m.group(1), int(m.group(2) or 0)


RPOS = {'idle': 'idle', 'ps': 'ps', 'g1': 'mv', 'g2': 'st', 'g3': 'mv', 'a1': 'mv', 'a2': 'mv', 'bm1': 'mv', 'bm2': 'mv', 'm1': 'mv', 'm2': 'mv', 'c1': 'mv', 'c2': 'mv', 'b': 'st', 'b2': 'st',
        'c3': 'st', 'sel': 'sel'}


def proj_read(st):
    return {'pos': RPOS[st['rpc']], 'res': st['res'], 'rd': st['rd'], 'tok': st['tok'], 'cls': st['cls'], 'st': st['st'],
            'sess': st['sess'], 'dpc': st['dpc'], 'cpc': st['cpc'], 'pend': st['pend'], 'rbuf': st['rbuf'], 'now': st['now']}


def proj_flush(st):
    p = {'pos': {'idle': 'idle', 'put': 'put', 'wait': 'wait'}[st['fpc']], 'res': st['fres'], 'qn': st['qn'], 'st': st['fst'],
         'cls': st['fcls'], 'now': st['now']}
    if st['fpc'] == 'put':
        p['try'] = st['ftry']
    return p


def proj_accept(st):
    return {'pos': st['apc'], 'res': st['ares'], 'backlog': st['backlog'], 'sess': st['asess']}


def proj_send(st):
    qlen = st['ahead'] + st['behind'] + (1 if st['mine'] == 'queued' else 0)
    return {'wpos': 'idle' if st['spc'] == 'idle' else 'blocked', 'res': st['sres'],
            'kpos': {'idle': 'idle', 'send': 'blocked', 'done': 'done', 'shut': 'shut'}[st['kpc']], 'full': qlen >= SCAP[0],
            'sess': st['ssess'], 'wblk': st['wblk'], 'now': st['now']}


SCAP = [2]
SENDINT = ('SEnq', 'SShut', 'STimeout', 'SAck', 'STimerFire', 'LoopTake', 'LoopWritten', 'LoopWriteFails', 'LoopExit', 'KSend', 'KShut')
def proj_init(st):
    return {'pos': {'idle': 'idle', 'wait': 'blocked', 'shut': 'blocked', 'done': 'done'}[st['ipc']], 'res': st['ires'],
            'k': st['ik'], 'peer': st['ipeer'], 'now': st['now']}


INITINT = ('GoDone', 'GoFail', 'IResult', 'ITimeout', 'IJoin')
PROJ = {'read': proj_read, 'flush': proj_flush, 'accept': proj_accept, 'send': proj_send, 'init': proj_init}
INTERNAL = {'read': lambda a: a.startswith('R_') or a == 'TimerFire',
            'flush': lambda a: a.startswith('FWait') or a == 'FAttempt',
            'accept': lambda a: a.startswith('ASel'), 'send': lambda a: a in SENDINT, 'init': lambda a: a in INITINT}
WAITER = {'read': lambda a: a.startswith('R_'),
          'flush': lambda a: a.startswith('FWait') or a == 'FAttempt',
          'accept': lambda a: a.startswith('ASel'), 'send': lambda a: a in SENDINT, 'init': lambda a: a in INITINT}


def obs_match(p, obs):
    for k, v in p.items():
        if k in obs and obs[k] != v:
            return False
    return True


def validate(g, run):
    """code -> spec: returns (ok, where, covered edge indexes)."""
    mode = run['mode']
    evs = run['events']
    if not evs:
        return False, 'no events', set()
    S = {n for n in g.inits if obs_match(g.proj(n), evs[0]['obs'])}
    if not S:
        return False, 'initial state not a spec initial state: %s' % evs[0]['obs'], set()
    covered = set()
    internal, waiter = INTERNAL[mode], WAITER[mode]
    for i, ev in enumerate(evs[1:], 1):
        a, k = ev['a'], ev.get('k', 0)
        first = {}
        for s in S:
            for (l, d, idx) in g.out.get(s, []):
                la, lk = label(l)
                if a in ('R_run', 'W_run'):
                    ok = waiter(la)
                elif waiter(a):
                    ok = waiter(la)
                else:
                    ok = (la == a and lk == k)
                if ok:
                    first.setdefault(d, set()).add(idx)
        # fold library-internal steps
        seen = dict(first)
        todo = list(first)
        while todo:
            n = todo.pop()
            for (l, d, idx) in g.out.get(n, []):
                if internal(label(l)[0]) and d not in seen:
                    seen[d] = set()
                    todo.append(d)
        S2 = {n for n in seen if obs_match(g.proj(n), ev['obs'])}
        if not S2:
            exp = [g.proj(n) for n in list(first)[:2]]
            return False, 'event %d %s(%s): observed %s; the specification allows e.g. %s' % (
                i, a, k, json.dumps(ev['obs'], sort_keys=True), json.dumps(exp, sort_keys=True)), covered
        if len(first) == 1 and len(S2) == 1:
            for d, idxs in first.items():
                if d in S2 and len(idxs) == 1:
                    covered |= idxs
        S = S2
    return True, '', covered


def greedy(scheds, paths, b, rng):
    """choose b of the cover paths: greedily those that add most spec transitions not yet on a chosen path (seeded ties)"""
    order = list(range(len(scheds)))
    rng.shuffle(order)
    sets = {i: set(paths[i]) for i in order}
    chosen, covered = [], set()
    cand = order[:4000]
    for _ in range(b):
        best, gain = None, -1
        for i in cand:
            gn = len(sets[i] - covered)
            if gn > gain:
                best, gain = i, gn
        if best is None or gain <= 0:
            break
        chosen.append(best)
        covered |= sets[best]
        cand.remove(best)
    rest = [i for i in order if i not in set(chosen)]
    chosen += rest[:b - len(chosen)]
    return [scheds[i] for i in chosen]


KNOWN_ACTIONS = set('''RStart R_g1 R_g2 R_g3 CloseCb R_a1 R_a2 R_b R_bm1 R_bm2 R_b2 R_enter R_selTok R_selCls R_selTmr R_m1 R_m2 R_c1 R_c2 R_c3 ArrBegin ArrAdd
ArrNotify HalfClose CloseCAS CloseFin SessNotify SessLambda TimerFire RTick FStart FAttempt FWaitTimer FWaitDeadline FWaitClosed
Consume FHalfClose FSessClose FTick AStart ASelStream ASelShut NewStream ASessClose SStart SEnq SShut STimeout SAck STimerFire
LoopTake LoopWritten LoopWriteFails LoopExit KStart KSend KShut SUnblock SSessClose SSessLambda STick IStart PeerReply PeerClose
GoDone GoFail IResult ITimeout IJoin ITick'''.split())
PRE = ['RStart', 'R_a1', 'R_a2', 'R_b']      # the reader has seen an empty buffer and an open stream: parked in front of the select
CBPRE = ['ArrBegin(1)', 'ArrAdd', 'ArrNotify', 'R_g1', 'R_g2', 'R_g3', 'R_a1', 'R_a2', 'R_enter', 'R_selTok', 'R_m1', 'R_m2',
         'R_enter']     # first message -> callback goroutine -> OnData -> ReadBytes(2) blocked in readMore's select
MUST = [
    # (name, mode, configuration, behaviour, repetitions quick/thorough)
    # the read timer fires while the reader is outside the select and the read returns by another arm - the next read must
    # not see a stale timer value
    ('timer-reuse', 'read', 2, PRE + ['R_enter', 'ArrBegin(2)', 'ArrAdd', 'ArrNotify', 'R_selTok', 'RTick', 'TimerFire',
                                      'R_m1', 'R_m2', 'RStart', 'R_a1', 'R_a2', 'R_b', 'R_enter'], (1, 1)),
    ('timer-reuse-close-arm', 'read', 2, PRE + ['R_enter', 'HalfClose', 'R_selCls', 'RTick', 'TimerFire', 'R_c1', 'R_c2', 'R_c3',
                                                'RStart', 'R_a1', 'R_a2', 'R_b', 'R_bm1', 'R_bm2', 'R_b2'], (1, 1)),
    # the reader is held between the state test and the select while the peer's last message AND its close are delivered:
    # token and close channel are both ready, Go takes either arm - repeated so that the close arm is taken with p > 99 %.
    # Either arm must hand the bytes to the reader (C07: the end of the stream never overtakes delivered data)
    ('select-data-and-close', 'read', 1, PRE + ['ArrBegin(2)', 'ArrAdd', 'ArrNotify', 'HalfClose', 'R_enter', 'R_selCls', 'R_c1',
                                                'R_c2'], (10, 32)),
    ('select-two-messages-and-close', 'read', 1, PRE + ['ArrBegin(1)', 'ArrAdd', 'ArrNotify', 'ArrBegin(1)', 'ArrAdd', 'ArrNotify',
                                                        'HalfClose', 'R_enter', 'R_selCls', 'R_c1', 'R_c2'], (8, 24)),
    # ... fewer bytes than wanted were flushed before the close: end of stream is the right answer (the oracle must not fire)
    ('select-short-data-and-close', 'read', 1, PRE + ['ArrBegin(1)', 'ArrAdd', 'ArrNotify', 'HalfClose', 'R_enter', 'R_selCls',
                                                      'R_c1', 'R_c2', 'R_c3'], (8, 16)),
    # ... a second message is added after the first moveTo of the close arm (the session dies while it is being delivered)
    ('select-close-then-second-message', 'read', 5, PRE + ['ArrBegin(1)', 'ArrAdd', 'ArrNotify', 'ArrBegin(1)', 'SessNotify',
                                                           'R_enter', 'R_selCls', 'R_c1', 'ArrAdd', 'ArrNotify', 'R_c2'], (8, 16)),
    # callback mode: OnData's ReadBytes(2) is blocked in the select after a 1-byte message; then the releasing event
    ('cb-blocked-peer-close', 'read', 7, CBPRE + ['HalfClose', 'R_selCls', 'R_c1', 'R_c2', 'R_c3'], (4, 10)),
    ('cb-blocked-more-data', 'read', 7, CBPRE + ['ArrBegin(1)', 'ArrAdd', 'ArrNotify', 'R_selTok', 'R_m1', 'R_m2'], (2, 6)),
    ('cb-blocked-session-close', 'read', 7, CBPRE + ['SessNotify', 'R_selCls', 'R_c1', 'R_c2', 'R_c3'], (2, 6)),
    ('cb-blocked-deadline', 'read', 8, CBPRE + ['RTick', 'TimerFire', 'R_selTmr'], (1, 3)),
    # ... a local Close from another goroutine is only deferred in callback mode, but must release the read (regression of CB_SLUG)
    ('cb-blocked-local-close', 'read', 7, CBPRE + ['CloseCb', 'R_selCls', 'R_c1', 'R_c2', 'R_c3'], (3, 6)),
    # the queue stays full and nothing else happens: Flush gives up after attempt 0 + 10 retries
    ('flush-queue-stays-full', 'flush', 1, ['FStart'] + ['FAttempt', 'FWaitTimer'] * 10 + ['FAttempt'], (1, 1)),
    # the send loop is stuck in a blocked write: waitForSend times out waiting for the result / for room in sendCh
    ('send-timeout-waiting-result', 'send', 0, ['SStart', 'SEnq', 'STick', 'STimerFire', 'STimeout'], (1, 1)),
    ('send-timeout-waiting-room', 'send', 0, ['KStart', 'KSend', 'SStart', 'STick', 'STimerFire', 'STimeout'], (1, 1)),
    ('send-shutdown-waiting-room', 'send', 0, ['KStart', 'KSend', 'SStart', 'SSessClose', 'SShut'], (1, 1)),
]


def must_schedules(g, consts, tier, modes=None):
    """the must-replay behaviours as schedules, each first verified to be a path of the TLC graph g"""
    out, missing = [], []
    for nm, mode, cid, lbls, rep in MUST:
        if modes and mode not in modes:
            continue
        end = spec_path(g, mode, lbls, cid)
        if end is None:
            missing.append(nm)
            continue
        st = g.state(end)
        for i in range(rep[0] if tier == 'quick' else rep[1]):
            out.append({'name': 'must-%s-%d' % (nm, i), 'mode': mode, 'cid': cid,
                        'steps': [{'a': label(l)[0], 'k': label(l)[1]} for l in lbls], 'init_tok': 0, 'need': consts['need'],
                        'deadlines': list(st['rc']['dl']), 'qcap': st['fc']['qcap'], 'preload': st['fc']['preload'],
                        'wdeadline': st['fc']['wdl'], 'scap': consts['scap'], 'spre': consts['spre'], 'cwt': consts['cwt'],
                        'peer_died': False, 'eager': False, 'cb': bool(st['rc'].get('cb'))})
    return out, missing


def spec_path(g, mode, labels, cid=None):
    """follow the action labels from the initial state of `mode`; None if it is not a path of the graph"""
    cur = [n for n in g.inits if g.state(n)['mode'] == mode and (cid is None or (g.proj(n)['cid'] == cid and
                                                                                  g.state(n).get('tok', 0) == 0))]
    if mode != 'read':
        cur = [n for n in g.inits if g.state(n)['mode'] == mode and (not cid or g.proj(n)['cid'] == cid)]
    if not cur:
        return None
    n = cur[0]
    for a in labels:
        nxt = [d for (l, d, _i) in g.out.get(n, []) if label(l) == label(a)]
        if not nxt:
            return None
        n = nxt[0]
    return n


def schedules_from(g, rng, budget):
    """edge-cover paths per initial state (= per mode and configuration); budget = {mode: max paths per init}"""
    scheds, totals = [], {}
    for init in g.inits:
        st = g.state(init)
        mode = st['mode']
        if mode not in PROJ:
            continue
        cid = g.proj(init)['cid']
        paths, _rem = tlc.cover_paths([init], g.edges)
        mine = []
        for pi, path in enumerate(paths):
            steps = []
            for e in path:
                a, k = label(g.edges[e][2])
                steps.append({'a': a, 'k': k})
            sc = {'name': '%s-%s%d-%s-%d' % (g.cfg['name'], mode, cid, init[-4:], pi), 'mode': mode, 'cid': cid, 'steps': steps,
                  'init_tok': st.get('tok', 0), 'need': g.cfg['consts']['need'], 'deadlines': list(st['rc']['dl']),
                  'qcap': st['fc']['qcap'], 'preload': st['fc']['preload'], 'wdeadline': st['fc']['wdl'],
                  'scap': g.cfg['consts']['scap'], 'spre': g.cfg['consts']['spre'], 'cwt': g.cfg['consts']['cwt'],
                  'peer_died': False, 'cb': bool(st['rc'].get('cb'))}
            mine.append(sc)
        key = '%s%d' % (mode, cid)
        totals[key] = totals.get(key, 0) + len(mine)
        b = budget.get(mode)
        if b and len(mine) > b:
            mine = greedy(mine, paths, b, rng)
        # every other session close of the read schedules is "the peer disappeared" (exitErr) instead of Close()
        # ... and every second schedule is replayed with an eager reader (woken by an event it runs on at once)
        for k_, sc in enumerate(mine):
            sc['peer_died'] = (k_ % 2 == 1)
            sc['eager'] = (k_ % 4 >= 2)
        scheds += mine
    return scheds, totals


def run_tlc(cfg):
    """exhaustive check (invariants + temporal properties, liveness checked once on the complete graph) + state graph"""
    wd = tlc.scratch('vblk')
    try:
        res = tlc.run(cfg['module'], cfg['cfg'], workers=4, timeout=1500, extra_files=cfg['files'], workdir=wd,
                      tlc_args=['-lncheck', 'final', '-dump', 'dot,actionlabels', 'graph.dot'])
        nodes, edges, inits = {}, [], []
        path = os.path.join(wd, 'graph.dot')
        if os.path.exists(path):
            with open(path) as fh:
                for line in fh:
                    m = tlc._edge.match(line)
                    if m:
                        edges.append((m.group(1), m.group(2), m.group(3)))
                        continue
                    m = tlc._node.match(line)
                    if m:
                        nodes[m.group(1)] = tlc._unesc(m.group(2))
                        if 'style = filled' in line:
                            inits.append(m.group(1))
        return cfg, res, nodes, edges, inits
    finally:
        shutil.rmtree(wd, ignore_errors=True)


def run(prop, tier, seed, replay=None):
    ck = core.Check(prop, 'model_checking', tier, seed)
    rng = random.Random(ck.seed)
    ck.assumptions += [
        'Go runtime: select and channel operations have no lost wake-ups of their own; timers never fire early',
        'time: TLA+ decides that a blocked call is released and with which result; the real-time bound is measured on the '
        'staged runs with a generous limit (shared, loaded machine), a slow run is inconclusive, not a violation',
        'bounded exhaustiveness: TLC is exhaustive for the stated constants only',
    ]
    known = core.known_findings()
    if replay:
        return do_replay(ck, replay)

    cfgs = configs(ck.tier)
    ck.log('TLC: %d run(s)' % len(cfgs))
    warm = None
    ex = ThreadPoolExecutor(max_workers=4)
    # compile the instrumented package while TLC runs (the second go test then hits the build cache)
    warm = ex.submit(lambda: gorun.run_harness('^TestVS_Blocking$', HARNESS, INSTR, inputs={'job': {'schedules': []}}, timeout=900))
    SCAP[0] = cfgs[0]['consts']['scap']
    graphs = []
    for (cfg, res, nodes, edges, inits) in ex.map(run_tlc, cfgs):
        if res.violation:
            ck.inconc('TLC reports %s on Blocking.tla itself (%s) - a design-level lead, not a verdict on the code'
                      % (res.violation, cfg['name']))
            continue
        if not res.ok or not edges:
            ck.inconc('TLC did not complete for %s: %s' % (cfg['name'], (res.error or res.out[-400:])))
            continue
        ck.add('states', res.distinct)
        ck.add('transitions', len(edges))
        ck.cov.setdefault('tlc_configs', []).append(
            'run %s: modes %s; read configurations %s; flush configurations %s; constants %s: %d distinct states, %d '
            'transitions, depth %d, %.0fs; invariants %s; temporal properties %s' % (
                cfg['name'], cfg['modes'], json.dumps(list(cfg['rcfgs'].values())), json.dumps(list(cfg['fcfgs'].values())),
                json.dumps(cfg['consts']), res.distinct, len(edges), res.depth, res.wall, cfg['invs'], cfg['props']))
        graphs.append(Graph(cfg, res, nodes, edges, inits))
    if ck.inconclusive:
        return ck.finish()
    ck.cov['exhaustive'] = True

    budget = {'read': 60, 'flush': 25, 'accept': 40, 'send': 40, 'init': 30} if ck.tier == 'quick' else \
        {'read': 350, 'flush': 120, 'accept': 100, 'send': 300, 'init': 63}
    allsched, bygraph = [], {}
    for g in graphs:
        unknown = {label(l)[0] for (_s, _d, l) in g.edges} - KNOWN_ACTIONS
        if unknown:
            ck.inconc('the state graph has transitions the harness has no step for: %s' % sorted(unknown))
            return ck.finish()
        sc, totals = schedules_from(g, rng, budget)
        ck.log('%s: cover paths %s, %d replayed' % (g.cfg['name'], totals, len(sc)))
        ck.cov.setdefault('cover_paths', {})[g.cfg['name']] = {'total_per_configuration': totals, 'replayed': len(sc)}
        for s in sc:
            bygraph[s['name']] = (g, s)
        allsched += sc
    # must-replay behaviours (each verified to be a path of the TLC graph): the read timer fires while the reader is
    # outside the select and the read returns by the data arm - the next read must not see a stale timer value
    gq = graphs[0]
    ms, missing = must_schedules(gq, cfgs[0]['consts'], ck.tier)
    for nm in missing:
        ck.notes.append('must-replay behaviour %s is not a behaviour of the specification any more' % nm)
    for sc in ms:
        allsched.append(sc)
        bygraph[sc['name']] = (gq, sc)
    ck.cov['must_replay_behaviours'] = ['%s x%d' % (m[0], m[4][0] if ck.tier == 'quick' else m[4][1]) for m in MUST]
    # regression witness of the fixed finding wakeup-bare-send (commit 4dc1e7e): the behaviour of the specification that
    # used to end with the Flush stuck in the bare send; it must be a path of the TLC graph, and on the real code the
    # Flush must now come back with the shutdown error
    wit = ['SStart', 'SEnq', 'KStart', 'SSessClose', 'KShut', 'SShut', 'SSessLambda', 'LoopWriteFails', 'LoopExit']
    gq = graphs[0]
    end = spec_path(gq, 'send', wit)
    if end is not None and gq.state(end)['kpc'] == 'shut' and gq.state(end)['lp'] == 'exited':
        c = cfgs[0]['consts']
        for i in range(8 if ck.tier == 'quick' else 24):
            sc = {'name': 'wake-witness-%d' % i, 'mode': 'send', 'cid': 0, 'steps': [{'a': a, 'k': 0} for a in wit],
                  'scap': c['scap'], 'spre': c['spre'], 'cwt': c['cwt'], 'need': 2, 'deadlines': [0]}
            allsched.append(sc)
            bygraph[sc['name']] = (gq, sc)
        ck.cov['wake_regression_witness'] = ' '.join(wit)
    else:
        ck.notes.append('the regression witness for the slow-path send is not a behaviour of the specification any more')
    try:
        warm.result()
    except Exception:
        pass
    job = {'schedules': allsched, 'bound_ms': 10000, 'tick_ms': 150}
    g = gorun.run_harness('^TestVS_Blocking$', HARNESS, INSTR, inputs={'job': job}, timeout=2400)
    if g.result is None:
        ck.inconc('harness produced no result (rc=%d): %s' % (g.rc, g.out[-2500:]))
        return ck.finish()
    handle(ck, g.result, bygraph, known)
    return ck.finish()


def handle(ck, r, bygraph, known):
    for v in r['violations']:
        ck.violation('%s (%s, step %d): %s' % (v['kind'], v['schedule']['name'], v['at'], v['detail']),
                     {'kind': 'schedule', 'schedule': v['schedule'], 'detail': v['detail']})
    for inc in r['inconclusive'][:3]:
        ck.inconc(inc)
    nconf, drift = 0, []
    covered = {}
    for run_ in r['runs']:
        if run_['name'] not in bygraph:
            continue
        g, sc = bygraph[run_['name']]
        run_['mode'] = sc['mode']
        for e in run_['events']:
            e['obs']['cid'] = sc['cid']
        if run_.get('timing'):
            ck.cov['timing_invalid_runs'] = ck.cov.get('timing_invalid_runs', 0) + 1
            continue
        ok, where, cov = validate(g, run_)
        covered.setdefault(g.cfg['name'], set()).update(cov)
        if ok:
            nconf += 1
        else:
            drift.append('%s: %s' % (run_['name'], where))
    ck.add('traces_validated_against_impl', nconf)
    ck.cov['replayed_schedules'] = len(r['runs'])
    ck.cov['conforming_runs'] = nconf
    ck.cov['replay_steps'] = r['steps']
    ck.cov['blocked_waiter_observations'] = r['blocked_obs']
    ck.cov['releases_observed'] = r['releases']
    ck.cov['max_release_latency_us'] = r['max_release_us']
    ck.cov['returns_by_result'] = r['returns']
    ck.cov['select_with_data_and_close_ready'] = arm_stats(r['runs'])
    ck.cov['spec_actions_executed_on_real_code'] = r.get('actions', {})
    ck.cov['timing_retries'] = r['timing_retries']
    ck.cov['spec_drift'] = bool(drift)
    for d in drift[:5]:
        print('SPEC-DRIFT module=Blocking at=%s' % d)
    if drift:
        ck.notes.append('%d recorded runs are not behaviours of the specification (first: %s)' % (len(drift), drift[0]))
    ck.cov['wake_slow_path_stuck_runs'] = r.get('wake_stuck', 0)
    ck.cov['callback_local_close_reader_left_blocked_runs'] = r.get('cb_close_blocked', 0)
    if r.get('eos_with_data'):
        ck.notes.append('observation outside C11 (lead for C07): ReadBytes returned end-of-stream although enough bytes had been '
                        'delivered, %d runs; e.g. %s' % (r['eos_with_data'], r['eos_witness']))
    for run_ in r['runs'][:3]:
        ck.sample({'schedule': run_['name'], 'events': [[e['a'], e.get('k', 0), e['obs'].get('pos'), e['obs'].get('res')]
                                                        for e in run_['events']][:30]})


def do_replay(ck, path):
    rep = json.load(open(path))
    job = {'schedules': [rep['schedule']], 'bound_ms': 10000, 'tick_ms': 150}
    g = gorun.run_harness('^TestVS_Blocking$', HARNESS, INSTR, inputs={'job': job}, timeout=600)
    if g.result is None:
        ck.inconc('harness produced no result: ' + g.out[-1500:])
        return ck.finish()
    ck.cov['evaluations'] = 1
    for v in g.result['violations']:
        ck.violation('%s: %s' % (v['kind'], v['detail']), rep, name=os.path.basename(path))
    return ck.finish()


# ------------------------------------------------------------------ entry points for C07 (checks/session.py)

def arm_stats(runs):
    """in the runs that release the reader with token AND close channel ready: which arm did Go's select take?
    (token still in the channel after the reader left the select = the close arm was taken)"""
    st = {'close_arm': 0, 'data_arm': 0}
    for run_ in runs:
        if not run_['name'].startswith(('must-select-data-and-close', 'must-select-two-messages-and-close',
                                        'must-select-short-data-and-close')):
            continue
        for e in run_['events']:
            if e['a'] == 'R_enter':
                st['close_arm' if e['obs'].get('tok') == 1 else 'data_arm'] += 1
    return st


def _c07_oracle(ck, r, bygraph, cap=5):
    """every run in which the reader was told the stream ended over delivered, unread bytes is a C07 violation"""
    n = 0
    for run_ in r['runs']:
        if run_.get('eos_with_data'):
            n += 1
            if n <= cap:
                sc = bygraph[run_['name']][1] if run_['name'] in bygraph else None
                ck.violation('eos-overtakes-data (%s): %s' % (run_['name'], run_['eos_with_data']),
                             {'kind': 'blocking-read', 'schedule': sc, 'detail': run_['eos_with_data']})
    return n


def c07_read_overtake(ck, tier=None):
    """C07 through the Blocking machinery: TLC on the read configurations only, the must-replay select schedules and a sampled set
    of read cover paths staged on real streams; ck.violation for every run where ReadBytes(Need) returned ErrEndOfStream although
    >= Need bytes the peer flushed before closing had been delivered (pendingData + read buffer) and were unread.
    Does not call ck.finish(). Returns the number of such runs (or None when inconclusive)."""
    tier = tier or ck.tier
    rng = random.Random(ck.seed)
    cfg = mkrun('c07', ['read'], [
        rcfg(1, [0], [1, 2], 2, ['arr', 'half', 'close'], 0, [0, 1]),
        rcfg(5, [0], [1], 2, ['arr', 'close', 'sess'], 0, [0]),
    ] + ([rcfg(2, [1, 2], [2], 1, ['arr', 'half'], 2, [0])] if tier == 'thorough' else []), [])
    cfg_, res, nodes, edges, inits = run_tlc(cfg)
    if res.violation or not res.ok or not edges:
        ck.inconc('Blocking.tla (read configurations): TLC %s' % (('reports ' + res.violation) if res.violation
                                                                   else 'did not complete: ' + (res.error or res.out[-300:])))
        return None
    g = Graph(cfg, res, nodes, edges, inits)
    ck.add('states', res.distinct)
    ck.add('transitions', len(edges))
    ck.cov.setdefault('tlc_configs', []).append(
        'Blocking (read configurations %s): %d distinct states, %d transitions, depth %d, %.0fs; invariants %s; temporal %s' % (
            json.dumps(list(cfg['rcfgs'].values())), res.distinct, len(edges), res.depth, res.wall, cfg['invs'], cfg['props']))
    unknown = {label(l)[0] for (_s, _d, l) in g.edges} - KNOWN_ACTIONS
    if unknown:
        ck.inconc('Blocking: the state graph has transitions the harness has no step for: %s' % sorted(unknown))
        return None
    scheds, totals = schedules_from(g, rng, {'read': 40 if tier == 'quick' else 300})
    ms, missing = must_schedules(g, cfg['consts'], tier, modes=['read'])
    for nm in missing:
        if not nm.startswith('timer-reuse') or tier == 'thorough':
            ck.notes.append('Blocking: must-replay behaviour %s is not a behaviour of the specification any more' % nm)
    scheds += ms
    bygraph = {s['name']: (g, s) for s in scheds}
    hr = gorun.run_harness('^TestVS_Blocking$', HARNESS, INSTR, inputs={'job': {'schedules': scheds, 'bound_ms': 10000,
                                                                               'tick_ms': 150}}, timeout=2400)
    if hr.result is None:
        ck.inconc('Blocking harness produced no result (rc=%d): %s' % (hr.rc, hr.out[-1500:]))
        return None
    r = hr.result
    n = _c07_oracle(ck, r, bygraph)
    nconf, drift = 0, []
    for run_ in r['runs']:
        if run_['name'] not in bygraph or run_.get('timing'):
            continue
        run_['mode'] = 'read'
        for e in run_['events']:
            e['obs']['cid'] = bygraph[run_['name']][1]['cid']
        ok, where, _cov = validate(g, run_)
        if ok:
            nconf += 1
        else:
            drift.append('%s: %s' % (run_['name'], where))
    ck.add('traces_validated_against_impl', nconf)
    ck.cov['blocking_read_schedules'] = {'replayed': len(r['runs']), 'conforming': nconf, 'cover_paths': totals,
                                         'must_replay': sorted({s['name'].rsplit('-', 1)[0] for s in ms}), 'steps': r['steps'],
                                         'eos_results': r['returns'].get('eos', 0), 'eos_over_unread_data': n,
                                         'select_with_data_and_close_ready': arm_stats(r['runs'])}
    for d in drift[:3]:
        print('SPEC-DRIFT module=Blocking at=%s' % d)
    if drift:
        ck.cov['spec_drift'] = True
        ck.notes.append('Blocking: %d recorded read runs are not behaviours of the specification (first: %s)' % (len(drift), drift[0][:400]))
    for inc in r['inconclusive'][:2]:
        ck.inconc('Blocking: ' + inc)
    ck.sample({'blocking_read_schedule': ms[0]['name'] if ms else scheds[0]['name'],
               'steps': [x['a'] for x in (ms[0] if ms else scheds[0])['steps']]})
    return n


def c07_replay(ck, rep, repeat=16):
    """re-execute one reported schedule (the select arm is chosen at random by Go: repeated `repeat` times)"""
    sc = rep['schedule']
    scheds = [dict(sc, name='%s-r%d' % (sc['name'], i)) for i in range(repeat)]
    hr = gorun.run_harness('^TestVS_Blocking$', HARNESS, INSTR, inputs={'job': {'schedules': scheds, 'bound_ms': 10000,
                                                                               'tick_ms': 150}}, timeout=900)
    if hr.result is None:
        ck.inconc('Blocking harness produced no result: ' + hr.out[-1500:])
        return None
    ck.cov['evaluations'] = len(hr.result['runs'])
    return _c07_oracle(ck, hr.result, {s['name']: (None, s) for s in scheds}, cap=1)
