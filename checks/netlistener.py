"""C19 - module NetListener, binding B2 (history replay through the real API, settle-synchronous).

1. TLC checks specs/NetListener.tla exhaustively for small constants, (a) with API calls only at quiescent states
   (Sync = TRUE; the state graph is dumped) and (b) with API calls interleaved with every internal step (Sync = FALSE).
2. The dumped graph is folded into a macro graph (quiescent state --API call + settle--> quiescent state); every edge
   carries the predicted result of the call, the predicted completions of parked calls and the predicted projection of
   the settled state.
3. The Go harness walks the REAL net_listener.go/stream.go/buffer.go through that graph (fresh Listen + real client
   sessions per path, edge cover, Go's random select handled by matching the real outcome against all alternatives of
   the spec) and evaluates the C19 oracles on real return values with its own byte/stream ledger.
"""
import json, os, random, re, shutil, time
from vlib import tlc, tlaval, gorun, core

PROPS = ['C19']

HARNESS = ['zz_vs_sched.go', 'zz_netlistener_test.go']
# scheduling point before every statement and every atomic of streamWrapper.Close (concurrent Close/Close of one conn)
INSTR_CONC = {"files": {"net_listener.go": {"funcs": ["streamWrapper.Close"], "everyStmt": ["streamWrapper.Close"]}}}
SLUG = 'backlog-orphan-pins-session'
SLUG_DW = 'write-after-session-teardown-segv'
SLUG_GH = 'late-data-resurrects-closed-stream'

INVARIANTS = ('TypeOK CounterNonNeg CounterExact AtMostOnce Surfaces AcceptNotStuck BacklogSane ReadNotStuck '
              'NoPrematureEnd HeldStaysUsable WaiterOnlyAfterClose SessionEndsModuloOrphan')

CFG_TMPL = """SPECIFICATION Spec
CONSTANTS
  NS = %(ns)d
  NK = %(nk)d
  WSizes = {%(ws)s}
  RSizes = {%(rs)s}
  MaxW = %(maxw)d
  BCap = %(bcap)d
  Sync = %(sync)s
  Feat = {%(feat)s}
INVARIANTS %(inv)s
%(extra)s
CHECK_DEADLOCK FALSE
"""


def cfg(ns, nk, ws, rs, maxw, bcap, sync, feat, inv=INVARIANTS, extra=''):
    return CFG_TMPL % dict(ns=ns, nk=nk, ws=', '.join(map(str, ws)), rs=', '.join(map(str, rs)), maxw=maxw, bcap=bcap,
                           sync='TRUE' if sync else 'FALSE', feat=', '.join('"%s"' % f for f in feat), inv=inv,
                           extra=extra)


API = ('Connect', 'COpen', 'Write', 'Read', 'ReadStart', 'CClose', 'SClose', 'AcceptConn', 'AcceptErr', 'AcceptPark',
       'LClose', 'CSessClose', 'WcBegin', 'WcGuard', 'WcStream', 'WcStore', 'WcDone')
COMPLETIONS = ('AcceptWakeConn', 'AcceptWakeErr', 'ReadWake')

ENUM = {'none': 0, 'up': 1, 'open': 1, 'closed': 2, 'half': 3, 'failed': 4}
WRAP = {'none': 0, 'hold': 1, 'backlog': 2, 'held': 3, 'dropped': 4, 'drained': 5}


def parse_label(label):
    m = re.match(r'(\w+)(?:\((.*)\))?$', label.strip())
    name = m.group(1)
    args = []
    if m.group(2):
        for a in m.group(2).split(','):
            a = a.strip().strip('\\').strip('"').strip('\\')
            args.append(int(a) if re.fullmatch(r'-?\d+', a) else a)
    return name, args


def api_edge(name, args):
    """-> (op, a[ints], res, rn[ints]); op+a identify the call, res+rn are the predicted return values."""
    side = lambda x: 0 if x == 'C' else 1
    if name == 'Connect':
        return 'connect', [args[0]], args[1], []
    if name == 'COpen':
        return 'open', [args[0], args[1]], args[2], []
    if name == 'Write':
        return 'write', [side(args[0]), args[1], args[2], args[3]], args[4], []
    if name == 'Read':
        return 'read', [side(args[0]), args[1], args[2], args[3]], args[4], [args[5]]
    if name == 'ReadStart':
        return 'readstart', [side(args[0]), args[1], args[2], args[3]], 'parked', []
    if name == 'CClose':
        return 'cclose', [args[0], args[1]], 'ok', []
    if name == 'SClose':
        return 'sclose', [args[0], args[1]], 'ok', []
    if name == 'AcceptConn':
        return 'accept', [], 'conn', [args[0], args[1]]
    if name == 'AcceptErr':
        return 'accept', [], 'err', []
    if name == 'AcceptPark':
        return 'accept', [], 'park', []
    if name == 'LClose':
        return 'lclose', [], args[0], []
    if name == 'CSessClose':
        return 'sessclose', [args[0]], 'ok', []
    if name in ('WcBegin', 'WcGuard', 'WcStream', 'WcStore', 'WcDone'):
        return name.lower(), [args[0], args[1], args[2]], 'ok', []
    raise ValueError(name)


def completion(name, args):
    if name == 'AcceptWakeConn':
        return 'accept:conn:%d:%d' % (args[0], args[1])
    if name == 'AcceptWakeErr':
        return 'accept:err'
    return 'read:%s:%d' % (args[0], args[1])


def project(st, ns, nk):
    """structural projection of a quiescent spec state = what the harness can read off the real objects"""
    v = [1 if st['lclosed'] else 0, len(st['backlog']), 1 if st['acc'] == 'wait' else 0, 1 if st['pr'] else 0]
    S = tlaval.seq_or_fn(st['S'], list(range(1, ns + 1)))
    for c in range(1, ns + 1):
        r = S[c]
        v += [ENUM[r['cl']], ENUM[r['sv']], 1 if r['inmap'] else 0, r['wg'] if r['reg'] == 'done' and r['waiter'] != 'none' else 0,
              len(r['acch'])]
    T = st['T']
    for c in range(1, ns + 1):
        for k in range(1, nk + 1):
            r = T[(c, k)]
            sst = r['sst']
            v += [ENUM[r['cst']], 0 if sst in ('none', 'closed') else ENUM[sst], 1 if r['wrap'] == 'held' else 0,
                  1 if r['wcl'] and r['wrap'] == 'held' else 0, r['sp'], r['sb'], r['cp'], r['cb']]
    return v


def macro_graph(nodes_txt, edges, inits, ns, nk, keep_states=False):
    """fold the Sync state graph: quiescent node --API edge, then internal edges to rest--> quiescent node"""
    out = {}
    for (s, d, lab) in edges:
        out.setdefault(s, []).append((d, lab))
    parsed_lab = {}

    def pl(lab):
        if lab not in parsed_lab:
            parsed_lab[lab] = parse_label(lab)
        return parsed_lab[lab]

    def quiescent(n):
        return all(pl(lab)[0] in API for (_d, lab) in out.get(n, []))

    idx, vecs, medges, states = {}, [], [], []

    def nid(n):
        if n not in idx:
            idx[n] = len(vecs)
            st = tlaval.parse_state(nodes_txt[n])
            states.append(st)
            vecs.append(project(st, ns, nk))
        return idx[n]

    memo = {}

    def rest(n):
        """set of (quiescent node, tuple(sorted completions)) reachable from n by internal edges only"""
        if n in memo:
            return memo[n]
        if quiescent(n):
            memo[n] = {(n, ())}
            return memo[n]
        acc = set()
        for (d, lab) in out.get(n, []):
            name, args = pl(lab)
            comp = (completion(name, args),) if name in COMPLETIONS else ()
            for (q, cs) in rest(d):
                acc.add((q, tuple(sorted(comp + cs))))
        memo[n] = acc
        return acc

    import sys
    sys.setrecursionlimit(100000)
    init = inits[0]
    if not quiescent(init):
        raise RuntimeError('initial state not quiescent')
    seen, todo = {init}, [init]
    while todo:
        a = todo.pop()
        for (d, lab) in out.get(a, []):
            name, args = pl(lab)
            op, av, res, rn = api_edge(name, args)
            for (q, cs) in rest(d):
                medges.append({'src': nid(a), 'dst': nid(q), 'op': op, 'a': av, 'res': res, 'rn': rn, 'comps': list(cs),
                               'label': lab.replace('\\', '')})
                if q not in seen:
                    seen.add(q)
                    todo.append(q)
    # dedup (the same macro step may be reached over several internal interleavings)
    uniq, keyset = [], set()
    for e in medges:
        key = (e['src'], e['dst'], e['op'], tuple(e['a']), e['res'], tuple(e['rn']), tuple(e['comps']))
        if key not in keyset:
            keyset.add(key)
            uniq.append(e)
    g = {'init': nid(init), 'nodes': vecs, 'edges': uniq}
    if keep_states:
        g['states'] = states
    return g


# ---------------------------------------------------------------------------------------------------------------------
QUICK_GRAPHS = [
    dict(name='1x1-all', ns=1, nk=1, ws=[2], rs=[1, 3], maxw=1, bcap=1, feat=['sessclose', 'lclose2', 'pread']),
    dict(name='1x2-up', ns=1, nk=2, ws=[2], rs=[3], maxw=1, bcap=1, feat=['nodown']),
]
THOROUGH_GRAPHS = [
    dict(name='2x1-up', ns=2, nk=1, ws=[2], rs=[3], maxw=1, bcap=2, feat=['nodown']),
    dict(name='1x2', ns=1, nk=2, ws=[2], rs=[3], maxw=1, bcap=1, feat=[]),
    dict(name='2x1-sessclose', ns=2, nk=1, ws=[2], rs=[3], maxw=1, bcap=2, feat=['sessclose']),
    dict(name='1x1-2writes', ns=1, nk=1, ws=[1, 2], rs=[1, 3], maxw=2, bcap=1, feat=['pread']),
]
DESIGN_QUICK = [dict(name='interleaved 1x1', ns=1, nk=1, ws=[2], rs=[1, 3], maxw=1, bcap=1,
                     feat=['sessclose', 'lclose2', 'pread'])]


def gcfg(g, sync=True, inv=INVARIANTS, extra=''):
    return cfg(g['ns'], g['nk'], g['ws'], g['rs'], g['maxw'], g['bcap'], sync, g['feat'], inv=inv, extra=extra)


def pinned_state(st, ns, nk):
    """the known-finding class on a spec state: listener closed, all surfaced conns closed, session still up because of
    a wrapped stream that Accept never returned"""
    S = tlaval.seq_or_fn(st['S'], list(range(1, ns + 1)))
    for c in range(1, ns + 1):
        if S[c]['reg'] != 'done' or S[c]['sv'] != 'up' or not st['lclosed'] or S[c]['cl'] != 'up':
            continue
        T = st['T']
        held_open = any(T[(c, k)]['wrap'] == 'held' and not T[(c, k)]['wcl'] for k in range(1, nk + 1))
        orphan = any(T[(c, k)]['wrap'] in ('hold', 'backlog', 'dropped') and not T[(c, k)]['wcl'] for k in range(1, nk + 1))
        if orphan and not held_open:
            return True
    return False


import threading
TLC_SLOTS = threading.Semaphore(6)   # at most 6 TLC processes of this check at a time, 4 workers each (shared machine)
TLC_WORKERS = 4


def build_graph(g, out, errs):
    try:
        t0 = time.time()
        with TLC_SLOTS:
            res, nodes, edges, inits = tlc.dump_graph('NetListener', 'mc.cfg', timeout=900, workers=TLC_WORKERS,
                                                      extra_files={'mc.cfg': gcfg(g)})
        if res.violation or not res.ok or not edges:
            errs.append((g['name'], res))
            return
        mg = macro_graph_full(nodes, edges, inits, g['ns'], g['nk'])
        mg.update(name=g['name'], ns=g['ns'], nk=g['nk'], bcap=g['bcap'])
        out[g['name']] = (res, len(edges), mg, time.time() - t0)
    except Exception as ex:  # pragma: no cover
        r = tlc.TLCResult()
        r.error = 'exception: %r' % ex
        errs.append((g['name'], r))


def macro_graph_full(nodes_txt, edges, inits, ns, nk):
    """macro graph + shortest path to a state of the known-finding class (if the graph has one)"""
    mg = macro_graph(nodes_txt, edges, inits, ns, nk, keep_states=True)
    states = mg.pop('states')
    out = {}
    for i, e in enumerate(mg['edges']):
        out.setdefault(e['src'], []).append(i)
    par = {mg['init']: None}
    order = [mg['init']]
    for n in order:
        for i in out.get(n, []):
            d = mg['edges'][i]['dst']
            if d not in par:
                par[d] = i
                order.append(d)
    wit = None
    for n in order:
        if pinned_state(states[n], ns, nk):
            path = []
            m = n
            while par[m] is not None:
                e = mg['edges'][par[m]]
                path.append(dict(e, proj=mg['nodes'][e['dst']]))
                m = e['src']
            wit = list(reversed(path))
            break
    mg['witness'] = wit
    # known-finding class 2: a Write on a conn whose session has been torn down (prefer the server side conn)
    dw = None
    for want_side in (1, 0):
        for n in order:
            for i in out.get(n, []):
                e = mg['edges'][i]
                if e['op'] == 'write' and e['a'][0] == want_side and e['res'] == 'err':
                    S = tlaval.seq_or_fn(states[n]['S'], list(range(1, ns + 1)))
                    if S[e['a'][1]]['sv'] == 'closed' and S[e['a'][1]]['cl'] == 'closed':
                        path = [dict(e, proj=mg['nodes'][e['dst']])]
                        m = n
                        while par[m] is not None:
                            pe = mg['edges'][par[m]]
                            path.append(dict(pe, proj=mg['nodes'][pe['dst']]))
                            m = pe['src']
                        dw = list(reversed(path))
                        break
            if dw:
                break
        if dw:
            break
    mg['witness_dead_write'] = dw
    return mg


CONC_CFG = dict(name='conc-close', ns=1, nk=2, ws=[2], rs=[3], maxw=1, bcap=2, feat=['conc', 'nodown'])
CONC_PREFIX = [('connect', [1]), ('open', [1, 1]), ('write', [0, 1, 1, 2]), ('open', [1, 2]), ('write', [0, 1, 2, 2]),
               ('accept', []), ('accept', []), ('read', [1, 1, 2, 3])]
CONC_OPS = ('wcbegin', 'wcguard', 'wcstream', 'wcstore', 'wcdone')


def conc_build(inv):
    """TLC on the configuration with streamWrapper.Close opened up into its steps for two concurrent callers; returns
    (TLC result, #transitions, schedules): schedules = an edge cover of the part of the macro graph that is reachable
    from "target conn (slot 1) and witness conn (slot 2) accepted, witness drained" with closer steps and server Reads
    of the target, each step with the predicted projection"""
    g = CONC_CFG
    with TLC_SLOTS:
        res, nodes, edges, inits = tlc.dump_graph('NetListener', 'mc.cfg', timeout=600, workers=TLC_WORKERS,
                                                  extra_files={'mc.cfg': gcfg(g, inv=inv)})
    if res.violation or not res.ok or not edges:
        return res, 0, None, None
    mg = macro_graph(nodes, edges, inits, g['ns'], g['nk'])
    out = {}
    for i, e in enumerate(mg['edges']):
        out.setdefault(e['src'], []).append(i)
    cur = mg['init']
    for op, a in CONC_PREFIX:
        nxt = [i for i in out.get(cur, []) if mg['edges'][i]['op'] == op and mg['edges'][i]['a'] == a
               and mg['edges'][i]['res'] in ('ok', 'conn')]
        if len(nxt) != 1:
            raise RuntimeError('conc prefix: %s%s has %d successors' % (op, a, len(nxt)))
        cur = mg['edges'][nxt[0]]['dst']
    s0 = cur
    keep = lambda e: e['op'] in CONC_OPS or (e['op'] == 'read' and e['a'][:3] == [1, 1, 1])
    sub, seen, todo = [], {s0}, [s0]
    while todo:
        n = todo.pop()
        for i in out.get(n, []):
            e = mg['edges'][i]
            if keep(e):
                sub.append((str(e['src']), str(e['dst']), i))
                if e['dst'] not in seen:
                    seen.add(e['dst'])
                    todo.append(e['dst'])
    paths, remaining = tlc.cover_paths([str(s0)], [(a, b, str(i)) for (a, b, i) in sub])
    scheds = []
    for pi, path in enumerate(paths):
        steps = [dict(mg['edges'][sub[j][2]], proj=mg['nodes'][mg['edges'][sub[j][2]]['dst']]) for j in path]
        scheds.append({'name': 'conc-%d' % pi, 'ns': g['ns'], 'nk': g['nk'], 'bcap': g['bcap'], 'unit': 1, 'small': True,
                       'steps': steps})
    info = {'start_proj': mg['nodes'][s0], 'edges': len(sub), 'uncovered': remaining, 'states': len(seen)}
    return res, len(edges), scheds, info


def run(prop, tier, seed, replay=None):
    ck = core.Check(prop, 'model_checking', tier, seed)
    ck.assumptions += [
        'settle-synchronous binding: the real code is driven one API call at a time and compared at rest; interleavings of '
        'API calls with delivery are decided on the specification only (Sync = FALSE runs of TLC)',
        'one FIFO per session and direction in the specification (the order between shm queue and socket fallback is C07)',
        'bounded exhaustiveness: TLC is exhaustive for the stated constants only',
        'sizes are scaled: a spec unit is 1..5000 bytes (quick) on 64/256/1024-byte or 8K/32K/128K slices',
    ]
    known = core.known_findings()
    listed = (prop, SLUG) in known
    listed_dw = (prop, SLUG_DW) in known
    listed_gh = (prop, SLUG_GH) in known
    if replay:
        return do_replay(ck, replay, listed)

    import threading
    # Which listener is in the tree? The specification has both: the pinned one (with the backlog-orphan finding) and
    # the repaired one ("drainfix": Close drains the backlog). A four-call probe on the real code decides which variant
    # is replayed; the choice is recorded in the evidence.
    def fstep(op, a, res):
        return {'op': op, 'a': a, 'res': res, 'rn': [], 'comps': [], 'proj': [], 'label': '%s%s' % (op, a)}
    probe = {'name': 'orphan-probe', 'ns': 1, 'nk': 1, 'bcap': 1, 'unit': 3, 'small': True,
             'steps': [fstep('connect', [1], 'ok'), fstep('open', [1, 1], 'ok'), fstep('write', [0, 1, 1, 2], 'ok'),
                       fstep('lclose', [], 'first')]}
    dwprobe = {'name': 'dead-write-probe', 'ns': 1, 'nk': 1, 'bcap': 1, 'unit': 100, 'small': False,
               'steps': [fstep('connect', [1], 'ok'), fstep('open', [1, 1], 'ok'), fstep('write', [0, 1, 1, 2], 'ok'),
                         dict(fstep('accept', [], 'conn'), rn=[1, 1]), fstep('sessclose', [1], 'ok'),
                         fstep('await_session_end', [1], 'ok'), fstep('write', [1, 1, 1, 2], 'err')]}
    # staged interleaving found by TLC (Sync = FALSE, AtMostOnce): the client's second Write is in flight when the
    # server closes the conn; the event loop is held off during the two calls
    ghost = {'name': 'late-data-probe', 'ns': 1, 'nk': 1, 'bcap': 1, 'unit': 100, 'small': False,
             'steps': [fstep('connect', [1], 'ok'), fstep('open', [1, 1], 'ok'), fstep('write', [0, 1, 1, 1], 'ok'),
                       dict(fstep('accept', [], 'conn'), rn=[1, 1]), fstep('race_write_sclose', [1, 1, 1], 'ok'),
                       fstep('accept', [], 'park')]}
    # staged: a stream that arrives AFTER listener.Close on a session kept alive by an accepted, open conn. The accept
    # loop wraps it and Go's select picks at random between closeCh and the backlog; either way nobody can accept it, so
    # once the accepted conn is closed the session must end. 14 independent worlds beat the coin (miss < 1e-4).
    def late_path(i):
        return {'name': 'late-stream-%d' % i, 'ns': 1, 'nk': 2, 'bcap': 4, 'unit': [1, 64, 1000][i % 3], 'small': i % 2 == 0,
                'steps': [fstep('connect', [1], 'ok'), fstep('open', [1, 1], 'ok'), fstep('write', [0, 1, 1, 2], 'ok'),
                          dict(fstep('accept', [], 'conn'), rn=[1, 1]), fstep('lclose', [], 'first'),
                          fstep('open', [1, 2], 'ok'), fstep('write', [0, 1, 2, 2], 'ok'), fstep('sclose', [1, 1], 'ok')]}
    late_paths = [late_path(i) for i in range(14)]
    probes = {}

    def probe_run(key, paths):
        probes[key] = gorun.run_harness('^TestVS_NetListener$', HARNESS, None, timeout=180, inputs={'job': {
            'graphs': [], 'paths': paths, 'seed': ck.seed, 'workers': 1 if len(paths) < 4 else 4, 'budget_ms': 60000,
            'known': True, 'units': [3]}})

    def tlc_round(fixed):
        graphs = [dict(g) for g in QUICK_GRAPHS + (THOROUGH_GRAPHS if ck.tier == 'thorough' else [])]
        dcfgs = [dict(g) for g in DESIGN_QUICK]
        if ck.tier == 'thorough':
            dcfgs += [dict(name='interleaved 1x2', ns=1, nk=2, ws=[2], rs=[3], maxw=1, bcap=1, feat=[]),
                      dict(name='interleaved 2x1', ns=2, nk=1, ws=[2], rs=[3], maxw=1, bcap=2, feat=['sessclose'])]
        if fixed:
            for g in graphs + dcfgs:
                g['feat'] = g['feat'] + ['drainfix']
        built, errs, design = {}, [], {}

        def design_run(g, key, sync, inv, timeout):
            with TLC_SLOTS:
                design[key] = tlc.run('NetListener', 'mc.cfg', timeout=timeout, workers=TLC_WORKERS,
                                      extra_files={'mc.cfg': gcfg(g, sync=sync, inv=inv)})

        ths = [threading.Thread(target=build_graph, args=(g, built, errs)) for g in graphs]
        for g in dcfgs:
            ths.append(threading.Thread(target=design_run, args=(g, g['name'], False, INVARIANTS.replace('AtMostOnce ', 'AtMostOnceModuloLateData '),
                                                                 300 if ck.tier == 'quick' else 1500)))
        # the strict form of "sessions end" on the design: expected to be violated while the known finding is there
        ths.append(threading.Thread(target=design_run, args=(graphs[0], 'strict-session-ends', True, 'SessionEnds', 300)))
        # "a stream surfaces at most once" with interleaved delivery and two writes: expected to be violated while the
        # known finding late-data-resurrects-closed-stream is there
        ths.append(threading.Thread(target=design_run, args=(
            dict(name='amo', ns=1, nk=1, ws=[1], rs=[3], maxw=2, bcap=1, feat=['drainfix'] if fixed else []),
            'strict-at-most-once', False, 'AtMostOnce', 300)))
        # a check-then-act guard in streamWrapper.Close instead of the CAS: the reference is released twice (lead)
        ths.append(threading.Thread(target=design_run, args=(
            dict(CONC_CFG, feat=CONC_CFG['feat'] + ['weakguard']), 'strict-release-once-with-weak-guard', True, 'RelOnce', 300)))
        return graphs, built, errs, design, ths

    # concurrent Close/Close of one conn: TLC on the step-granular configuration, then its schedules + random point-level
    # interleavings on the instrumented real code under the serialising scheduler; runs next to everything else
    conc = {}

    def conc_run():
        try:
            res, ntrans, scheds, info = conc_build(INVARIANTS + ' RelOnce')
            conc.update(res=res, ntrans=ntrans, info=info, scheds=scheds)
            if scheds is None:
                return
            cjob = {'graphs': [], 'paths': [], 'seed': ck.seed, 'workers': 1, 'known': True, 'units': [1],
                    'conc': {'start_proj': info['start_proj'], 'scheds': scheds, 'unit': [1, 64, 700][ck.seed % 3],
                             'small': ck.seed % 2 == 0, 'random': 150 if ck.tier == 'quick' else 3000}}
            conc['go'] = gorun.run_harness('^TestVS_NetListener$', HARNESS, INSTR_CONC, inputs={'job': cjob},
                                           timeout=300 if ck.tier == 'quick' else 900)
        except Exception as ex:  # pragma: no cover
            conc['error'] = repr(ex)
    conc_th = threading.Thread(target=conc_run)
    conc_th.start()
    # the committed tree has the repaired listener: TLC starts with that variant, the orphan probe confirms or corrects
    assumed_fixed = True
    graphs, built, errs, design, ths = tlc_round(assumed_fixed)
    pths = [threading.Thread(target=probe_run, args=('orphan', [probe, ghost])),
            threading.Thread(target=probe_run, args=('dw', [dwprobe])),
            threading.Thread(target=probe_run, args=('late', late_paths))]
    ck.log('TLC: %d graph configs + %d design configs; 4 probes of the real code' % (len(graphs), len(ths) - len(graphs)))
    for t in ths + pths:
        t.start()
    for t in ths + pths:
        t.join()
    gp0 = probes.get('orphan')
    if gp0 is not None and gp0.result is None and crash_analysis(ck, gp0, None, True, cands=[probe, ghost]):
        return ck.finish()
    pv = (gp0.result.get('violations') or []) if gp0 is not None and gp0.result else []
    ghost_v = [v for v in pv if v['path']['name'] == 'late-data-probe' and 'surfaced 2 times' in v['detail']]
    if gp0 is None or gp0.result is None or gp0.result.get('paths', 0) != 2 or len(pv) != len(ghost_v) \
            or gp0.result.get('drift_count'):
        ck.inconc('the orphan probe could not be executed on the real code: %s' %
                  (json.dumps(gp0.result)[:600] if gp0 is not None and gp0.result else (gp0.out[-800:] if gp0 else '')))
        return ck.finish()
    fixed = gp0.result.get('known_hits', 0) == 0
    ck.cov['listener_variant_replayed'] = ('drainfix (listener.Close drains the backlog: probe session ended)' if fixed else
                                           'pinned (probe: session stays open after listener.Close with a backlogged stream)')
    if ghost_v:
        hist = ('Connect ; OpenStream ; client Write ; Accept ; [event loop held: client Write ; server conn.Close] ; Accept '
                '-> returns a second conn for the same stream')
        if listed_gh:
            ck.known(SLUG_GH, '%s [reproduced on real code: %s]' % (known.get((prop, SLUG_GH), ''), hist))
        else:
            ck.violation('%s  (staged history: %s)' % (ghost_v[0]['detail'], hist),
                         {'kind': 'path', 'path': ghost, 'detail': ghost_v[0]['detail'], 'slug': SLUG_GH})
    elif listed_gh:
        ck.notes.append('the listed known finding %s no longer reproduces on this tree' % SLUG_GH)
    # late stream after listener.Close (same class as backlog-orphan: "... or that arrives after Close()")
    gl = probes.get('late')
    if gl is not None and gl.result is None and crash_analysis(ck, gl, None, True, cands=late_paths[:3]):
        return ck.finish()
    if gl is None or gl.result is None or gl.result.get('paths', 0) == 0:
        ck.inconc('the late-stream probe could not be executed on the real code: %s' %
                  ((gl.out[-600:] if gl is not None else '') if gl is None or gl.result is None else json.dumps(gl.result)[:400]))
        return ck.finish()
    ck.cov['late_stream_probe'] = {'worlds': gl.result['paths'], 'session_pinned_in': gl.result.get('known_hits', 0),
                                   'abandoned_handshake_timeout': gl.result.get('env_aborted', 0)}
    for v in gl.result.get('violations') or []:
        # a hand-written path has no predicted state to settle on, it relies on timing: a verdict needs the history to fail
        # again when it is run alone (3 tries)
        again = None
        for attempt in range(3):
            gc = gorun.run_harness('^TestVS_NetListener$', HARNESS, None, timeout=180, inputs={'job': {
                'graphs': [], 'paths': [v['path']], 'seed': ck.seed + attempt, 'workers': 1, 'budget_ms': 60000,
                'known': True, 'units': [3]}})
            if gc.result is None or gc.result.get('violations'):
                again = gc
                break
        if again is not None:
            ck.violation('%s: %s' % (v['kind'], v['detail']), {'kind': 'path', 'path': v['path'], 'detail': v['detail']})
        else:
            ck.notes.append('late-stream probe: "%s" was observed once and did not reproduce in 3 runs of the same history '
                            'alone (overloaded machine) - not a verdict' % v['detail'][:160])
            ck.cov['unreproduced_probe_observations'] = ck.cov.get('unreproduced_probe_observations', 0) + 1
    for d in gl.result.get('drift') or []:
        print('SPEC-DRIFT module=NetListener at=%s' % d[:600])
    lw = gl.result.get('known_witness')
    if lw and not fixed:
        pass    # the pinned listener: this is the backlog-orphan class, handled below with the walk's witness
    elif lw:
        what = ('a stream that reached the adapter after listener.Close() (session kept alive by an accepted conn) was left '
                'wrapped in the backlog: after the accepted conn is closed the session stays open (%d of %d worlds)'
                % (gl.result['known_hits'], gl.result['paths']))
        if listed:
            ck.known(SLUG, '%s [late-stream variant reproduced: %s]' % (known.get((prop, SLUG), ''), what))
        else:
            ck.violation('session-pinned-by-unsurfaced-stream: %s  (history: Connect ; OpenStream ; Write ; Accept ; '
                         'listener.Close ; OpenStream ; Write ; conn.Close)' % what,
                         {'kind': 'path', 'path': lw['path'], 'detail': what, 'slug': SLUG})
    if fixed != assumed_fixed:
        ck.log('the tree has the %s listener: TLC again with the matching variant of the specification' % ('repaired' if fixed else 'pinned'))
        graphs, built, errs, design, ths = tlc_round(fixed)
        for t in ths:
            t.start()
        for t in ths:
            t.join()
    for name, res in errs:
        if res.violation:
            ck.inconc('TLC reports %s on the NetListener specification (%s) - a lead on the design, not a verdict on the code'
                      % (res.violation, name))
        else:
            ck.inconc('TLC did not complete on %s: %s' % (name, (res.error or res.out[-400:])))
    if errs:
        return ck.finish()
    ck.cov['tlc_configs'] = []
    ck.cov['exhaustive'] = True            # TLC: exhaustive for the stated constants; replay completeness: see replay_complete
    jgraphs, witness, witness_dw = [], None, None
    for g in graphs:
        res, nedges, mg, wall = built[g['name']]
        ck.add('states', res.distinct)
        ck.add('transitions', nedges)
        ck.cov['tlc_configs'].append('NetListener Sync %s (NS=%d NK=%d W=%s R=%s MaxW=%d BCap=%d Feat=%s): %d distinct states, '
                                     '%d transitions, depth %d; macro graph %d nodes / %d API edges; %.0fs'
                                     % (g['name'], g['ns'], g['nk'], g['ws'], g['rs'], g['maxw'], g['bcap'], g['feat'],
                                        res.distinct, nedges, res.depth, len(mg['nodes']), len(mg['edges']), wall))
        if mg.get('witness') and (witness is None or len(mg['witness']) < len(witness['steps'])):
            witness = {'name': 'known-witness', 'ns': g['ns'], 'nk': g['nk'], 'bcap': g['bcap'], 'unit': 3, 'small': True,
                       'steps': mg['witness']}
        dwk = lambda steps: (steps[-1]['a'][0] != 1, len(steps))   # prefer a witness on the server side conn, then short
        if mg.get('witness_dead_write') and (witness_dw is None or dwk(mg['witness_dead_write']) < dwk(witness_dw['steps'])):
            witness_dw = {'name': 'dead-write-witness', 'ns': g['ns'], 'nk': g['nk'], 'bcap': g['bcap'], 'unit': 100,
                          'small': False, 'steps': mg['witness_dead_write']}
        jgraphs.append({k: mg[k] for k in ('name', 'ns', 'nk', 'bcap', 'init', 'nodes', 'edges')})
    for key, res in design.items():
        if key.startswith('strict-'):
            ck.cov.setdefault('design_leads', []).append(
                '%s: TLC %s' % (key, ('violated at depth %d (%d states)' % (len(res.trace), res.distinct)) if res.violation
                                else ('holds (%d states)' % res.distinct if res.ok else 'not finished')))
            if res.ok or res.violation:
                ck.add('states', res.distinct)
                ck.add('transitions', res.generated)
            continue
        if res.violation:
            ck.inconc('TLC reports %s on the interleaved NetListener specification (%s) - design-level lead' % (res.violation, key))
            return ck.finish()
        if res.ok:
            ck.add('states', res.distinct)
            ck.add('transitions', res.generated)
            ck.cov['tlc_configs'].append('NetListener Sync=FALSE %s: %d distinct states, %d generated, depth %d, %.0fs'
                                         % (key, res.distinct, res.generated, res.depth, res.wall))
        else:
            ck.cov['tlc_configs'].append('NetListener Sync=FALSE %s: not finished (%d distinct so far)' % (key, res.distinct))

    # ---- probe (own process): Write on a conn whose session was torn down
    prune = False
    gp = probes.get('dw')
    hist = 'Connect ; OpenStream ; client Write ; Accept ; client Session.Close ; server conn.Write(200 bytes)'
    dw_replay = {'kind': 'path', 'path': dwprobe, 'slug': SLUG_DW}
    if gp is not None and gp.result is None and ('fatal error:' in gp.out or 'panic:' in gp.out):
        m = re.search(r'(unexpected fault address .*|panic: .*|fatal error: .*)', gp.out)
        what = 'the process dies (%s) in bufferManager.allocShmBuffer on unmapped shared memory' % (m.group(1)[:120] if m else '')
        prune = True
        if listed_dw:
            ck.known(SLUG_DW, '%s [reproduced on real code: %s -> %s]' % (known.get((prop, SLUG_DW), ''), hist, what))
        else:
            dw_replay['detail'] = what
            ck.violation('Write on a conn whose session has ended does not fail, %s  (history: %s)' % (what, hist), dw_replay)
    elif gp is None or gp.result is None:
        ck.inconc('probe harness produced no result: %s' % (gp.out[-800:] if gp else ''))
        return ck.finish()
    else:
        for v in gp.result.get('violations') or []:
            ck.violation('%s: %s' % (v['kind'], v['detail']), {'kind': 'path', 'path': v['path'], 'detail': v['detail']})
        if gp.result.get('drift_count'):
            for d in gp.result.get('drift') or []:
                print('SPEC-DRIFT module=NetListener at=%s' % d[:600])
        if listed_dw:
            ck.notes.append('the listed known finding %s no longer reproduces on this tree' % SLUG_DW)
    ck.cov['write_after_teardown_class_pruned_in_walk'] = prune

    # ---- the real code walks the graphs
    quick = ck.tier == 'quick'
    job = {'graphs': jgraphs, 'paths': [witness] if witness else [], 'seed': ck.seed, 'workers': 8,
           'max_attempts': 6, 'budget_ms': 35000 if quick else 600000, 'max_path_len': 120, 'known': listed,
           'prune_dead_write': prune,
           'units': [1, 3, 64, 100, 1000, 5000] if quick else [1, 3, 64, 100, 1000, 5000, 8172, 8173, 40000, 140000]}
    wd = tlc.scratch('vnl')
    try:
        g = gorun.run_harness('^TestVS_NetListener$', HARNESS, None, inputs={'job': job}, workdir=wd,
                              timeout=240 if quick else 1500)
        if g.result is None:
            if not crash_analysis(ck, g, wd, listed):
                ck.inconc('harness produced no result (rc=%d): %s' % (g.rc, g.out[-1500:]))
            return ck.finish()
        r = g.result
        evaluate(ck, r, listed, known, witness is not None)
    finally:
        shutil.rmtree(wd, ignore_errors=True)
    conc_th.join()
    conc_evaluate(ck, conc)
    if not ck.violations:
        fallback_pass(ck)
    return ck.finish()


def fallback_pass(ck):
    """the byte-stream oracle on a conn that has left shared memory (harness/zz_netfallback_test.go)"""
    job = {'wait_ms': 15000, 'seed': ck.seed}
    g = gorun.run_harness('^TestVS_NetFallback$', ['zz_netfallback_test.go'], None, inputs={'job': job}, timeout=600)
    r = g.result
    if r is None:
        if 'panic:' in g.out or 'fatal error:' in g.out:
            m = re.search(r'(panic: .*|fatal error: .*)', g.out)
            ck.violation('the process dies on a fallback conn: %s' % (m.group(1)[:200] if m else ''), {'kind': 'netfallback'})
        else:
            ck.notes.append('fallback pass produced no result (rc=%s): %s' % (g.rc, g.out[-300:]))
        return
    for v in r['violations'][:1]:
        ck.violation('%s (%s): %s' % (v['kind'], v['scenario'], v['detail']), {'kind': 'netfallback', 'scenario': v['scenario']})
    ck.cov['fallback_conn_histories'] = len(r['done'])
    ck.cov['fallback_conn_bytes_compared'] = r['bytes']
    ck.cov['fallback_conn_not_realised'] = r['not_realised'][:4]
    ck.add('evaluations', len(r['done']))


def conc_evaluate(ck, conc):
    if conc.get('error'):
        ck.inconc('concurrent-Close run failed: ' + conc['error'])
        return
    res = conc.get('res')
    if res is None or conc.get('scheds') is None:
        if res is not None and res.violation:
            ck.inconc('TLC reports %s on the step-granular Close configuration of NetListener (design-level lead)' % res.violation)
        else:
            ck.inconc('TLC did not complete on the step-granular Close configuration: %s' %
                      ((res.error or res.out[-300:]) if res is not None else 'no result'))
        return
    ck.add('states', res.distinct)
    ck.add('transitions', conc['ntrans'])
    ck.cov.setdefault('tlc_configs', []).append(
        'NetListener Sync conc-close (NS=1 NK=2 Feat=%s, streamWrapper.Close in steps for 2 callers): %d distinct states, %d '
        'transitions, depth %d; closer sub-graph %d states / %d edges -> %d schedules; %.0fs'
        % (CONC_CFG['feat'], res.distinct, conc['ntrans'], res.depth, conc['info']['states'], conc['info']['edges'],
           len(conc['scheds']), res.wall))
    g = conc.get('go')
    if g is None or g.result is None:
        out = g.out if g is not None else ''
        if 'panic:' in out or 'fatal error:' in out:
            m = re.search(r'(panic: .*|fatal error: .*)', out)
            # the library panicked outside the closer threads (e.g. the accept goroutine): the history is the conc run
            ck.violation('the process dies while one conn is closed by two goroutines at once: %s' % (m.group(1)[:200] if m else ''),
                         {'kind': 'conc', 'scheds': conc['scheds'], 'start_proj': conc['info']['start_proj'], 'random': 150})
        else:
            ck.inconc('concurrent-Close harness produced no result: %s' % out[-800:])
        return
    r = g.result
    for e in r.get('harness_err') or []:
        ck.inconc('concurrent-Close harness: ' + e)
    c = r.get('counters') or {}
    ck.cov['concurrent_close'] = {'spec_schedules_replayed': c.get('conc_spec_schedules', 0),
                                  'conforming_schedules_and_interleavings': r.get('conforming', 0),
                                  'random_point_interleavings': c.get('conc_random_interleavings', 0),
                                  'scheduling_points_executed': c.get('conc_sched_points', 0),
                                  'instrumented': (g.report or [])}
    ck.add('traces_validated_against_impl', r.get('conforming', 0))
    if r.get('drift_count'):
        ck.cov['spec_drift'] = True
        for d in r.get('drift') or []:
            print('SPEC-DRIFT module=NetListener at=%s' % d[:600])
    for v in r.get('violations') or []:
        ck.violation('%s: %s  (interleaving: %s)' % (v['kind'], v['detail'], ' ; '.join(st['label'] for st in v['path']['steps'])[:600]),
                     {'kind': 'conc', 'scheds': [dict(v['path'], name='replay', steps=[dict(st, proj=[]) for st in v['path']['steps']])],
                      'start_proj': conc['info']['start_proj'],
                      'random': 0, 'unit': v['path'].get('unit', 1), 'small': v['path'].get('small', True), 'detail': v['detail']})


def evaluate(ck, r, listed, known, had_witness):
    for e in r.get('harness_err') or []:
        ck.inconc('harness error: ' + e)
    ck.add('traces_validated_against_impl', r['conforming'])
    ck.cov['paths_executed_on_real_code'] = r['paths']
    ck.cov['api_calls_on_real_code'] = r['steps']
    ck.cov['conforming_paths'] = r['conforming']
    ck.cov['nd_diverged_paths'] = r.get('nd_diverged', 0)
    ck.cov['paths_abandoned_handshake_timeout'] = r.get('env_aborted', 0)
    if r['paths'] == 0 or r.get('env_aborted', 0) > r['paths']:
        ck.inconc('the real code could not be driven: %d paths executed, %d abandoned because the 1s handshake time-out of '
                  'the library expired 4 times in a row (machine overloaded?)' % (r['paths'], r.get('env_aborted', 0)))
    ck.cov['real_code_counters'] = {k: v for k, v in (r.get('counters') or {}).items() if not k.startswith('us_')}
    ck.cov['real_code_time_us'] = {k: v for k, v in (r.get('counters') or {}).items() if k.startswith('us_')}
    ck.cov['graph_cover'] = r.get('graphs', [])
    tot = sum(g['edges'] for g in r.get('graphs', []))
    cov = sum(g['covered'] for g in r.get('graphs', []))
    ck.cov['macro_edges_total'] = tot
    ck.cov['macro_edges_replayed'] = cov
    ck.cov['replay_complete'] = bool(tot) and cov == tot
    if tot and cov < tot:
        ck.notes.append('%d of %d macro edges not replayed (time budget, or alternatives of Go\'s random select that did not '
                        'come up in %d attempts)' % (tot - cov, tot, 6))
    ck.cov['spec_drift'] = r['drift_count'] > 0
    for d in r.get('drift') or []:
        print('SPEC-DRIFT module=NetListener at=%s' % d[:600])
    if r['drift_count']:
        ck.notes.append('spec drift on %d paths: the real code settled in a state / returned a value the specification does '
                        'not predict although no C19 observable was wrong; exhaustiveness does not transfer' % r['drift_count'])
    for s in r.get('samples') or []:
        ck.sample('history replayed on real code: ' + s[:700])
    for v in r.get('violations') or []:
        ck.violation('%s: %s' % (v['kind'], v['detail']), {'kind': 'path', 'path': v['path'], 'detail': v['detail']})
    ck.cov['known_finding_class_paths'] = r.get('known_hits', 0)
    kw = r.get('known_witness')
    if kw:
        if listed:
            ck.known(SLUG, '%s [reproduced on real code in %d paths; shortest witness: %s]'
                     % (known.get((ck.prop, SLUG), ''), r['known_hits'], ' ; '.join(s['label'] for s in kw['path']['steps'])))
        else:
            ck.violation('%s: %s  (history: %s)' % (kw['kind'], kw['detail'], ' ; '.join(s['label'] for s in kw['path']['steps'])),
                         {'kind': 'path', 'path': kw['path'], 'detail': kw['detail'], 'slug': SLUG})
    elif listed and had_witness:
        ck.notes.append('the listed known finding %s no longer reproduces on this tree' % SLUG)


def crash_analysis(ck, g, wd, listed, cands=None):
    """the test process died: if the library panicked, find the history that does it (journals of the in-flight paths,
    or the given explicit paths)"""
    if 'panic:' not in g.out and 'fatal error:' not in g.out:
        return False
    m = re.search(r'(panic: .*|fatal error: .*)', g.out)
    what = m.group(1)[:300] if m else 'panic'
    import glob
    if cands is None:
        cands = []
        for f in sorted(glob.glob(os.path.join(wd, 'nl_journal_*.json'))):
            try:
                cands.append(json.load(open(f)))
            except Exception:
                pass
    for p in cands:
        for attempt in range(2):
            job = {'graphs': [], 'paths': [p], 'seed': ck.seed + attempt, 'workers': 1, 'budget_ms': 60000, 'known': listed,
                   'units': [p.get('unit', 1)]}
            g2 = gorun.run_harness('^TestVS_NetListener$', HARNESS, None, inputs={'job': job}, timeout=120)
            if g2.result is None and ('panic:' in g2.out or 'fatal error:' in g2.out):
                m2 = re.search(r'(panic: .*|fatal error: .*)', g2.out)
                ck.violation('the process panics on this history: %s' % (m2.group(1)[:300] if m2 else what),
                             {'kind': 'path', 'path': p, 'detail': what})
                return True
    ck.inconc('the test process died (%s) but no single in-flight history reproduces it alone' % what)
    return True


def do_replay_conc(ck, rep, path):
    tr = tlc.run('NetListener', 'mc.cfg', timeout=300, workers=TLC_WORKERS, extra_files={'mc.cfg': gcfg(CONC_CFG, inv=INVARIANTS + ' RelOnce')})
    ck.add('states', tr.distinct)
    ck.add('transitions', tr.generated)
    ck.add('traces_validated_against_impl', 0)
    ck.sample({'replayed': [[st.get('label') for st in p['steps']] for p in rep['scheds'][:2]]})
    cjob = {'graphs': [], 'paths': [], 'seed': ck.seed, 'workers': 1, 'known': True, 'units': [1],
            'conc': {'start_proj': rep['start_proj'], 'scheds': rep['scheds'], 'unit': rep.get('unit', 1),
                     'small': rep.get('small', True), 'random': rep.get('random', 0)}}
    g = gorun.run_harness('^TestVS_NetListener$', HARNESS, INSTR_CONC, inputs={'job': cjob}, timeout=300)
    if g.result is None:
        if 'panic:' in g.out or 'fatal error:' in g.out:
            m = re.search(r'(panic: .*|fatal error: .*)', g.out)
            ck.violation('the process dies: %s' % (m.group(1)[:200] if m else ''), rep, name=os.path.basename(path))
        else:
            ck.inconc('harness produced no result: ' + g.out[-800:])
        return ck.finish()
    for v in g.result.get('violations') or []:
        ck.violation('%s: %s' % (v['kind'], v['detail']), rep, name=os.path.basename(path))
    return ck.finish()


def do_replay(ck, path, listed):
    rep = json.load(open(path))
    if rep.get('kind') == 'conc':
        return do_replay_conc(ck, rep, path)
    if rep.get('kind') == 'netfallback':
        ck.cov['evaluations'] = 0
        ck.cov['distinct_nontrivial'] = 1
        fallback_pass(ck)
        return ck.finish()
    p = rep['path']
    # the design verdict that goes with a replay: the smallest configuration, checked in this run
    tr = tlc.run('NetListener', 'mc.cfg', timeout=300, workers=TLC_WORKERS, extra_files={'mc.cfg': gcfg(QUICK_GRAPHS[0])})
    ck.add('states', tr.distinct)
    ck.add('transitions', tr.generated)
    ck.cov['tlc_configs'] = ['NetListener Sync %s: %d distinct states, %d generated (%s)' %
                             (QUICK_GRAPHS[0]['name'], tr.distinct, tr.generated, 'ok' if tr.ok else (tr.violation or 'not finished'))]
    ck.add('traces_validated_against_impl', 0)
    ck.sample({'replayed': [st.get('label') for st in p['steps']]})
    reps = [p]
    if str(p.get('name', '')).startswith('late-stream'):
        reps = [dict(p, name='%s-r%d' % (p['name'], i)) for i in range(12)]   # Go's select flips a coin in this history
    job = {'graphs': [], 'paths': reps, 'seed': ck.seed, 'workers': min(6, len(reps)), 'budget_ms': 60000,
           'known': listed and rep.get('slug') != SLUG, 'units': [p.get('unit', 1)]}
    g = gorun.run_harness('^TestVS_NetListener$', HARNESS, None, inputs={'job': job}, timeout=180)
    ck.cov['evaluations'] = 1
    if g.result is None:
        if 'panic:' in g.out or 'fatal error:' in g.out:
            m = re.search(r'(panic: .*|fatal error: .*)', g.out)
            ck.violation('the process panics on this history: %s' % (m.group(1)[:300] if m else ''), rep,
                         name=os.path.basename(path))
        else:
            ck.inconc('harness produced no result: ' + g.out[-800:])
        return ck.finish()
    r = g.result
    ck.add('traces_validated_against_impl', r['conforming'])
    for v in r.get('violations') or []:
        ck.violation('%s: %s' % (v['kind'], v['detail']), rep, name=os.path.basename(path))
    kw = r.get('known_witness')
    if kw and not r.get('violations'):
        ck.violation('%s: %s' % (kw['kind'], kw['detail']), rep, name=os.path.basename(path))
    for d in r.get('drift') or []:
        print('SPEC-DRIFT module=NetListener at=%s' % d[:600])
    return ck.finish()
