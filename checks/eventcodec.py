"""C13 - module EventCodec, binding B2: TLC enumerates a catalogue of byte strings x every way of cutting them into reads
on a byte-level reference model of the receive side (handshake readers, handleEvents, the five handlers); every
behaviour selected from the state graph is executed on the REAL code (Session + connEventHandler over a socketpair, pumped
read by read; the real handshake functions; and the complete real path Server()/epoll loop in child processes) and every
observable is compared with the state the specification predicts after each read."""
import json, os, random, re, time, hashlib
from vlib import tlc, tlaval, gorun, core

PROPS = ['C13']
HARNESS = ['zz_eventcodec_test.go']
MAGIC = (0x77, 0x58)

KNOWN_CLASSES = {
    'fallback-short-length': 'handleFallbackData: a FallbackData event whose Length field is < 16 (header 8 + seqID 4 + status 4) '
                             'panics the event-loop goroutine (makeslice: len out of range for Length < 8, slice bounds out of range for 8..15)',
    'hotrestart-no-manager': 'handleHotRestart on a session without SessionManager (any server session; a client made without a manager): '
                             'the posted lambda dereferences the nil manager on the event-loop goroutine',
    'hotrestartack-no-listener': 'handleHotRestartAck on a session without Listener (every client session; a server made with Server()): '
                                 's.listener.mu.Lock() on a nil listener panics the event-loop goroutine',
    'handshake-metadata-unchecked': 'server handshake: handleShareMemoryByFilePath/ByMemFd trust the metadata event: Length-8 is computed in '
                                    'uint32 without a lower bound and extractShmMetadata slices the body with the path lengths from the wire '
                                    '(slice bounds out of range in the handshake goroutine)',
}


# ----------------------------------------------------------------------------------------------- byte catalogue
def be32(n):
    return [(n >> 24) & 255, (n >> 16) & 255, (n >> 8) & 255, n & 255]


def hdr(length, typ, ver=3, magic=MAGIC):
    return be32(length) + [magic[0], magic[1], ver, typ]


A = [0, 0, 0, 3]          # stream that exists
B = [0, 0, 0, 5]          # stream that does not exist
C = [255, 255, 255, 254]  # unknown, high id
E1 = [0, 0, 0, 0, 0, 0, 0, 7]   # the listener's epoch
E2 = [0, 0, 0, 0, 0, 0, 1, 9]


def fb(sid, st, data, length=None, hi=(0, 0, 0)):
    body = list(sid) + list(hi) + [st] + list(data)
    return hdr(8 + len(body) if length is None else length, 3) + body


def text(s):
    return [ord(ch) for ch in s]


def events():
    ev = {
        'POLL': hdr(8, 1), 'POLL_L0': hdr(0, 1), 'POLL_L99': hdr(99, 1), 'POLL_V1': hdr(8, 1, ver=1), 'POLL_V255': hdr(8, 1, ver=255),
        'CLOSE_A': hdr(12, 2) + A, 'CLOSE_B': hdr(12, 2) + B, 'CLOSE_A_L8': hdr(8, 2) + A, 'CLOSE_C': hdr(12, 2) + C,
        'FB_A': fb(A, 0, text('hello')), 'FB_A0': fb(A, 0, []), 'FB_A_close': fb(A, 1, text('zz')), 'FB_A_half': fb(A, 2, text('h')),
        'FB_A_st7': fb(A, 7, text('s7'), hi=(0xAA, 0xBB, 0xCC)), 'FB_B': fb(B, 0, text('new')), 'FB_B_close': fb(B, 1, []),
        'FB_B_half': fb(B, 2, text('x')), 'FB_C': fb(C, 0, text('c')),
        'FB_L0': fb(A, 0, [], length=0), 'FB_L7': fb(A, 0, [], length=7), 'FB_L8': fb(A, 0, [], length=8),
        'FB_L11': fb(A, 0, [], length=11), 'FB_L12': fb(A, 0, [], length=12), 'FB_L15': fb(A, 0, [], length=15),
        'FB_LONG': fb(A, 0, text('abcd'), length=26),           # Length promises 10 data bytes, 4 are there
        'FB_SHORT': fb(A, 0, text('abcdefghij'), length=20),    # Length covers 4 of the 10 data bytes: the parser re-syncs inside
        'FB_HUGE': fb(A, 0, text('ab'), length=0x01000000), 'FB_MAX': fb(A, 0, text('ab'), length=0xFFFFFFFF),
        'HR_E1': hdr(16, 8) + E1, 'HR_E2': hdr(16, 8) + E2, 'ACK_E1': hdr(16, 9) + E1, 'ACK_E2': hdr(16, 9) + E2,
        'BADMAGIC': hdr(8, 1, magic=(0x77, 0x59)), 'VER0': hdr(8, 1, ver=0), 'T0': hdr(8, 0), 'T4': hdr(8, 4), 'T5': hdr(8, 5),
        'T6': hdr(8, 6), 'T7': hdr(8, 7), 'T10': hdr(8, 10), 'T255': hdr(8, 255), 'ZERO8': [0] * 8,
    }
    return ev


CTX = {   # session contexts
    'S0': dict(role='server', lst=False, mgr=False),     # made with Server(): no listener
    'S1': dict(role='server', lst=True, mgr=False),      # accepted by a Listener
    'C0': dict(role='client', lst=False, mgr=False),
    'C1': dict(role='client', lst=False, mgr=True),      # made by a SessionManager
}
QUEUES = {
    'q0': [],
    'q1': [dict(id=A, st=0, data=text('xy')), dict(id=B, st=0, data=text('n')), dict(id=A, st=2, data=text('w')),
           dict(id=C, st=1, data=[]), dict(id=A, st=1, data=[])],
}


def mk_run_case(name, ctx, evs, q='q0', ev=None):
    ev = ev or events()
    b = []
    for e in evs:
        b += ev[e] if isinstance(e, str) else list(e)
    return dict(name='%s:%s:%s:%s' % (ctx, q, name, '+'.join(e if isinstance(e, str) else 'raw' for e in evs)), bytes=b, phase0='run',
                known=[A], queue=QUEUES[q], epoch=E1, goodq=[], goodb=[], stoprun=False, memfd=False, exec='run', **CTX[ctx])


def run_catalogue(rng, tier):
    ev = events()
    names = sorted(ev)
    cases = []
    ctx_sensitive = ['HR_E1', 'HR_E2', 'ACK_E1', 'ACK_E2', 'FB_B', 'FB_C']
    child_events = ['POLL', 'CLOSE_A', 'FB_A', 'FB_B', 'FB_L0', 'FB_L12', 'HR_E1', 'ACK_E1', 'BADMAGIC', 'T0', 'T10', 'FB_SHORT']
    for n in names:
        for ctx in (['S0', 'S1', 'C0', 'C1'] if n in ctx_sensitive else ['S0', 'C1']):
            cases.append(mk_run_case('single', ctx, [n], ev=ev))
            if n in child_events and ctx in ('S0', 'C1'):
                cases[-1]['child'] = ctx == 'S0' or n in ('HR_E1', 'ACK_E1', 'FB_B')
    for ctx in ['S0', 'S1', 'C0', 'C1']:
        cases.append(mk_run_case('queue', ctx, ['POLL', 'POLL'], q='q1', ev=ev))
        cases.append(mk_run_case('queue', ctx, ['FB_A', 'POLL', 'CLOSE_B'], q='q1', ev=ev))
    firsts = ['POLL', 'POLL_L99', 'CLOSE_A', 'CLOSE_B', 'CLOSE_A_L8', 'FB_A', 'FB_A0', 'FB_B', 'FB_A_close', 'FB_SHORT', 'FB_LONG']
    seconds = ['POLL', 'CLOSE_A', 'FB_A_st7', 'T10']
    for f in firsts:
        for s in seconds:
            cases.append(mk_run_case('pair', 'S1', [f, s], ev=ev))
    for f, ctx in [('HR_E1', 'C1'), ('HR_E2', 'C1'), ('ACK_E1', 'S1'), ('ACK_E2', 'S1')]:
        for s in seconds:
            cases.append(mk_run_case('pair', ctx, [f, s], ev=ev))
    for s in ['POLL', 'CLOSE_A']:
        cases.append(mk_run_case('pair', 'C1', ['FB_A', s], ev=ev))
    ntr = 16 if tier == 'quick' else 160
    pool = [n for n in names if n not in ('FB_HUGE', 'FB_MAX')]
    for i in range(ntr):
        ctx = rng.choice(['S0', 'S1', 'C0', 'C1'])
        cases.append(mk_run_case('triple%d' % i, ctx, [rng.choice(pool) for _ in range(3)], q=rng.choice(['q0', 'q1']), ev=ev))
    ngar = 10 if tier == 'quick' else 80
    for i in range(ngar):   # structured garbage: valid magic, random everything else
        b = []
        for _ in range(rng.randint(1, 3)):
            b += [0, 0, rng.choice([0, 0, 0, 1]), rng.randint(0, 40), 0x77, 0x58, rng.choice([0, 1, 2, 3, 255]),
                  rng.choice([1, 2, 3, 3, 3, 8, 9, rng.randint(0, 255)])]
            b += [rng.choice([0, 0, 0, 3, 5, 1, 2, 255]) for _ in range(rng.randint(0, 14))]
        ctx = rng.choice(['S0', 'S1', 'C0', 'C1'])
        cases.append(mk_run_case('garbage%d' % i, ctx, [b], q=rng.choice(['q0', 'q1']), ev=ev))
    return cases


def meta_body(q, b, extra=()):
    return [len(q) >> 8, len(q) & 255] + list(q) + [len(b) >> 8, len(b) & 255] + list(b) + list(extra)


def hs_catalogue(token, rng, tier):
    # every case names its own share-memory files (cases run in parallel); same lengths, so the byte layout is the same
    gq, gb = text('/dev/shm/v%s__q' % token), text('/dev/shm/v%s__b' % token)
    nq, nb = text('/dev/shm/v%s__x' % token), text('/dev/shm/v%s__y' % token)     # do not exist
    good = meta_body(gq, gb)
    cases = []
    al = 'abcdefghijklmnopqrstuvwxyz'

    def srv(name, b, danger=False):
        k = len(cases)
        tag = [ord(al[k // 26]), ord(al[k % 26])]
        pos = len('/dev/shm/v%s' % token)

        def own(seq):     # replace the "__" of every occurrence of a harness path by this case's tag
            seq = list(seq)
            for base in (gq, gb, nq, nb):
                for i in range(len(seq) - len(base) + 1):
                    if seq[i:i + len(base)] == base:
                        seq[i + pos:i + pos + 2] = tag
            return seq
        cases.append(dict(name='HS:' + name, bytes=own(b), phase0='hs1', role='server', lst=False, mgr=False, known=[], queue=[],
                          epoch=E1, goodq=own(gq), goodb=own(gb), stoprun=True, memfd=False, exec='hs', danger=danger))

    def cli(name, b, memfd):
        cases.append(dict(name='HC:' + name, bytes=b, phase0='c_ver', role='client', lst=False, mgr=False, known=[], queue=[],
                          epoch=E1, goodq=[], goodb=[], stoprun=True, memfd=memfd, exec='hc', danger=False))

    v3 = hdr(8, 4, ver=3)
    srv('v2-good', hdr(8 + len(good), 0, ver=2) + good)
    srv('v3-file-good+poll', v3 + hdr(8 + len(good), 0) + good + hdr(8, 1))
    srv('v3-file-good-extra-in-body', v3 + hdr(8 + len(good) + 3, 0) + good + [1, 2, 3])
    srv('v3-file-nonexistent', v3 + hdr(8 + len(good), 0) + meta_body(nq, nb))
    srv('v3-file-wrong-buffer', v3 + hdr(8 + len(good), 0) + meta_body(gq, nb))
    for nm, h in [('badmagic', hdr(8, 4, magic=(0x77, 0x59))), ('ver0', hdr(8, 4, ver=0)), ('ver1', hdr(8, 4, ver=1)),
                  ('ver4', hdr(8, 4, ver=4)), ('ver255', hdr(8, 0, ver=255)), ('type10', hdr(8, 10)), ('v2-type1', hdr(8, 1, ver=2)),
                  ('v2-type4', hdr(8, 4, ver=2)), ('v3-type0', hdr(8 + len(good), 0, ver=3) + good), ('zero', [0] * 8)]:
        srv('first-' + nm, h + hdr(8, 1))
    for nm, h in [('type1', hdr(8, 1)), ('type6', hdr(8, 6)), ('type4-again', hdr(8, 4)), ('badmagic', hdr(8, 0, magic=(0, 0))),
                  ('ver0', hdr(8 + len(good), 0, ver=0) + good)]:
        srv('v3-second-' + nm, v3 + h)
    # malformed metadata (the known class), on the V2 path, the V3 file path and the V3 memfd path
    bad = [('len8-empty-body', 8, []), ('len9', 9, [0]), ('len10-q5', 10, [0, 5]), ('q-ok-no-blen', 8 + 2 + len(gq), meta_body(gq, gb)[:2 + len(gq)]),
           ('q-ok-blen-1byte', 8 + 3 + len(gq), meta_body(gq, gb)[:3 + len(gq)]),
           ('b-beyond', 8 + len(good) - 1, good[:-1]), ('q-beyond-big', 12, [255, 255, 0, 0])]
    for nm, ln, body in bad:
        srv('v2-meta-' + nm, hdr(ln, 0, ver=2) + body + hdr(8, 1))
        srv('v3-meta-' + nm, v3 + hdr(ln, 0) + body + hdr(8, 1))
    for nm, ln, body in bad[:3] + bad[5:6]:
        srv('v3-memfd-meta-' + nm, v3 + hdr(ln, 5) + body + hdr(8, 1))
    for ln in (0, 7):
        srv('v2-meta-len%d' % ln, hdr(ln, 0, ver=2) + hdr(8, 1), danger=True)
        srv('v3-meta-len%d' % ln, v3 + hdr(ln, 0) + hdr(8, 1), danger=True)
        srv('v3-memfd-len%d' % ln, v3 + hdr(ln, 5) + hdr(8, 1), danger=True)
    srv('v3-memfd-nofd', v3 + hdr(8 + len(good), 5) + good + hdr(8, 1))
    srv('v3-memfd-short', v3 + hdr(8 + len(good), 5) + good)
    # the complete real path (child process: Server(), real epoll loop), handshake followed by events
    ev = events()
    fullidx = [0]

    def full(name, mk):
        fullidx[0] += 1
        t2 = '%sF%s' % (token, al[fullidx[0]])
        q2, b2 = text('/dev/shm/v%sq' % t2), text('/dev/shm/v%sb' % t2)
        cases.append(dict(name='HF:' + name, bytes=mk(meta_body(q2, b2)), phase0='hs1', role='server', lst=False, mgr=False, known=[],
                          queue=[], epoch=E1, goodq=q2, goodb=b2, stoprun=False, memfd=False, exec='hsfull', danger=False))

    def v3file(g):
        return v3 + hdr(8 + len(g), 0) + g
    full('v3-good+POLL+FB_B+CLOSE_B', lambda g: v3file(g) + ev['POLL'] + ev['FB_B'] + ev['CLOSE_B'])
    full('v2-good+FB_A', lambda g: hdr(8 + len(g), 0, ver=2) + g + ev['FB_A'])
    full('v3-good+T10', lambda g: v3file(g) + ev['T10'])
    full('v3-good+FB_L12', lambda g: v3file(g) + ev['FB_L12'])
    full('v3-good+ACK_E1', lambda g: v3file(g) + ev['ACK_E1'])
    full('v3-good+HR_E1', lambda g: v3file(g) + ev['HR_E1'])
    full('v3-meta-len8', lambda g: v3 + hdr(8, 0) + ev['POLL'])
    full('v3-meta-len0', lambda g: v3 + hdr(0, 0) + ev['POLL'])
    full('v3-memfd-len10-q5', lambda g: v3 + hdr(10, 5) + [0, 5])
    full('first-badmagic', lambda g: hdr(8, 4, magic=(1, 1)) + hdr(8 + len(g), 0) + g)
    full('v3-truncated', lambda g: v3 + hdr(8 + len(g), 0) + g[:7])
    # client side: the server's answers
    ack = hdr(8, 6)
    rdy = hdr(8, 7)
    cli('good', v3 + rdy + ack + hdr(8, 1), True)
    cli('server-v2', hdr(8, 4, ver=2) + hdr(8, 1), True)
    cli('server-v9', hdr(8, 4, ver=9) + rdy + ack, True)
    cli('server-v1', hdr(8, 4, ver=1) + rdy + ack, True)
    cli('server-v0', hdr(8, 4, ver=0) + rdy + ack, True)
    cli('badmagic', hdr(8, 4, magic=(1, 2)) + rdy + ack, True)
    cli('first-type6', ack + ack, True)
    cli('first-type7', rdy + ack, True)
    cli('first-type11', hdr(8, 11) + ack, True)
    cli('no-ready', v3 + ack, True)
    cli('ready-type1', v3 + hdr(8, 1) + ack, True)
    cli('ready-badmagic', v3 + hdr(8, 7, magic=(0x58, 0x77)) + ack, True)
    cli('ready-ver0', v3 + hdr(8, 7, ver=0) + ack, True)
    cli('ready-len-odd', v3 + hdr(4000, 7) + ack + hdr(8, 1), True)
    cli('ack-type7', v3 + rdy + rdy, True)
    cli('ack-type1', v3 + rdy + hdr(8, 1), True)
    cli('ack-badmagic', v3 + rdy + hdr(8, 6, magic=(0x58, 0x77)), True)
    cli('ack-ver0', v3 + rdy + hdr(8, 6, ver=0), True)
    cli('ack-len-odd', v3 + rdy + hdr(0, 6) + hdr(8, 1), True)
    return cases


# ----------------------------------------------------------------------------------------------- TLA rendering
def tla(v):
    if isinstance(v, bool):
        return 'TRUE' if v else 'FALSE'
    if isinstance(v, int):
        return str(v)
    if isinstance(v, str):
        return '"%s"' % v
    if isinstance(v, (list, tuple)):
        return '<<' + ', '.join(tla(x) for x in v) + '>>'
    if isinstance(v, dict):
        return '[' + ', '.join('%s |-> %s' % (k, tla(x)) for k, x in v.items()) + ']'
    raise ValueError(v)


def tla_case(cs):
    f = dict(bytes=cs['bytes'], role=cs['role'], phase0=cs['phase0'], lst=cs['lst'], mgr=cs['mgr'], epoch=cs['epoch'],
             queue=[dict(id=e['id'], st=e['st'], data=e['data']) for e in cs['queue']], goodq=cs['goodq'], goodb=cs['goodb'],
             stoprun=cs['stoprun'])
    s = tla(f)
    return s[:-1] + ', known |-> {' + ', '.join(tla(k) for k in cs['known']) + '}]'


CFG = """SPECIFICATION Spec
CONSTANT Cases <- MCCases
INVARIANTS TypeOK CutIndependent ErrorMeansClosed NoCompleteEventLeft WindowIsSuffix
CHECK_DEADLOCK FALSE
"""


def mc_module(cases):
    return ('---- MODULE MC_EventCodec_gen ----\nEXTENDS EventCodec\nMCCases == <<\n  ' +
            ',\n  '.join(tla_case(cs) for cs in cases) + '\n>>\n====\n')


# ----------------------------------------------------------------------------------------------- graph -> behaviours
def norm_state(st):
    """spec state -> the observable record the harness compares (JSON)."""
    ss = st['ss']
    strm = ss['strm']
    items = []
    if isinstance(strm, dict):
        it = strm.items()
    else:   # a function printed as a sequence cannot happen (domain is a set of tuples), but be safe
        it = []
    for k, v in it:
        items.append({'id': list(k), 'st': v['st'], 'data': list(v['data']), 'chunks': v['chunks']})
    items.sort(key=lambda x: x['id'])
    return {'pos': st['pos'], 'win': len(st['win']), 'closed': ss['closed'], 'err': ss['err'], 'hit': ss['hit'], 'phase': ss['phase'],
            'streams': items, 'acc': [list(x) for x in ss['acc']], 'poll': ss['poll'], 'fb': ss['fb'], 'ack': ss['ack'],
            'hrdone': ss['hrdone'], 'posted': [list(x) for x in ss['posted']], 'queue': len(ss['queue']), 'recycled': ss['recycled'],
            'sent': list(ss['sent']), 'hsdone': ss['hsdone'], 'ver': ss['ver']}


def parse_graph(nodes_txt, edges):
    """-> per case: {pos/win key: node}, adjacency."""
    parsed = {}
    for nid, txt in nodes_txt.items():
        st = tlaval.parse_state(txt)
        # tuples used as function keys arrive as lists -> make hashable
        parsed[nid] = st
    return parsed


def hashable(v):
    if isinstance(v, list):
        return tuple(hashable(x) for x in v)
    return v


def select_paths(case_idx, length, succ, init, rng, mode, budget):
    """Choose cut sequences for one case. succ[node] = {n: dst}. Returns list of [n1, n2, ...] (chunk sizes).
    Families: uncut, byte-by-byte, every 2-cut (prefix p then the rest), header-aligned, random; then greedy additions until
    every edge of the case's graph is covered or the budget is used."""
    paths = [[length], [1] * length]
    for p in range(1, length):
        if mode == 'quick' and length > 20 and not (p <= 16 or p >= length - 1 or p % 5 == 0):
            continue
        paths.append([p, length - p])
    if length > 8:
        paths.append([8] + [1] * (length - 8))
        paths.append([7, 2] + ([length - 9] if length > 9 else []))
    for _ in range(3 if mode == 'quick' else 12):
        cuts, rem = [], length
        while rem > 0:
            n = rng.randint(1, min(rem, rng.choice([2, 5, 13, 40])))
            cuts.append(n)
            rem -= n
        paths.append(cuts)
    # de-duplicate
    seen, out = set(), []
    for p in paths:
        p = [x for x in p if x > 0]
        if tuple(p) not in seen:
            seen.add(tuple(p))
            out.append(p)
    return out[:budget] if budget else out


# ----------------------------------------------------------------------------------------------- run
def run(prop, tier, seed, replay=None):
    ck = core.Check(prop, 'model_checking', tier, seed)
    rng = random.Random(ck.seed)
    ck.assumptions += [
        'the byte strings are those of the generated catalogue (every event type, every Length class, unknown types/versions, wrong '
        'direction/phase, re-synchronising and random structured garbage; <= 3 events) - exhaustive over ALL cuts of each of them in '
        'TLC, and on the real code over the cut families listed under coverage.rule',
        'Length fields >= 2^24 are one class (TLC integers are 32 bit); the read buffer is taken as unbounded (its growth and the '
        '1 MiB threshold belong to C18)',
        'share-memory paths in handshake metadata are either the ones the harness created or do not exist',
        'a descriptor-passing (memfd) handshake is exercised with a real client only (every session pair of the run-phase executor), '
        'not byte by byte',
        'the receive side is driven read by read by the harness (real onReadReady + real posted lambdas) for the exhaustive part; the '
        'free-running epoll loop is exercised by the child-process executor on a subset',
    ]
    known = core.known_findings()
    extra = os.environ.get('VERIF_KNOWN_EXTRA')      # testing aid: a second file in the format of known-findings.txt
    if extra and os.path.exists(extra):
        for line in open(extra):
            m = re.match(r'known:\s+property=(\S+)\s+id=(\S+)\s+(.*)', line.strip())
            if m:
                known[(m.group(1), m.group(2))] = m.group(3)
    listed = sorted(slug for (p, slug) in known if p == prop)
    if replay:
        return do_replay(ck, replay, listed)

    token = hashlib.sha1(('%d-%d-%f' % (ck.seed, os.getpid(), time.time())).encode()).hexdigest()[:5]
    cases = run_catalogue(rng, tier) + hs_catalogue(token, rng, tier)
    ck.log('catalogue: %d byte strings, %d bytes' % (len(cases), sum(len(cs['bytes']) for cs in cases)))
    try:
        execute(ck, cases, token, rng, tier, listed)
    finally:
        import glob
        for f in glob.glob('/dev/shm/v%s*' % token):      # safety net: share-memory files of this run (names carry its token)
            try:
                os.remove(f)
            except OSError:
                pass
    return ck.finish()


def explore(ck, cases, shards=6):
    """TLC: exhaustive over cases x cuts, with the state graph. The catalogue is split into shards checked by parallel TLC
    runs (cases are independent: no transition leaves a case); results are merged with the case index made global."""
    from concurrent.futures import ThreadPoolExecutor
    shards = max(1, min(shards, len(cases)))
    order = sorted(range(len(cases)), key=lambda i: -len(cases[i]['bytes']))
    parts = [[] for _ in range(shards)]
    load = [0] * shards
    for i in order:     # longest first onto the lightest shard (cost ~ len^2)
        k = load.index(min(load))
        parts[k].append(i)
        load[k] += len(cases[i]['bytes']) ** 2

    def one(idx):
        sub = [cases[i] for i in idx]
        return tlc.dump_graph('MC_EventCodec_gen', 'MC_EventCodec_gen.cfg', timeout=1500, workers=3,
                              extra_files={'MC_EventCodec_gen.tla': mc_module(sub), 'MC_EventCodec_gen.cfg': CFG})
    with ThreadPoolExecutor(shards) as ex:
        outs = list(ex.map(one, parts))
    merged = tlc.TLCResult()
    merged.ok = True
    nodes, edges, inits, cmap = {}, [], [], {}
    for k, (res, nd, ed, ini) in enumerate(outs):
        merged.ok = merged.ok and res.ok and bool(ed)
        merged.violation = merged.violation or res.violation
        merged.error = merged.error or res.error
        merged.timeout = merged.timeout or res.timeout
        merged.generated += res.generated
        merged.distinct += res.distinct
        merged.depth = max(merged.depth, res.depth)
        merged.wall = max(merged.wall, res.wall)
        merged.out += res.out[-1500:]
        merged.cmd = res.cmd
        if res.violation:
            merged.trace = res.trace
        for nid, txt in nd.items():
            nodes['%d:%s' % (k, nid)] = txt
        edges += [('%d:%s' % (k, a), '%d:%s' % (k, b), l) for a, b, l in ed]
        inits += ['%d:%s' % (k, i) for i in ini]
        cmap[k] = parts[k]
    merged.cmap = cmap
    return merged, nodes, edges, inits


def build_jobs(ck, cases, nodes, edges, inits, rng, tier, cmap):
    st = {}
    for nid, txt in nodes.items():
        d = tlaval.parse_state(re.sub(r'/\\ cs = .*?\n(?=/\\ )', '', txt, flags=re.S))     # drop the bulky case record
        d['c'] = cmap[int(nid.split(':')[0])][d['c'] - 1] + 1                                # shard-local -> global case index
        st[nid] = d
    succ = {}
    for s, d, _l in edges:
        n = st[d]['pos'] - st[s]['pos']
        succ.setdefault(s, {})[n] = d
    init_of = {st[i]['c']: i for i in inits}
    jobs = []
    total_edges_case = {}
    for s in succ:
        total_edges_case[st[s]['c']] = total_edges_case.get(st[s]['c'], 0) + len(succ[s])
    covered = set()
    for k, cs in enumerate(cases, 1):
        L = len(cs['bytes'])
        beh = []
        for cuts in select_paths(k, L, succ, init_of[k], rng, tier, None):
            cur = init_of[k]
            steps = []
            for n in cuts:
                nxt = succ.get(cur, {}).get(n)
                if nxt is None:      # the session has ended in the spec: nothing more is delivered
                    break
                covered.add((cur, n))
                steps.append({'n': n, 'want': norm_state(st[nxt]), 'extra': False})
                cur = nxt
            if steps and steps[-1]['want']['hit'] != 'none' and steps[-1]['want']['pos'] < L:
                # the input is in a listed known class from here on: the rest of the bytes is delivered only to see whether the
                # listed panic reproduces (nothing is compared), and only when the class is listed
                steps.append({'n': L - steps[-1]['want']['pos'], 'want': steps[-1]['want'], 'extra': True})
            if steps:
                beh.append(steps)
        # de-duplicate truncated behaviours
        seen, ub = set(), []
        for b in beh:
            key = tuple(s['n'] for s in b)
            if key not in seen:
                seen.add(key)
                ub.append(b)
        if cs['exec'] == 'hsfull':
            ub = ub[:2] + [b for b in ub[2:] if b[0]['n'] == 8][:1]
        jobs.append({'case': k - 1, 'name': cs['name'], 'exec': cs['exec'], 'role': cs['role'], 'lst': cs['lst'], 'mgr': cs['mgr'],
                     'memfd': cs['memfd'], 'danger': cs.get('danger', False), 'bytes': cs['bytes'], 'known': cs['known'],
                     'queue': cs['queue'], 'epoch': cs['epoch'], 'goodq': cs['goodq'], 'goodb': cs['goodb'], 'child': cs.get('child', False),
                     'init': norm_state(st[init_of[k]]), 'behaviours': ub})
    return jobs, len(covered)


def execute(ck, cases, token, rng, tier, listed, only=None):
    ck.log('TLC: %d cases x all cuts' % len(cases))
    res, nodes, edges, inits = explore(ck, cases)
    if res.violation:
        ck.inconc('TLC reports %s on the EventCodec specification itself (a lead about the design/spec, not a verdict on the code)'
                  % res.violation)
        ck.cov['tlc_trace'] = [(l, str(s)[:300]) for l, s in res.trace[:6]]
        return
    if not res.ok or not edges:
        ck.inconc('TLC did not complete: %s' % (res.error or ('timeout' if res.timeout else res.out[-600:])))
        return
    ck.add('states', res.distinct)
    ck.add('transitions', len(edges))
    ck.cov['exhaustive'] = True
    ck.cov['tlc_configs'] = ['EventCodec: %d byte strings (%d bytes, longest %d) x every cut: %d distinct states, %d transitions, '
                             '%d parallel TLC runs, %.1fs; invariants TypeOK CutIndependent ErrorMeansClosed NoCompleteEventLeft WindowIsSuffix'
                             % (len(cases), sum(len(c['bytes']) for c in cases), max(len(c['bytes']) for c in cases), res.distinct,
                                len(edges), len(res.cmap), res.wall)]
    jobs, ncov = build_jobs(ck, cases, nodes, edges, inits, rng, tier, res.cmap)
    nbeh = sum(len(j['behaviours']) for j in jobs)
    ck.log('graph: %d states, %d transitions; selected %d behaviours covering %d transitions' % (res.distinct, len(edges), nbeh, ncov))
    ck.cov['transitions_replayed_distinct'] = ncov
    ck.cov['rule'] = ('per byte string: uncut, byte-by-byte, every 2-cut (prefix p, rest), header-aligned, seeded random cuts; each read is one '
                      'Deliver(n) transition of the TLC graph and the real session is compared with the successor state after every read')
    job = {'token': token, 'listed': listed, 'jobs': jobs, 'children': 48 if tier == 'quick' else 160, 'seed': ck.seed}
    g = gorun.run_harness('^TestVS_EventCodec$', HARNESS, None, inputs={'job': job}, timeout=900 if tier == 'quick' else 2400)
    if g.result is None:
        ck.inconc('harness produced no result (rc=%d): %s' % (g.rc, g.out[-2500:]))
        return
    digest(ck, g.result, jobs, listed)


def digest(ck, r, jobs, listed):
    ck.add('traces_validated_against_impl', r['conforming'])
    ck.cov['behaviours_executed'] = r['executed']
    ck.cov['reads_executed'] = r['reads']
    ck.cov['behaviours_conforming'] = r['conforming']
    ck.cov['behaviours_cut_short_by_known_class'] = r['known_pruned']
    ck.cov['executors'] = r['by_exec']
    ck.cov['child_process_runs'] = r['children']
    ck.cov['cut_independence_groups_compared'] = r['cut_groups']
    ck.cov['spec_drift'] = bool(r['drift'])
    for d in r['drift'][:10]:
        print('SPEC-DRIFT module=EventCodec at=%s' % d)
    for s in r['samples']:
        ck.sample(s)
    for slug, w in sorted(r['known_hits'].items()):
        if slug in listed:
            ck.known(slug, '%s [reproduced on the real code %d times, e.g. %s]' % (KNOWN_CLASSES.get(slug, ''), w['count'], w['first']))
    seen = set()
    ck.cov['violating_behaviours'] = len(r['violations'])
    for v in r['violations']:
        if v['name'] in seen or len(seen) >= 8:      # one witness per byte string, at most 8 replay files
            continue
        seen.add(v['name'])
        ck.violation('%s: case %s cuts %s read %d: %s' % (v['kind'], v['name'], v['cuts'], v['step'], v['detail']),
                     {'kind': 'case', 'job': dict(jobs[v['case']], behaviours=[jobs[v['case']]['behaviours'][v['beh']]] if v['beh'] >= 0 else
                                                  jobs[v['case']]['behaviours']),
                      'executor': v['executor'], 'detail': v['detail']})
    if r.get('errors'):
        ck.inconc('harness errors: ' + '; '.join(r['errors'][:5]))


def do_replay(ck, path, listed):
    rep = json.load(open(path))
    j = rep['job']
    job = {'token': 'replay', 'listed': listed, 'jobs': [dict(j, case=0, child=rep.get('executor') == 'child')],
           'children': 4 if rep.get('executor') == 'child' else 0, 'seed': ck.seed, 'replay': True}
    g = gorun.run_harness('^TestVS_EventCodec$', HARNESS, None, inputs={'job': job}, timeout=600)
    if g.result is None:
        ck.inconc('harness produced no result: ' + g.out[-1500:])
        return ck.finish()
    ck.cov['evaluations'] = g.result['executed']
    ck.cov['distinct_nontrivial'] = max(2, g.result['executed'])
    for v in g.result['violations']:
        ck.violation('%s: %s' % (v['kind'], v['detail']), rep, name=os.path.basename(path))
    return ck.finish()
