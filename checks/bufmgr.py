"""Buffer-manager level of C01 / C02 (several size classes, allocShmBuffer(s), recycleBuffer(s)): module BufMgr.
Not a check of its own: checks/freelist.py calls run_into() so that C01/C02 also cover the manager above the free lists."""
import json, re
from vlib import tlc, tlaval, gorun

INSTR = {"files": {
    "buffer_manager.go": {"funcs": ["bufferList.pop", "bufferList.push"]},
    "buffer_slice.go": {"funcs": ["bufferHeader.*"], "recvIndex": ["bufferHeader"]},
}}
HARNESS = ['zz_vs_sched.go', 'zz_freelist_test.go', 'zz_bufmgr_test.go']
CONFS = [([4, 8], [3, 3]), ([4, 4], [3, 3]), ([3, 5, 9], [3, 2, 2])]


def files(caps, counts, sizes, maxops):
    w = '---- MODULE MC_BufMgr ----\nEXTENDS BufMgr\nmcCaps == <<%s>>\nmcCounts == <<%s>>\n====\n' % (
        ', '.join(map(str, caps)), ', '.join(map(str, counts)))
    cfg = 'SPECIFICATION Spec\nCONSTANTS\n Caps <- mcCaps\n Counts <- mcCounts\n ReqSizes = {%s}\n MaxOps = %d\nVIEW View\n' \
          'INVARIANTS Conservation NeverLastBuffer QuiescentFull QuiescentFullPerSize\nCHECK_DEADLOCK FALSE\n' % (
              ', '.join(map(str, sizes)), maxops)
    return {'MC_BufMgr.tla': w, 'mc.cfg': cfg}


def fn(v, i):
    return v[i - 1] if isinstance(v, list) else v[i]


def run_into(ck, prop, tier):
    """adds coverage / violations of `prop` (C01 or C02) found at the manager level to ck"""
    maxops = 4 if tier == 'quick' else 5
    for caps, counts in CONFS:
        sizes = sorted(set([1] + caps + [c + 1 for c in caps] + [sum(caps)]))
        res, nodes, edges, inits = tlc.dump_graph('MC_BufMgr', 'mc.cfg', timeout=600, extra_files=files(caps, counts, sizes, maxops))
        if res.violation:
            ck.inconc('TLC reports %s on the BufMgr specification (caps %s)' % (res.violation, caps))
            return
        if not res.ok:
            ck.inconc('TLC did not complete on BufMgr: %s' % (res.error or res.out[-300:]))
            return
        parsed = {k: tlaval.parse_state(v) for k, v in nodes.items()}
        idx = {k: i for i, k in enumerate(parsed)}
        jedges = []
        for s, d, label in edges:
            m = re.match(r'(\w+)\((\d+)\)', label)
            op = {'Alloc': 'alloc', 'AllocMany': 'allocmany', 'Recycle': 'recycle'}[m.group(1)]
            arg = int(m.group(2))
            got = []
            if op != 'recycle':
                # what the spec hands out: difference of `out` between the states, in the order the code pops
                so, do = parsed[s]['out'], parsed[d]['out']
                n = len(caps)
                if op == 'alloc':
                    got = [c for c in range(1, n + 1) if fn(do, c) > fn(so, c)]
                else:
                    for c in range(n, 0, -1):
                        got += [c] * (fn(do, c) - fn(so, c))
            jedges.append([idx[s], idx[d], op, arg, got])
        job = {'conf': {'caps': caps, 'counts': counts}, 'edges': jedges, 'init': idx[inits[0]], 'histories': [], 'all_paths': True,
               'random': {'n': (300 if tier == 'quick' else 5000), 'seed': ck.seed,
                          'confs': [{'caps': c, 'counts': n} for c, n in CONFS] + [{'caps': [4], 'counts': [5]}]}}
        g = gorun.run_harness('^TestVS_BufMgr$', HARNESS, INSTR, inputs={'job': job}, timeout=1800)
        if g.result is None:
            ck.inconc('BufMgr harness produced no result (rc=%d): %s' % (g.rc, g.out[-1200:]))
            return
        r = g.result
        ck.add('states', res.distinct)
        ck.add('transitions', len(edges))
        ck.add('traces_validated_against_impl', r['conforming'])
        ck.add('manager_histories_replayed', r['histories'])
        ck.add('manager_concurrent_programs', r['random_runs'])
        ck.cov['tlc_configs'].append('BufMgr caps=%s counts=%s calls<=%d: %d states, %d transitions, %d histories (all paths) replayed, %d conforming'
                                     % (caps, counts, maxops, res.distinct, len(edges), r['histories'], r['conforming']))
        for s in r['samples'][:1]:
            ck.sample('buffer manager history replayed: ' + s)
        for v in r['violations']:
            if v['property'] == prop:
                ck.violation('%s (buffer manager, classes %s x %s): %s | %s' % (v['kind'], v['conf']['caps'], v['conf']['counts'], v['detail'], ' '.join(v['history'])),
                             {'kind': 'bufmgr', 'conf': v['conf'], 'history': v['history'], 'seed': v.get('seed'), 'run': v.get('run')})
            else:
                ck.notes.append('buffer manager level: also saw a %s violation (%s)' % (v['property'], v['kind']))
        if r['drift_count']:
            for d in r['drift']:
                print('SPEC-DRIFT module=BufMgr at=%s' % d[:400])
            ck.cov['spec_drift'] = True
        if ck.violations:
            return


def replay(ck, prop, rep):
    conf = rep['conf']
    hist = rep['history']
    if hist and hist[0].startswith('random concurrent'):
        job = {'conf': conf, 'edges': [], 'init': 0, 'histories': [], 'all_paths': False,
               'random': {'n': (rep.get('run') or 0) + 1, 'seed': rep.get('seed') or 1,
                          'confs': [{'caps': c, 'counts': n} for c, n in CONFS] + [{'caps': [4], 'counts': [5]}]}}
    else:
        edges = []
        for i, name in enumerate(hist):
            m = re.match(r'(\w+)\((\d+)\)', name)
            edges.append([i, i + 1, m.group(1), int(m.group(2)), []])
        job = {'conf': conf, 'edges': edges, 'init': 0, 'histories': [list(range(len(edges)))], 'all_paths': False,
               'random': {'n': 0, 'seed': 1, 'confs': []}}
    g = gorun.run_harness('^TestVS_BufMgr$', HARNESS, INSTR, inputs={'job': job}, timeout=900)
    if g.result is None:
        ck.inconc('harness produced no result: ' + g.out[-600:])
        return
    for v in g.result['violations']:
        if v['property'] == prop:
            ck.violation('%s: %s' % (v['kind'], v['detail']), rep)
