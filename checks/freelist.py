"""C01 / C02 — module FreeList, binding B1 (schedule replay at shared-access granularity) in both directions."""
import json, os, random, re, time
from vlib import tlc, tlaval, gorun, core

PROPS = ['C01', 'C02']

INSTR = {"files": {
    "buffer_manager.go": {"funcs": ["bufferList.pop", "bufferList.push"]},
    "buffer_slice.go": {"funcs": ["bufferHeader.*"], "recvIndex": ["bufferHeader"]},
}}
HARNESS = ['zz_vs_sched.go', 'zz_freelist_test.go']
KNOWN_DIR = os.path.join(core.ROOT, 'known')

CFG_TMPL = """SPECIFICATION Spec
CONSTANTS
  NSlots = %(nslots)d
  Threads = {%(threads)s}
  MaxOps = %(maxops)d
  MaxRetry = 200
  MaxLinks = %(links)d
  RetryView = %(retry)d
CONSTRAINT RetryBound
%(aba)s
VIEW View
INVARIANTS NoDoubleOwner NoSelfDouble NoForeignWrite SizeBound IdleSizeExact QuiescentWellFormed
CHECK_DEADLOCK FALSE
"""

TRACE_CFG = """SPECIFICATION TraceSpec
CONSTANTS
  NSlots = %(nslots)d
  Threads = {%(threads)s}
  MaxOps = 100000
  MaxRetry = 200
  MaxLinks = 2
  RetryView = 200
INVARIANTS TraceNoDoubleOwner TraceNoForeignWrite TraceSizeBound TraceIdleSizeExact TraceQuiescent
POSTCONDITION TraceAccepted
CHECK_DEADLOCK FALSE
"""


def cfg(nslots, nthreads, maxops, retry, prune_aba=True, links=0):
    return CFG_TMPL % dict(nslots=nslots, threads=', '.join(str(i + 1) for i in range(nthreads)), maxops=maxops,
                           retry=retry, links=links, aba='CONSTRAINT NoAbaSoFar' if prune_aba else '')


def state_vec(st, nslots):
    nxt = tlaval.seq_or_fn(st['nxt'], list(range(nslots)))
    flag = tlaval.seq_or_fn(st['flag'], list(range(nslots)))
    return [st['head'], st['tail'], st['size'], st['counter']] + [nxt[s] for s in range(nslots)] + \
           [flag[s] for s in range(nslots)]


def step_of(label, dst_state):
    m = re.match(r'(\w+)\((\d+)\)', label)
    act, t = m.group(1), int(m.group(2))
    def reg(name):
        v = dst_state[name]
        return v[t - 1] if isinstance(v, list) else v[t]
    if act == 'PopStart':
        return t, 1, 0, 0
    if act == 'PushStart':
        return t, 2, reg('buf'), 0
    if act == 'LinkStart':
        a = reg('buf')
        mn = dst_state['mnext']
        b = mn[a] if isinstance(mn, dict) else mn[a]
        return t, 3, a, b
    if act == 'ChainStart':
        return t, 4, reg('ca'), 0
    return t, 0, 0, 0


def schedules_from_graph(nodes_txt, edges, inits, nslots, rng, max_paths=None):
    paths, remaining = tlc.cover_paths(inits, edges, max_paths=max_paths, rng=rng)
    parsed = {}
    index = {}
    states = []

    def node(nid):
        if nid not in parsed:
            parsed[nid] = tlaval.parse_state(nodes_txt[nid])
            index[nid] = len(states)
            states.append(state_vec(parsed[nid], nslots))
        return parsed[nid]

    scheds = []
    for pi, path in enumerate(paths):
        steps = []
        for e in path:
            s, d, label = edges[e]
            dst = node(d)
            t, kind, arg, arg2 = step_of(label, dst)
            steps.append([t, kind, arg, index[d], arg2])
        scheds.append({'name': 'cover-%d' % pi, 'steps': steps})
    return scheds, states, remaining


def schedules_from_behaviours(behs, nslots, prefix):
    states, scheds = [], []
    for bi, beh in enumerate(behs):
        steps = []
        for label, st in beh[1:]:
            t, kind, arg, arg2 = step_of(label, st)
            states.append(state_vec(st, nslots))
            steps.append([t, kind, arg, len(states) - 1, arg2])
        scheds.append({'name': '%s-%d' % (prefix, bi), 'steps': steps})
    return scheds, states


def run(prop, tier, seed, replay=None):
    ck = core.Check(prop, 'model_checking', tier, seed)
    rng = random.Random(ck.seed)
    ck.assumptions += [
        'sequential consistency of the shared-memory accesses (faithful on amd64/TSO for the plain loads/stores of the '
        'free list; arm64 reordering is not decided)',
        'instrumentation (tools/instr) puts a scheduling point before every shared access of bufferList.pop/push and the '
        'bufferHeader accessors; one TLA+ action = one real access',
        'bounded exhaustiveness: TLC is exhaustive for the stated constants only; larger instances by seeded simulation',
    ]
    known = core.known_findings()
    aba_listed = ('C01', 'aba-pop-head-cas') in known or ('C02', 'aba-pop-head-cas') in known

    if replay:
        return do_replay(ck, replay)

    # ---- 1. design verdict: exhaustive TLC (small constants) with the state graph, turned into a transition cover
    ns, nt = 3, 2
    ck.log('TLC exhaustive: %d slots, %d threads' % (ns, nt))
    res, nodes, edges, inits = tlc.dump_graph('FreeList', 'mc.cfg', timeout=900,
                                              extra_files={'mc.cfg': cfg(ns, nt, 2, 2, True, 1)})
    if res.violation:
        ck.inconc('TLC reports %s on the FreeList specification itself (design-level lead, not a verdict on the code): %s'
                  % (res.violation, res.cmd))
        return ck.finish()
    if not res.ok or not edges:
        ck.inconc('TLC did not complete: %s' % (res.error or 'timeout' if res.timeout else res.out[-500:]))
        return ck.finish()
    ck.add('states', res.distinct)
    ck.add('transitions', len(edges))
    ck.cov['exhaustive'] = True
    ck.cov['tlc_configs'] = ['FreeList %d slots/%d threads/2 pops + 1 message link per thread/retry<=2, ABA pruned: %d distinct states, '
                             '%d transitions, depth %d, %.1fs' % (ns, nt, res.distinct, len(edges), res.depth, res.wall)]
    scheds, states, remaining = schedules_from_graph(nodes, edges, inits, ns, rng)
    ck.log('transition cover: %d paths, %d edges uncovered' % (len(scheds), remaining))
    witness = []
    wpath = os.path.join(KNOWN_DIR, 'freelist_aba_4x3.json')
    job = {'nslots': ns, 'nthreads': nt, 'capper': 4, 'states': states, 'Schedules': scheds,
           'random': {'n': 4000 if tier == 'quick' else 40000, 'seed': ck.seed, 'maxops': 6, 'traces': 150 if tier == 'quick' else 600, 'links': True,
                      'nslots': [2, 3, 4, 5], 'threads': [2, 3, 4]},
           'retry_exhaust': True, 'known_aba': aba_listed}
    wd = tlc.scratch('vfl')
    try:
        job['trace_file'] = os.path.join(wd, 'trace.ndjson')
        g = gorun.run_harness('^TestVS_FreeList$', HARNESS, INSTR, inputs={'job': job}, timeout=1500, workdir=wd)
        if g.result is None:
            ck.inconc('harness produced no result (rc=%d): %s' % (g.rc, g.out[-1500:]))
            return ck.finish()
        r = {k: ([] if v is None else v) for k, v in g.result.items()}
        handle_result(ck, r, prop, 'cover')
        ck.add('traces_validated_against_impl', r['conforming'])
        ck.cov['replayed_behaviours'] = r['replayed']
        ck.cov['replay_steps'] = r['replay_steps']
        ck.cov['conforming_behaviours'] = r['conforming']
        ck.cov['spec_drift'] = r['drift_count'] > 0
        if r['drift_count']:
            for d in r['drift']:
                print('SPEC-DRIFT module=FreeList at=%s' % d)
            ck.notes.append('spec drift: the real code no longer takes the steps of the specification; exhaustiveness '
                            'does not transfer, schedules were used as plain interleavings; oracles still evaluated')
        ck.cov['random_runs'] = r['random_runs']
        ck.cov['random_distinct_schedules'] = r['random_distinct']
        ck.cov['quiescence_checks'] = r['quiescent_checks']
        ck.cov['retry_exhaustion_scenario'] = r['retry_exhaust']
        ck.cov['access_labels_exercised'] = sorted(r.get('labels') or [])
        for s in r['samples']:
            ck.sample('random schedule on real code: ' + s)
        if scheds:
            ck.sample({'tlc_behaviour_replayed': scheds[0]['name'],
                       'steps[thread,kind,slot,stateIndex]': scheds[0]['steps'][:40]})
        # ---- 2. code -> spec: validate the recorded traces
        if r['traces_logged'] and not r.get('violations'):
            tv = tlc.run('Trace_FreeList', 'trace.cfg', workers=1, timeout=600, extra_files={
                'trace.cfg': TRACE_CFG % dict(nslots=ns, threads=', '.join(str(i + 1) for i in range(nt))),
                'TracePath.tla': '---- MODULE TracePath ----\nTracePath == "%s"\n====\n' % job['trace_file']})
            if tv.ok:
                ck.add('traces_validated_against_impl', r['traces_logged'])
                ck.cov['real_traces_accepted'] = r['traces_logged']
                ck.cov['real_trace_events'] = r['trace_events']
            elif tv.violation:
                m = re.search(r'TRACE-REJECTED-AT-LINE", (\d+)', tv.out)
                if tv.violation.startswith('Trace') and tv.violation != 'postcondition' and not m:
                    # a property invariant failed on a state of a real execution
                    pid = 'C01' if tv.violation in ('TraceNoDoubleOwner', 'TraceNoForeignWrite') else 'C02'
                    if pid == prop:
                        keep = os.path.join(core.REPLAYS, '%s_trace_%d.ndjson' % (prop, ck.seed))
                        os.makedirs(core.REPLAYS, exist_ok=True)
                        import shutil
                        shutil.copy(job['trace_file'], keep)
                        ck.violation('invariant %s of FreeList is false on a state of a recorded real execution' % tv.violation,
                                     {'kind': 'trace', 'trace': keep, 'nslots': ns, 'nthreads': nt})
                else:
                    line = m.group(1) if m else '?'
                    print('SPEC-DRIFT module=FreeList at=trace line %s (real step is not a step of the specification)' % line)
                    ck.cov['spec_drift'] = True
                    ck.notes.append('real trace rejected at line %s' % line)
            else:
                ck.inconc('trace validation did not complete: ' + (tv.error or tv.out[-400:]))
    finally:
        import shutil
        shutil.rmtree(wd, ignore_errors=True)

    # ---- 3. known finding: replay the listed witness on the real code
    if os.path.exists(wpath):
        wit = json.load(open(wpath))
        wjob = {'nslots': wit['nslots'], 'nthreads': wit['nthreads'], 'capper': 4, 'states': wit.get('states', []),
                'Schedules': [{'name': 'aba-witness', 'steps': wit['steps']}],
                'random': {'n': 0, 'seed': 1, 'maxops': 1, 'traces': 0, 'nslots': [3], 'threads': [2]}, 'known_aba': False,
                'only_prop': prop}
        g = gorun.run_harness('^TestVS_FreeList$', HARNESS, INSTR, inputs={'job': wjob}, timeout=600)
        if g.result and g.result.get('violations'):
            v = g.result.get('violations')[0]
            if aba_listed:
                if v['property'] == prop or prop == 'C02':
                    what = known.get((prop, 'aba-pop-head-cas'), '')
                    ck.known('aba-pop-head-cas', '%s [witness replayed on real code: %s]' % (what, v['detail']))
            else:
                if v['property'] == prop:
                    ck.violation('ABA witness: ' + v['detail'], {'kind': 'schedule', **wjob})
        else:
            ck.notes.append('the listed ABA witness no longer reproduces on this tree')

    # ---- 3b. the buffer manager above the free lists (several classes, alloc falling through, chains): module BufMgr
    if not ck.violations and not ck.inconclusive:
        from checks import bufmgr
        bufmgr.run_into(ck, prop, tier)

    # ---- 4. thorough: bigger instances by exhaustive TLC (ABA pruned) + simulation replayed
    if tier == 'thorough' and not ck.violations:
        thorough(ck, prop, rng, aba_listed)
    ck.cov['known_finding_class_executions_pruned'] = ck.cov.get('known_finding_class_executions_pruned', 0)
    return ck.finish()


def handle_result(ck, r, prop, what):
    ck.add('known_finding_class_executions_pruned', r.get('known_hits', 0))
    for v in (r.get('violations') or []):
        if v['property'] == prop:
            ck.violation('%s (%s): %s' % (v['kind'], v['schedule'], v['detail']),
                         {'kind': 'schedule', 'nslots': v['nslots'], 'nthreads': v['nthreads'], 'capper': 4,
                          'steps': v.get('steps') or [], 'detail': v['detail']})
        else:
            ck.notes.append('also saw a %s violation (%s) - reported by that property\'s own check' % (v['property'], v['kind']))


def thorough(ck, prop, rng, aba_listed):
    # exhaustive 3 threads on 3 slots (no ABA possible with < 4 slots), then simulation of 4 slots/3 threads replayed
    for (ns, nt, mo, rv, to) in [(3, 3, 1, 1, 1500), (4, 2, 2, 1, 1500), (4, 3, 1, 1, 1500), (4, 3, 2, 1, 900)]:
        ck.log('TLC exhaustive: %d slots, %d threads, %d pops' % (ns, nt, mo))
        res = tlc.run('FreeList', 'mc.cfg', timeout=to, extra_files={'mc.cfg': cfg(ns, nt, mo, rv, True, 1)})
        if res.violation:
            ck.inconc('TLC reports %s on the specification (%d slots/%d threads)' % (res.violation, ns, nt))
            return
        if res.ok:
            ck.add('states', res.distinct)
            ck.add('transitions', res.generated)
            ck.cov['tlc_configs'].append('FreeList %d slots/%d threads/%d pops, ABA pruned: %d distinct, depth %d, %.0fs'
                                         % (ns, nt, mo, res.distinct, res.depth, res.wall))
        else:
            ck.cov['tlc_configs'].append('FreeList %d slots/%d threads/%d pops: not finished in %ds (%d distinct so far)'
                                         % (ns, nt, mo, to, res.distinct))
    for (ns, nt) in [(4, 3), (5, 4)]:
        sres, behs = tlc.simulate('FreeList', 'mc.cfg', num=400, depth=150, seed=ck.seed, timeout=600,
                                  extra_files={'mc.cfg': cfg(ns, nt, 3, 2, True, 1)})
        scheds, states = schedules_from_behaviours(behs, ns, 'sim%dx%d' % (ns, nt))
        job = {'nslots': ns, 'nthreads': nt, 'capper': 4, 'states': states, 'Schedules': scheds,
               'random': {'n': 0, 'seed': ck.seed, 'maxops': 1, 'traces': 0, 'nslots': [3], 'threads': [2]},
               'known_aba': aba_listed}
        g = gorun.run_harness('^TestVS_FreeList$', HARNESS, INSTR, inputs={'job': job}, timeout=1200)
        if g.result is None:
            ck.inconc('harness (simulation replay) produced no result: ' + g.out[-800:])
            return
        handle_result(ck, g.result, prop, 'sim')
        ck.add('traces_validated_against_impl', g.result['conforming'])
        ck.cov['tlc_configs'].append('simulation %d slots/%d threads: %d behaviours replayed, %d conforming'
                                     % (ns, nt, g.result['replayed'], g.result['conforming']))


def do_replay(ck, path):
    rep = json.load(open(path))
    if rep.get('kind') == 'bufmgr':
        from checks import bufmgr
        ck.cov['evaluations'] = 1
        ck.cov['distinct_nontrivial'] = 1
        bufmgr.replay(ck, ck.prop, rep)
        return ck.finish()
    if rep.get('kind') == 'trace':
        tv = tlc.run('Trace_FreeList', 'trace.cfg', workers=1, timeout=600, extra_files={
            'trace.cfg': TRACE_CFG % dict(nslots=rep['nslots'], threads=', '.join(str(i + 1) for i in range(rep['nthreads']))),
            'TracePath.tla': '---- MODULE TracePath ----\nTracePath == "%s"\n====\n' % rep['trace']})
        print(tv.out[-3000:])
        if tv.violation:
            ck.violation('recorded real trace violates ' + tv.violation, rep, name=os.path.basename(path))
        return ck.finish()
    job = {'nslots': rep['nslots'], 'nthreads': rep['nthreads'], 'capper': rep.get('capper', 4), 'states': [],
           'Schedules': [{'name': 'replay', 'steps': [s[:3] + [-1] + [s[4] if len(s) > 4 else 0] for s in rep['steps']]}],
           'random': {'n': 0, 'seed': 1, 'maxops': 1, 'traces': 0, 'nslots': [3], 'threads': [2]}, 'known_aba': False}
    g = gorun.run_harness('^TestVS_FreeList$', HARNESS, INSTR, inputs={'job': job}, timeout=600)
    if g.result is None:
        ck.inconc('harness produced no result: ' + g.out[-800:])
        return ck.finish()
    ck.cov['evaluations'] = 1
    ck.cov['distinct_nontrivial'] = 1
    for v in g.result.get('violations'):
        ck.violation('%s: %s' % (v['kind'], v['detail']), rep, name=os.path.basename(path))
    return ck.finish()
