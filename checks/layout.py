"""C03 - module Layout, binding B2: every configuration TLC enumerates (with the geometry the specification predicts) is
executed on the real create/mapping code of both back-ends; see checks/layout_NOTES.md."""
import json, os, random, re, shutil
from concurrent.futures import ThreadPoolExecutor
from vlib import tlc, gorun, core

PROPS = ['C03']
HARNESS = ['zz_layout_test.go']
INV = 'NoPanic PeerMaps LayoutSound PeerSame HeldWords SortedThroughGlobal QueueSound CrossWired ArmAligned'
SLUG_SIZE = 'size-plus-header-wraps-uint32'
SLUG_QUEUE = 'queue-cap-times-12-wraps-uint32'
SLUG_PCT = 'percent-sum-wraps-uint32'

CFG = """SPECIFICATION Spec
CONSTANTS
  MemLens <- MCMemLens
  Sizes <- MCSizes
  Percents <- MCPercents
  Sizes2 <- MCSizes2
  Percents2 <- MCPercents2
  Sizes3 <- MCSizes3
  Percents3 <- MCPercents3
  Globals = %(globals)s
  Extra <- MCExtra
  QueueCaps <- MCQueueCaps
  Arms <- MCArms
  Helds <- MCHelds
  SmallCap = %(smallcap)d
  M = %(m)d
  Emit = %(emit)s
INVARIANTS %(inv)s
%(constraints)s
CHECK_DEADLOCK FALSE
"""


def tset(xs):
    return '{' + ', '.join(str(x) for x in sorted(set(xs))) + '}'


def wrapper(g):
    extra = ', '.join('<<%d, <<%s>>, %s>>' % (m, ', '.join('<<%d, %d>>' % (s, p) for s, p in ps), 'TRUE' if gl else 'FALSE')
                      for m, ps, gl in g.get('extra', []))
    return ('---- MODULE MC_Layout ----\nEXTENDS Layout\n'
            'MCMemLens == %s\nMCSizes == %s\nMCPercents == %s\nMCSizes2 == %s\nMCPercents2 == %s\nMCSizes3 == %s\nMCPercents3 == %s\n'
            'MCQueueCaps == %s\nMCArms == {FALSE, TRUE}\nMCHelds == %s\nMCExtra == <<%s>>\n====\n'
            % (tset(g['mem']), tset(g['s1']), tset(g['p1']), tset(g['s2']), tset(g['p2']), tset(g['s3']), tset(g['p3']),
               tset(g['qcaps']), tset(g.get('helds', [0, 1, -1])), extra))


def cfg(g, m=0, emit=True, constraints=()):
    return CFG % dict(globals='TRUE' if g.get('globals', True) else 'FALSE', smallcap=g.get('smallcap', 40), m=m,
                      emit='TRUE' if emit else 'FALSE', inv=INV,
                      constraints='\n'.join('CONSTRAINT ' + c for c in constraints))


def realistic(rng, n, maxmem):
    """random default-like configurations: 1 MiB .. maxmem, 1-4 classes, percentages that mostly (not always) sum to 100"""
    base = [64, 256, 1000, 1024, 4096 - 20, 8192 - 20, 16 * 1024, 32 * 1024 - 20, 64 * 1024, 128 * 1024 - 20, 1 << 20]
    out = []
    for _ in range(n):
        mem = rng.choice([1 << 20, (1 << 20) + rng.randrange(1, 4096), rng.randrange(1 << 20, maxmem + 1), maxmem])
        k = rng.randrange(1, 5)
        lo = 1 if mem <= (4 << 20) else 1000                  # keeps the slot count (and the run time) bounded
        sizes = [rng.choice([b for b in base if b >= lo]) if rng.random() < 0.7 else rng.randrange(lo, 300000) for _ in range(k)]
        cuts = sorted(rng.randrange(0, 101) for _ in range(k - 1))
        pcts = [b - a for a, b in zip([0] + cuts, cuts + [100])]
        r = rng.random()
        if r < 0.1:
            pcts[rng.randrange(k)] += rng.randrange(1, 30)      # sum > 100
        elif r < 0.2 and max(pcts) > 1:
            i = pcts.index(max(pcts))
            pcts[i] -= rng.randrange(1, pcts[i])                # sum < 100
        if rng.random() < 0.5:
            sizes.sort()
        gl = len(set(sizes)) == len(sizes)                      # deterministic sort -> goes through the back-ends
        out.append((mem, list(zip(sizes, pcts)), gl))
    return out


def grids(tier, rng):
    if tier == 'quick':
        exact = dict(mem=[0, 1, 7, 8, 44, 45, 65, 81, 117, 200, 256, 400, 600, 1000, 2500],
                     s1=list(range(0, 45)) + [100, 1000], p1=[0, 1, 2, 5, 10, 33, 50, 90, 99, 100, 101],
                     s2=[0, 1, 3, 16, 40], p2=[0, 1, 10, 33, 50, 100],
                     s3=[1, 3, 16], p3=[10, 33, 50], qcaps=[0, 1, 2, 3, 4, 7, 8, 100, 8192], extra=realistic(rng, 60, 8 << 20))
        wrap = dict(mem=[1, 44, 57, 100, 200, 254, 255], s1=range(256), p1=[0, 1, 50, 100, 156, 206, 255],
                    s2=[0, 1, 8, 30, 100, 235, 236, 237, 255], p2=[0, 1, 50, 100, 156, 206, 255], s3=[1, 30], p3=[50, 206, 255],
                    qcaps=range(41), globals=False, smallcap=300)
    else:
        exact = dict(mem=[0, 1, 4, 5, 7, 8, 9, 43, 44, 45, 57, 64, 65, 80, 81, 117, 128, 200, 256, 300, 512, 600, 1000, 1500],
                     s1=list(range(0, 50)) + [100, 1000], p1=list(range(0, 102)) + [150, 1000],
                     s2=[0, 1, 3, 8, 16, 21, 40, 100], p2=[0, 1, 10, 25, 33, 50, 67, 99, 100, 101],
                     s3=[1, 3, 16], p3=[10, 33, 34, 50], qcaps=list(range(0, 70)) + [100, 1000, 8191, 8192, 16384, 65536, 1 << 20],
                     extra=realistic(rng, 300, 32 << 20) + realistic(rng, 4, 256 << 20))
        wrap = dict(mem=[1, 8, 43, 44, 45, 57, 64, 65, 80, 100, 150, 200, 250, 254, 255], s1=range(256),
                    p1=[0, 1, 33, 50, 99, 100, 101, 156, 206, 255],
                    s2=[0, 1, 8, 30, 100, 200, 235, 236, 237, 255], p2=[0, 1, 50, 100, 156, 206, 255], s3=[1, 30, 236], p3=[50, 206, 255],
                    qcaps=range(64), globals=False, smallcap=300)
    return exact, wrap


def run_tlc(g, name, m=0, emit=False, constraints=(), timeout=1500, workers=8):
    return tlc.run('MC_Layout', name + '.cfg', workers=workers, timeout=timeout,
                   extra_files={'MC_Layout.tla': wrapper(g), name + '.cfg': cfg(g, m, emit, constraints)})


def inits(res):
    m = re.search(r'Finished computing initial states: (\d+)', res.out)
    return int(m.group(1)) if m else 0


def rows_of(out):
    rows = []
    for m in re.finditer(r'^"@([BQ]) <<([-0-9, ]*)>>"\s*$', out, re.M):
        rows.append(m.group(1) + ' ' + m.group(2).replace(',', ''))
    return rows


def lead_cfg(res):
    for label, st in reversed(res.trace):
        c = st.get('cfg')
        if isinstance(c, dict) and ('pairs' in c or 'cap' in c):
            return {k: v for k, v in c.items()}
    return None


def harness(ck, job, rows, timeout):
    wd = tlc.scratch('vly')
    try:
        if rows is not None:
            job['rows_file'] = os.path.join(wd, 'rows.txt')
            with open(job['rows_file'], 'w') as fh:
                fh.write('\n'.join(rows) + '\n')
        g = gorun.run_harness('^TestVS_Layout$', HARNESS, None, inputs={'job': job}, timeout=timeout, workdir=wd)
        if g.result is None:
            ck.inconc('harness produced no result (rc=%d): %s' % (g.rc, g.out[-1500:]))
            return None
        return g.result
    finally:
        shutil.rmtree(wd, ignore_errors=True)


def report(ck, r, known, name=None):
    """violations / known findings / drift of one harness result"""
    for v in r['violations'][:6]:
        where = {0: 'plain []byte', 1: 'file in /dev/shm', 2: 'memfd'}.get(v['backend'], '?')
        ck.violation('%s on %s, case %s %s: %s' % (v['kind'], where, v['tag'], v['row'], v['detail']),
                     {'tag': v['tag'], 'row': v['row'], 'backend': v['backend'], 'detail': v['detail']}, name=name)
    if r['violation_count'] > len(r['violations'][:6]):
        ck.notes.append('%d violating executions in total, first ones reported' % r['violation_count'])
    for slug in (SLUG_SIZE, SLUG_PCT, SLUG_QUEUE):
        w = r['witness'].get(slug)
        if w is None:
            continue
        if w['reproduced']:
            if ('C03', slug) in known:
                ck.known(slug, '%s [witness reproduced on the real code: %s]' % (known[('C03', slug)], w['detail']))
            else:
                ck.violation('finding %s (not listed in known-findings.txt): %s' % (slug, w['detail']), {'tag': 'W', 'slug': slug},
                             name=name)
        else:
            ck.notes.append('witness of %s does not reproduce on this tree' % slug)
    if r['drift_count']:
        for d in r['drift']:
            print('SPEC-DRIFT module=Layout at=%s' % d)
        ck.cov['spec_drift'] = True
        ck.notes.append('spec drift in %d executions: the real code lays memory out differently from the specification (or '
                        'rejects/accepts other configurations) while every property oracle held; exhaustiveness of the '
                        'model no longer transfers' % r['drift_count'])


def run(prop, tier, seed, replay=None):
    ck = core.Check(prop, 'model_checking', tier, seed)
    rng = random.Random(ck.seed)
    known = core.known_findings()
    ks, kq, kp = ('C03', SLUG_SIZE) in known, ('C03', SLUG_QUEUE) in known, ('C03', SLUG_PCT) in known
    ck.assumptions += [
        'the specification uses mathematical integers (M = 0) for the conformance-bound grid: exact below 2^30-byte mappings; '
        'the uint32/uint64 wrap corners are explored on a reduced word width (M = 256) and, at the real width, by harness-side '
        'edge cases on a sparse 4 GiB mapping that have no TLC prediction (oracles only)',
        'a mapping too small for its own headers must be rejected (spec deviation D1); the real code is checked to do so',
        'the peer process is played by a second mapping in the same process (file: re-opened path; memfd: dup of the descriptor, '
        'as SCM_RIGHTS would deliver it) with the process-global bufferManagers registry entry removed in between',
        'only the architecture the check runs on is bound (isArmArch() false on amd64); the ARM header variant is model-checked only',
        'offset 0 only, at most 3 classes on the grid (4 in the random realistic configurations), empty class list excluded (VerifyConfig)',
    ]
    if replay:
        rep = json.load(open(replay))
        ck.cov['evaluations'] = 1
        ck.cov['distinct_nontrivial'] = 1
        job = {'seed': ck.seed, 'force_backend': rep.get('backend', 0), 'known_size_wrap': False, 'known_queue_wrap': False, 'known_pct_wrap': False,
               'witnesses': rep.get('tag') == 'W', 'edge': False}
        rows = None if rep.get('tag') == 'W' else [rep['tag'] + ' ' + ' '.join(str(x) for x in rep['row'])]
        r = harness(ck, job, rows, 600)
        if r is not None:
            if rep.get('tag') == 'W':
                r['witness'] = {k: v for k, v in r['witness'].items() if k == rep.get('slug')}
                known = {}
            report(ck, r, known, name=os.path.basename(replay))
        return ck.finish()

    exact, wrap = grids(ck.tier, rng)
    big = ck.tier == 'thorough'
    ck.log('TLC: exact grid, reduced-width grid and three lead runs in parallel')
    with ThreadPoolExecutor(5) as ex:
        f_exact = ex.submit(run_tlc, exact, 'exact', 0, True, (), 3000 if big else 900, 12)
        f_wrap = ex.submit(run_tlc, wrap, 'wrap', 256, False, ('NoSizeWrap', 'NoPercentWrap', 'NoQueueWrap'), 3000 if big else 900, 6)
        f_lb = ex.submit(run_tlc, dict(wrap, qcaps=[]), 'leadbuf', 256, False, ('NoPercentWrap',), 900, 2)
        f_lp = ex.submit(run_tlc, dict(wrap, qcaps=[]), 'leadpct', 256, False, ('NoSizeWrap',), 900, 2)
        f_lq = ex.submit(run_tlc, dict(wrap, mem=[]), 'leadq', 256, False, (), 900, 2)
        res, wres, lb, lp, lq = f_exact.result(), f_wrap.result(), f_lb.result(), f_lp.result(), f_lq.result()
    ck.cov['tlc_configs'] = []
    if res.violation:
        ck.inconc('TLC reports %s on the Layout specification itself (design-level lead, not a verdict on the code); configuration %s'
                  % (res.violation, lead_cfg(res)))
        return ck.finish()
    if not res.ok:
        ck.inconc('TLC did not complete on the exact grid: %s' % (res.error or ('timeout' if res.timeout else res.out[-500:])))
        return ck.finish()
    rows = rows_of(res.out)
    nb = sum(1 for x in rows if x[0] == 'B')
    nq = len(rows) - nb
    ck.add('states', res.distinct)
    ck.add('transitions', res.generated - inits(res))
    ck.cov['exhaustive'] = True
    ck.cov['configurations_enumerated_by_tlc'] = {'buffer': nb, 'queue': nq, 'random_realistic_among_buffer': len(exact['extra'])}
    ck.cov['tlc_configs'].append('Layout exact (M=0): %d buffer + %d queue configurations, %d distinct states, %d transitions, '
                                 'depth %d, %.1fs' % (nb, nq, res.distinct, res.generated - inits(res), res.depth, res.wall))
    ck.log(ck.cov['tlc_configs'][-1])
    if nb == 0 or nq == 0:
        ck.inconc('TLC printed no prediction rows')
        return ck.finish()
    # reduced word width: everything outside the recorded classes must be sound; the lead runs must find the classes
    if wres.ok:
        ck.add('states', wres.distinct)
        ck.add('transitions', wres.generated - inits(wres))
        ck.cov['tlc_configs'].append('Layout reduced width (M=256, wrap classes of the three findings excluded by CONSTRAINT): '
                                     '%d distinct states, %.1fs, all invariants hold' % (wres.distinct, wres.wall))
    elif wres.violation:
        ck.inconc('reduced-width model (M=256) violates %s outside the recorded wrap classes at %s - a design-level lead that '
                  'has no real-width witness yet' % (wres.violation, lead_cfg(wres)))
    else:
        ck.notes.append('reduced-width run did not finish: ' + (wres.error or 'timeout')[:200])
    leads = []
    for nm, l in (('buffer/size', lb), ('buffer/percent', lp), ('queue', lq)):
        if l.violation:
            leads.append({'kind': nm, 'invariant': l.violation, 'reduced_width_configuration': str(lead_cfg(l))})
        elif l.ok:
            ck.notes.append('reduced-width %s model without the classifier constraint no longer violates anything' % nm)
    ck.cov['design_leads_from_reduced_width'] = leads
    ck.log('leads:', leads)

    job = {'seed': ck.seed, 'backend_permille': 60 if not big else 30, 'force_backend': -1, 'known_size_wrap': ks,
           'known_queue_wrap': kq, 'known_pct_wrap': kp, 'witnesses': True, 'edge': True}
    r = harness(ck, job, rows, 2400 if big else 600)
    if r is None:
        return ck.finish()
    report(ck, r, known)
    ck.add('traces_validated_against_impl', r['conforming'])
    for k in ('rows', 'buf_executions', 'create_ok', 'create_err', 'peer_mapped', 'backend_file', 'backend_memfd', 'slots_checked', 'buffers_held_while_peer_mapped',
              'slices_popped', 'bytes_patterned', 'queue_executions', 'queue_elements', 'edge_cases', 'edge_skipped_known',
              'skipped_arm_rows', 'oob_header_write', 'memfd_left_open_on_failed_create', 'counter_offsets'):
        ck.cov[k] = r[k]
    ck.cov.setdefault('spec_drift', False)
    ck.cov['known_finding_class_executions_pruned'] = r['edge_skipped_known']
    if r['rows'] != len(rows):
        ck.inconc('harness executed %d of %d rows' % (r['rows'], len(rows)))
    if r['create_ok'] == 0 or r['create_err'] == 0 or r['queue_executions'] == 0:
        ck.inconc('vacuous run: %d layouts created, %d rejected, %d queue pairs' % (r['create_ok'], r['create_err'], r['queue_executions']))
    for s in r['samples']:
        ck.sample(s)
    ck.sample({'tlc_row': rows[len(rows) // 2],
               'format': 'B viaGlobal held memLen nPairs (size pct)* creatorOk peerOk nLists (off cap capPer sizeWord headWord)* used | Q cap arm total '
                         'A.send A.recv B.send B.recv head tail flag ring ringBytes'})
    if r['oob_header_write']:
        ck.notes.append('createBufferManager stores the 2-byte listNum before validating the size: with a 1-byte mapping it writes '
                        '1 byte past it and then returns an error (%d executions; unreachable through the mmap back-ends, whose '
                        'mappings are page-granular)' % r['oob_header_write'])
    return ck.finish()
