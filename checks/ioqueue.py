"""C04 / C05 — module IOQueue, binding B1 in both directions (see checks/freelist.py for the pattern)."""
import json, os, random, re, shutil
from vlib import tlc, tlaval, gorun, core

PROPS = ['C04', 'C05']

INSTR = {"files": {
    "queue.go": {"funcs": ["queue.put", "queue.pop", "queue.size", "queue.markWorking", "queue.markNotWorking"]},
    "session.go": {"funcs": ["Session.wakeUpPeer"]},
}}
HARNESS = ['zz_vs_sched.go', 'zz_freelist_test.go', 'zz_ioqueue_test.go']
C04_INV = 'Bounded Intact Fifo PerProducerOrder FullTruth AllDelivered'
C05_INV = 'NoStranding IdleNonEmptyHasWakeup'

CFG = """SPECIFICATION %(spec)s
CONSTANTS
  Cap = %(cap)d
  Producers = {%(prods)s}
  PerProducer = %(per)d
  Start = %(start)d
INVARIANTS %(inv)s
%(props)s
CHECK_DEADLOCK FALSE
"""
TRACE_CFG = """SPECIFICATION TraceSpec
CONSTANTS
  Cap = %(cap)d
  Producers = {%(prods)s}
  PerProducer = 100000
  Start = %(start)d
INVARIANTS %(inv)s
POSTCONDITION TraceAccepted
CHECK_DEADLOCK FALSE
"""


def cfg(cap, nprod, per, start, live=False):
    return CFG % dict(spec='FairSpec' if live else 'Spec', cap=cap, prods=', '.join(str(i + 1) for i in range(nprod)),
                      per=per, start=start, inv=C04_INV + ' ' + C05_INV, props='PROPERTY EventuallyDrained' if live else '')


def code(e):
    return e[0] * 16 + e[1]


def state_vec(st, cap):
    ring = tlaval.seq_or_fn(st['ring'], list(range(cap)))
    v = [st['head'], st['tail'], st['flag'], st['lock'], st['writing'], st['inflight']]
    for i in range(cap):
        for j in range(3):
            v.append(code(ring[i][j]))
    return v


def step_of(label):
    m = re.match(r'(\w+)(?:\(([^)]*)\))?', label)
    act, args = m.group(1), (m.group(2) or '')
    if act.startswith('C'):
        return 0, 1 if act == 'CTake' else 0
    p = int(args.split(',')[0])
    return p, 1 if act == 'PLock' else 0


def schedules_from_graph(nodes_txt, edges, inits, cap, rng):
    paths, remaining = tlc.cover_paths(inits, edges, rng=rng)
    index, states = {}, []

    def node(nid):
        if nid not in index:
            index[nid] = len(states)
            states.append(state_vec(tlaval.parse_state(nodes_txt[nid]), cap))
        return index[nid]

    scheds = []
    for pi, path in enumerate(paths):
        steps = []
        for e in path:
            s, d, label = edges[e]
            who, kind = step_of(label)
            steps.append([who, kind, node(d)])
        scheds.append({'name': 'cover-%d' % pi, 'steps': steps})
    return scheds, states, remaining


def schedules_from_behaviours(behs, cap, prefix):
    states, scheds = [], []
    for bi, beh in enumerate(behs):
        steps = []
        for label, st in beh[1:]:
            who, kind = step_of(label)
            states.append(state_vec(st, cap))
            steps.append([who, kind, len(states) - 1])
        scheds.append({'name': '%s-%d' % (prefix, bi), 'steps': steps})
    return scheds, states


def harness(ck, prop, job, wd=None):
    g = gorun.run_harness('^TestVS_IOQueue$', HARNESS, INSTR, inputs={'job': job}, timeout=1800, workdir=wd)
    if g.result is None:
        ck.inconc('harness produced no result (rc=%d): %s' % (g.rc, g.out[-1500:]))
        return None
    r = {k: ([] if v is None else v) for k, v in g.result.items()}
    for v in r['violations']:
        if v['property'] == prop:
            ck.violation('%s (%s): %s' % (v['kind'], v['schedule'], v['detail']),
                         {'kind': 'schedule', 'cap': v['cap'], 'nprod': v['nprod'], 'perprod': v['perprod'],
                          'start': v['start'], 'steps': v.get('steps') or [], 'detail': v['detail']})
        else:
            ck.notes.append('also saw a %s violation (%s) - reported by that property\'s own check' % (v['property'], v['kind']))
    if r['drift_count']:
        for d in r['drift']:
            print('SPEC-DRIFT module=IOQueue at=%s' % d)
        ck.cov['spec_drift'] = True
        ck.notes.append('spec drift: the real code no longer takes the steps of the specification; exhaustiveness does '
                        'not transfer, schedules were used as plain interleavings; oracles still evaluated')
    return r


def run(prop, tier, seed, replay=None):
    ck = core.Check(prop, 'model_checking', tier, seed)
    rng = random.Random(ck.seed)
    ck.assumptions += [
        'sequential consistency of the shared-memory accesses (the slot stores before tail++ and the slot loads before '
        'head++ are plain; faithful on amd64/TSO, arm64 reordering is not decided)',
        'one TLA+ action = one real shared access (scheduling points inserted by tools/instr); producers share one queue '
        'object (one process), the consumer uses a second mapping of the same bytes',
        'the event connection is a fake that counts polling events; their delivery to the event loop is a scheduler choice',
        'bounded exhaustiveness: TLC is exhaustive for the stated constants only; larger instances by seeded simulation',
    ]
    if replay:
        rep = json.load(open(replay))
        if str(rep.get('detail', '')).startswith('flush-retry'):
            from checks import session
            ck.cov['evaluations'] = 1
            ck.cov['distinct_nontrivial'] = 1
            session.staged_flush_retry(ck, prop, rep.get('qcap', 2))
            return ck.finish()
        job = {'cap': rep['cap'], 'nprod': rep['nprod'], 'perprod': rep['perprod'], 'start': rep['start'], 'states': [],
               'Schedules': [{'name': 'replay', 'steps': [s[:2] + [-1] for s in rep['steps']]}],
               'random': {'n': 0, 'seed': 1, 'traces': 0, 'caps': [2], 'prods': [2], 'perprod': [2]}}
        ck.cov['evaluations'] = 1
        ck.cov['distinct_nontrivial'] = 1
        harness(ck, prop, job)
        return ck.finish()

    cap, nprod, per, start = 2, 2, 2, 1
    ck.log('TLC exhaustive: cap %d, %d producers x %d elements, start index %d' % (cap, nprod, per, start))
    res, nodes, edges, inits = tlc.dump_graph('IOQueue', 'mc.cfg', timeout=900,
                                              extra_files={'mc.cfg': cfg(cap, nprod, per, start)})
    if res.violation:
        ck.inconc('TLC reports %s on the IOQueue specification itself (design-level lead): %s' % (res.violation, res.cmd))
        return ck.finish()
    if not res.ok or not edges:
        ck.inconc('TLC did not complete: %s' % (res.error or res.out[-500:]))
        return ck.finish()
    ck.add('states', res.distinct)
    ck.add('transitions', len(edges))
    ck.cov['exhaustive'] = True
    ck.cov['tlc_configs'] = ['IOQueue cap %d/%d producers x %d/start %d: %d distinct states, %d transitions, depth %d, %.1fs'
                             % (cap, nprod, per, start, res.distinct, len(edges), res.depth, res.wall)]
    if prop == 'C05':
        lv = tlc.run('IOQueue', 'live.cfg', timeout=900, extra_files={'live.cfg': cfg(1, 2, 1 if tier == 'quick' else 2, 0, live=True)})
        if lv.violation:
            ck.inconc('TLC reports %s (liveness, weak fairness) on the IOQueue specification' % lv.violation)
            return ck.finish()
        if lv.ok:
            ck.add('states', lv.distinct)
            ck.add('transitions', lv.generated)
            ck.cov['tlc_configs'].append('liveness <>[](head = tail) under weak fairness, cap 1/2 producers: %d distinct states, %.1fs'
                                         % (lv.distinct, lv.wall))
        else:
            ck.notes.append('liveness run did not finish: ' + (lv.error or 'timeout')[:200])
    scheds, states, remaining = schedules_from_graph(nodes, edges, inits, cap, rng)
    ck.log('transition cover: %d paths, %d edges uncovered' % (len(scheds), remaining))
    wd = tlc.scratch('vio')
    try:
        job = {'cap': cap, 'nprod': nprod, 'perprod': per, 'start': start, 'states': states, 'Schedules': scheds,
               'random': {'n': 3000 if tier == 'quick' else 40000, 'seed': ck.seed, 'traces': 150 if tier == 'quick' else 600,
                          'caps': [1, 2, 3, 4], 'prods': [1, 2, 3, 4], 'perprod': [1, 2, 3, 5]},
               'trace_file': os.path.join(wd, 'trace.ndjson')}
        r = harness(ck, prop, job, wd)
        if r is None:
            return ck.finish()
        ck.add('traces_validated_against_impl', r['conforming'])
        ck.cov['replayed_behaviours'] = r['replayed']
        ck.cov['replay_steps'] = r['replay_steps']
        ck.cov['conforming_behaviours'] = r['conforming']
        ck.cov.setdefault('spec_drift', False)
        ck.cov['random_runs'] = r['random_runs']
        ck.cov['random_distinct_schedules'] = r['random_distinct']
        ck.cov['quiescence_checks'] = r['quiescent_checks']
        ck.cov['queue_full_returns_checked'] = r['full_returns']
        ck.cov['elements_dispatched'] = r['popped']
        ck.cov['access_labels_exercised'] = sorted(r['labels'])
        for s in r['samples']:
            ck.sample('random schedule on real code: ' + s)
        ck.sample({'tlc_behaviour_replayed': scheds[0]['name'], 'steps[who,start,stateIndex]': scheds[0]['steps'][:40]})
        if r['traces_logged'] and not r['violations']:
            tv = tlc.run('Trace_IOQueue', 'trace.cfg', workers=1, timeout=900, extra_files={
                'trace.cfg': TRACE_CFG % dict(cap=cap, prods=', '.join(str(i + 1) for i in range(nprod)), start=start,
                                              inv=C04_INV + ' ' + C05_INV),
                'TracePath.tla': '---- MODULE TracePath ----\nTracePath == "%s"\n====\n' % job['trace_file']})
            if tv.ok:
                ck.add('traces_validated_against_impl', r['traces_logged'])
                ck.cov['real_traces_accepted'] = r['traces_logged']
                ck.cov['real_trace_events'] = r['trace_events']
            elif tv.violation == 'postcondition':
                m = re.search(r'TRACE-REJECTED-AT-LINE", (\d+)', tv.out)
                print('SPEC-DRIFT module=IOQueue at=trace line %s (real step is not a step of the specification)' % (m.group(1) if m else '?'))
                ck.cov['spec_drift'] = True
            elif tv.violation:
                pid = 'C05' if tv.violation in C05_INV.split() else 'C04'
                if pid == prop:
                    keep = os.path.join(core.REPLAYS, '%s_trace_%d.ndjson' % (prop, ck.seed))
                    os.makedirs(core.REPLAYS, exist_ok=True)
                    shutil.copy(job['trace_file'], keep)
                    ck.violation('invariant %s of IOQueue is false on a state of a recorded real execution' % tv.violation,
                                 {'kind': 'trace', 'trace': keep})
            else:
                ck.inconc('trace validation did not complete: ' + (tv.error or tv.out[-400:]))
    finally:
        shutil.rmtree(wd, ignore_errors=True)

    if tier == 'thorough' and not ck.violations:
        for (c, n, p, s, to) in [(1, 2, 2, 0, 900), (3, 2, 2, 2, 1500), (2, 3, 1, 3, 1500)]:
            ck.log('TLC exhaustive: cap %d, %d producers x %d' % (c, n, p))
            tr = tlc.run('IOQueue', 'mc.cfg', timeout=to, extra_files={'mc.cfg': cfg(c, n, p, s)})
            if tr.violation:
                ck.inconc('TLC reports %s on the specification (cap %d/%d producers)' % (tr.violation, c, n))
                return ck.finish()
            if tr.ok:
                ck.add('states', tr.distinct)
                ck.add('transitions', tr.generated)
            ck.cov['tlc_configs'].append('IOQueue cap %d/%d producers x %d/start %d: %s, %d distinct, %.0fs'
                                         % (c, n, p, s, 'complete' if tr.ok else 'not finished', tr.distinct, tr.wall))
        for (c, n, p, s) in [(2, 3, 2, 1), (3, 4, 2, 2), (1, 3, 2, 0)]:
            sres, behs = tlc.simulate('IOQueue', 'mc.cfg', num=400, depth=200, seed=ck.seed, timeout=600,
                                      extra_files={'mc.cfg': cfg(c, n, p, s)})
            sc, stt = schedules_from_behaviours(behs, c, 'sim%d-%d' % (c, n))
            job = {'cap': c, 'nprod': n, 'perprod': p, 'start': s, 'states': stt, 'Schedules': sc,
                   'random': {'n': 0, 'seed': ck.seed, 'traces': 0, 'caps': [2], 'prods': [2], 'perprod': [2]}}
            r = harness(ck, prop, job)
            if r is None:
                return ck.finish()
            ck.add('traces_validated_against_impl', r['conforming'])
            ck.cov['tlc_configs'].append('simulation cap %d/%d producers: %d behaviours replayed, %d conforming'
                                         % (c, n, r['replayed'], r['conforming']))
    if prop == 'C05' and not ck.violations:
        # the retry path of Stream.Flush (queue full at the first attempt, consumer drains and goes idle in between)
        from checks import session
        session.staged_flush_retry(ck, prop)
    return ck.finish()
