"""C14 — module Lifecycle: peer death / session close are contained and release everything.

1. TLC checks Lifecycle.tla exhaustively: the fine-grained design (every interleaving of the steps of Session.Close,
   exitErr, the teardown lambda, the event loop, a writer and the user calls) and the run-to-completion behaviours
   (Atomic = TRUE) whose state graph is dumped.
2. An edge cover of that graph is replayed on pairs of REAL sessions (real newSession / handshake / shared memory / sockets /
   connEventHandler / dispatcher lambdas) whose event loops are turned by the harness exactly when the spec says
   Events / Lambdas; after every procedure the real state is compared with the spec state, and at the end of every
   behaviour the property oracles run on the real objects (pending calls, later calls, callbacks, idempotence, census of
   descriptors / mappings / files / goroutines).
3. User-level projections of the same behaviours run against the untouched epoll dispatcher with the peer severed
   in-process or SIGKILLed as a child process (oracles only).
4. Witnesses of the finding classes are replayed on the real code (raw schedules, one gate-staged interleaving in an
   instrumented build, two inside a child process because they kill it).
Env VERIF_KNOWN_EXTRA=<file>: additional `known:` lines (testing aid for proposed lines not yet in known-findings.txt)."""
import json, os, random, re, shutil, tempfile, threading, time
from vlib import tlc, tlaval, gorun, core

PROPS = ['C14']
HARNESS = ['zz_vs_sched.go', 'zz_lifecycle_test.go']
INSTR_GATE = {"files": {"session.go": {"funcs": ["Session.Close", "Session.OpenStream"], "noLock": ["Session.Close", "Session.OpenStream"]},
                        "queue.go": {"funcs": ["queue.put"]}}}
GATED = ('open-in-close-window', 'flush-races-unmap', 'open-register-after-close')      # witnesses that need the instrumented build
SLUGS = ['no-close-callback-when-busy', 'open-nil-nil', 'flush-nil-after-close', 'write-after-teardown-faults',
         'stream-op-races-unmap', 'accept-after-close']

INTERNAL = {'ExitSetErr', 'CloseCAS', 'CloseErr', 'CloseNotify', 'CloseChan', 'ClosePost', 'DeferredClose', 'LNext', 'TdConn',
            'TdTable', 'TdStream', 'TdWait', 'TdBm', 'TdQueue', 'SendPut', 'DrainEnd'}
USER_LEVEL = {'PeerSend', 'PeerCloseStream', 'PeerDies', 'CloseCall', 'SendCheck', 'StreamClose', 'ParkRead', 'ParkAccept',
              'ParkFlush', 'CbRelease', 'TryOpen'}
INVS = 'TypeOK SurvivorClosed G_ErrorKnown PendingReleased G_LaterFail CallbackAtMostOnce G_CallbackExactlyOnce ' \
       'TeardownOnce AllReleased UnmapOnlyAtEnd'
RAW_INVS = 'ErrorKnown LaterFail CallbackExactlyOnce'


def cfg_text(c, prune=True, invs=INVS, props=''):
    def sset(xs, q=False):
        return '{' + ', '.join(('"%s"' % x) if q else str(x) for x in xs) + '}'
    return ('SPECIFICATION Spec\nCONSTANTS\n  Streams = %s\n  CbStreams = %s\n  Closers = %s\n  Atomic = %s\n  MaxSend = %d\n'
            '  MaxPeerClose = %d\n  WithAccept = %s\n  WithFlush = %s\n  MaxOps = %d\n  LateStreams = %s\n  FixedOpen = %s\n  FixedFlush = %s\n  WithRetry = %s\n  RetryWoken = %s\n  WithSeq = %s\n  FixedReserve = %s\n%sINVARIANTS %s\n%sCHECK_DEADLOCK FALSE\n') % (
        sset(c['streams']), sset(c['cb']), sset(c['closers'], True), 'TRUE' if c['atomic'] else 'FALSE', c['maxsend'],
        c['maxpc'], 'TRUE' if c['accept'] else 'FALSE', 'TRUE' if c['flush'] else 'FALSE', c['maxops'], sset(c.get('late', [])),
        'FALSE' if c.get('prefix') else 'TRUE', 'FALSE' if c.get('prefix') else 'TRUE',
        'TRUE' if c.get('retry') else 'FALSE', 'FALSE' if c.get('noretrywake') else 'TRUE',
        'TRUE' if c.get('seq') else 'FALSE', 'FALSE' if c.get('noreservecheck') else 'TRUE',
        'CONSTRAINT NoKnownFinding\n' if prune else '', invs, ('PROPERTIES %s\n' % props) if props else '')


def describe(c):
    return 'streams=%s%s cb=%s closers=%d %s send<=%d peerclose<=%d accept=%s flush=%s ops<=%d' % (
        c['streams'], ((' late=%s' % c['late']) if c.get('late') else '') + (' flush-in-retry' if c.get('retry') else '') + (' writer-sequences' if c.get('seq') else ''), c['cb'], len(c['closers']), 'run-to-completion' if c['atomic'] else 'all interleavings', c['maxsend'],
        c['maxpc'], c['accept'], c['flush'], c['maxops'])


def quiet(st):
    pc = st['pc']
    for t, p in pc.items():
        if p in ('idle', 'done'):
            continue
        if t == 'loop' and p == 'e_wait' and st.get('nsBusy'):
            continue
        if t == 'loop' and p == 't_wait':
            busy = st['cbBusy']
            cur = st['cur']
            b = busy[cur - 1] if isinstance(busy, list) else busy.get(cur)
            if b:
                continue
        return False
    return True


def per(v, streams):
    if isinstance(v, dict):
        return [v[s] for s in streams]
    return list(v)


def expect(st, streams):
    table_nil = st['tableNil']
    out = sorted(t for t, p in st['pc'].items() if p not in ('idle', 'done'))
    return {
        'shutdown': st['shutdown'], 'serr': st['serr'], 'shutch': st['shutCh'], 'lambdas': len(st['lambdas']), 'conn': st['conn'],
        'st': per(st['st'], streams), 'intable': [bool(x) and not table_nil for x in per(st['inTable'], streams)],
        'tablenil': table_nil, 'notified': per(st['notified'], streams), 'cbbusy': per(st['cbBusy'], streams),
        'cbl': per(st['cbL'], streams), 'cbr': per(st['cbR'], streams), 'unread': per(st['unread'], streams),
        'rd': per(st['rd'], streams), 'fl': st['fl'], 'acc': st['acc'], 'bm': st['bm'], 'qm': st['qm'],
        'flag': st['flag'] if st['qm'] == 'mapped' else -1, 'lastopen': st['lastOpen'], 'lastsend': st['lastSend'], 'out': out, 'nsbusy': st['nsBusy'], 'fr': st['fr'], 'lastseq': st['lastSeq'],
    }


def step_of(label):
    label = label.replace('\\', '')
    m = re.match(r'(\w+)(?:\((.*)\))?', label)
    act = m.group(1)
    arg = (m.group(2) or '').strip().strip('"')
    s = {'a': act, 's': 0, 't': ''}
    if arg:
        if re.fullmatch(r'-?\d+', arg):
            s['s'] = int(arg)
        else:
            s['t'] = arg
    return s


class Graph:
    def __init__(self, nodes, edges, inits, streams):
        self.nodes, self.edges, self.inits, self.streams = nodes, edges, inits, streams
        self.parsed = {}
        self.out = {}
        for i, (s, d, l) in enumerate(edges):
            self.out.setdefault(s, []).append(i)

    def state(self, n):
        if n not in self.parsed:
            self.parsed[n] = tlaval.parse_state(self.nodes[n])
        return self.parsed[n]

    def alternatives(self, start, first_label, reached):
        """quiet states reachable from `start` by the edge labelled first_label followed by internal steps only"""
        res, seen = [], set()
        frontier = [self.edges[e][1] for e in self.out.get(start, []) if self.edges[e][2] == first_label]
        while frontier:
            n = frontier.pop()
            if n in seen:
                continue
            seen.add(n)
            if quiet(self.state(n)):
                if n != reached:
                    res.append(n)
                continue
            for e in self.out.get(n, []):
                if step_of(self.edges[e][2])['a'] in INTERNAL:
                    frontier.append(self.edges[e][1])
        return res

    def schedule(self, path, name):
        steps = []
        group_start, first_label = self.inits[0], None
        for e in path:
            s, d, label = self.edges[e]
            stp = step_of(label)
            if first_label is None:
                group_start, first_label = s, label
            dst = self.state(d)
            if quiet(dst):
                stp['x'] = expect(dst, self.streams)
                alts = self.alternatives(group_start, first_label, d)
                if alts:
                    stp['alts'] = [expect(self.state(a), self.streams) for a in alts]
                first_label = None
            kf = dst.get('kf')
            if kf:
                stp['kf'] = sorted(kf)
            steps.append(stp)
        return {'name': name, 'steps': steps}


def brief(sched):
    return ' '.join('%s%s' % (s['a'], ('(%s)' % (s['s'] or s['t'])) if (s['s'] or s['t']) else '') for s in sched['steps']
                    if s['a'] not in INTERNAL)


def run_go(ck, job, instr=None, timeout=1500):
    """run the harness; on a crash of the test process find the behaviour that crashes it"""
    wd = tempfile.mkdtemp(prefix='vlc-', dir=os.environ.get('VERIF_SCRATCH') or tempfile.gettempdir())
    try:
        g = gorun.run_harness('^TestVS_Lifecycle$', HARNESS, instr, inputs={'job': job}, timeout=timeout, workdir=wd)
        if g.result is not None:
            return g.result, None
        crashed = not g.timeout and ('panic:' in g.out or 'fatal error' in g.out or 'unexpected fault address' in g.out or 'SIGSEGV' in g.out)
        inflight = []
        try:
            started, ended = [], set()
            for line in open(os.path.join(wd, 'progress.log')):
                k, _, n = line.strip().partition(' ')
                if k == 'start':
                    started.append(n)
                elif k == 'end':
                    ended.add(n)
            inflight = [n for n in started if n not in ended]
        except OSError:
            pass
        return None, {'crashed': crashed, 'inflight': inflight, 'out': g.out[-3000:], 'rc': g.rc, 'timeout': g.timeout}
    finally:
        shutil.rmtree(wd, ignore_errors=True)


def harness(ck, job, known, instr=None, label='', timeout=1500):
    """returns list of schedule results; converts crashes of the test process into violations of the behaviour that caused them"""
    res, crash = run_go(ck, job, instr, timeout=timeout)
    if res is not None:
        return res['results']
    if not crash['crashed'] or not crash['inflight']:
        ck.inconc('harness %s produced no result (rc=%s timeout=%s): %s' % (label, crash['rc'], crash['timeout'], crash['out'][-800:]))
        return None
    ck.log('test process crashed, in flight: %s - re-running them one by one' % crash['inflight'])
    by_name = {s['name']: s for s in job['schedules']}
    culprit = None
    for n in crash['inflight'][:6]:
        j1 = dict(job, schedules=[by_name[n]], workers=1)
        r1, c1 = run_go(ck, j1, instr, timeout=600)
        if r1 is None and c1['crashed']:
            culprit = (n, c1['out'])
            break
    if culprit is None:
        ck.inconc('the test process crashed (%s) but no single behaviour reproduces the crash' % crash['out'][-400:])
        return None
    n, out = culprit
    m = re.search(r'(panic: .*|fatal error: .*|unexpected fault address.*)', out)
    ck.violation('the process crashed while replaying %s: %s' % (n, m.group(1) if m else out[-300:]),
                 {'mode': job['mode'], 'schedule': by_name[n], 'detail': out[-1500:]})
    return None


def report(ck, results, job, known, counts, witness=False):
    """turn schedule results into verdict items. Returns number of conforming behaviours."""
    by_name = {s['name']: s for s in job['schedules']}
    conforming = 0
    for r in results:
        counts['behaviours'] += 1
        counts['steps'] += r['steps']
        counts['compared'] += r['compared']
        counts['census'] += r['census_checks']
        counts['later'] += r['later_checks']
        counts['pending'] += r['pending_checks']
        if r['harness']:
            counts['harness_problems'].append('%s: %s' % (r['name'], r['harness'][:200]))
            continue
        if r['conforming'] and not [v for v in r['violations'] if not v.get('known')]:
            conforming += 1
        if r['nd_diverged']:
            counts['nd_diverged'] += 1
        if r['drift']:
            counts['drift'].append('%s %s' % (r['name'], r['drift']))
        for v in r['violations']:
            slug = v.get('known') or ''
            if slug:
                counts['known_hits'][slug] = counts['known_hits'].get(slug, 0) + 1
                if ('C14', slug) in known:
                    if counts['known_hits'][slug] == 1 and not any(slug in l for l in ck.known_printed):
                        ck.known(slug, known[('C14', slug)] + ' [reproduced on real code: %s]' % v['detail'][:300])
                    continue
                if counts['known_hits'][slug] > 2:      # class not listed: report two witnesses of it, not hundreds
                    continue
            ck.violation('%s (%s): %s' % (v['kind'], r['name'], v['detail']),
                         {'mode': job['mode'], 'schedule': by_name[r['name']], 'kind': v['kind'], 'detail': v['detail'],
                          'gate': by_name[r['name']].get('gate', '')})
    return conforming


WITNESS = {
    # OnData is running when the peer dies: the teardown half-closes the stream, the deferred close then makes no callback
    'no-close-callback-when-busy': dict(streams=2, cb=[2], steps=[('PeerSend', 2, ''), ('Events', 0, ''), ('PeerDies', 0, ''),
                                                                 ('Events', 0, ''), ('Lambdas', 0, ''), ('CbRelease', 2, '')]),
    # Session.Close has been called (IsClosed() is true, streams notified) but the teardown lambda has not run yet
    'flush-nil-after-close': dict(streams=1, cb=[], steps=[('CloseCall', 0, 'c1'), ('SendCheck', 1, '')]),
    # both ends closed and torn down, then a write into the BufferWriter of a stream: SIGSEGV (staged in a child process)
    'write-after-teardown-faults': dict(streams=1, cb=[], gate='write-after-teardown', steps=[]),
    # a Flush that has passed its state check is parked inside queue.put while Close + teardown unmap the queue (child process)
    'stream-op-races-unmap': dict(streams=1, cb=[], gate='flush-races-unmap', steps=[]),
    'open-nil-nil': dict(streams=1, cb=[], gate='open-in-close-window', steps=[]),
    # regression cases (no finding on HEAD) for the pending-call kind "flush-in-retry": stalled peer, full send queue, one more
    # Flush inside the queue-full retry loop, then peer death / Session.Close and the teardown within the 100 ms of the loop
    'flush-in-retry-death-a': dict(streams=1, cb=[], role='client', gate='retry-flush-death', steps=[]),
    'flush-in-retry-death-b': dict(streams=1, cb=[], role='server', gate='retry-flush-death', steps=[]),
    'flush-in-retry-death-c': dict(streams=1, cb=[], role='client', mem='memfd', gate='retry-flush-death', steps=[]),
    'flush-in-retry-close-a': dict(streams=1, cb=[], role='client', gate='retry-flush-close', steps=[]),
    'flush-in-retry-close-b': dict(streams=1, cb=[], role='server', mem='memfd', gate='retry-flush-close', steps=[]),
    # regression case (no finding on HEAD): an OpenStream that passed its closed check registers its stream after Close()
    # returned; the teardown lambda must close that stream as well
    'late-open-not-closed': dict(streams=1, cb=[], gate='open-register-after-close', steps=[]),
    # a stream of the client is still queued in acceptCh when the session is closed: AcceptStream afterwards may return it
    'accept-after-close': dict(streams=1, cb=[], role='server', steps=[('PeerOpenNew', 0, ''), ('Events', 0, ''), ('CloseCall', 0, 'c1'),
                                                                        ('Lambdas', 0, ''), ('Lambdas', 0, '')]),
}


def witness_schedules():
    out = []
    for slug, wit in WITNESS.items():
        out.append({'name': 'witness-' + slug, 'role': wit.get('role') or ('server' if slug == 'no-close-callback-when-busy' else 'client'), 'mem': wit.get('mem', 'file'),
                    'streams': wit['streams'], 'cb': wit['cb'], 'gate': wit.get('gate', ''), 'raw': True,
                    'steps': [{'a': a, 's': s, 't': t} for a, s, t in wit['steps']]})
    return out


def witness_verdict(ck, prop, known, sched, r):
    slug = sched['name'][len('witness-'):]
    hit = [v for v in r['violations'] if v.get('known') == slug]
    other = [v for v in r['violations'] if not v.get('known')]
    if hit:
        if (prop, slug) in known:
            ck.known_printed[:] = [l for l in ck.known_printed if (' %s: ' % slug) not in l]      # the witness line replaces a class hit
            ck.known(slug, known[(prop, slug)] + ' [witness replayed on real code: %s]' % hit[0]['detail'][:400])
        else:
            ck.violation('%s: %s' % (slug, hit[0]['detail']), {'mode': 'manual', 'schedule': sched, 'kind': hit[0]['kind'],
                                                             'detail': hit[0]['detail'], 'gate': sched['gate']})
    elif (prop, slug) in known:
        ck.notes.append('listed known finding %s: the witness did not reproduce on this tree (%s)' % (slug, r['harness'] or 'no violation'))
    for v in other:
        ck.violation('%s (%s): %s' % (v['kind'], sched['name'], v['detail']), {'mode': 'manual', 'schedule': sched, 'kind': v['kind'],
                                                                              'detail': v['detail'], 'gate': sched['gate']})


def new_counts():
    return dict(behaviours=0, steps=0, compared=0, census=0, later=0, pending=0, nd_diverged=0, drift=[], harness_problems=[],
                known_hits={})


def severed_pass(ck, rounds=None):
    """real-mode variants of the step PeerDies that differ in what the kernel reports to the survivor (clean close, close
    with unread bytes in the dead peer's socket = ECONNRESET, half-close); harness/zz_severed_test.go"""
    job = {'wait_ms': 8000, 'rounds': rounds or (1 if ck.tier == 'quick' else 4)}
    g = gorun.run_harness('^TestVS_Severed$', ['zz_severed_test.go'], None, inputs={'job': job}, timeout=900)
    r = g.result
    if r is None:
        ck.notes.append('severed pass produced no result (rc=%s): %s' % (g.rc, g.out[-300:]))
        return
    viols = r['violations']
    if viols:
        # anything that is not clean is executed a second time alone before it is reported
        g2 = gorun.run_harness('^TestVS_Severed$', ['zz_severed_test.go'], None, inputs={'job': dict(job, rounds=1)}, timeout=900)
        again = {v['scenario'] for v in (g2.result or {}).get('violations', [])}
        for v in viols:
            if v['scenario'] in again:
                ck.violation('%s (%s): %s' % (v['kind'], v['scenario'], v['detail']), {'kind': 'severed', 'scenario': v['scenario']})
                break
        else:
            ck.notes.append('severed pass: %d observations did not repeat when run again: %s' % (len(viols), viols[:2]))
    ck.cov['severed_scenarios'] = sorted(set(r['done']))
    ck.cov['severed_not_realised'] = r['not_realised'][:6]
    ck.add('evaluations', r['checks'])
    ck.assumptions.append('severed pass: a byte relay between two real sessions stands for the peer process so that the peer can '
                          'stop reading and be cut off independently of the peer session object living in the same process')


def run(prop, tier, seed, replay=None):
    ck = core.Check(prop, 'model_checking', tier, seed)
    rng = random.Random(ck.seed)
    quick = ck.tier == 'quick'
    wait_ms = 12000
    ck.assumptions += [
        'manual mode: both ends are real sessions created by the real newSession in one process; the goroutine that turns '
        'each end\'s epoll loop is the harness (the loop body epoll_wait(0)+handleEvent and runLambda is called when the spec '
        'says Events / Lambdas), everything else is the library code of the current tree',
        'peer death in-process = shutdown(2) of the peer\'s descriptor (the survivor sees RDHUP exactly as after a SIGKILL); '
        'a real SIGKILL of a child process peer is used in real mode with the untouched dispatcher',
        'run-to-completion behaviours only are replayed step by step; interleavings inside Session.Close / teardown are '
        'decided on the specification by TLC and staged with a gate only for the listed witness',
        'interpretation: a "later call" is a call that starts after Session.IsClosed() returns true; reading data that was '
        'delivered before the end is not a failure to fail',
        'time bounds of the oracles are generous (%d s) because the machine is shared; anything that is not clean is executed a '
        'second time alone before it is reported' % (wait_ms // 1000),
    ]
    known = core.known_findings()
    extra = os.environ.get('VERIF_KNOWN_EXTRA')      # testing aid: proposed `known:` lines that are not in known-findings.txt yet
    if extra and os.path.exists(extra):
        for line in open(extra):
            m = re.match(r'known:\s+property=(\S+)\s+id=(\S+)\s+(.*)', line.strip())
            if m:
                known[(m.group(1), m.group(2))] = m.group(3)
    listed = [s for s in SLUGS if (prop, s) in known]
    counts = new_counts()

    if replay:
        rep = json.load(open(replay))
        if rep.get('kind') == 'severed':
            ck.cov['evaluations'] = 0
            ck.cov['distinct_nontrivial'] = 1
            severed_pass(ck, rounds=1)
            return ck.finish()
        if rep.get('kind') == 'listener':
            from checks import listenermod
            ck.cov['evaluations'] = 1
            ck.cov['distinct_nontrivial'] = 1
            listenermod.replay(ck, rep)
            return ck.finish()
        job = {'mode': rep['mode'], 'schedules': [rep['schedule']], 'known': SLUGS, 'workers': 1, 'wait_ms': wait_ms}
        res = harness(ck, job, known, INSTR_GATE if rep.get('gate') in GATED else None, 'replay')
        ck.cov['evaluations'] = sum(r['steps'] for r in res) if res else 0
        ck.cov['distinct_nontrivial'] = sum(r['compared'] + r['later_checks'] + r['pending_checks'] + r['census_checks'] for r in res) if res else 0
        ck.cov['rule'] = 'replay of one recorded behaviour: evaluations = steps executed on the real code, distinct_nontrivial = ' \
                         'state comparisons + oracle evaluations (later calls, pending calls, census) performed'
        ck.sample({'replayed': brief(rep['schedule']) or rep['schedule']['name']})
        if res is not None:
            if rep['schedule']['name'].startswith('witness-'):
                witness_verdict(ck, prop, known, rep['schedule'], res[0])
            else:
                report(ck, res, job, known, counts)
            for d in counts['drift']:
                print('SPEC-DRIFT module=Lifecycle at=%s' % d[:600])
        return ck.finish()

    ck.cov['tlc_configs'] = []
    F, T = False, True
    def C(streams, cb, closers, atomic, maxsend, maxpc, accept, flush, maxops, late=(), **kw):
        d = dict(streams=streams, cb=cb, closers=closers, atomic=atomic, maxsend=maxsend, maxpc=maxpc, accept=accept,
                 flush=flush, maxops=maxops, late=list(late))
        d.update(kw)
        return d
    if quick:
        fine_cfgs = [C([1], [], ['c1', 'c2'], F, 0, 0, F, F, 0), C([1], [1], ['c1'], F, 1, 0, F, F, 2)]
        fine_cfgs.append(C([1, 2], [], ['c1'], F, 0, 0, F, F, 1, late=[1, 2]))
        fine_cfgs.append(C([1], [], ['c1'], F, 0, 0, F, F, 2, retry=T, seq=T))
        coarse = [C([1, 2], [2], ['c1'], T, 1, 1, T, F, 1), C([1], [], ['c1', 'c2'], T, 1, 0, F, T, 1, retry=T, seq=T),
                  # two streams that appear late: the second one is registered between Close() and the teardown lambda
                  C([1, 2], [], ['c1'], T, 0, 0, F, F, 2, late=[1, 2])]
        limit = 110
    else:
        fine_cfgs = [C([1], [], ['c1', 'c2'], F, 0, 0, F, F, 0), C([1], [1], ['c1'], F, 1, 0, F, F, 2),
                     C([1], [], ['c1', 'c2'], F, 1, 0, F, F, 1), C([1, 2], [2], ['c1'], F, 1, 1, T, F, 1)]
        fine_cfgs.append(C([1], [], ['c1', 'c2'], F, 0, 0, F, F, 2, retry=T, seq=T))
        coarse = [C([1, 2], [2], ['c1'], T, 1, 1, T, F, 2), C([1], [], ['c1', 'c2'], T, 1, 0, T, T, 2, retry=T, seq=T),
                  C([1, 2], [1, 2], ['c1'], T, 2, 1, F, F, 2),
                  C([1, 2, 3], [], ['c1', 'c2'], T, 1, 0, F, F, 2, late=[2, 3])]
        fine_cfgs.append(C([1, 2], [], ['c1', 'c2'], F, 0, 0, F, F, 1, late=[1, 2]))
        limit = 1000

    # ---- design check of every interleaving (fine grained) and the gate witness run beside the replay
    fine_out, gate_out, graphs = [], [], {}

    def fine_thread():
        for c in fine_cfgs:
            r = tlc.run('Lifecycle', 'mc.cfg', timeout=400 if quick else 2400, workers=3,
                        extra_files={'mc.cfg': cfg_text(c, True, INVS, 'Terminates DeathNoticed' if len(c['streams']) == 1 or c.get('late') else '')})
            fine_out.append((c, r))

    def unpruned_thread():
        # the same design without pruning: TLC must find the listed classes (the classifier is not vacuous)
        r = tlc.run('Lifecycle', 'mc.cfg', timeout=400, workers=2, extra_files={'mc.cfg': cfg_text(fine_cfgs[1], False, RAW_INVS)})
        fine_out.append(('unpruned', r))
        # ... and the fault class: a Flush between its state check and queue.put, overtaken by Close + teardown
        r = tlc.run('Lifecycle', 'mc.cfg', timeout=400, workers=2,
                    extra_files={'mc.cfg': cfg_text(C([1], [], ['c1'], F, 0, 0, F, F, 1), False, 'NoRace')})
        fine_out.append(('unpruned-fault', r))
        # ... and the model of the code BEFORE the fixes a49166e / 075bc66 (FixedOpen = FixedFlush = FALSE): TLC must find the
        # old classes again (they stay in the spec as regression leads, their witnesses stay in the harness)
        r = tlc.run('Lifecycle', 'mc.cfg', timeout=400, workers=2,
                    extra_files={'mc.cfg': cfg_text(dict(C([1], [], ['c1'], F, 0, 0, F, F, 1), prefix=True), False, 'ErrorKnown LaterFail')})
        fine_out.append(('prefix-model', r))
        # ... the retry loop without its closeNotifyCh arm, and a BufferWriter allocation path without the IsClosed() check
        r = tlc.run('Lifecycle', 'mc.cfg', timeout=400, workers=2,
                    extra_files={'mc.cfg': cfg_text(C([1], [], ['c1'], F, 0, 0, F, F, 1, retry=T, noretrywake=T), False, 'RetryNoFault')})
        fine_out.append(('noretrywake-model', r))
        r = tlc.run('Lifecycle', 'mc.cfg', timeout=400, workers=2,
                    extra_files={'mc.cfg': cfg_text(C([1], [], ['c1'], F, 0, 0, F, F, 1, seq=T, noreservecheck=T), False, 'SeqNoFault')})
        fine_out.append(('noreservecheck-model', r))

    def gate_thread():
        ws = [w for w in witness_schedules() if w['gate'] in GATED]
        job = {'mode': 'manual', 'schedules': ws, 'known': SLUGS, 'workers': 1, 'wait_ms': wait_ms}
        gate_out.append((ws, run_go(ck, job, INSTR_GATE, timeout=600)))

    def graph_thread(i):
        graphs[i] = tlc.dump_graph('Lifecycle', 'mc.cfg', timeout=1500 if quick else 3000, workers=4,
                                   extra_files={'mc.cfg': cfg_text(coarse[i])})

    threads = [threading.Thread(target=f) for f in (fine_thread, unpruned_thread, gate_thread)]
    threads += [threading.Thread(target=graph_thread, args=(i,)) for i in range(len(coarse))]
    for t in threads:
        t.start()

    def join_all():
        for t in threads:
            t.join()

    # ---- run-to-completion behaviours: exhaustive graphs, edge cover replayed on real sessions
    for t in threads[3:]:
        t.join()
    combos = [('client', 'file'), ('server', 'memfd'), ('server', 'file'), ('client', 'memfd')]
    all_scheds, per_cfg = [], []
    for ci, c in enumerate(coarse):
        res, nodes, edges, inits = graphs[ci]
        if res.violation:
            ck.inconc('TLC reports %s on Lifecycle (%s) with the listed finding classes pruned (design-level lead): %s'
                      % (res.violation, describe(c), [l for l, _ in res.trace][-12:]))
            join_all()
            return ck.finish()
        if not res.ok or not edges:
            ck.inconc('TLC did not complete on %s: %s' % (describe(c), res.error or res.out[-400:]))
            join_all()
            return ck.finish()
        ck.add('states', res.distinct)
        ck.add('transitions', len(edges))
        g = Graph(nodes, edges, inits, c['streams'])
        paths, remaining = tlc.cover_paths(inits, edges)
        total_paths = len(paths)
        if len(paths) > limit:
            # seeded sample, stratified so that every kind of pending call / callback / peer action is represented
            chosen, rest = [], list(paths)
            rng.shuffle(rest)

            def close_inside_drain(p):      # Close() while the drain is parked, i.e. a stream registered after Close()
                acts = [edges[e][2].split('(')[0] for e in p]
                if 'DrainBegin' not in acts or 'NsRelease' not in acts:
                    return False
                a, b = acts.index('DrainBegin'), acts.index('NsRelease')
                return 'CloseCall' in acts[a:b]
            have = [p for p in rest if close_inside_drain(p)][:max(12, limit // 8)]
            for p in have:
                rest.remove(p)
            chosen += have
            for act in ('ParkRetryFlush', 'WriteSeq', 'RetryExpire', 'ParkFlush', 'ParkAccept', 'CbRelease', 'PeerCloseStream', 'TryOpen', 'ParkRead', 'StreamClose'):
                have = [p for p in rest if any(edges[e][2].startswith(act) for e in p)][:max(6, limit // 10)]
                for p in have:
                    rest.remove(p)
                chosen += have
            paths = (chosen + rest)[:max(limit, len(chosen))]
        scheds = []
        for pi, p in enumerate(paths):
            s = g.schedule(p, 'cover-%d-%d' % (ci, pi))
            role, mem = combos[(pi + ck.seed) % 4]
            if any(st['a'] == 'ParkAccept' for st in s['steps']):
                role = 'server'      # AcceptStream exists on the server end only
            if c.get('late'):
                role = 'server'      # late streams come through the ListenCallback of a server end
            s.update(role=role, mem=mem, streams=len(c['streams']), cb=c['cb'], late=c.get('late', []))
            scheds.append(s)
        per_cfg.append((c, res, len(edges), total_paths, scheds))
        all_scheds += scheds
        ck.log('TLC %s: %d states, %d edges, %d cover paths, %d chosen for replay (%.0fs)'
               % (describe(c), res.distinct, len(edges), total_paths, len(scheds), res.wall))
    wits = [w for w in witness_schedules() if w['gate'] not in GATED]

    # the same behaviours at user level against the real epoll loop; peer severed in-process or SIGKILLed child process
    real_scheds, seen = [], set()
    cands = [s for s in all_scheds if any(st['a'] == 'PeerDies' for st in s['steps']) and not s.get('late')]
    rng.shuffle(cands)
    n_in, n_child = (24, 6) if quick else (300, 40)
    for s in cands:
        steps = [dict(a=x['a'], s=x['s'], t=x['t']) for x in s['steps'] if x['a'] in USER_LEVEL]
        key = json.dumps(steps) + s['role']
        if key in seen or len(steps) < 2:
            continue
        seen.add(key)
        nc = len([x for x in real_scheds if x['peer'] == 'child'])
        ni = len(real_scheds) - nc
        if nc >= n_child and ni >= n_in:
            break
        peer = 'child' if (nc < n_child and (len(real_scheds) % 4 == 0 or ni >= n_in)) else 'inproc'
        real_scheds.append({'name': 'real-%d' % len(real_scheds), 'steps': steps, 'role': s['role'], 'mem': s['mem'],
                            'streams': s['streams'], 'cb': s['cb'], 'peer': peer, 'end': rng.choice(['kill', 'close'])})
    for k, (role, mem) in enumerate(combos if not quick else combos[:2]):
        # user Close with a live child peer that is killed / exits afterwards
        real_scheds.append({'name': 'real-close-%d' % k, 'role': role, 'mem': mem, 'streams': 1, 'cb': [], 'peer': 'child',
                            'end': ['kill', 'close'][k % 2],
                            'steps': [{'a': 'ParkRead', 's': 1, 't': ''}, {'a': 'CloseCall', 's': 0, 't': 'c1'}, {'a': 'CloseCall', 's': 0, 't': 'c2'}]})
    real_out = []

    def real_thread():
        job = {'mode': 'real', 'schedules': real_scheds, 'known': SLUGS, 'workers': 5, 'wait_ms': wait_ms, 'stop_after': 3}
        real_out.append((job, run_go(ck, job, None, timeout=900 if quick else 3000)))

    rt = threading.Thread(target=real_thread)
    rt.start()
    threads.append(rt)
    ck.log('real epoll loop: %d user-level behaviours (%d with a child process peer that is SIGKILLed) started'
           % (len(real_scheds), len([x for x in real_scheds if x['peer'] == 'child'])))

    job = {'mode': 'manual', 'schedules': all_scheds + wits, 'known': SLUGS, 'workers': 6, 'wait_ms': wait_ms, 'stop_after': 3}
    ck.log('replaying %d TLC behaviours + %d witnesses on real sessions (harness-driven event loops)' % (len(all_scheds), len(wits)))
    results = harness(ck, job, known, None, 'manual replay', timeout=1500 if quick else 4000)
    if results is None:
        join_all()
        return ck.finish()
    # anything that is not a clean conforming pass is executed a second time alone (time based waits, shared machine)
    by_name = {s['name']: s for s in job['schedules']}
    unlisted = lambda r: [v for v in r['violations'] if not v.get('known')]
    bad = [r['name'] for r in results if not r['name'].startswith('witness-') and r['harness'] != 'skipped'
           and (r['drift'] or unlisted(r) or r['harness'])]
    if bad:
        ck.log('%d behaviours not clean on the first pass, re-running them serially: %s' % (len(bad), bad[:5]))
        job2 = dict(job, schedules=[by_name[n] for n in bad[:8]], workers=2, wait_ms=2 * wait_ms)
        again = harness(ck, job2, known, None, 'manual re-run')
        if again is None:
            join_all()
            return ck.finish()
        good = {r['name']: r for r in again}
        results = [good.get(r['name'], r) for r in results]
    rmap = {r['name']: r for r in results}
    total_conf = 0
    for c, res, nedges, total_paths, scheds in per_cfg:
        rs = [rmap[s['name']] for s in scheds if rmap[s['name']]['harness'] != 'skipped']
        conf = report(ck, rs, job, known, counts)
        total_conf += conf
        ck.cov['tlc_configs'].append('Lifecycle %s, finding classes pruned: %d states, %d transitions, depth %d, %.0fs; %d of %d '
                                     'cover paths replayed, %d conforming' % (describe(c), res.distinct, nedges, res.depth,
                                                                              res.wall, len(rs), total_paths, conf))
        if scheds:
            m = scheds[len(scheds) // 2]
            ck.sample({'tlc_behaviour_replayed_on_real_sessions': brief(m), 'survivor': m['role'], 'memory': m['mem']})
    ck.add('traces_validated_against_impl', total_conf)
    ck.cov['exhaustive'] = True
    for wsched in wits:
        witness_verdict(ck, prop, known, wsched, rmap[wsched['name']])
    retry_w = [rmap[w['name']] for w in wits if w['name'].startswith('witness-flush-in-retry')]
    ck.cov['flush_in_retry_regression_scenarios_realised'] = len([r for r in retry_w if r['conforming']])
    if retry_w and not any(r['conforming'] or r['violations'] for r in retry_w):
        ck.notes.append('none of the %d staged flush-in-retry scenarios fitted into the 100 ms retry window on this run (%s)'
                        % (len(retry_w), retry_w[0]['harness'][:120]))

    # ---- collect the threads
    join_all()
    for ws, (res, crash) in gate_out:
        if res is None:
            ck.notes.append('gate witness could not be executed: %s' % (crash['out'][-300:]))
            continue
        for wsched, r in zip(ws, res['results']):
            witness_verdict(ck, prop, known, wsched, r)
    for job_r, (res, crash) in real_out:
        if res is None:
            # a crash of the test process with the real loop: attribute it
            results_r = harness(ck, dict(job_r, workers=1), known, None, 'real loop (after a crash, serial)') if crash['crashed'] else None
            if results_r is None and not crash['crashed']:
                ck.inconc('real-loop harness produced no result: %s' % crash['out'][-500:])
        else:
            results_r = res['results']
        if results_r is not None:
            by_r = {s['name']: s for s in job_r['schedules']}
            badr = [r['name'] for r in results_r if r['harness'] != 'skipped' and (unlisted(r) or r['harness'])]
            if badr:
                ck.log('%d real-loop behaviours not clean, re-running serially: %s' % (len(badr), badr[:5]))
                again = harness(ck, dict(job_r, schedules=[by_r[n] for n in badr[:6]], workers=2, wait_ms=2 * wait_ms), known, None, 'real re-run')
                if again is not None:
                    good = {r['name']: r for r in again}
                    results_r = [good.get(r['name'], r) for r in results_r]
            rc = new_counts()
            rc['known_hits'] = counts['known_hits']
            ok = report(ck, [r for r in results_r if r['harness'] != 'skipped'], job_r, known, rc)
            ck.cov['real_loop_behaviours'] = rc['behaviours']
            ck.cov['real_loop_child_process_peers'] = len([x for x in job_r['schedules'] if x['peer'] == 'child'])
            ck.cov['real_loop_clean'] = ok
            for k in ('census', 'later', 'pending'):
                counts[k] += rc[k]
            counts['harness_problems'] += rc['harness_problems']
            if job_r['schedules']:
                m = job_r['schedules'][0]
                ck.sample({'real_loop_behaviour': brief(m), 'peer': m['peer'], 'survivor': m['role'], 'child_end': m['end']})
    for c, r in fine_out:
        if c in ('unpruned', 'unpruned-fault', 'prefix-model', 'noretrywake-model', 'noreservecheck-model'):
            key = {'unpruned': 'design_counterexample_without_pruning', 'unpruned-fault': 'design_counterexample_without_pruning_fault',
                   'prefix-model': 'design_counterexample_of_the_pre_fix_model',
                   'noretrywake-model': 'design_counterexample_retry_loop_without_close_arm',
                   'noreservecheck-model': 'design_counterexample_alloc_path_without_closed_check'}[c]
            ck.cov[key] = (r.violation or 'none') + (
                ' kf=%s' % sorted(r.trace[-1][1].get('kf', [])) if r.violation and r.trace and isinstance(r.trace[-1][1], dict) else '')
            if r.violation and r.trace:
                ck.cov[key + '_trace'] = [l for l, _ in r.trace][1:]
            continue
        if r.violation:
            ck.inconc('TLC reports %s on the fine-grained design (%s), finding classes pruned: %s'
                      % (r.violation, describe(c), [l for l, _ in r.trace][-14:]))
        elif not r.ok:
            ck.inconc('TLC did not complete the design check %s: %s' % (describe(c), (r.error or r.out[-300:])))
        else:
            ck.add('states', r.distinct)
            ck.add('transitions', r.generated)
            ck.cov['tlc_configs'].append('Lifecycle %s, finding classes pruned, invariants%s: %d states, %d generated, depth %d, %.0fs'
                                         % (describe(c), ' + leads-to' if len(c['streams']) == 1 or c.get('late') else '', r.distinct, r.generated, r.depth, r.wall))

    ck.cov['replayed_behaviours'] = counts['behaviours']
    ck.cov['replay_steps'] = counts['steps']
    ck.cov['state_comparisons'] = counts['compared']
    ck.cov['census_checks'] = counts['census']
    ck.cov['later_call_checks'] = counts['later']
    ck.cov['pending_call_checks'] = counts['pending']
    ck.cov['nondeterministic_table_order_divergences'] = counts['nd_diverged']
    ck.cov['known_finding_class_executions'] = counts['known_hits']
    ck.cov['spec_drift'] = bool(counts['drift'])
    for d in counts['drift'][:8]:
        print('SPEC-DRIFT module=Lifecycle at=%s' % d[:700])
    if counts['drift']:
        ck.cov['spec_drift_count'] = len(counts['drift'])
    if counts['harness_problems']:
        ck.notes.append('%d behaviours could not be set up / driven (harness): %s' % (len(counts['harness_problems']), counts['harness_problems'][:3]))
        if len(counts['harness_problems']) > max(3, counts['behaviours'] // 10):
            ck.inconc('too many behaviours could not be executed by the harness: %s' % counts['harness_problems'][:3])
    if not ck.violations:
        severed_pass(ck)
    if not ck.violations:
        # the server-side Listener (accept loop, session set, Close): module Listener, an additional pass of this check
        from checks import listenermod
        listenermod.run_into(ck, ck.tier)
    return ck.finish()
