"""C14 — module Lifecycle: peer death / session close are contained and release everything.

1. TLC checks Lifecycle.tla exhaustively: the fine-grained design (every interleaving of the steps of Session.Close,
   exitErr, the teardown lambda, the event loop, a writer and the user calls) and the run-to-completion behaviours
   (Atomic = TRUE) whose state graph is dumped.
2. An edge cover of that graph is replayed on pairs of REAL sessions (real newSession / handshake / shared memory / sockets /
   connEventHandler / dispatcher lambdas) whose event loops are turned by the harness exactly when the spec says
   Events / Lambdas; after every procedure the real state is compared with the spec state, and at the end of every
   behaviour the property oracles run on the real objects (pending calls, later calls, callbacks, idempotence, census of
   descriptors / mappings / files / goroutines).
3. User-level projections of the same behaviours run against the untouched epoll dispatcher with the peer severed
   in-process or SIGKILLed as a child process (oracles only).
4. Witnesses of the known-finding classes are replayed on the real code."""
import json, os, random, re, shutil, tempfile, threading, time
from vlib import tlc, tlaval, gorun, core

PROPS = ['C14']
HARNESS = ['zz_vs_sched.go', 'zz_lifecycle_test.go']
INSTR_GATE = {"files": {"session.go": {"funcs": ["Session.Close"]}}}
SLUGS = ['no-close-callback-when-busy', 'open-nil-nil', 'flush-nil-after-close', 'write-after-teardown-faults']

INTERNAL = {'ExitSetErr', 'CloseCAS', 'CloseErr', 'CloseNotify', 'CloseChan', 'ClosePost', 'DeferredClose', 'LNext', 'TdConn',
            'TdTable', 'TdStream', 'TdWait', 'TdBm', 'TdQueue', 'SendPut'}
USER_LEVEL = {'PeerSend', 'PeerCloseStream', 'PeerDies', 'CloseCall', 'SendCheck', 'StreamClose', 'ParkRead', 'ParkAccept',
              'ParkFlush', 'CbRelease', 'TryOpen'}
INVS = 'TypeOK SurvivorClosed G_ErrorKnown PendingReleased G_LaterFail CallbackAtMostOnce G_CallbackExactlyOnce ' \
       'TeardownOnce AllReleased UnmapOnlyAtEnd'
RAW_INVS = 'ErrorKnown LaterFail CallbackExactlyOnce'


def cfg_text(c, prune=True, invs=INVS, props=''):
    def sset(xs, q=False):
        return '{' + ', '.join(('"%s"' % x) if q else str(x) for x in xs) + '}'
    return ('SPECIFICATION Spec\nCONSTANTS\n  Streams = %s\n  CbStreams = %s\n  Closers = %s\n  Atomic = %s\n  MaxSend = %d\n'
            '  MaxPeerClose = %d\n  WithAccept = %s\n  WithFlush = %s\n  MaxOps = %d\n%sINVARIANTS %s\n%sCHECK_DEADLOCK FALSE\n') % (
        sset(c['streams']), sset(c['cb']), sset(c['closers'], True), 'TRUE' if c['atomic'] else 'FALSE', c['maxsend'],
        c['maxpc'], 'TRUE' if c['accept'] else 'FALSE', 'TRUE' if c['flush'] else 'FALSE', c['maxops'],
        'CONSTRAINT NoKnownFinding\n' if prune else '', invs, ('PROPERTIES %s\n' % props) if props else '')


def describe(c):
    return 'streams=%s cb=%s closers=%d %s send<=%d peerclose<=%d accept=%s flush=%s ops<=%d' % (
        c['streams'], c['cb'], len(c['closers']), 'run-to-completion' if c['atomic'] else 'all interleavings', c['maxsend'],
        c['maxpc'], c['accept'], c['flush'], c['maxops'])


def quiet(st):
    pc = st['pc']
    for t, p in pc.items():
        if p in ('idle', 'done'):
            continue
        if t == 'loop' and p == 't_wait':
            busy = st['cbBusy']
            cur = st['cur']
            b = busy[cur - 1] if isinstance(busy, list) else busy.get(cur)
            if b:
                continue
        return False
    return True


def per(v, streams):
    if isinstance(v, dict):
        return [v[s] for s in streams]
    return list(v)


def expect(st, streams):
    table_nil = st['tableNil']
    out = sorted(t for t, p in st['pc'].items() if p not in ('idle', 'done'))
    return {
        'shutdown': st['shutdown'], 'serr': st['serr'], 'shutch': st['shutCh'], 'lambdas': len(st['lambdas']), 'conn': st['conn'],
        'st': per(st['st'], streams), 'intable': [bool(x) and not table_nil for x in per(st['inTable'], streams)],
        'tablenil': table_nil, 'notified': per(st['notified'], streams), 'cbbusy': per(st['cbBusy'], streams),
        'cbl': per(st['cbL'], streams), 'cbr': per(st['cbR'], streams), 'unread': per(st['unread'], streams),
        'rd': per(st['rd'], streams), 'fl': st['fl'], 'acc': st['acc'], 'bm': st['bm'], 'qm': st['qm'],
        'flag': st['flag'] if st['qm'] == 'mapped' else -1, 'lastopen': st['lastOpen'], 'lastsend': st['lastSend'], 'out': out,
    }


def step_of(label):
    label = label.replace('\\', '')
    m = re.match(r'(\w+)(?:\((.*)\))?', label)
    act = m.group(1)
    arg = (m.group(2) or '').strip().strip('"')
    s = {'a': act, 's': 0, 't': ''}
    if arg:
        if re.fullmatch(r'-?\d+', arg):
            s['s'] = int(arg)
        else:
            s['t'] = arg
    return s


class Graph:
    def __init__(self, nodes, edges, inits, streams):
        self.nodes, self.edges, self.inits, self.streams = nodes, edges, inits, streams
        self.parsed = {}
        self.out = {}
        for i, (s, d, l) in enumerate(edges):
            self.out.setdefault(s, []).append(i)

    def state(self, n):
        if n not in self.parsed:
            self.parsed[n] = tlaval.parse_state(self.nodes[n])
        return self.parsed[n]

    def alternatives(self, start, first_label, reached):
        """quiet states reachable from `start` by the edge labelled first_label followed by internal steps only"""
        res, seen = [], set()
        frontier = [self.edges[e][1] for e in self.out.get(start, []) if self.edges[e][2] == first_label]
        while frontier:
            n = frontier.pop()
            if n in seen:
                continue
            seen.add(n)
            if quiet(self.state(n)):
                if n != reached:
                    res.append(n)
                continue
            for e in self.out.get(n, []):
                if step_of(self.edges[e][2])['a'] in INTERNAL:
                    frontier.append(self.edges[e][1])
        return res

    def schedule(self, path, name):
        steps = []
        group_start, first_label = self.inits[0], None
        for e in path:
            s, d, label = self.edges[e]
            stp = step_of(label)
            if first_label is None:
                group_start, first_label = s, label
            dst = self.state(d)
            if quiet(dst):
                stp['x'] = expect(dst, self.streams)
                alts = self.alternatives(group_start, first_label, d)
                if alts:
                    stp['alts'] = [expect(self.state(a), self.streams) for a in alts]
                first_label = None
            kf = dst.get('kf')
            if kf:
                stp['kf'] = sorted(kf)
            steps.append(stp)
        return {'name': name, 'steps': steps}


def brief(sched):
    return ' '.join('%s%s' % (s['a'], ('(%s)' % (s['s'] or s['t'])) if (s['s'] or s['t']) else '') for s in sched['steps']
                    if s['a'] not in INTERNAL)


def run_go(ck, job, instr=None, timeout=1500):
    """run the harness; on a crash of the test process find the behaviour that crashes it"""
    wd = tempfile.mkdtemp(prefix='vlc-', dir=os.environ.get('VERIF_SCRATCH') or tempfile.gettempdir())
    try:
        g = gorun.run_harness('^TestVS_Lifecycle$', HARNESS, instr, inputs={'job': job}, timeout=timeout, workdir=wd)
        if g.result is not None:
            return g.result, None
        crashed = ('panic:' in g.out or 'fatal error' in g.out or 'unexpected fault address' in g.out or 'SIGSEGV' in g.out)
        inflight = []
        try:
            started, ended = [], set()
            for line in open(os.path.join(wd, 'progress.log')):
                k, _, n = line.strip().partition(' ')
                if k == 'start':
                    started.append(n)
                elif k == 'end':
                    ended.add(n)
            inflight = [n for n in started if n not in ended]
        except OSError:
            pass
        return None, {'crashed': crashed, 'inflight': inflight, 'out': g.out[-3000:], 'rc': g.rc, 'timeout': g.timeout}
    finally:
        shutil.rmtree(wd, ignore_errors=True)


def harness(ck, job, known, instr=None, label=''):
    """returns list of schedule results; converts crashes of the test process into violations of the behaviour that caused them"""
    res, crash = run_go(ck, job, instr)
    if res is not None:
        return res['results']
    if not crash['crashed'] or not crash['inflight']:
        ck.inconc('harness %s produced no result (rc=%s timeout=%s): %s' % (label, crash['rc'], crash['timeout'], crash['out'][-800:]))
        return None
    ck.log('test process crashed, in flight: %s - re-running them one by one' % crash['inflight'])
    by_name = {s['name']: s for s in job['schedules']}
    culprit = None
    for n in crash['inflight'][:6]:
        j1 = dict(job, schedules=[by_name[n]], workers=1)
        r1, c1 = run_go(ck, j1, instr, timeout=600)
        if r1 is None and c1['crashed']:
            culprit = (n, c1['out'])
            break
    if culprit is None:
        ck.inconc('the test process crashed (%s) but no single behaviour reproduces the crash' % crash['out'][-400:])
        return None
    n, out = culprit
    m = re.search(r'(panic: .*|fatal error: .*|unexpected fault address.*)', out)
    ck.violation('the process crashed while replaying %s: %s' % (n, m.group(1) if m else out[-300:]),
                 {'mode': job['mode'], 'schedule': by_name[n], 'detail': out[-1500:]})
    return None


def report(ck, results, job, known, counts, witness=False):
    """turn schedule results into verdict items. Returns number of conforming behaviours."""
    by_name = {s['name']: s for s in job['schedules']}
    conforming = 0
    for r in results:
        counts['behaviours'] += 1
        counts['steps'] += r['steps']
        counts['compared'] += r['compared']
        counts['census'] += r['census_checks']
        counts['later'] += r['later_checks']
        counts['pending'] += r['pending_checks']
        if r['harness']:
            counts['harness_problems'].append('%s: %s' % (r['name'], r['harness'][:200]))
            continue
        if r['conforming'] and not r['violations']:
            conforming += 1
        if r['nd_diverged']:
            counts['nd_diverged'] += 1
        if r['drift']:
            counts['drift'].append('%s %s' % (r['name'], r['drift']))
        for v in r['violations']:
            slug = v.get('known') or ''
            if slug and ('C14', slug) in known:
                ck.known(slug, known[('C14', slug)] + ' [reproduced on real code: %s]' % v['detail'][:300])
                counts['known_hits'][slug] = counts['known_hits'].get(slug, 0) + 1
                continue
            ck.violation('%s (%s): %s' % (v['kind'], r['name'], v['detail']),
                         {'mode': job['mode'], 'schedule': by_name[r['name']], 'kind': v['kind'], 'detail': v['detail'],
                          'gate': by_name[r['name']].get('gate', '')})
    return conforming


def project_real(sched, peer, end, rng):
    steps = [dict(a=s['a'], s=s['s'], t=s['t']) for s in sched['steps'] if s['a'] in USER_LEVEL]
    return steps


WITNESS = {
    # OnData is running when the peer dies: the teardown half-closes the stream, the deferred close then makes no callback
    'no-close-callback-when-busy': dict(streams=2, cb=[2], steps=[('PeerSend', 2, ''), ('Events', 0, ''), ('PeerDies', 0, ''),
                                                                 ('Events', 0, ''), ('Lambdas', 0, ''), ('CbRelease', 2, '')]),
    # Session.Close has been called (IsClosed() is true, streams notified) but the teardown lambda has not run yet
    'flush-nil-after-close': dict(streams=1, cb=[], steps=[('CloseCall', 0, 'c1'), ('SendCheck', 1, '')]),
    # both ends closed and torn down, then a write into the BufferWriter of a stream: SIGSEGV (staged in a child process)
    'write-after-teardown-faults': dict(streams=1, cb=[], gate='write-after-teardown', steps=[]),
    'open-nil-nil': dict(streams=1, cb=[], gate='open-in-close-window', steps=[]),
}


def run(prop, tier, seed, replay=None):
    ck = core.Check(prop, 'model_checking', tier, seed)
    rng = random.Random(ck.seed)
    quick = ck.tier == 'quick'
    ck.assumptions += [
        'manual mode: both ends are real sessions created by the real newSession in one process; the goroutine that turns '
        'each end\'s epoll loop is the harness (the loop body epoll_wait(0)+handleEvent and runLambda is called when the spec '
        'says Events / Lambdas), everything else is the library code of the current tree',
        'peer death in-process = shutdown(2) of the peer\'s descriptor (the survivor sees RDHUP exactly as after a SIGKILL); '
        'a real SIGKILL of a child process peer is used in real mode with the untouched dispatcher',
        'run-to-completion behaviours only are replayed step by step; interleavings inside Session.Close / teardown are '
        'decided on the specification by TLC and staged with gates only for the listed witness',
        'interpretation: a "later call" is a call that starts after Session.IsClosed() returns true; reading data that was '
        'delivered before the end is not a failure to fail',
        'time bounds of the oracles are generous (%d s) because the machine is shared; a miss is re-checked before it is reported' % 12,
    ]
    known = core.known_findings()
    listed = [s for s in SLUGS if (prop, s) in known]
    counts = dict(behaviours=0, steps=0, compared=0, census=0, later=0, pending=0, nd_diverged=0, drift=[], harness_problems=[],
                  known_hits={})
    wait_ms = 12000

    if replay:
        rep = json.load(open(replay))
        job = {'mode': rep['mode'], 'schedules': [rep['schedule']], 'known': listed, 'workers': 1, 'wait_ms': wait_ms}
        ck.cov['evaluations'] = 1
        ck.cov['distinct_nontrivial'] = 1
        res = harness(ck, job, known, INSTR_GATE if rep.get('gate') == 'open-in-close-window' else None, 'replay')
        if res is not None:
            report(ck, res, job, known, counts)
            for d in counts['drift']:
                print('SPEC-DRIFT module=Lifecycle at=%s' % d[:600])
        return ck.finish()

    ck.cov['tlc_configs'] = []
    # ---- 1. design check, every interleaving (fine grained), known classes pruned; runs beside the replay
    fine_cfgs = [dict(streams=[1], cb=[], closers=['c1', 'c2'], atomic=False, maxsend=1, maxpc=0, accept=False, flush=False, maxops=1),
                 dict(streams=[1], cb=[1], closers=['c1'], atomic=False, maxsend=1, maxpc=0, accept=False, flush=False, maxops=2)]
    if not quick:
        fine_cfgs += [dict(streams=[1, 2], cb=[2], closers=['c1'], atomic=False, maxsend=1, maxpc=1, accept=True, flush=False, maxops=2),
                      dict(streams=[1], cb=[], closers=['c1', 'c2'], atomic=False, maxsend=1, maxpc=0, accept=True, flush=True, maxops=3)]
    fine_out = []

    def fine_thread():
        for c in fine_cfgs:
            r = tlc.run('Lifecycle', 'mc.cfg', timeout=1500 if not quick else 400, workers=4,
                        extra_files={'mc.cfg': cfg_text(c, True, INVS, 'Terminates DeathNoticed' if len(c['streams']) == 1 else '')})
            fine_out.append((c, r))
        # the same design without pruning: TLC must find the listed classes (the classifier is not vacuous)
        c = fine_cfgs[1]
        r = tlc.run('Lifecycle', 'mc.cfg', timeout=400, workers=2, extra_files={'mc.cfg': cfg_text(c, False, RAW_INVS)})
        fine_out.append(('unpruned', r))

    th = threading.Thread(target=fine_thread)
    th.start()

    # ---- 2. run-to-completion behaviours: exhaustive graph, edge cover replayed on real sessions
    coarse = [dict(streams=[1, 2], cb=[2], closers=['c1'], atomic=True, maxsend=1, maxpc=1, accept=True, flush=False, maxops=2),
              dict(streams=[1], cb=[], closers=['c1', 'c2'], atomic=True, maxsend=1, maxpc=0, accept=False, flush=True, maxops=2)]
    if not quick:
        coarse = [dict(streams=[1, 2], cb=[2], closers=['c1'], atomic=True, maxsend=1, maxpc=1, accept=True, flush=False, maxops=3),
                  dict(streams=[1], cb=[], closers=['c1', 'c2'], atomic=True, maxsend=1, maxpc=0, accept=True, flush=True, maxops=4),
                  dict(streams=[1, 2], cb=[1, 2], closers=['c1'], atomic=True, maxsend=2, maxpc=1, accept=False, flush=False, maxops=3)]
    combos = [('client', 'file'), ('server', 'memfd'), ('server', 'file'), ('client', 'memfd')]
    real_pool = []
    total_conf = 0
    for ci, c in enumerate(coarse):
        ck.log('TLC exhaustive (run-to-completion): ' + describe(c))
        res, nodes, edges, inits = tlc.dump_graph('Lifecycle', 'mc.cfg', timeout=1500, extra_files={'mc.cfg': cfg_text(c)})
        if res.violation:
            ck.inconc('TLC reports %s on Lifecycle (%s) with the listed finding classes pruned (design-level lead): %s'
                      % (res.violation, describe(c), [l for l, _ in res.trace][-12:]))
            th.join()
            return ck.finish()
        if not res.ok or not edges:
            ck.inconc('TLC did not complete on %s: %s' % (describe(c), res.error or res.out[-400:]))
            th.join()
            return ck.finish()
        ck.add('states', res.distinct)
        ck.add('transitions', len(edges))
        g = Graph(nodes, edges, inits, c['streams'])
        paths, remaining = tlc.cover_paths(inits, edges)
        total_paths = len(paths)
        limit = 260 if quick else 2500
        if len(paths) > limit:
            paths = rng.sample(paths, limit)
        scheds = []
        for pi, p in enumerate(paths):
            s = g.schedule(p, 'cover-%d-%d' % (ci, pi))
            role, mem = combos[(pi + ck.seed) % 4]
            s.update(role=role, mem=mem, streams=len(c['streams']), cb=c['cb'])
            if not c['accept'] or role == 'server' or not any(st['a'] == 'ParkAccept' for st in s['steps']):
                scheds.append(s)
            else:   # AcceptStream exists on the server end only
                s['role'] = 'server'
                scheds.append(s)
        real_pool += [(c, s) for s in scheds]
        job = {'mode': 'manual', 'schedules': scheds, 'known': listed, 'workers': 6, 'wait_ms': wait_ms}
        ck.log('graph: %d states, %d edges, %d cover paths; replaying %d on real sessions' % (res.distinct, len(edges), total_paths, len(scheds)))
        results = harness(ck, job, known, None, 'manual replay')
        if results is None:
            th.join()
            return ck.finish()
        # anything that is not a clean conforming pass is executed a second time alone (time based waits, shared machine)
        bad = [r['name'] for r in results if r['drift'] or r['violations'] or r['harness']]
        if bad:
            ck.log('%d behaviours not clean on the first pass, re-running them serially' % len(bad))
            by_name = {s['name']: s for s in scheds}
            job2 = dict(job, schedules=[by_name[n] for n in bad[:40]], workers=1, wait_ms=2 * wait_ms)
            again = harness(ck, job2, known, None, 'manual re-run')
            if again is None:
                th.join()
                return ck.finish()
            good = {r['name']: r for r in again}
            results = [good.get(r['name'], r) if r['name'] in good else r for r in results]
        conf = report(ck, results, job, known, counts)
        total_conf += conf
        ck.cov['tlc_configs'].append('Lifecycle %s, finding classes pruned: %d states, %d transitions, depth %d, %.0fs; %d of %d '
                                     'cover paths replayed, %d conforming' % (describe(c), res.distinct, len(edges), res.depth,
                                                                              res.wall, len(scheds), total_paths, conf))
        if scheds:
            ck.sample({'tlc_behaviour_replayed_on_real_sessions': brief(scheds[len(scheds) // 2]),
                       'survivor': scheds[len(scheds) // 2]['role'], 'memory': scheds[len(scheds) // 2]['mem']})
        if ck.violations:
            th.join()
            return ck.finish()
    ck.add('traces_validated_against_impl', total_conf)
    ck.cov['exhaustive'] = True

    # ---- 3. witnesses of the known-finding classes on the real code
    for slug, wit in WITNESS.items():
        sched = {'name': 'witness-' + slug, 'role': 'server' if slug == 'no-close-callback-when-busy' else 'client', 'mem': 'file',
                 'streams': wit['streams'], 'cb': wit['cb'], 'gate': wit.get('gate', ''), 'raw': True,
                 'steps': [{'a': a, 's': s, 't': t} for a, s, t in wit['steps']]}
        job = {'mode': 'manual', 'schedules': [sched], 'known': listed, 'workers': 1, 'wait_ms': wait_ms}
        results = harness(ck, job, known, INSTR_GATE if wit.get('gate') == 'open-in-close-window' else None, 'witness ' + slug)
        if results is None:
            continue
        r = results[0]
        hit = [v for v in r['violations'] if v.get('known') == slug]
        other = [v for v in r['violations'] if v.get('known') != slug]
        if hit:
            if (prop, slug) in known:
                ck.known(slug, known[(prop, slug)] + ' [witness replayed on real code: %s]' % hit[0]['detail'][:300])
            else:
                ck.violation('%s: %s' % (slug, hit[0]['detail']), {'mode': 'manual', 'schedule': sched, 'kind': hit[0]['kind'],
                                                                 'detail': hit[0]['detail'], 'gate': sched['gate']})
        elif (prop, slug) in known:
            ck.notes.append('listed known finding %s: the witness did not reproduce on this tree (%s)' % (slug, r['harness'] or 'no violation'))
        for v in other:
            ck.violation('%s (witness-%s): %s' % (v['kind'], slug, v['detail']), {'mode': 'manual', 'schedule': sched,
                                                                                  'kind': v['kind'], 'detail': v['detail'], 'gate': sched['gate']})
    ck.log('witnesses done')

    # ---- 4. the same behaviours at user level against the real epoll loop; peer severed in-process or SIGKILLed child
    if not ck.violations:
        cands = [(c, s) for c, s in real_pool if any(st['a'] == 'PeerDies' for st in s['steps'])]
        rng.shuffle(cands)
        seen, scheds = set(), []
        n_in, n_child = (40, 10) if quick else (400, 60)
        for c, s in cands:
            steps = project_real(s, None, None, rng)
            key = json.dumps(steps)
            if key in seen or len(steps) < 2:
                continue
            seen.add(key)
            peer = 'child' if len([x for x in scheds if x['peer'] == 'child']) < n_child and len(scheds) % 3 == 0 else 'inproc'
            if peer == 'inproc' and len([x for x in scheds if x['peer'] == 'inproc']) >= n_in:
                if len([x for x in scheds if x['peer'] == 'child']) >= n_child:
                    break
                peer = 'child'
            scheds.append({'name': 'real-%d' % len(scheds), 'steps': steps, 'role': s['role'], 'mem': s['mem'], 'streams': s['streams'],
                           'cb': s['cb'], 'peer': peer, 'end': rng.choice(['kill', 'close'])})
        # user close with a live child peer that is killed / exits afterwards
        for k, (role, mem) in enumerate(combos if not quick else combos[:2]):
            scheds.append({'name': 'real-close-%d' % k, 'steps': [{'a': 'ParkRead', 's': 1, 't': ''}, {'a': 'CloseCall', 's': 0, 't': 'c1'},
                                                                  {'a': 'CloseCall', 's': 0, 't': 'c2'}],
                           'role': role, 'mem': mem, 'streams': 1, 'cb': [], 'peer': 'child', 'end': ['kill', 'close'][k % 2]})
        job = {'mode': 'real', 'schedules': scheds, 'known': listed, 'workers': 6, 'wait_ms': wait_ms}
        ck.log('real epoll loop: %d user-level behaviours (%d with a child process peer that is SIGKILLed)'
               % (len(scheds), len([x for x in scheds if x['peer'] == 'child'])))
        results = harness(ck, job, known, None, 'real loop')
        if results is not None:
            bad = [r['name'] for r in results if r['violations'] or r['harness']]
            if bad:
                by_name = {s['name']: s for s in scheds}
                job2 = dict(job, schedules=[by_name[n] for n in bad[:20]], workers=1, wait_ms=2 * wait_ms)
                again = harness(ck, job2, known, None, 'real loop re-run')
                if again is not None:
                    good = {r['name']: r for r in again}
                    results = [good.get(r['name'], r) for r in results]
            rc = dict(behaviours=0, steps=0, compared=0, census=0, later=0, pending=0, nd_diverged=0, drift=[], harness_problems=[],
                      known_hits=counts['known_hits'])
            ok = report(ck, results, job, known, rc)
            ck.cov['real_loop_behaviours'] = rc['behaviours']
            ck.cov['real_loop_child_process_kills'] = len([x for x in scheds if x['peer'] == 'child'])
            ck.cov['real_loop_clean'] = ok
            counts['census'] += rc['census']
            counts['later'] += rc['later']
            counts['pending'] += rc['pending']
            counts['harness_problems'] += rc['harness_problems']
            if scheds:
                ck.sample({'real_loop_behaviour': brief(scheds[0]), 'peer': scheds[0]['peer'], 'survivor': scheds[0]['role']})

    # ---- 5. collect the design check
    th.join()
    for c, r in fine_out:
        if c == 'unpruned':
            ck.cov['design_counterexample_without_pruning'] = (r.violation or 'none') + (
                ' kf=%s' % sorted(r.trace[-1][1].get('kf', [])) if r.violation and r.trace and isinstance(r.trace[-1][1], dict) else '')
            continue
        if r.violation:
            ck.inconc('TLC reports %s on the fine-grained design (%s), finding classes pruned: %s'
                      % (r.violation, describe(c), [l for l, _ in r.trace][-14:]))
        elif not r.ok:
            ck.inconc('TLC did not complete the design check %s: %s' % (describe(c), (r.error or r.out[-300:])))
        else:
            ck.add('states', r.distinct)
            ck.add('transitions', r.generated)
            ck.cov['tlc_configs'].append('Lifecycle %s, finding classes pruned, invariants + leads-to: %d states, %d generated, depth %d, %.0fs'
                                         % (describe(c), r.distinct, r.generated, r.depth, r.wall))

    ck.cov['replayed_behaviours'] = counts['behaviours']
    ck.cov['replay_steps'] = counts['steps']
    ck.cov['state_comparisons'] = counts['compared']
    ck.cov['census_checks'] = counts['census']
    ck.cov['later_call_checks'] = counts['later']
    ck.cov['pending_call_checks'] = counts['pending']
    ck.cov['nondeterministic_table_order_divergences'] = counts['nd_diverged']
    ck.cov['known_finding_class_executions'] = counts['known_hits']
    ck.cov['spec_drift'] = bool(counts['drift'])
    for d in counts['drift'][:8]:
        print('SPEC-DRIFT module=Lifecycle at=%s' % d[:700])
    if counts['drift']:
        ck.cov['spec_drift_count'] = len(counts['drift'])
    if counts['harness_problems']:
        ck.notes.append('%d behaviours could not be set up / driven (harness): %s' % (len(counts['harness_problems']), counts['harness_problems'][:3]))
        if len(counts['harness_problems']) > max(3, counts['behaviours'] // 10):
            ck.inconc('too many behaviours could not be executed by the harness: %s' % counts['harness_problems'][:3])
    return ck.finish()
