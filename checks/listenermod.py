"""Module Listener - an additional pass of C14 ("peer death and session close are contained and release everything")
over the server-side Listener of listener.go: accept loop Run, the `sessions` set (add / removeShutdownSession /
closeAll), Listener.Close, the sessionCallback adapter, shutdownErrStr / isClose / unlink-on-close.  Not a check of its
own (no PROPS): checks/lifecycle.py calls run_into(ck, tier) and replay(ck, obj); verdicts are reported under C14.

1. TLC checks specs/Listener.tla exhaustively for small constants (every interleaving of the accept loop, up to two
   callers of Listener.Close and the shutdown of every session at lock granularity) and dumps the state graphs.
2. An edge cover of each graph is replayed on a REAL Listener (real unix socket, real client connections and handshakes,
   real server sessions): the goroutines that run listener code are threads of the serialising scheduler, listener.go is
   instrumented at check time so that every Lock/Unlock of Listener.mu / sessions.sessionMu is a scheduling point; after
   every step the projected real state is compared with the spec state (SPEC-DRIFT on mismatch) and the property oracles
   are evaluated on the real objects.
3. Seeded random free-running worlds (scheduler off, real epoll loop, real peer deaths), oracles only.
4. The witnesses of the two finding classes are replayed on the real code in every run.
Env VERIF_KNOWN_EXTRA=<file>: additional `known:` lines (testing aid)."""
import json, os, re, shutil, sys, threading, time
from collections import deque

if __name__ == '__main__':
    sys.path.insert(0, os.path.dirname(os.path.dirname(os.path.abspath(__file__))))
from vlib import tlc, tlaval, gorun, core

HARNESS = ['zz_vs_sched.go', 'zz_listenermod_test.go']
INSTR = {"files": {"listener.go": {
    "everyStmt": ["Listener.Close", "Listener.Run", "sessions.add", "sessions.removeShutdownSession", "sessions.closeAll",
                  "sessionCallback.OnShutdown"],
    "addrLocks": ["mu", "sessionMu"]}}}
SLUG_DL = 'listener-add-after-close-self-deadlock'
SLUG_ST = 'listener-dead-session-registered'
CLASS_BIT = {SLUG_DL: 1, SLUG_ST: 2}
WHAT = {
    SLUG_DL: 'sessions.add finds the set closed (data == nil: Listener.Close ran while the connection was in its handshake) and '
             'calls session.Close() while holding sessionMu; Session.Close calls sessionCallback.OnShutdown -> '
             'removeShutdownSession -> sessionMu.Lock() on the same goroutine: Run never returns, the session stays half closed '
             '(shutdownCh open, no teardown), every later session shutdown and Listener.Close blocks on sessionMu',
    SLUG_ST: 'a session that shuts down between newSession and sessions.add is registered after its removeShutdownSession has '
             'run: the closed session stays in Listener.sessions until another session shuts down or the listener is closed',
}

RUN = 100
PC = {'idle': 0, 'acc': 1, 'addL': 2, 'addU': 3, 'clsL': 4, 'lnc': 5, 'caL': 6, 'caU': 7, 'rmL': 8, 'rmU': 9, 'done': 10}
SAFETY = 'TypeOK ShutdownAtMostOnce ShutdownDelivered ReasonRight LockOrder SetClosed LnClosed RunDoneClosed'
GUARDED = 'G_NoSelfDeadlock G_NoStale G_SweptGone G_Final'
STRICT = 'NoSelfDeadlock NoStale SweptGone Final'

CFG = """SPECIFICATION %(spec)s
CONSTANTS
  NSess = %(nsess)d
  NClosers = %(nclosers)d
  MaxTemp = %(maxtemp)d
  MaxFail = %(maxfail)d
  Fatal = %(fatal)s
  Unlink = %(unlink)s
  MaxStreams = %(maxstreams)d
  Feat = {%(feat)s}
INVARIANTS %(inv)s
%(extra)s
CHECK_DEADLOCK FALSE
"""

# graphs that are replayed on the real code
QUICK_GRAPHS = [
    dict(name='2s-1c', nsess=2, nclosers=1, maxtemp=0, maxfail=0, fatal=False, unlink=True, maxstreams=0),
    dict(name='1s-2c-fatal', nsess=1, nclosers=2, maxtemp=0, maxfail=0, fatal=True, unlink=False, maxstreams=0),
    dict(name='1s-1c-faults', nsess=1, nclosers=1, maxtemp=1, maxfail=1, fatal=True, unlink=True, maxstreams=1),
]
THOROUGH_GRAPHS = [
    dict(name='2s-2c-faults', nsess=2, nclosers=2, maxtemp=1, maxfail=1, fatal=True, unlink=True, maxstreams=0),
    dict(name='2s-1c-streams', nsess=2, nclosers=1, maxtemp=0, maxfail=0, fatal=True, unlink=False, maxstreams=1),
]
# design only (no graph dump)
DESIGN_THOROUGH = [dict(name='3s-2c', nsess=3, nclosers=2, maxtemp=0, maxfail=0, fatal=True, unlink=True, maxstreams=0)]
SMALL = QUICK_GRAPHS[0]

TLC_SLOTS = threading.Semaphore(5)
TLC_WORKERS = 3


def cfg_text(c, feat, inv, spec='Spec', extra=''):
    b = lambda x: 'TRUE' if x else 'FALSE'
    return CFG % dict(spec=spec, nsess=c['nsess'], nclosers=c['nclosers'], maxtemp=c['maxtemp'], maxfail=c['maxfail'],
                      fatal=b(c['fatal']), unlink=b(c['unlink']), maxstreams=c['maxstreams'],
                      feat=', '.join('"%s"' % f for f in sorted(feat)), inv=inv, extra=extra)


def describe(c, feat):
    return 'NSess=%d NClosers=%d MaxTemp=%d MaxFail=%d Fatal=%s Unlink=%s MaxStreams=%d Feat=%s' % (
        c['nsess'], c['nclosers'], c['maxtemp'], c['maxfail'], c['fatal'], c['unlink'], c['maxstreams'], sorted(feat))


def thread_ids(c):
    return [RUN] + [200 + i for i in range(1, c['nclosers'] + 1)] + list(range(1, c['nsess'] + 1))


def fn(v, keys):
    return tlaval.seq_or_fn(v, keys)


def project(st, c):
    """structural projection of a spec state; same layout as lsnWorld.project() in the harness"""
    sess_ids = list(range(1, c['nsess'] + 1))
    cb = st['cbShut']
    reason = 0 if not cb else (1 if cb[0] == 'close' else 2)
    v = [int(st['isClose']), int(st['errStr']), int(st['lnClosed']), int(st['file']), len(cb), reason, int(st['dataNil']),
         int(st['mu'] != 0), int(st['smu'] != 0)]
    sess = fn(st['sess'], sess_ids)
    nstr = fn(st['nstr'], sess_ids)
    members = st['members']
    for s in sess_ids:
        state = {'none': 0, 'live': 1, 'closed': 2}[sess[s]]
        v += [state, int(s in members), nstr[s]]
    pc = st['pc']
    for t in thread_ids(c):
        v.append(PC[pc[t]])
    return v


def kf_bits(st, c):
    bits = 0
    if st['pc'][RUN] == 'rmL' and st['smu'] == RUN:
        bits |= 1
    swept = fn(st['swept'], list(range(1, c['nsess'] + 1)))
    if any(swept[s] and s in st['members'] for s in range(1, c['nsess'] + 1)):
        bits |= 2
    return bits


def parse_label(label):
    m = re.match(r'(\w+)(?:\((.*)\))?$', label.strip())
    name = m.group(1)
    args = []
    if m.group(2):
        for a in m.group(2).split(','):
            a = a.strip().strip('\\').strip('"').strip('\\')
            args.append(int(a) if re.fullmatch(r'-?\d+', a) else a)
    return name, args


def edge_op(label):
    """-> (op, thread, arg) understood by the harness"""
    name, args = parse_label(label)
    if name == 'RunStart':
        return 'runstart', RUN, 0
    if name == 'AccTemp':
        return 'acctemp', RUN, args[0]
    if name == 'AccFail':
        return 'accfail', RUN, 0
    if name == 'AccOk':
        return 'accok', RUN, args[0]
    if name == 'AccFatal':
        return 'accfatal', RUN, 1 if args[0] == 'inject' else 0
    if name == 'CloseCall':
        return 'closecall', args[0], 0
    if name == 'Die':
        return 'die', args[0], args[0]
    if name == 'NewStream':
        return 'newstream', 0, args[0]
    if name.startswith('Step'):
        return 'step', args[0], 0
    raise ValueError('unknown action label %r' % label)


class Graph:
    pass


def build_graph(c, feat, out, errs):
    """TLC: exhaustive check of the configuration + state graph -> job graph"""
    try:
        t0 = time.time()
        with TLC_SLOTS:
            res, nodes, edges, inits = tlc.dump_graph('Listener', 'mc.cfg', timeout=900, workers=TLC_WORKERS,
                                                      extra_files={'mc.cfg': cfg_text(c, feat, SAFETY + ' ' + GUARDED)})
        if res.violation or not res.ok or not edges or not inits:
            errs.append((c['name'], res))
            return
        g = Graph()
        g.c, g.res, g.wall = c, res, 0.0
        idx = {}
        g.nodes, g.kf, g.states = [], [], []
        for nid, txt in nodes.items():
            st = tlaval.parse_state(txt)
            idx[nid] = len(g.nodes)
            g.nodes.append(project(st, c))
            g.kf.append(kf_bits(st, c))
        g.init = idx[inits[0]]
        g.edges = []
        for (s, d, lab) in edges:
            lab = lab.replace('\\', '')
            op, t, a = edge_op(lab)
            g.edges.append({'s': idx[s], 'd': idx[d], 'op': op, 't': t, 'a': a, 'lab': lab})
        g.wall = time.time() - t0
        out[c['name']] = g
    except Exception as ex:  # pragma: no cover
        r = tlc.TLCResult()
        r.error = 'exception: %r' % ex
        errs.append((c['name'], r))


def bfs_parents(g, allowed):
    """shortest-path tree over the edges whose index is in `allowed` (None = all)"""
    out = {}
    for i, e in enumerate(g.edges):
        if allowed is None or i in allowed:
            out.setdefault(e['s'], []).append(i)
    par = {g.init: None}
    dq = deque([g.init])
    order = [g.init]
    while dq:
        n = dq.popleft()
        for i in out.get(n, []):
            d = g.edges[i]['d']
            if d not in par:
                par[d] = i
                order.append(d)
                dq.append(d)
    return par, order


def path_to(g, par, node):
    p = []
    while par[node] is not None:
        p.append(par[node])
        node = g.edges[par[node]]['s']
    return list(reversed(p))


def explicit_of(g, path, name, cls=''):
    return {'name': name, 'nsess': g.c['nsess'], 'nclosers': g.c['nclosers'], 'unlink': g.c['unlink'], 'class': cls,
            'steps': [{'op': g.edges[i]['op'], 't': g.edges[i]['t'], 'a': g.edges[i]['a'], 'proj': g.nodes[g.edges[i]['d']]}
                      for i in path]}


def witness(g, bit, name, cls):
    """shortest history of the graph into the finding class `bit`"""
    par, order = bfs_parents(g, None)
    for n in order:
        if g.kf[n] & bit:
            return explicit_of(g, path_to(g, par, n), name, cls)
    return None


def plan_paths(g, prune, only_edges=None):
    """edge cover of the graph without the edges into pruned finding classes; with only_edges: one path per listed edge"""
    allowed = set(i for i, e in enumerate(g.edges) if not (g.kf[e['d']] & prune) and not (g.kf[e['s']] & prune))
    if only_edges is None:
        sub = [i for i in range(len(g.edges)) if i in allowed]
        tl = [(str(g.edges[i]['s']), str(g.edges[i]['d']), '') for i in sub]
        paths, remaining = tlc.cover_paths([str(g.init)], tl)
        reach = set()
        for p in paths:
            reach.update(sub[j] for j in p)
        return [[sub[j] for j in p] for p in paths], reach
    par, _order = bfs_parents(g, allowed)
    paths = []
    for i in only_edges:
        if i in allowed and g.edges[i]['s'] in par:
            paths.append(path_to(g, par, g.edges[i]['s']) + [i])
    return paths, set(only_edges)


def job_graph(g, paths):
    return {'name': g.c['name'], 'nsess': g.c['nsess'], 'nclosers': g.c['nclosers'], 'unlink': g.c['unlink'], 'init': g.init,
            'nodes': g.nodes, 'kf': g.kf, 'edges': g.edges, 'paths': paths}


def go(job, timeout):
    wd = tlc.scratch('vlsn')
    try:
        return gorun.run_harness('^TestVS_ListenerMod$', HARNESS, INSTR, inputs={'job': job}, workdir=wd, timeout=timeout)
    finally:
        shutil.rmtree(wd, ignore_errors=True)


def known_map():
    known = core.known_findings()
    extra = os.environ.get('VERIF_KNOWN_EXTRA')
    if extra and os.path.exists(extra):
        for line in open(extra):
            m = re.match(r'known:\s+property=(\S+)\s+id=(\S+)\s+(.*)', line.strip())
            if m:
                known[(m.group(1), m.group(2))] = m.group(3)
    return known


def brief(ex):
    parts = []
    for s in ex.get('steps', []):
        if s['op'] in ('step', 'closecall'):
            parts.append('%s(%d)' % (s['op'], s['t']))
        elif s['op'] == 'runstart':
            parts.append('runstart')
        else:
            parts.append('%s(%d)' % (s['op'], s['a']))
    return ' '.join(parts)


def report_common(ck, r, label):
    """drift lines, violations without a class, harness problems; returns the number of violations reported"""
    for e in r.get('harness_err') or []:
        ck.inconc('Listener pass (%s): harness error: %s' % (label, e[:600]))
    for d in r.get('drift') or []:
        print('SPEC-DRIFT module=Listener at=%s' % d[:700])
    if r.get('drift_count'):
        ck.cov['spec_drift'] = True
        ck.notes.append('Listener pass (%s): spec drift on %d paths - the real listener took a step / settled in a state that '
                        'Listener.tla does not predict although no C14 observable was wrong; exhaustiveness does not transfer'
                        % (label, r['drift_count']))
    n = 0
    seen = set()
    for v in r.get('violations') or []:
        if v['kind'] in seen:
            continue
        seen.add(v['kind'])
        n += 1
        hist = brief(v.get('explicit') or {})
        ck.violation('Listener: %s: %s  (history on the real listener: %s; source %s)' % (v['kind'], v['detail'], hist or '-', v['source']),
                     {'kind': 'listener', 'explicit': v.get('explicit'), 'rand_seed': v.get('rand_seed', 0), 'detail': v['detail'],
                      'slug': ''})
    return n


def run_into(ck, tier):
    t_start = time.time()
    quick = tier != 'thorough'
    known = known_map()
    listed = {s: (ck.prop, s) in known for s in (SLUG_DL, SLUG_ST)}
    ck.assumptions += [
        'Listener pass: lock-granular binding - the accept loop, the callers of Listener.Close and the goroutine in which a '
        'session shuts down are scheduler threads; a peer death is injected by calling the event loop\'s own entry point '
        '(Session.onRemoteClose) on such a thread; the real epoll loop with real peer deaths runs in the random worlds only',
        'Listener pass: Accept + newSession is one step of the specification; the rest of Session.Close (stream notification, '
        'teardown) is module Lifecycle\'s',
        'Listener pass: bounded exhaustiveness - TLC is exhaustive for the stated constants only',
    ]
    cov = ck.cov.setdefault('listener_pass', {})

    # TLC for the pinned variant runs while the witnesses are replayed (the common case: the tree is the pinned one)
    graphs_cfg = [dict(g) for g in QUICK_GRAPHS + ([] if quick else THOROUGH_GRAPHS)]

    def tlc_round(feat):
        built, gerrs, design = {}, [], {}

        def design_run(key, c, feat_, inv, spec='Spec', props='', timeout=600):
            with TLC_SLOTS:
                design[key] = tlc.run('Listener', 'mc.cfg', timeout=timeout, workers=TLC_WORKERS,
                                      extra_files={'mc.cfg': cfg_text(c, feat_, inv, spec=spec, extra=('PROPERTIES ' + props) if props else '')})

        gth = {c['name']: threading.Thread(target=build_graph, args=(c, feat, built, gerrs)) for c in graphs_cfg}
        ths = list(gth.values())
        # leads: the strict invariants on the design as it is in the tree (violated while a finding class is there)
        ths.append(threading.Thread(target=design_run, args=('strict-no-self-deadlock', SMALL, feat, 'NoSelfDeadlock')))
        ths.append(threading.Thread(target=design_run, args=('strict-no-stale', SMALL, feat, 'NoStale SweptGone')))
        # liveness (Close returns, Run returns, a dead session is unregistered) on the repaired design
        live_c = SMALL if quick else THOROUGH_GRAPHS[0]
        ths.append(threading.Thread(target=design_run, args=('repaired-design-liveness', live_c, {'addfix', 'stalefix'},
                                                             SAFETY + ' ' + STRICT, 'FairSpec', 'CloseReturns RunReturns DeadUnregistered')))
        if not quick:
            for c in DESIGN_THOROUGH:
                ths.append(threading.Thread(target=design_run, args=('design ' + c['name'], c, feat, SAFETY + ' ' + GUARDED)))
        for t in ths:
            t.start()
        return built, gerrs, design, ths, gth

    # ---- which listener is in the tree? The witnesses of the two classes are taken from the graph of the pinned
    # specification and replayed on the real code while TLC works on the other configurations.
    built, gerrs, design, ths, gth = tlc_round(set())
    gth[SMALL['name']].join()
    if SMALL['name'] not in built:
        for t in ths:
            t.join()
        name, res = gerrs[0]
        ck.inconc('Listener pass: TLC %s on the pinned specification (%s): %s' % (
            ('reports ' + res.violation) if res.violation else 'did not complete', name, (res.error or res.out[-400:])[:500]))
        return
    gs = built[SMALL['name']]
    wit = {SLUG_DL: witness(gs, 1, 'witness-' + SLUG_DL, SLUG_DL), SLUG_ST: witness(gs, 2, 'witness-' + SLUG_ST, SLUG_ST)}
    if not wit[SLUG_DL] or not wit[SLUG_ST]:
        for t in ths:
            t.join()
        ck.inconc('Listener pass: the pinned specification has no state of a finding class (classifier vacuous?)')
        return
    ck.log('Listener pass: TLC on %d graph configurations (+ design runs) while the class witnesses run on the real code' % len(graphs_cfg))
    probe_job = {'graphs': [], 'explicit': [wit[SLUG_DL], wit[SLUG_ST]], 'random': {'worlds': 0, 'seeds': []}, 'seed': ck.seed,
                 'procs': 2, 'budget_ms': 60000, 'prune_kf': 0, 'listed': [s for s in listed if listed[s]]}
    gp = go(probe_job, 240)
    for t in ths:
        t.join()
    if gp.result is None:
        ck.inconc('Listener pass: the witness probe produced no result (rc=%d): %s' % (gp.rc, gp.out[-1200:]))
        return
    pr = gp.result
    if pr.get('harness_err'):
        ck.inconc('Listener pass: witness probe: %s' % '; '.join(pr['harness_err'])[:800])
        return
    reproduced = {}
    for slug in (SLUG_DL, SLUG_ST):
        res = (pr.get('explicit_results') or {}).get('witness-' + slug, 'env')
        if res == 'env':
            ck.inconc('Listener pass: the witness of %s could not be executed on the real code (%s)' % (slug, '; '.join(pr.get('env_notes') or [])[:400]))
            return
        reproduced[slug] = (res == 'class:' + slug)
    nviol = report_common(ck, pr, 'witness probe')
    feat = set()
    if not reproduced[SLUG_DL]:
        feat.add('addfix')
    if not reproduced[SLUG_ST]:
        feat.add('stalefix')
    cov['listener_variant_replayed'] = 'pinned' if not feat else 'repaired: %s' % sorted(feat)
    cov['witness_results'] = pr.get('explicit_results')
    reported = {}
    for slug in (SLUG_DL, SLUG_ST):
        w = (pr.get('class_witness') or {}).get(slug)
        if reproduced[slug]:
            reported[slug] = True
            hist = brief(wit[slug])
            detail = w['detail'] if w else ''
            if listed[slug]:
                ck.known(slug, '%s [reproduced on the real listener: %s -> %s]' % (known.get((ck.prop, slug), ''), hist, detail[:500]))
            else:
                ck.violation('Listener: %s  (%s; history on the real listener: %s)' % (detail or WHAT[slug], WHAT[slug], hist),
                             {'kind': 'listener', 'explicit': wit[slug], 'slug': slug, 'detail': detail})
        elif listed[slug]:
            ck.notes.append('Listener pass: the listed known finding %s no longer reproduces on this tree' % slug)
    if feat:
        ck.log('Listener pass: the tree has a repaired sessions.add (%s): TLC again with Feat' % sorted(feat))
        built, gerrs, design, ths, gth = tlc_round(feat)
        for t in ths:
            t.join()
    for name, res in gerrs:
        if res.violation:
            ck.inconc('Listener pass: TLC reports %s on Listener.tla (%s) - a lead on the design, not a verdict on the code' % (res.violation, name))
        else:
            ck.inconc('Listener pass: TLC did not complete on %s: %s' % (name, (res.error or res.out[-400:])[:500]))
    if gerrs:
        return
    tcfg = ck.cov.setdefault('tlc_configs', [])
    for c in graphs_cfg:
        g = built[c['name']]
        ck.add('states', g.res.distinct)
        ck.add('transitions', len(g.edges))
        tcfg.append('Listener %s (%s): %d distinct states, %d transitions, depth %d, %d states in a finding class; %.0fs'
                    % (c['name'], describe(c, feat), g.res.distinct, len(g.edges), g.res.depth, sum(1 for k in g.kf if k), g.wall))
    for key, res in sorted(design.items()):
        if key.startswith('strict-'):
            cov.setdefault('design_leads', []).append('%s (%s): TLC %s' % (
                key, describe(SMALL, feat), ('violated, counterexample of %d states' % len(res.trace)) if res.violation
                else ('holds (%d states)' % res.distinct if res.ok else 'not finished')))
            if res.ok or res.violation:
                ck.add('states', res.distinct)
                ck.add('transitions', res.generated)
            expect_violated = (key == 'strict-no-self-deadlock' and 'addfix' not in feat) or (key == 'strict-no-stale' and 'stalefix' not in feat)
            if res.ok and expect_violated:
                ck.inconc('Listener pass: %s holds on the specification of the variant in which the real code shows the class' % key)
            if res.violation and not expect_violated:
                ck.inconc('Listener pass: TLC reports %s on the repaired specification - design-level lead' % res.violation)
            continue
        if res.violation:
            ck.inconc('Listener pass: TLC reports %s on Listener.tla (%s) - design-level lead' % (res.violation, key))
            continue
        if res.ok:
            ck.add('states', res.distinct)
            ck.add('transitions', res.generated)
            tcfg.append('Listener %s: %d distinct states, %d generated, depth %d, %.0fs' % (key, res.distinct, res.generated, res.depth, res.wall))
        else:
            ck.inconc('Listener pass: TLC did not complete on %s: %s' % (key, (res.error or res.out[-300:])[:400]))

    # ---- the real listener walks the graphs
    prune = sum(CLASS_BIT[s] for s in (SLUG_DL, SLUG_ST) if listed[s])
    glist = [built[c['name']] for c in graphs_cfg]
    plans = [plan_paths(g, prune) for g in glist]
    wanted = [reach for (_p, reach) in plans]
    covered = [set() for _ in glist]
    total = dict(paths=0, steps=0, compared=0, conforming=0, nd=0, env=0, drift=0)
    budget_total = 50 if quick else 320
    procs = 8
    rounds = 0
    jpaths = [p for (p, _r) in plans]
    rand_worlds = 36 if quick else 400
    counters = {}
    class_hits = {}
    while True:
        rounds += 1
        left = budget_total - (time.time() - t_start)
        if rounds > 1 and left < 12:
            break
        left = max(left, 30 if quick else 120)      # the repaired-listener path (TLC twice) must not starve the walk
        job = {'graphs': [job_graph(g, jpaths[i]) for i, g in enumerate(glist)], 'explicit': [],
               'random': {'worlds': rand_worlds if rounds == 1 else 0, 'seeds': []}, 'seed': ck.seed + rounds - 1, 'procs': procs,
               'budget_ms': int(max(8, left - 10) * 1000), 'prune_kf': prune, 'listed': [s for s in listed if listed[s]]}
        g = go(job, int(max(8, left - 10)) + 240)
        if g.result is None:
            ck.inconc('Listener pass: the harness produced no result (rc=%d): %s' % (g.rc, g.out[-1500:]))
            return
        r = g.result
        nviol += report_common(ck, r, 'round %d' % rounds)
        for k, key in (('paths', 'paths'), ('steps', 'steps'), ('compared', 'compared'), ('conforming', 'conforming'),
                       ('nd', 'nd_diverged'), ('env', 'env_aborted'), ('drift', 'drift_count')):
            total[k] += r.get(key, 0)
        for k, v in (r.get('counters') or {}).items():
            counters[k] = counters.get(k, 0) + v
        for k, v in (r.get('class_hits') or {}).items():
            class_hits[k] = class_hits.get(k, 0) + v
        for i, cv in enumerate(r.get('covered') or []):
            covered[i].update(cv)
        for s in r.get('samples') or []:
            ck.sample('history replayed on the real listener: ' + s[:600])
        if rounds == 1:
            cov['random_worlds'] = {'run': r.get('random_worlds', 0), 'judged': r.get('random_judged', 0),
                                    'not_judged_slow': r.get('random_slow', 0)}
            if r.get('random_worlds', 0) and not r.get('random_judged', 0) and not r.get('class_hits'):
                ck.notes.append('Listener pass: no free-running world could be judged (machine too slow)')
        # a finding class met in the walk or in a free-running world
        for slug, w in (r.get('class_witness') or {}).items():
            if reported.get(slug):
                continue
            reported[slug] = True
            hist = brief(w.get('explicit') or {})
            if listed.get(slug):
                ck.known(slug, '%s [reproduced on the real listener: %s -> %s]' % (known.get((ck.prop, slug), ''), hist, w['detail'][:500]))
            else:
                ck.violation('Listener: %s  (%s; history on the real listener: %s)' % (w['detail'], WHAT.get(slug, slug), hist),
                             {'kind': 'listener', 'explicit': w.get('explicit'), 'slug': slug, 'detail': w['detail']})
        missing = [sorted(wanted[i] - covered[i]) for i in range(len(glist))]
        if not any(missing) or r.get('drift_count') or nviol:
            break
        jpaths = [plan_paths(gg, prune, only_edges=missing[i][:4000])[0] for i, gg in enumerate(glist)]
    ck.add('traces_validated_against_impl', total['conforming'])
    tot_w = sum(len(w) for w in wanted)
    tot_c = sum(len(wanted[i] & covered[i]) for i in range(len(glist)))
    cov.update({
        'paths_executed_on_real_listener': total['paths'], 'steps_on_real_listener': total['steps'],
        'states_compared_with_spec': total['compared'], 'conforming_paths': total['conforming'],
        'map_order_took_other_branch': total['nd'], 'paths_abandoned_env': total['env'], 'drift_paths': total['drift'],
        'edges_to_replay': tot_w, 'edges_replayed': tot_c, 'replay_complete': bool(tot_w) and tot_c == tot_w, 'rounds': rounds,
        'finding_classes_pruned_from_walk': [s for s in (SLUG_DL, SLUG_ST) if CLASS_BIT[s] & prune],
        'class_hits_outside_witness': class_hits, 'real_code_counters': counters,
        'per_graph': ['%s: %d of %d edges replayed' % (g.c['name'], len(wanted[i] & covered[i]), len(wanted[i])) for i, g in enumerate(glist)],
    })
    if tot_c < tot_w:
        ck.notes.append('Listener pass: %d of %d edges not replayed (time budget, or alternatives of the closeAll map order that did '
                        'not come up in %d rounds)' % (tot_w - tot_c, tot_w, rounds))
    if total['paths'] == 0 or total['env'] > max(3, total['paths'] // 2):
        ck.inconc('Listener pass: the real listener could not be driven: %d paths executed, %d abandoned (handshake time-outs on a '
                  'loaded machine?)' % (total['paths'], total['env']))
    ck.log('Listener pass: %d paths / %d steps on the real listener, %d conforming, %d/%d edges, %d drift, %.0fs'
           % (total['paths'], total['steps'], total['conforming'], tot_c, tot_w, total['drift'], time.time() - t_start))


def replay(ck, rep):
    """./check C14 --replay <file> for replay objects of kind 'listener'"""
    out, errs = {}, []
    build_graph(SMALL, set(), out, errs)
    if out:
        g = out[SMALL['name']]
        ck.add('states', g.res.distinct)
        ck.add('transitions', len(g.edges))
        ck.cov.setdefault('tlc_configs', []).append('Listener %s (%s): %d distinct states, %d transitions' % (
            SMALL['name'], describe(SMALL, set()), g.res.distinct, len(g.edges)))
    ex = rep.get('explicit')
    seed = rep.get('rand_seed') or 0
    job = {'graphs': [], 'explicit': [], 'random': {'worlds': 0, 'seeds': []}, 'seed': ck.seed, 'procs': 1, 'budget_ms': 120000,
           'prune_kf': 0, 'listed': []}
    if ex and ex.get('steps'):
        job['explicit'] = [dict(ex, name='replay')]
        ck.sample({'replayed': brief(ex)})
    elif seed:
        job['random']['seeds'] = [seed] * 12
        job['procs'] = 4
        ck.sample({'replayed': 'free-running world, seed %d, 12 times' % seed})
    else:
        ck.inconc('Listener replay: nothing to replay in %r' % (list(rep.keys()),))
        return
    g = go(job, 400)
    ck.add('traces_validated_against_impl', 0)
    if g.result is None:
        ck.inconc('Listener replay: the harness produced no result (rc=%d): %s' % (g.rc, g.out[-1200:]))
        return
    r = g.result
    ck.add('traces_validated_against_impl', r.get('conforming', 0))
    n = 0
    for v in (r.get('violations') or [])[:3]:
        n += 1
        ck.violation('Listener: %s: %s' % (v['kind'], v['detail']), rep)
    for slug, w in (r.get('class_witness') or {}).items():
        n += 1
        ck.violation('Listener: %s: %s' % (w['kind'], w['detail']), rep)
    if not n and seed and (r.get('class_hits') or {}):
        ck.violation('Listener: free-running world blocked for ever (%s)' % r['class_hits'], rep)
    for d in r.get('drift') or []:
        print('SPEC-DRIFT module=Listener at=%s' % d[:700])
    if not n and r.get('env_aborted'):
        ck.inconc('Listener replay: the history could not be executed (%s)' % '; '.join(r.get('env_notes') or [])[:400])


if __name__ == '__main__':
    import argparse
    ap = argparse.ArgumentParser()
    ap.add_argument('--tier', default=os.environ.get('VERIF_TIER', 'quick'))
    ap.add_argument('--seed', type=int, default=int(os.environ.get('VERIF_SEED', '1')))
    ap.add_argument('--replay')
    a = ap.parse_args()
    ck_ = core.Check('C14', 'model_checking', a.tier, a.seed)
    _viol = ck_.violation
    # stand-alone driver: do not overwrite the replay files of a real C14 run
    ck_.violation = lambda desc, obj, name=None: _viol(desc, obj, name=name or 'C14_listener_driver_%s_%d.json' % (ck_.tier, len(ck_.violations)))
    if a.replay:
        replay(ck_, json.load(open(a.replay)))
    else:
        run_into(ck_, a.tier)
    print(json.dumps({k: v for k, v in ck_.cov.items() if k != 'samples'}, indent=1, default=str)[:6000])
    for s in ck_.cov.get('samples', [])[:3]:
        print('sample:', str(s)[:300])
    for line in ck_.known_printed:
        print(line)
    for n_ in ck_.notes:
        print('note:', n_)
    for desc, path in ck_.violations:
        print('VIOLATION property=C14 replay=%s\n  %s' % (path, desc))
    for why in ck_.inconclusive:
        print('INCONCLUSIVE:', why)
    print('driver: %d violations, %d inconclusive, wall %.1fs (no evidence written)' % (
        len(ck_.violations), len(ck_.inconclusive), time.time() - ck_.t0))
