"""C12 — module Handshake, binding B2: every scenario of the TLC-checked specification (pairing x transport x fault
point) is executed with the real newSession on every end that exists in the tree, against the real other end or a
scripted raw-socket peer; every observable is compared with the terminal states TLC computed for that scenario and the
property oracles are evaluated on the real objects (results, versions, memory identity, resource census, time)."""
import json, os, random, re, shutil
from collections import defaultdict
from vlib import tlc, tlaval, gorun, core

PROPS = ['C12']

HARNESS = ['zz_handshake_test.go']
INVARIANTS = 'TypeOK Agreement SurvivorSound NoOneSidedSuccess ServerSuccessMeansClientSentAll Cleanup Bounded'
CFG_TMPL = """SPECIFICATION Spec
CONSTANTS
  Maps = {"file", "memfd"}
  CProtos = {2, 3}
  SGens = {"cur", "v2strict", "v2exch"}
  Transports = {"unix", "tcp"}
  FKinds = {"stall", "close", "halfstall", "halfclose", "late", "nobuf", "badbuf"}
  MaxStep = 5
  Strict = %(strict)s
  RefuseMemfdDowngrade = %(refuse)s
  TimeoutStopsGoroutine = %(stops)s
  BufferFdLeaks = %(bfdleak)s
INVARIANTS """ + INVARIANTS + """
PROPERTY Termination
CHECK_DEADLOCK FALSE
"""
# set to True together with the repair of finding memfd-downgrade-sends-paths (see handshake_NOTES.md)
REFUSE_MEMFD_DOWNGRADE = True
# set to True together with the repair of finding late-goroutine-after-timeout
TIMEOUT_STOPS_GOROUTINE = True
# set to False together with the repair of finding memfd-buffer-fd-leak-on-map-failure
BUFFER_FD_LEAKS = False
CFG_KEYS = ['map', 'cproto', 'sgen', 'tr', 'fside', 'fstep', 'fkind']
TIMEOUT_MS = 1500
LATE_TIMEOUT_MS = 300
SLACK_MS = 600           # (or 30 % of the timeout) creation of the mappings happens inside newSession as well
WIRE_NAMES = {'EXCH': 'ExchangeProtoVersion', 'PATH': 'ShareMemoryByFilePath', 'MEMFD': 'ShareMemoryByMemfd',
              'ACKRDY': 'AckReadyRecvFD', 'ACK': 'AckShareMemory', 'FDS': 'FDS'}

K_NOACK = 'v2-client-no-ack'
K_DOWNGRADE = 'memfd-downgrade-sends-paths'
K_LATE = 'late-goroutine-after-timeout'
K_BFD = 'memfd-buffer-fd-leak-on-map-failure'


def cfg_key(c):
    return tuple(c[k] for k in CFG_KEYS)


def terminal_states(nodes, edges):
    """group the states without successor by scenario"""
    has_out = set()
    for s, d, _l in edges:
        if s != d:
            has_out.add(s)
    by = defaultdict(list)
    for nid, txt in nodes.items():
        if nid in has_out:
            continue
        st = tlaval.parse_state(txt)
        by[cfg_key(st['cfg'])].append(st)
    return by


def client_real_exists(c):
    return (c['map'], c['cproto']) in (('file', 2), ('memfd', 3))


def server_real_exists(c):
    return c['sgen'] == 'cur'


def smax(c):
    return 3 if c['sgen'] == 'cur' else 2


def build_scenarios(terms, tier, rng):
    """one execution per (scenario, choice of real ends); faults that never fire and half-kinds that never truncate
    anything are duplicates of other scenarios and are dropped"""
    out, skipped = [], defaultdict(int)
    for key in sorted(terms, key=lambda k: tuple(str(x) for x in k)):
        c = dict(zip(CFG_KEYS, key))
        sts = terms[key]
        if c['fside'] != 'none' and c['fkind'] == 'late' and tier == 'quick' and c['tr'] != 'unix':
            skipped['kind late over tcp (thorough tier only)'] += 1
            continue
        if c['fside'] != 'none' and c['fkind'] == 'late':
            other = 's' if c['fside'] == 'c' else 'c'
            if not any(any(w[0] == other and w[3] == 'timeout' for w in st['wire']) for st in sts):
                skipped['pause that nobody waits for (same as no fault)'] += 1
                continue
        elif c['fkind'] in ('nobuf', 'badbuf'):
            pass          # the client does not stop; its buffer cannot be mapped
        elif c['fside'] != 'none':
            fired = any(st['res'][c['fside']] in ('stalled', 'closed') for st in sts)
            if not fired:
                skipped['fault never fires (same as no fault)'] += 1
                continue
            if c['fkind'].startswith('half') and not any(any(w[3] == 'half' for w in st['wire']) for st in sts):
                skipped['half-kind at a receive step (same as stall/close)'] += 1
                continue
        variants = []
        if c['fside'] == 'none':
            if client_real_exists(c) and server_real_exists(c):
                variants.append((True, True))
            if client_real_exists(c):
                variants.append((True, False))
            if server_real_exists(c):
                variants.append((False, True))
        elif c['fside'] == 'c':
            if server_real_exists(c):
                variants.append((False, True))
        else:
            if client_real_exists(c):
                variants.append((True, False))
        if not variants:
            skipped['no end of this pairing exists in the tree'] += 1
            continue
        for rc, rs in variants:
            if c['tr'] == 'tcp' and c['map'] == 'memfd' and not rc:
                # a scripted client cannot pass descriptors over tcp and the real one refuses: nothing real to run
                skipped['memfd over tcp with a scripted client'] += 1
                continue
            sc = dict(c)
            sc.update(realc=rc, reals=rs, timeout_ms=TIMEOUT_MS)
            out.append(sc)
    reps = 1 if tier == 'quick' else 5
    out = [dict(sc) for sc in out for _ in range(reps)]
    rng.shuffle(out)
    for i, sc in enumerate(out):
        sc['id'] = i
    return out, dict(skipped)


def classify_err(err):
    e = err or ''
    if 'init timeout' in e:
        return {'err_timeout'}
    if 'conn.Network must be unix' in e:
        return {'err_cfg'}
    if 'broken pipe' in e:
        return {'err_pipe'}
    if 'connection reset' in e:
        return {'err_pipe', 'err_eof'}
    if 'oobnLen:0' in e or 'EOF' in e:
        return {'err_eof'}
    if 'mappingQueueManager failed' in e or 'mappingBufferManager' in e or 'no such file' in e \
            or 'mappingFreeBufferList' in e:
        return {'err_map'}
    if 'not support the protocol version' in e or 'only supports protocol version' in e or 'expect' in e or 'invalid protocol version' in e \
            or 'invalid msg type' in e:
        return {'err_proto'}
    return {'err_other'}


def end_classes(end):
    if end['res'] == 'ok':
        return {'ok'}
    if end['res'] in ('stalled', 'closed'):
        return {end['res']}
    if end['real']:
        return classify_err(end['err'])
    return {end['class']}


def conforms(sc, o, sts):
    """does the observation equal one of the terminal states TLC computed for this scenario?"""
    why = []
    for st in sts:
        ok = True
        for x, end in (('c', o['c']), ('s', o['s'])):
            if st['res'][x] not in end_classes(end):
                ok = False
                why.append('%s: spec %s, real %s' % (x, st['res'][x], sorted(end_classes(end))))
                break
            if end['res'] == 'ok' and end['ver'] != st['ver'][x]:
                ok = False
                why.append('%s version: spec %d, real %d' % (x, st['ver'][x], end['ver']))
                break
            if not end['real']:
                # what the scripted end read must be a prefix of what the spec says the other end wrote
                sent = [[WIRE_NAMES[w[1]], w[2]] for w in st['wire'] if w[0] != x and w[3] == 'sent']
                got = [[r[0], int(r[1])] for r in end['recv']]
                for g in got:
                    if g[0] == 'FDS':
                        g[1] = 1
                if got != sent[:len(got)]:
                    ok = False
                    why.append('wire seen by scripted %s: %s, spec %s' % (x, got, sent))
                    break
        if ok:
            return True, ''
    return False, '; '.join(sorted(set(why))[:3])


def evaluate(ck, sc, o, sts, known, stats):
    """property oracles on one executed scenario. Returns list of (kind, text): kind in violation/known/drift/inconc"""
    res = []
    c, s = o['c'], o['s']
    name = '%s/p%d client x %s server over %s, fault %s' % (
        sc['map'], sc['cproto'], sc['sgen'], sc['tr'],
        'none' if sc['fside'] == 'none' else '%s %s at step %d' % (sc['fside'], sc['fkind'], sc['fstep']))
    name += ' [client %s, server %s]' % ('real' if sc['realc'] else 'scripted', 'real' if sc['reals'] else 'scripted')
    if o.get('panic'):
        return [('violation', name + ': panic: ' + o['panic'][:400])]
    if o.get('note', '').startswith('harness: an end did not return'):
        hung = [x for x, e in (('client', c), ('server', s)) if e.get('class') == 'hang']
        if hung:
            return [('violation', name + ': %s newSession did not return within 3x the initialization timeout + 5 s'
                     % ' and '.join(hung))]
    if o.get('note'):
        return [('inconc', name + ': ' + o['note'])]
    for e in (c, s):
        if not e['real'] and e.get('class') == 'err_harness':
            return [('inconc', name + ': scripted peer could not set itself up: ' + e['err'])]
    minver = min(sc['cproto'], smax(sc))
    # --- O1 agreement / one-sided success
    c_ok, s_ok = c['res'] == 'ok', s['res'] == 'ok'
    one_sided = None
    if sc['fside'] == 'none' and c_ok != s_ok:
        one_sided = 'client %s, server %s (%s)' % (c['res'], s['res'], (s['err'] if c_ok else c['err'])[:120])
    if sc['fside'] == 's' and c['real'] and c_ok and not s.get('mapped'):
        one_sided = 'client reports success although the server (%s) never mapped the memory' % s['res']
    if one_sided:
        slug = None
        if c_ok and c['ver'] == 2 and sc['fside'] == 's':
            slug = K_NOACK
        elif c_ok and sc['map'] == 'memfd' and sc['sgen'] == 'v2exch':
            slug = K_DOWNGRADE
        if slug and ('C12', slug) in known:
            stats['known_' + slug] += 1
            res.append(('known', slug, name + ': ' + one_sided))
        else:
            res.append(('violation', name + ': one-sided outcome: ' + one_sided +
                        (' [class %s, not listed in known-findings.txt]' % slug if slug else '')))
    # --- O0 a compatible pairing without fault must be established (the error arm of the property is for faults and
    #        incompatible pairings: the design establishes this pairing in every behaviour)
    if sc['fside'] == 'none' and sts and all(st['res']['c'] == 'ok' and st['res']['s'] == 'ok' for st in sts) \
            and not c_ok and not s_ok:
        res.append(('violation', name + ': compatible pairing, no fault, but establishment fails on both ends: client: %s; '
                                        'server: %s' % (c['err'][:150], s['err'][:150])))
    # --- O2 version
    for x, e in (('client', c), ('server', s)):
        if e['real'] and e['res'] == 'ok' and e['ver'] != minver:
            res.append(('violation', name + ': %s communicationVersion is %d, the lower common version is %d'
                        % (x, e['ver'], minver)))
    if c_ok and s_ok and c['ver'] != s['ver']:
        res.append(('violation', name + ': versions differ: client %d, server %d' % (c['ver'], s['ver'])))
    # --- O3 same memory
    if c_ok and s_ok or (o['queue_same'] != 'n/a'):
        if (c_ok and s_ok) and o['queue_same'] == 'n/a':
            res.append(('violation', name + ': both ends succeeded but one holds no mapping'))
        for k, what in (('queue_same', 'queue memory'), ('buffer_same', 'buffer memory'),
                        ('queue_dir', 'queue direction (send/receive halves)')):
            if o[k] == 'no':
                res.append(('violation', name + ': the two ends do not share the same %s: %s' % (what, o['mem_detail'])))
        if o['stream'].startswith('no'):
            res.append(('violation', name + ': echo over a stream of the established pair failed: ' + o['stream'][3:]))
        stats['memory_identity_checks'] += 1
    # --- O4 failure: bounded and clean
    for x, e in (('client', c), ('server', s)):
        if e['real'] and e['res'] == 'err':
            if e['ms'] > sc['timeout_ms'] + max(SLACK_MS, 0.3 * sc['timeout_ms']):
                res.append(('violation', name + ': %s failed only after %d ms (initialization timeout %d ms)'
                            % (x, e['ms'], sc['timeout_ms'])))
            stats['failure_paths'] += 1
    if o['left_after_failure_valid']:
        stats['census_after_failure'] += 1
        if o['left_after_failure']:
            what = name + ': left behind after the failed handshake: ' + ', '.join(o['left_after_failure'])[:400]
            slug = None
            if sc['fkind'] == 'late' and sc['fside'] != 'none':
                slug = K_LATE
            elif sc['map'] == 'memfd' and sc['fkind'] == 'badbuf' and \
                    all(l.startswith('fd:') and '_b_buffer' in l for l in o['left_after_failure']):
                slug = K_BFD     # only the received BUFFER descriptor; anything else left is not this class
            if slug and ('C12', slug) in known:
                stats['known_' + slug] += 1
                res.append(('known', slug, what))
            else:
                res.append(('violation', what + (' [class %s, not listed in known-findings.txt]' % slug if slug else '')))
    if o['left_after_close']:
        stats['left_after_close'] += 1
    # --- conformance with the specification (structure): drift, not a verdict
    if sts is not None:
        okc, why = conforms(sc, o, sts)
        if okc:
            stats['conforming'] += 1
        else:
            res.append(('drift', name + ': ' + why))
    return res


def run_scenarios(scs, workers, timeout):
    wd = tlc.scratch('vhs')
    try:
        g = gorun.run_harness('^TestVS_Handshake$', HARNESS, None,
                              inputs={'job': {'scenarios': scs, 'workers': workers}}, timeout=timeout, workdir=wd)
        g.in_flight = []
        try:
            started, finished = [], set()
            for line in open(os.path.join(wd, 'progress.log')):
                w, i = line.split()
                (started.append(int(i)) if w == 'S' else finished.add(int(i)))
            g.in_flight = [i for i in started if i not in finished]
        except (OSError, ValueError):
            pass
        return g
    finally:
        shutil.rmtree(wd, ignore_errors=True)


def model_check(strict):
    return tlc.dump_graph('Handshake', 'mc.cfg', timeout=600, workers=4,
                          extra_files={'mc.cfg': CFG_TMPL % dict(
                              strict='TRUE' if strict else 'FALSE', refuse='TRUE' if REFUSE_MEMFD_DOWNGRADE else 'FALSE',
                              stops='TRUE' if TIMEOUT_STOPS_GOROUTINE else 'FALSE',
            bfdleak='TRUE' if BUFFER_FD_LEAKS else 'FALSE')})


def run(prop, tier, seed, replay=None):
    ck = core.Check(prop, 'model_checking', tier, seed)
    rng = random.Random(ck.seed)
    known = core.known_findings()
    ck.assumptions += [
        'bounded exhaustiveness: all pairings {file,memfd} x {protocol 2,3} x {current, v2-strict, v2-exchanging server}'
        ' x {unix,tcp} x {no fault, either side stalls/closes before each of its IO operations, optionally after a '
        'truncated message, or pauses there until the other end has timed out and then goes on}; one fault per run',
        'server generations older than the tree and the (file, protocol 3) client are scripted emulations (no such code '
        'in the tree); (memfd, protocol 2) does not exist',
        'the time-out arm is modelled as firing only when no message can arrive any more; a peer that pauses longer than the '
        'time-out and then goes on is fault kind "late" (executed one at a time, after the other scenarios)',
        'the duplicated socket descriptor of a failed end is closed by the os.File finaliser: the census runs after forced '
        'garbage collections',
        'real client and real server run in one process: the server end then finds the client\'s buffer manager in the '
        'library\'s global table instead of mapping it again; independent mapping of the buffer is exercised by the '
        'real-vs-scripted executions of the same scenario',
    ]
    # ---- 1. design: TLC, exhaustive, with the state graph
    res, nodes, edges, inits = model_check(strict=False)
    if res.violation:
        ck.inconc('TLC reports %s on the Handshake specification itself (design-level lead, not a verdict on the code)'
                  % res.violation)
        return ck.finish()
    if not res.ok or not nodes:
        ck.inconc('TLC did not complete: %s' % (res.error or res.out[-500:]))
        return ck.finish()
    ck.add('states', res.distinct)
    ck.add('transitions', len(edges))
    ck.cov['exhaustive'] = True
    terms = terminal_states(nodes, edges)
    ck.cov['tlc_configs'] = ['Handshake, %d scenarios (initial states), known one-sided classes exempted: %d distinct '
                             'states, %d transitions, depth %d, %.1fs; invariants %s; property Termination'
                             % (len(inits), res.distinct, len(edges), res.depth, res.wall, INVARIANTS)]
    ck.cov['scenarios_in_spec'] = len(terms)
    ck.cov['terminal_states'] = sum(len(v) for v in terms.values())
    if ck.tier == 'thorough' and not replay:
        # the same design without the exemption: TLC's counterexample is the lead the known classes come from
        sres = tlc.run('Handshake', 'mc.cfg', timeout=300, workers=2, extra_files={'mc.cfg': CFG_TMPL % dict(
            strict='TRUE', refuse='TRUE' if REFUSE_MEMFD_DOWNGRADE else 'FALSE',
            stops='TRUE' if TIMEOUT_STOPS_GOROUTINE else 'FALSE',
            bfdleak='TRUE' if BUFFER_FD_LEAKS else 'FALSE')})
        if sres.violation:
            lead = sres.trace[0][1].get('cfg') if sres.trace else None
            ck.cov['strict_design_check'] = 'without the exemption TLC reports %s violated, e.g. scenario %s ' \
                                            '(replayed on the real code below)' % (sres.violation, lead)
        elif sres.ok:
            ck.cov['strict_design_check'] = 'holds without exemption'
            ck.add('states', sres.distinct)
    else:
        ck.cov['strict_design_check'] = 'thorough tier only'

    if replay:
        return do_replay(ck, replay, terms, known)

    # ---- 2. every scenario on the real code
    scs, skipped = build_scenarios(terms, ck.tier, rng)
    ck.cov['executions_planned'] = len(scs)
    ck.cov['scenarios_not_executed'] = skipped
    ck.log('TLC: %d states, %d scenarios; executing %d scenario runs on the real code' % (res.distinct, len(terms), len(scs)))
    # scenarios of kind "late" leave a goroutine of the library behind that uses descriptor numbers which are no longer
    # its own: they run after the others and one at a time
    late = [sc for sc in scs if sc['fkind'] == 'late' and sc['fside'] != 'none']
    scs = [sc for sc in scs if not (sc['fkind'] == 'late' and sc['fside'] != 'none')]
    for i, sc in enumerate(scs):
        sc['id'] = i
    for i, sc in enumerate(late):
        sc.update(id=i, timeout_ms=LATE_TIMEOUT_MS)
    ck.cov['executions_planned_late_kind'] = len(late)
    g = run_scenarios(scs, 12, 900 if ck.tier == 'quick' else 2400)
    if g.result is None:
        if not crashed(ck, scs, g):
            return ck.finish()
        # no single scenario crashes: an interaction between executions (see NOTES, "late goroutine"); once more, fewer at a time
        g = run_scenarios(scs, 4, 1800)
        if g.result is None:
            ck.inconc('the test process crashed twice: ' + (crash_reason(g.out) or g.out[-600:]))
            return ck.finish()
    outs = list(g.result['outs'])
    if late:
        gl = run_scenarios(late, 1, 900)
        if gl.result is None:
            gl.in_flight = gl.in_flight or []
            if not crashed(ck, late, gl):
                return ck.finish()
            ck.inconc('the executions of kind "late" crashed the test process: ' + (crash_reason(gl.out) or ''))
            return ck.finish()
        scs = scs + late
        outs += gl.result['outs']
    judge(ck, scs, outs, terms, known)
    ck.cov['goroutines_at_end'] = g.result.get('goroutines_end')
    return ck.finish()


def judge(ck, scs, outs, terms, known, replaying=False, confirm=True):
    """first pass: all scenarios in parallel. Anything that is not a clean, conforming pass is executed a second time,
    almost serially and with a longer initialization timeout (the oracles are time based and the machine may be busy);
    only what shows again is reported."""
    stats = defaultdict(int)
    drift, witnesses = [], {}
    nviol = 0
    pergroup = defaultdict(int)
    verdicts = []
    for sc, o in zip(scs, outs):
        st = defaultdict(int)
        verdicts.append([sc, o, evaluate(ck, sc, o, terms.get(cfg_key(sc)), known, st), st])
    again = [i for i, v in enumerate(verdicts) if any(r[0] in ('violation', 'drift', 'inconc') for r in v[2])]
    if again and confirm:
        ck.log('%d executions were not clean passes; executing them again (longer timeout, 3 at a time)' % len(again))
        scs2 = []
        for j, i in enumerate(again):
            sc2 = dict(verdicts[i][0])
            sc2.update(id=j, timeout_ms=3 * sc2['timeout_ms'])
            scs2.append(sc2)
        g = run_scenarios(scs2, 1 if any(x['fkind'] == 'late' for x in scs2) else 3, 1800)
        if g.result is None:
            ck.inconc('harness (second pass) produced no result (rc=%d): %s' % (g.rc, g.out[-1500:]))
        else:
            for sc2, o2, i in zip(scs2, g.result['outs'], again):
                st = defaultdict(int)
                first = verdicts[i][2]
                r2 = evaluate(ck, sc2, o2, terms.get(cfg_key(sc2)), known, st)
                kinds2 = set(r[0] for r in r2)
                if not (kinds2 & {'violation', 'drift', 'inconc'}):
                    stats['not_reproduced_on_second_execution'] += 1
                    ck.notes.append('not reproduced on second execution: ' + '; '.join(r[-1] for r in first
                                                                                        if r[0] != 'known')[:300])
                verdicts[i] = [sc2, o2, r2, st]
            stats['executed_twice'] = len(again)
    for sc, o, rs, st in verdicts:
        for k, v in st.items():
            stats[k] += v
        stats['executed'] += 1
        stats['real_ends_run'] += int(sc['realc']) + int(sc['reals'])
        for r in rs:
            if r[0] == 'violation':
                nviol += 1
                grp = re.sub(r'^.*?\]: ', '', r[1])[:28]
                pergroup[grp] += 1
                if pergroup[grp] <= 2 and len(ck.violations) < 10:
                    rep = {k: sc[k] for k in CFG_KEYS + ['realc', 'reals', 'timeout_ms']}
                    ck.violation(r[1], {'kind': 'scenario', 'scenario': rep, 'observed': o},
                                 name=(os.path.basename(replaying) if replaying else None))
            elif r[0] == 'known':
                witnesses.setdefault(r[1], []).append(r[2])
            elif r[0] == 'drift':
                drift.append(r[1])
            elif r[0] == 'inconc':
                ck.inconc(r[1])
        if len(ck.cov['samples']) < 5 and stats['executed'] % 25 == 1:
            ck.sample({'scenario': {k: sc[k] for k in CFG_KEYS + ['realc', 'reals']},
                       'client': {k: o['c'][k] for k in ('res', 'err', 'ver', 'ms')},
                       'server': {k: o['s'][k] for k in ('res', 'err', 'ver', 'ms')},
                       'wire_seen_by_scripted_peer': o['c']['recv'] or o['s']['recv'],
                       'memory': [o['queue_same'], o['buffer_same'], o['queue_dir'], o['stream']],
                       'left_after_failure': o['left_after_failure']})
    for slug, ws in witnesses.items():
        ck.known(slug, '%s [reproduced on the real code in %d executions, e.g. %s]'
                 % (known.get(('C12', slug), ''), len(ws), ws[0]))
    ck.add('traces_validated_against_impl', stats['conforming'])
    ck.cov['executions'] = stats['executed']
    ck.cov['executed_twice'] = stats['executed_twice']
    ck.cov['not_reproduced_on_second_execution'] = stats['not_reproduced_on_second_execution']
    ck.cov['real_ends_run'] = stats['real_ends_run']
    ck.cov['conforming_executions'] = stats['conforming']
    ck.cov['memory_identity_checks'] = stats['memory_identity_checks']
    ck.cov['failure_paths_of_real_ends'] = stats['failure_paths']
    ck.cov['census_after_failure'] = stats['census_after_failure']
    ck.cov['known_finding_class_executions'] = {k[6:]: v for k, v in stats.items() if k.startswith('known_')}
    ck.cov['violating_executions'] = nviol
    if stats['left_after_close']:
        ck.notes.append('%d executions still had a mapping/descriptor/file of the scenario 3 s after Session.Close of the '
                        'established ends (subject of C14, not judged here)' % stats['left_after_close'])
    ck.cov['spec_drift'] = bool(drift)
    for d in drift[:10]:
        print('SPEC-DRIFT module=Handshake at=%s' % d)
    if drift:
        ck.notes.append('%d executions ended in a state that is not a terminal state of the specification for that '
                        'scenario (property oracles were still evaluated)' % len(drift))
    return stats


def crash_reason(out):
    m = re.search(r'^(panic: .*|fatal error: .*|unexpected fault address .*)$', out, re.M)
    return m.group(1)[:300] if m else None


def crashed(ck, scs, g):
    """the test process died. If it was a panic/fatal error of the library (on one of its own goroutines, where the
    harness cannot recover), find the scenario by executing those that were in flight one by one."""
    why = crash_reason(g.out)
    if not why or not g.in_flight:
        ck.inconc('harness produced no result (rc=%d): %s' % (g.rc, g.out[-1500:]))
        return False
    ck.log('the test process crashed (%s) with %d scenarios in flight; executing them one by one' % (why, len(g.in_flight)))
    byid = {sc['id']: sc for sc in scs}
    found = 0
    for i in g.in_flight[:16]:
        sc = dict(byid[i])
        g1 = run_scenarios([sc], 1, 300)
        if g1.result is None and crash_reason(g1.out):
            found += 1
            stack = [l.strip() for l in g1.out.split('\n') if 'shmipc-go.' in l and 'zz_' not in l][:4]
            ck.violation('the process crashes during the handshake of %s/p%d client x %s server over %s (fault %s %s at %d) '
                         '[client %s, server %s]: %s at %s'
                         % (sc['map'], sc['cproto'], sc['sgen'], sc['tr'], sc['fside'], sc['fkind'], sc['fstep'],
                            'real' if sc['realc'] else 'scripted', 'real' if sc['reals'] else 'scripted',
                            crash_reason(g1.out), ' <- '.join(stack)),
                         {'kind': 'scenario', 'scenario': {k: sc[k] for k in CFG_KEYS + ['realc', 'reals', 'timeout_ms']}})
            if found >= 3:
                break
    if not found:
        stack = [l.strip() for l in g.out.split('\n') if 'shmipc-go.' in l and 'zz_' not in l][:5]
        ck.notes.append('the test process crashed once (%s at %s) but no scenario in flight crashes on its own; all '
                        'scenarios were executed again, 4 at a time' % (why, ' <- '.join(stack)))
        return True
    return False


def do_replay(ck, path, terms, known):
    rep = json.load(open(path))
    sc = dict(rep['scenario'])
    sc['id'] = 0
    g = run_scenarios([sc], 1, 300)
    if g.result is None:
        g.in_flight = [0]
        crashed(ck, [sc], g)
        return ck.finish()
    print(json.dumps(g.result['outs'][0], indent=1))
    judge(ck, [sc], g.result['outs'], terms, known, replaying=path, confirm=False)
    return ck.finish()
