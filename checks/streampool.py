"""C15 - module StreamPool: TLC behaviours of specs/StreamPool.tla replayed on the real SessionManager/streamPool/Stream
code (harness/zz_streampool_test.go), plus invoke/return histories of free-running concurrent callers validated against
the spec (Trace_StreamPool)."""
import json, os, random, re
from concurrent.futures import ThreadPoolExecutor
from vlib import tlc, tlaval, gorun, core

PROPS = ['C15']
HARNESS = ['zz_vs_sched.go', 'zz_pair_test.go', 'zz_streampool_test.go']
# statement-granular scheduling points in the pool functions and in the two Stream functions PutBack runs before it
# publishes the stream (rewriter rule everyStmt; the pool mutex is embedded, so p.Lock() is scheduler-aware)
INSTR = {"files": {
    "session_manager.go": {"funcs": [], "everyStmt": ["streamPool.putOrCloseStream", "streamPool.push", "streamPool.pop",
                                                       "streamPool.getOrOpenStream"]},
    "stream.go": {"funcs": [], "everyStmt": ["Stream.reset", "Stream.ReleaseReadAndReuse"]},
}}
SLUG_DISCARD = 'pool-discard-without-close'
SLUG_LATE = 'late-reply-into-pooled-stream'
SLUG_WRITE = 'unflushed-write-survives-reuse'
SLUG_CBARM = 'close-after-reset-not-armed'
SLUGS = [SLUG_DISCARD, SLUG_LATE, SLUG_WRITE, SLUG_CBARM]

INVS = 'TypeOK Exclusive NoLeakModKnown CountExact TableShape CapOK'
PROPS_TL = 'FreshModKnown PutOutcome DeferredCloseDone'

# name, callers, cap, N, MaxSess, MaxOwed, MaxUnread, features
QUICK = [
    ('core-2callers', [1, 2], 1, 3, 1, 2, 2, ['peerclose', 'reply']),
    ('fallback-unflushed-1caller', [1], 1, 3, 1, 2, 2, ['fb', 'write', 'reply', 'peerclose', 'closeheld']),
    ('sessionloss-1caller', [1], 1, 3, 2, 1, 1, ['sess', 'rebuild', 'peerclose', 'reply', 'closeheld']),
    ('cap2-2callers', [1, 2], 2, 3, 1, 1, 1, ['peerclose', 'reply']),
    ('callback-2callers', [1, 2], 1, 2, 1, 1, 1, ['cb', 'reply', 'write']),
    ('split-2callers', [1, 2], 1, 2, 1, 1, 1, ['split', 'reply', 'write']),
]
THOROUGH = QUICK + [
    ('sessionloss-2callers', [1, 2], 1, 2, 2, 1, 1, ['sess', 'rebuild', 'peerclose']),
    ('closeheld-2callers', [1, 2], 2, 3, 1, 1, 1, ['peerclose', 'closeheld', 'reply']),
    ('fallback-2callers', [1, 2], 1, 2, 1, 1, 1, ['fb', 'reply', 'peerclose', 'closeheld']),
    ('unflushed-2callers', [1, 2], 1, 2, 1, 2, 1, ['write', 'reply', 'peerclose']),
    ('all-1caller', [1], 1, 2, 2, 2, 1, ['fb', 'reply', 'peerclose', 'closeheld', 'sess', 'rebuild', 'write']),
    ('all-2callers-nosess', [1, 2], 1, 2, 1, 2, 1, ['fb', 'reply', 'peerclose', 'closeheld', 'write']),
    ('callback-peerclose-2callers', [1, 2], 1, 2, 1, 1, 1, ['cb', 'reply', 'write', 'peerclose']),
    ('callback-1caller', [1], 1, 2, 1, 2, 1, ['cb', 'reply', 'write', 'peerclose', 'closeheld']),
    ('split-peerclose-2callers', [1, 2], 1, 2, 1, 1, 1, ['split', 'reply', 'write', 'peerclose']),
]
# checked by TLC only (no graph dump, nothing replayed): everything at once
BIG = ('all-2callers', [1, 2], 1, 2, 2, 2, 1, ['fb', 'reply', 'peerclose', 'closeheld', 'sess', 'rebuild', 'write'])


# How the CURRENT code behaves in the three places where the spec has a switch. TRUE = the repaired code of /repo HEAD
# (fix: commits 9994681, f652d15): getOrOpenStream closes what it discards / refuses a pooled stream with unread data,
# reset() refuses a non-empty write buffer. These constants only decide what the spec PREDICTS (conforming vs. drift);
# verdicts come from the oracles on the real objects and from known-findings.txt alone.
# VERIF_C15_PREFIX_CODE=drop,unread,wbuf switches them back for experiments with a worktree that predates the fixes.
AS_CODE = {'drop': True, 'unread': True, 'wbuf': True, 'arms': True}
for _k in (os.environ.get('VERIF_C15_PREFIX_CODE') or '').split(','):
    if _k in AS_CODE:
        AS_CODE[_k] = False


def S(a, c=0, s=0, f=False):
    return {'a': a, 'c': c, 's': s, 'f': f}


# Regression cases: the TLC counterexamples (strict NoLeak / Fresh on the pre-fix design, see thorough tier) that
# reproduced the three defects on the real code before the fixes. They are replayed RAW in every run; if one shows its
# defect again it is a VIOLATION (or a KNOWN-FINDING if the slug is listed in known-findings.txt).
REGRESSION = [
    (SLUG_DISCARD, 1, 1, [S('Get', 1), S('Send', 1), S('Put', 1), S('PeerClose', s=1), S('Get', 1)]),
    (SLUG_LATE, 1, 1, [S('Get', 1), S('Send', 1), S('Put', 1), S('PeerReply', s=1), S('Get', 1)]),
    (SLUG_WRITE, 1, 1, [S('Get', 1), S('Write', 1), S('Put', 1), S('Get', 1)]),
    (SLUG_WRITE, 1, 1, [S('Get', 1), S('Send', 1), S('Write', 1), S('PeerReply', s=1), S('Read', 1), S('Put', 1), S('Get', 1)]),
    # PutBack while OnData runs + successful reset + full pool: Close() deferred but not armed (TLC: strict NoLeak, depth 9)
    (SLUG_CBARM, 2, 1, [S('Get', 1), S('SetCb', 1), S('Send', 1), S('Get', 2), S('Put', 2), S('PeerReply', s=1), S('Put', 1),
                        S('CbReturn', s=1)]),
    # PutBack while OnData runs + FAILING reset (unflushed / unread data): the deferred close must be armed and happen
    # (TLC counterexample of the design variant ResetClearsCbFirst = seeded change C15r2-m1)
    ('callback-close-after-failed-reset', 1, 1, [S('Get', 1), S('SetCb', 1), S('Send', 1), S('PeerReply', s=1), S('Write', 1), S('Put', 1),
                                                 S('CbReturn', s=1)]),
    ('callback-close-after-failed-reset', 1, 1, [S('Get', 1), S('SetCb', 1), S('Send', 1), S('PeerReply', s=1), S('PeerClose', s=1),
                                                 S('Put', 1), S('CbReturn', s=1)]),
]
# statement-granular interleaving of one caller's PutBack with another caller's GetStream+WriteBytes after this setup (the
# TLC counterexample of the design variant PushBeforeRelease = seeded change C15r2-m2 needs the buffer swap, i.e. a
# completely read answer)
REGRESSION_SWEEPS = [
    {'name': 'regression-sweep-after-read', 'cap': 1, 'callers': 2, 'a': 1, 'b': 2,
     'setup': [S('Get', 1), S('Send', 1), S('PeerReply', s=1), S('Read', 1)]},
    {'name': 'regression-sweep-cap2', 'cap': 2, 'callers': 2, 'a': 1, 'b': 2,
     'setup': [S('Get', 1), S('Get', 2), S('Put', 2), S('Send', 1), S('PeerReply', s=1), S('Read', 1)]},
]


def cfg_text(callers, cap, n, maxsess, maxowed, maxunread, feat, invs=INVS, props=PROPS_TL, drop=None, chk=None, wb=None,
             arms=None, m1=False, m2=False):
    drop = AS_CODE['drop'] if drop is None else drop
    chk = AS_CODE['unread'] if chk is None else chk
    wb = AS_CODE['wbuf'] if wb is None else wb
    arms = AS_CODE['arms'] if arms is None else arms
    B = lambda x: 'TRUE' if x else 'FALSE'
    return ('SPECIFICATION Spec\nCONSTANTS\n  Callers = {%s}\n  Cap = %d\n  N = %d\n  MaxSess = %d\n  MaxOwed = %d\n'
            '  MaxUnread = %d\n  DropCloses = %s\n  GetChecksUnread = %s\n  PutChecksWbuf = %s\n  CloseArmsAlways = %s\n'
            '  ResetClearsCbFirst = %s\n  PushBeforeRelease = %s\n  Feat = {%s}\n%s%sCHECK_DEADLOCK FALSE\n') % (
        ', '.join(map(str, callers)), cap, n, maxsess, maxowed, maxunread, B(drop), B(chk), B(wb), B(arms), B(m1), B(m2),
        ', '.join('"%s"' % f for f in feat),
        ('INVARIANTS %s\n' % invs) if invs else '', ('PROPERTIES %s\n' % props) if props else '')


def lst(v, n):
    """TLC prints a function over 1..n as a tuple, over another domain as a record/function"""
    if isinstance(v, dict):
        return [v[k] for k in sorted(v)]
    return list(v)


def expect(st):
    n = len(lst(st['st'], 0))
    return {'st': lst(st['st'], n), 'tab': lst(st['tab'], n), 'unread': lst(st['unread'], n), 'fb': lst(st['fb'], n),
            'srv': lst(st['srv'], n), 'wbuf': lst(st['wbuf'], n),
            'cb': [c and s != 'closed' for c, s in zip(lst(st['cb'], n), lst(st['st'], n))], 'inproc': lst(st['inproc'], n), 'ring': list(st['ring']), 'holder': lst(st['holder'], 0), 'sess': lst(st['sess'], 0),
            'cur': st['cur']}


def step_of(label):
    label = label.replace('\\', '')
    m = re.match(r'(\w+)(?:\((.*?)\))?', label)
    act = m.group(1)
    args = [a.strip() for a in (m.group(2) or '').split(',') if a.strip()]
    st = {'a': act, 'c': 0, 's': 0, 'f': False}
    if act in ('Get', 'Put', 'Read', 'CloseHeld', 'Write', 'SetCb', 'PutBegin', 'PutRelease', 'PutPush'):
        st['c'] = int(args[0])
    elif act == 'Send':
        st['c'] = int(args[0])
        st['f'] = args[1] == 'TRUE'
    elif act == 'PeerReply':
        st['s'] = int(args[0])
        st['f'] = args[1] == 'TRUE'
    elif act in ('PeerClose', 'Teardown', 'CbReturn'):
        st['s'] = int(args[0])
    return st


def fmt_step(s):
    a = s['a']
    if a in ('Get', 'Put', 'Read', 'CloseHeld', 'Write', 'SetCb', 'PutBegin', 'PutRelease', 'PutPush', 'Flush'):
        return '%s(%d)' % (a, s['c'])
    if a == 'Send':
        return 'Send(%d,%s)' % (s['c'], 'exhausted' if s['f'] else 'shm')
    if a == 'PeerReply':
        return 'PeerReply(%d,%s)' % (s['s'], 'exhausted' if s['f'] else 'shm')
    if a in ('PeerClose', 'Teardown', 'CbReturn'):
        return '%s(%d)' % (a, s['s'])
    return a


def histories_from_graph(name, plan, nodes, edges, inits):
    paths, _remaining = tlc.cover_paths(inits, edges)
    parsed = {}

    def node(n):
        if n not in parsed:
            parsed[n] = expect(tlaval.parse_state(nodes[n]))
        return parsed[n]
    hs = []
    for pi, path in enumerate(paths):
        steps = []
        for e in path:
            _s, d, label = edges[e]
            st = step_of(label)
            st['x'] = node(d)
            steps.append(st)
        hs.append({'name': '%s/cover-%d' % (name, pi), 'cap': plan[2], 'callers': len(plan[1]), 'n': plan[3], 'steps': steps,
                   'sched': any(s['a'].startswith('Put') and s['a'] != 'Put' for s in steps)})
    return hs


def history_from_trace(name, plan, trace, raw=True):
    steps = [step_of(label) for label, _st in trace[1:]]
    return {'name': name, 'cap': plan[2], 'callers': len(plan[1]), 'n': plan[3], 'raw': raw, 'steps': steps}


def shortest_witnesses(plan, graph, want):
    """shortest behaviours of the exhaustive graph into the two ghost-marked classes: (a) `leaked` becomes non-empty,
    (b) a Get hands out a stream that is in `late` (= has unread data of an earlier use)"""
    from collections import deque
    res, nodes, edges, inits = graph
    out = {}
    for idx, (s, d, _l) in enumerate(edges):
        out.setdefault(s, []).append(idx)
    parent = {inits[0]: None}
    dq = deque([inits[0]])
    parsed = {}

    def st(n):
        if n not in parsed:
            parsed[n] = tlaval.parse_state(nodes[n])
        return parsed[n]
    found = {}
    while dq and len(found) < len(want):
        n = dq.popleft()
        for e in out.get(n, []):
            s, d, label = edges[e]
            a, b = st(s), st(d)
            if SLUG_DISCARD in want and SLUG_DISCARD not in found and not a['leaked'] and b['leaked']:
                found[SLUG_DISCARD] = (n, e)
            if label.startswith('Get'):
                c = step_of(label)['c']
                ha, hb = lst(a['holder'], 0), lst(b['holder'], 0)
                callers = sorted(plan[1])
                k = callers.index(c)
                if ha[k] == 0 and hb[k] != 0:
                    if SLUG_LATE in want and SLUG_LATE not in found and hb[k] in a['late']:
                        found[SLUG_LATE] = (n, e)
                    if SLUG_WRITE in want and hb[k] in a['wstale']:
                        # two shapes: bytes still in the write buffer / swapped into the read buffer
                        swapped = lst(b['unread'], 0)[hb[k] - 1] > 0 and hb[k] not in a['late'] and not lst(b['wbuf'], 0)[hb[k] - 1]
                        shape = SLUG_WRITE + ('#swap' if swapped else '')
                        if not swapped and hb[k] in a['late']:
                            continue
                        if shape not in found:
                            found[shape] = (n, e)
            if d not in parent:
                parent[d] = e
                dq.append(d)
    res_h = []
    for slug, (n, e) in found.items():
        path = [e]
        m = n
        while parent[m] is not None:
            path.append(parent[m])
            m = edges[parent[m]][0]
        path.reverse()
        steps = [step_of(edges[x][2]) for x in path]
        res_h.append((slug.split('#')[0], {'name': 'witness-' + slug, 'cap': plan[2], 'callers': len(plan[1]), 'n': plan[3], 'raw': True, 'steps': steps}))
    return res_h


def run_go(ck, job, timeout=1500):
    g = gorun.run_harness('^TestVS_StreamPool$', HARNESS, INSTR, inputs={'job': job}, timeout=timeout)
    if g.result is None:
        ck.inconc('harness produced no result (rc=%d): %s' % (g.rc, g.out[-1500:]))
        return None
    return g.result


def replay_obj(v):
    ro = {'kind': 'history', 'cap': v.get('cap') or 1, 'callers': v.get('callers') or 2, 'history': v.get('history'),
          'steps': [{'a': s['a'], 'c': s.get('c', 0), 's': s.get('s', 0), 'f': s.get('f', False)} for s in (v.get('steps') or [])],
          'sched': any(s['a'] in ('PutBegin', 'PutRelease', 'PutPush') for s in (v.get('steps') or [])),
          'detail': v['detail']}
    if v.get('sweep'):
        ro['kind'] = 'sweep'
        ro['sweep'] = v['sweep']
    return ro


def sweeps_from_graph(plan, graph, rng, limit, nrandom, seed):
    """setups for the statement-granular PutBack/GetStream interleaving: states of the "split" graph in which a caller is
    about to give back a stream that reset() accepts while another caller holds nothing; one (shortest) behaviour per
    distinct shape of that stream and of the pool"""
    from collections import deque
    res, nodes, edges, inits = graph
    out = {}
    for idx, (s, d, _l) in enumerate(edges):
        out.setdefault(s, []).append(idx)
    parent = {inits[0]: None}
    dq = deque([inits[0]])
    parsed = {}

    def st(n):
        if n not in parsed:
            parsed[n] = tlaval.parse_state(nodes[n])
        return parsed[n]
    callers = sorted(plan[1])
    shapes = {}
    while dq:
        n = dq.popleft()
        for e in out.get(n, []):
            s, d, label = edges[e]
            if label.startswith('PutBegin'):
                a, b = st(s), st(d)
                c = step_of(label)['c']
                k = callers.index(c)
                pcb = lst(b['pc'], 0)
                if pcb[k] != 'idle':          # reset succeeded
                    sid = lst(a['holder'], 0)[k]
                    others = [x for i, x in enumerate(callers) if i != k and lst(a['holder'], 0)[i] == 0 and lst(a['pc'], 0)[i] == 'idle']
                    if others:
                        shape = (lst(a['cons'], 0)[sid - 1], lst(a['rsv'], 0)[sid - 1], lst(a['srv'], 0)[sid - 1],
                                 lst(a['owed'], 0)[sid - 1], len(a['ring']))
                        if shape not in shapes:
                            shapes[shape] = (n, c, others[0])
            if d not in parent:
                parent[d] = e
                dq.append(d)
    sw = []
    for shape, (n, a, b) in sorted(shapes.items(), key=lambda kv: str(kv[0])):
        path = []
        m = n
        while parent[m] is not None:
            path.append(parent[m])
            m = edges[parent[m]][0]
        path.reverse()
        steps = [step_of(edges[x][2]) for x in path]
        # the setup is replayed with atomic PutBack calls: fold the three phases
        folded = []
        for s_ in steps:
            if s_['a'] == 'PutBegin':
                folded.append(dict(s_, a='Put'))
            elif s_['a'] in ('PutRelease', 'PutPush'):
                continue
            else:
                folded.append(s_)
        sw.append({'name': '%s/sweep-shape-%s' % (plan[0], '-'.join(str(x) for x in shape)), 'cap': plan[2], 'callers': len(plan[1]),
                   'setup': folded, 'a': a, 'b': b, 'random': nrandom, 'seed': seed})
    if len(sw) > limit:
        sw = rng.sample(sw, limit)
    return sw


def report(ck, r, what, conc=None):
    for v in r['violations']:
        if v['kind'] in ('fixture', 'settle', 'server-read', 'hang'):
            ck.inconc('%s: harness problem in %s: %s' % (what, v.get('history'), v['detail']))
            continue
        hist = ' ; '.join(fmt_step(s) for s in (v.get('steps') or [])[:(v.get('at', 10 ** 6) + 1)])
        ro = replay_obj(v)
        if (v.get('history') or '').startswith('concurrent') and conc:
            ro['conc'] = conc
        ck.violation('%s [%s] %s%s' % (v['kind'], v.get('history'), v['detail'], (' -- history: ' + hist) if hist else ''), ro)
    for d in r['drift']:
        print('SPEC-DRIFT module=StreamPool at=%s' % d[:900])
    if r['drift_count']:
        ck.cov['spec_drift'] = True


def trace_spec_files(events, callers, cap, nstreams):
    """Trace_StreamPool instance for one recorded invoke/return history"""
    rows = []
    for e in events:
        rows.append('[ev |-> "%s", c |-> %d, op |-> "%s", s |-> %d, out |-> "%s"]' % (e['ev'], e['c'], e['op'], e['s'], e['out']))
    mod = ('---- MODULE MC_Trace_StreamPool ----\nEXTENDS Trace_StreamPool\nmcLog == <<\n  %s\n>>\n====\n' % ',\n  '.join(rows))
    cfg = ('SPECIFICATION TSpec\nCONSTANTS\n  TCallers = {%s}\n  TCap = %d\n  TN = %d\n  Log <- mcLog\n'
           'INVARIANTS TExclusive TNoLeak TNotDone\nCHECK_DEADLOCK FALSE\n') % (
        ', '.join(str(c) for c in range(1, callers + 1)), cap, max(nstreams, 1))
    return {'MC_Trace_StreamPool.tla': mod, 'tr.cfg': cfg}


def validate_trace(events, callers, cap):
    nstreams = max([e['s'] for e in events] + [1])
    res = tlc.run('MC_Trace_StreamPool', 'tr.cfg', workers=1, timeout=300,
                  extra_files=trace_spec_files(events, callers, cap, nstreams))
    return res


def run(prop, tier, seed, replay=None):
    ck = core.Check(prop, 'model_checking', tier, seed)
    rng = random.Random(ck.seed)
    quick = ck.tier == 'quick'
    ck.assumptions += [
        'real SessionManager.GetStream/PutBack, streamPool, Stream and Session code; sessions are vpPair fixtures (real '
        'shared memory mapped twice, real IO queues, real protocol handlers and send loops, no sockets); the event loop is '
        'the harness delivering recorded events, and every spec step ends settled',
        'the SessionManager is assembled in-package as NewSessionManager does, without dialling and without the '
        'background goroutine: its two effects (pool.close() on a lost session, session.Store of a rebuilt one) are '
        'environment steps performed by the harness with the real functions',
        'API calls are atomic in the spec (argued in StreamPool.tla: every shared step of Get/Put is under the pool mutex '
        'or the stream-table lock); the free-running concurrent runs check that on the real code',
        'hot restart (reservePools) and the circuit breaker (unhealthy sessions) are outside this module (C16/C17)',
    ]
    known = core.known_findings()
    listed = [s for s in SLUGS if (prop, s) in known]

    if replay:
        rep = json.load(open(replay))
        h = {'name': 'replay', 'cap': rep['cap'], 'callers': rep['callers'], 'n': 4, 'raw': False, 'steps': rep['steps']}
        job = {'histories': [h], 'known': listed, 'random': {'n': 0, 'seed': 1, 'steps': 0, 'callers': 1, 'cap': 1},
               'conc': {'runs': 0, 'callers': 1, 'ops': 0, 'cap': 1, 'seed': 1}}
        h['sched'] = bool(rep.get('sched'))
        job['sweeps'] = []
        if rep.get('conc'):
            job['histories'] = []
            job['conc'] = rep['conc']
        if rep.get('sweep'):
            job['histories'] = []
            job['sweeps'] = [rep['sweep']]
        r = run_go(ck, job)
        ck.add('states', 1)
        ck.add('transitions', max(1, len(rep['steps'])))
        ck.add('traces_validated_against_impl', 0)
        ck.sample({'replayed': [fmt_step(s) for s in rep['steps']]})
        if r is not None:
            report(ck, r, 'replay')
        return ck.finish()

    plans = QUICK if quick else THOROUGH
    ck.cov['tlc_configs'] = []
    NOJOB_R = {'n': 0, 'seed': 1, 'steps': 0, 'callers': 1, 'cap': 1}
    NOJOB_C = {'runs': 0, 'callers': 1, 'ops': 0, 'cap': 1, 'seed': 1}

    def graph(plan):
        name, callers, cap, n, ms, mo, mu, feat = plan
        return tlc.dump_graph('StreamPool', 'mc.cfg', timeout=1200, workers=1 if quick else 2,
                              extra_files={'mc.cfg': cfg_text(callers, cap, n, ms, mo, mu, feat)})
    core_plan = QUICK[0]

    lead_plan = ('lead', [1, 2], 1, 2, 1, 2, 1, ['peerclose', 'reply', 'write', 'cb'])
    write_plan = ('leadw', [1], 1, 2, 1, 2, 1, ['write'])
    cb_plan = ('leadcb', [1, 2], 1, 2, 1, 1, 1, ['cb', 'reply', 'write'])
    split_plan = ('leadsplit', [1, 2], 1, 2, 1, 1, 1, ['split', 'reply', 'write'])
    # strict property on a design in which ONE repair / ONE seeded change is undone: TLC must find the counterexample
    # kind -> (plan, slug, property name, invariants, action properties, switches, replay the counterexample on the code?)
    OLD = dict(drop=True, chk=True, wb=True, arms=True)
    STRICT = {
        'noleak': (core_plan, SLUG_DISCARD, 'NoLeak', 'NoLeak', '', dict(OLD, drop=False), True),
        'fresh': (core_plan, SLUG_LATE, 'Fresh', '', 'Fresh', dict(OLD, chk=False), True),
        'freshw': (write_plan, SLUG_WRITE, 'Fresh', '', 'Fresh', dict(OLD, wb=False), True),
        'cbarm': (cb_plan, SLUG_CBARM, 'NoLeak', 'NoLeak', '', dict(OLD, arms=False), True),
        'resetfirst': (cb_plan, 'callback-close-after-failed-reset', 'DeferredCloseDoneStrict (ResetClearsCbFirst, CloseArmsAlways off)',
                       '', 'DeferredCloseDoneStrict', dict(OLD, arms=False, m1=True), True),
        'pushfirst': (split_plan, 'push-before-release', 'Exclusive (PushBeforeRelease)', 'Exclusive', '', dict(OLD, m2=True), False),
    }

    def strict(kind):
        if kind in STRICT:
            (name, callers, cap, n, ms, mo, mu, feat), _slug, _pn, invs, props, sw, _rp = STRICT[kind]
            return tlc.run('StreamPool', 'mc.cfg', timeout=600, workers=1, extra_files={
                'mc.cfg': cfg_text(callers, cap, n, ms, mo, mu, feat, invs=invs, props=props, **sw)})
        name, callers, cap, n, ms, mo, mu, feat = lead_plan
        return tlc.run('StreamPool', 'mc.cfg', timeout=900, workers=2,
                       extra_files={'mc.cfg': cfg_text(callers, cap, n, ms, mo, mu, feat, invs='TypeOK Exclusive NoLeak TableShape CapOK',
                                                       props='Fresh PutOutcome DeferredCloseDoneStrict', drop=True, chk=True, wb=True, arms=True)})

    # the part of the real-code work that does not depend on TLC (free-running concurrent callers) runs while TLC
    # builds the graphs; its recorded histories are validated by TLC meanwhile. The seeded random histories run after
    # the graph histories.
    conc = {'runs': 12 if quick else 80, 'callers': 3, 'ops': 6, 'cap': 2, 'seed': ck.seed}
    randomj = {'n': 150 if quick else 4000, 'seed': ck.seed, 'steps': 30, 'callers': 2, 'cap': 2}
    job1 = {'histories': [], 'known': listed, 'random': NOJOB_R, 'conc': conc, 'sweeps': []}

    def go_raw(job, timeout):
        return gorun.run_harness('^TestVS_StreamPool$', HARNESS, INSTR, inputs={'job': job}, timeout=timeout)

    def traces_job(g1):
        """validate the recorded concurrent histories: one TLC run explains all of them (reset lines in between)"""
        if g1.result is None:
            return None
        sel = (g1.result.get('conc_traces') or [])[:(6 if quick else 40)]
        if not sel:
            return (sel, None, [])
        joined = []
        for ev in sel:
            if joined:
                joined.append({'ev': 'reset', 'c': 0, 'op': '', 's': 0, 'out': ''})
            joined += ev
        tr = validate_trace(joined, conc['callers'], conc['cap'])
        outs = []
        if tr.violation != 'TNotDone':
            outs = [validate_trace(ev, conc['callers'], conc['cap']) for ev in sel]
        return (sel, tr, outs)

    ck.log('TLC: %d configurations%s; concurrent runs on the real code in parallel'
           % (len(plans), '' if quick else ' + strict/repaired runs'))
    ex = ThreadPoolExecutor(max_workers=12)
    fg = [ex.submit(graph, p) for p in plans]
    fs = {} if quick else {k: ex.submit(strict, k) for k in list(STRICT) + ['repaired']}
    fbig = None
    if not quick:
        def big():
            name, callers, cap, n, ms, mo, mu, feat = BIG
            return tlc.run('StreamPool', 'mc.cfg', timeout=1500, workers=6,
                           extra_files={'mc.cfg': cfg_text(callers, cap, n, ms, mo, mu, feat)})
        fbig = ex.submit(big)
    f1 = ex.submit(go_raw, job1, 900 if quick else 2400)
    ftr = ex.submit(lambda: traces_job(f1.result()))
    graphs = [f.result() for f in fg]
    leads = {k: f.result() for k, f in fs.items()}

    histories = []
    per_plan = {}
    for plan, (res, nodes, edges, inits) in zip(plans, graphs):
        name = plan[0]
        if res.violation:
            ck.inconc('TLC reports %s on StreamPool (%s) although the known classes are exempted: design-level lead, '
                      'not a verdict about the code' % (res.violation, name))
            return ck.finish()
        if not res.ok or not edges:
            ck.inconc('TLC did not complete on %s: %s' % (name, res.error or res.out[-400:]))
            return ck.finish()
        ck.add('states', res.distinct)
        ck.add('transitions', len(edges))
        hs = histories_from_graph(name, plan, nodes, edges, inits)
        total = len(hs)
        limit = 600 if quick else 3000
        if len(hs) > limit:
            hs = rng.sample(hs, limit)
        per_plan[name] = (res, len(edges), total, len(hs))
        histories += hs

    # ---- 2. replay on the real code (the witnesses of the known classes first, raw): the spec (as-the-code constants)
    #         marks the classes with the ghosts `leaked` / `late`; the shortest TLC behaviour into each class decides the
    #         KNOWN-FINDING line. thorough: plus the counterexamples of the strict properties.
    wit = []
    for i, (slug, ncall, cap, steps) in enumerate(REGRESSION):
        wit.append((slug, {'name': 'regression-%d-%s' % (i, slug), 'cap': cap, 'callers': ncall, 'n': 2, 'raw': True, 'steps': steps}))
    # on a tree whose spec switches say "pre-fix", the ghost-marked classes exist in the graphs: shortest behaviours into them
    wplans = [(plans[0], graphs[0], [SLUG_DISCARD, SLUG_LATE])]
    wplans += [(p, g, [SLUG_WRITE, SLUG_WRITE + '#swap']) for p, g in zip(plans, graphs) if p[0] == 'unflushed-1caller']
    for wp, wg, want in wplans:
        for slug, h in shortest_witnesses(wp, wg, want):
            wit.append((slug, h))
            ck.cov[h['name'].replace('-', '_', 1)] = ' ; '.join(fmt_step(s) for s in h['steps'])
    if not quick:
        for kind, (pl, slug, _pn, _i, _p, _sw, rp) in STRICT.items():
            lr = leads[kind]
            if rp and lr.violation and lr.trace:
                wit.append((slug, history_from_trace('tlc-counterexample-' + slug, pl, lr.trace)))
    ck.log('graphs ready: %d histories to replay (+%d witnesses)' % (len(histories), len(wit)))
    sweeps = []
    for i, sw in enumerate(REGRESSION_SWEEPS):
        sweeps.append(dict(sw, random=10 if quick else 100, seed=ck.seed * 131 + i))
    for pl, gr in zip(plans, graphs):
        if 'split' in pl[7]:
            sweeps += sweeps_from_graph(pl, gr, rng, 6 if quick else 40, 8 if quick else 60, ck.seed)
    job2 = {'histories': [h for _, h in wit] + histories, 'known': listed, 'random': randomj, 'conc': NOJOB_C, 'sweeps': sweeps}
    g2 = go_raw(job2, 900 if quick else 2400)
    ck.log('replay on the real code done')
    g1 = f1.result()
    EMPTY = {'violations': [], 'drift': [], 'drift_count': 0, 'conforming': 0, 'replayed': 0, 'steps': 0, 'random_runs': 0,
             'sweep_runs': 0, 'sweep_points': 0, 'sweep_b_got_a_stream': 0, 'sweep_labels': [], 'sched_histories': 0,
             'random_steps': 0, 'oracle_evals': {}, 'known_hits': {}, 'samples': [], 'conc_runs': 0, 'conc_ops': 0,
             'conc_reused': 0, 'conc_traces': []}
    for g, what in ((g1, 'concurrent'), (g2, 'replay+random')):
        if g.result is None:
            # whatever the other run observed is still reported
            ck.inconc('harness (%s) produced no result (rc=%d%s): %s' % (what, g.rc, ', timeout' if g.timeout else '', g.out[-800:]))
        elif g.rc != 0:
            ck.inconc('harness (%s) ended abnormally (rc=%d%s); partial results are reported: %s'
                      % (what, g.rc, ', timeout' if g.timeout else '', g.out[-600:]))
    r1, r = g1.result or dict(EMPTY), g2.result or dict(EMPTY)
    wnames = set(h['name'] for _, h in wit)
    HARNESS_KINDS = ('fixture', 'settle', 'server-read', 'hang')
    wit_viol = [v for v in r['violations'] if v.get('history') in wnames and v['kind'] not in HARNESS_KINDS]
    for v in r['violations']:
        if v.get('history') in wnames and v['kind'] in HARNESS_KINDS:
            ck.inconc('witness %s: harness problem: %s' % (v.get('history'), v['detail']))
    r['violations'] = [v for v in r['violations'] if v.get('history') not in wnames]
    report(ck, r, 'replay')
    report(ck, r1, 'concurrent', conc=conc)
    ck.add('traces_validated_against_impl', r['conforming'])
    ck.cov['histories_replayed_on_real_code'] = r['replayed']
    ck.cov['replay_steps'] = r['steps']
    ck.cov['scheduler_driven_histories'] = r.get('sched_histories', 0)
    ck.cov['putback_getstream_interleavings'] = {
        'setups': len(sweeps), 'executions': r.get('sweep_runs', 0),
        'getstream_obtained_the_stream_being_given_back': r.get('sweep_b_got_a_stream', 0),
        'scheduling_points_seen': len(r.get('sweep_labels') or [])}
    ck.add('traces_validated_against_impl', 0)
    ck.cov['random_histories_on_real_code'] = r['random_runs'] + r1['random_runs']
    ck.cov['random_steps'] = r['random_steps'] + r1['random_steps']
    oe = dict(r['oracle_evals'])
    for k, v in r1['oracle_evals'].items():
        oe[k] = oe.get(k, 0) + v
    ck.cov['oracle_evaluations'] = oe
    kh = dict(r['known_hits'])
    for k, v in r1['known_hits'].items():
        kh[k] = kh.get(k, 0) + v
    ck.cov['known_finding_class_hits'] = kh
    ck.cov.setdefault('spec_drift', False)
    ck.cov['exhaustive'] = True
    for plan in plans:
        res, ne, total, used = per_plan[plan[0]]
        ck.cov['tlc_configs'].append('StreamPool %s (Callers=%s Cap=%d N=%d MaxSess=%d MaxOwed=%d MaxUnread=%d Feat=%s): %d distinct '
                                     'states, %d transitions, depth %d, %.0fs; %d cover histories, %d replayed'
                                     % (plan[0], plan[1], plan[2], plan[3], plan[4], plan[5], plan[6], plan[7], res.distinct, ne,
                                        res.depth, res.wall, total, used))
    if histories:
        h = histories[len(histories) // 2]
        ck.sample({'tlc_history_replayed_on_real_code': h['name'], 'steps': [fmt_step(s) for s in h['steps']]})
    for s in (r['samples'] + r1['samples'])[:2]:
        ck.sample('random history on real code: ' + s)

    # ---- 3. known-finding classes
    if not quick:
        rep = leads['repaired']
        ck.cov['design_current'] = ('all switches as the current code, 2 callers, cb+write+reply+peerclose: strict NoLeak/Fresh/DeferredCloseDone %s (%d states)'
                                     % ('hold' if rep.ok else 'FAIL: %s' % (rep.violation or rep.error), rep.distinct))
        if rep.ok:
            ck.add('states', rep.distinct)
            ck.add('transitions', rep.generated)
        for kind, (pl, slug, pname, _i, _p, _sw, _rp) in STRICT.items():
            lr = leads[kind]
            ck.cov['design_lead_' + kind] = ('strict %s with one repair / seeded change undone (%s): %s' % (
                pname, slug,
                ('violated, depth %d: %s' % (len(lr.trace), ' ; '.join(fmt_step(step_of(l)) for l, _ in lr.trace[1:])))
                if lr.violation else ('holds (%d states)' % lr.distinct if lr.ok else 'tool error')))
    fixed_ok = []
    for slug, h in wit:
        vs = [v for v in wit_viol if v['history'] == h['name']]
        hist = ' ; '.join(fmt_step(s) for s in h['steps'])
        if vs:
            v = vs[0]
            if (prop, slug) in known:
                ck.known(slug, '%s [TLC behaviour replayed on the real code: %s -> %s]' % (known[(prop, slug)], hist, v['detail']))
            else:
                v = dict(v)
                v['steps'] = h['steps']
                ck.violation('%s: %s -- history: %s' % (slug, v['detail'], hist), replay_obj(v), name='%s_%s.json' % (prop, h['name']))
        elif h['name'].startswith('regression-') or h['name'].startswith('tlc-counterexample-'):
            fixed_ok.append('%s: %s' % (slug, hist))
            if (prop, slug) in known:
                ck.notes.append('the listed known finding %s no longer reproduces on this tree (%s)' % (slug, hist))
        else:
            msg = 'the TLC behaviour into class %s does not show the defect on the real code (%s)' % (slug, hist)
            ck.notes.append(msg)
            print('SPEC-DRIFT module=StreamPool at=class %s: the spec (pre-fix constants) predicts a violation the '
                  'real code does not show: %s' % (slug, hist))
            ck.cov['spec_drift'] = True
    ck.cov['regression_witnesses_not_reproducing'] = fixed_ok

    # ---- 4. free-running concurrent callers: recorded invoke/return histories validated against the spec by TLC
    ck.cov['concurrent_runs_on_real_code'] = r1['conc_runs']
    ck.cov['concurrent_api_calls'] = r1['conc_ops']
    ck.cov['concurrent_reused_handouts'] = r1['conc_reused']
    tj = ftr.result()
    ck.log('trace validation done')
    if tj and tj[0]:
        sel, tr, outs = tj
        okc = 0
        if tr is not None and tr.violation == 'TNotDone':
            okc = len(sel)
            ck.add('states', tr.distinct)
            ck.add('transitions', tr.generated)
        for ev, t1 in zip(sel, outs):
            # accepted <=> the whole log can be consumed <=> TLC reports the invariant TNotDone violated
            if t1.violation == 'TNotDone':
                okc += 1
                ck.add('states', t1.distinct)
                ck.add('transitions', t1.generated)
            elif t1.violation in ('TExclusive', 'TNoLeak'):
                ck.inconc('TLC reports %s while explaining a recorded history (design-level lead)' % t1.violation)
            elif t1.ok:
                # a recorded history of the REAL code that no linearisation of the spec explains, while the property
                # oracles evaluated on the real objects held
                print('SPEC-DRIFT module=StreamPool at=recorded concurrent history has no linearisation in the spec: %s'
                      % ' '.join('%s:c%d:%s:s%d:%s' % (e['ev'], e['c'], e['op'], e['s'], e['out']) for e in ev)[:700])
                ck.cov['spec_drift'] = True
            else:
                ck.inconc('trace validation did not complete: %s' % (t1.error or t1.violation or 'timeout'))
        ck.add('traces_validated_against_impl', okc)
        ck.cov['concurrent_traces_accepted_by_spec'] = '%d of %d' % (okc, len(sel))
        ck.sample({'recorded_concurrent_history': ['%s c%d %s s%d %s' % (e['ev'], e['c'], e['op'], e['s'], e['out']) for e in sel[0][:24]]})
    if fbig is not None:
        b = fbig.result()
        if b.violation:
            ck.inconc('TLC reports %s on StreamPool %s (design-level lead, not a verdict about the code)' % (b.violation, BIG[0]))
        elif b.ok:
            ck.add('states', b.distinct)
            ck.add('transitions', b.generated)
            ck.cov['tlc_configs'].append('StreamPool %s (Callers=%s Cap=%d N=%d MaxSess=%d MaxOwed=%d MaxUnread=%d Feat=%s), TLC only: %d '
                                         'distinct states, %d generated, depth %d, %.0fs' % (BIG[0], BIG[1], BIG[2], BIG[3], BIG[4], BIG[5],
                                                                                           BIG[6], BIG[7], b.distinct, b.generated, b.depth, b.wall))
        else:
            ck.notes.append('TLC did not finish the largest configuration (%s) in time: not counted' % BIG[0])
    ex.shutdown(wait=False)
    return ck.finish()
