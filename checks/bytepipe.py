"""C06 / C08 — module BytePipe, binding B2: every history (path of the spec's state graph) replayed on real streams."""
import json, os, random, re, shutil
from vlib import tlc, tlaval, gorun, core

PROPS = ['C06', 'C08']
HARNESS = ['zz_vs_sched.go', 'zz_freelist_test.go', 'zz_pair_test.go', 'zz_bytepipe_test.go']

CFG = """SPECIFICATION Spec
CONSTANTS
  Dirs = {%(dirs)s}
  WSizes = {%(ws)s}
  RSizes = {%(rs)s}
  MaxMsg = %(maxmsg)d
  MaxTotal = %(maxtotal)d
  MaxOps = %(maxops)d
VIEW View
INVARIANTS Ordered LenIsFlushedMinusConsumed LiveWithinFlushed
PROPERTIES PeekConsumesNothing ReturnsExactlyNext ReleasedMeansNoLive
CHECK_DEADLOCK FALSE
"""

CONFS = {
    'one4': {'name': 'one class of 4-byte slices', 'sizes': [4], 'percents': [100], 'mem': 1024, 'leave': -1},
    'mix37': {'name': 'classes of 3 and 7 bytes', 'sizes': [3, 7], 'percents': [50, 50], 'mem': 1024, 'leave': -1},
    'mix348': {'name': 'classes of 3, 4 and 8 bytes', 'sizes': [3, 4, 8], 'percents': [30, 30, 40], 'mem': 2048, 'leave': -1},
    'one4x2': {'name': '4-byte slices, only 2 allocatable buffers left (mixed shm + heap fallback)', 'sizes': [4], 'percents': [100], 'mem': 1024, 'leave': 2},
    'one4x0': {'name': '4-byte slices, shared memory exhausted (socket fallback)', 'sizes': [4], 'percents': [100], 'mem': 1024, 'leave': 0},
    'mix37x1': {'name': 'classes 3 and 7, 1 allocatable buffer left per class', 'sizes': [3, 7], 'percents': [50, 50], 'mem': 1024, 'leave': 1},
    'big': {'name': 'one class of 64-byte slices (everything fits one slice)', 'sizes': [64], 'percents': [100], 'mem': 4096, 'leave': -1},
}


def cfg(dirs, ws, rs, maxmsg, maxtotal, maxops):
    return CFG % dict(dirs=', '.join('"%s"' % d for d in dirs), ws=', '.join(map(str, ws)), rs=', '.join(map(str, rs)),
                      maxmsg=maxmsg, maxtotal=maxtotal, maxops=maxops)


def get(fn, d):
    if isinstance(fn, dict):
        return fn[d]
    return fn[0]  # single-direction function printed as a tuple


def fnval(v, d, dirs):
    if isinstance(v, dict):
        return v[d]
    return v[sorted(dirs).index(d)]


def edge_record(label, src, dirs):
    label = label.replace('\\', '')
    m = re.match(r'(\w+)\((.*)\)', label)
    act = m.group(1)
    args = [a.strip().strip('"') for a in m.group(2).split(',')]
    d = args[0]
    w, f, r = fnval(src['w'], d, dirs), fnval(src['f'], d, dirs), fnval(src['r'], d, dirs)
    if act == 'Write':
        return [args[1], d, int(args[2]), f + w, int(args[2])]
    if act == 'Flush':
        return ['Flush', d, w, f, w]
    if act in ('ReadBytes', 'Peek'):
        return [act, d, int(args[1]), r, int(args[1])]
    if act == 'Consume':
        return [args[1], d, int(args[2]), r, int(args[2])]
    if act == 'Read':
        n = int(args[1])
        return ['Read', d, n, r, min(n, f - r)]
    if act in ('Release', 'Reuse'):
        return [act, d, 0, r, 0]
    raise ValueError(label)


def graph_job(res_nodes_edges, dirs):
    nodes, edges, inits = res_nodes_edges
    parsed = {k: tlaval.parse_state(v) for k, v in nodes.items()}
    idx = {k: i for i, k in enumerate(parsed)}
    out = []
    for s, d, label in edges:
        out.append([idx[s], idx[d]] + edge_record(label, parsed[s], dirs))
    return out, idx[inits[0]]


def count_paths(edges, init):
    from collections import defaultdict
    import functools, sys
    sys.setrecursionlimit(10000)
    o = defaultdict(list)
    for e in edges:
        o[e[0]].append(e[1])

    @functools.lru_cache(None)
    def leaves(n):
        return 1 if not o[n] else sum(leaves(d) for d in o[n])
    return leaves(init)


LB_CFG = """SPECIFICATION Spec
CONSTANTS
 Caps <- mcCaps
 Free0 <- mcFree0
 WSizes = {%(ws)s}
 RSizes = {%(rs)s}
 MaxMsg = %(maxmsg)d
 MaxTotal = %(maxtotal)d
 MaxOps = %(maxops)d
 HeapMin = 4096
VIEW View
INVARIANTS Ledger LenRight CursorsRight NeverLast AllBackWhenDrained
CHECK_DEADLOCK FALSE
"""


def real_counts(conf):
    """buffers per class as createBufferManager lays them out (the same integer arithmetic)"""
    region = conf['mem'] - 36 * len(conf['sizes']) - 8
    return [(region * p // 100) // (sz + 20) for sz, p in zip(conf['sizes'], conf['percents'])]


def lb_files(conf, ws, rs, mm, mt, mo):
    counts = real_counts(conf)
    free0 = [c if conf['leave'] < 0 else min(c, conf['leave'] + 1) for c in counts]
    w = '---- MODULE MC_LinkedBuffer ----\nEXTENDS LinkedBuffer\nmcCaps == <<%s>>\nmcFree0 == <<%s>>\n====\n' % (
        ', '.join(map(str, conf['sizes'])), ', '.join(map(str, free0)))
    return {'MC_LinkedBuffer.tla': w, 'mc.cfg': LB_CFG % dict(ws=', '.join(map(str, ws)), rs=', '.join(map(str, rs)),
                                                               maxmsg=mm, maxtotal=mt, maxops=mo)}


def lb_expect(st):
    def sl(v):
        return list(v) if isinstance(v, (list, tuple)) else [v[k] for k in sorted(v)]
    free = st['free']
    free = list(free) if isinstance(free, list) else [free[k] for k in sorted(free)]
    return {'free': free, 'ws': [[x['c'], x['w']] for x in st['ws']], 'wi': st['wi'],
            'rs': [[x['c'], x['r'], x['w']] for x in st['rs']], 'rwi': st['rwi'], 'pinned': list(st['pinned']),
            'cur': st['curPinned'], 'spare': st['spare']}


def lb_edge(label, src, dst):
    label = label.replace('\\', '')
    m = re.match(r'(\w+)(?:\((.*)\))?', label)
    act = m.group(1)
    args = [a.strip().strip('"') for a in (m.group(2) or '').split(',') if a.strip()]
    f, r, w = src['fpos'], src['rpos'], src['wpos']
    if act == 'Write':
        rec = [args[0], 'ab', int(args[1]), f + w, int(args[1])]
    elif act == 'Flush':
        rec = ['Flush', 'ab', w, f, w]
    elif act in ('ReadBytes', 'Peek', 'Discard', 'ReadString'):
        rec = [act, 'ab', int(args[0]), r, int(args[0])]
    elif act == 'ReadByte':
        rec = ['ReadByte', 'ab', 1, r, 1]
    elif act == 'Read':
        n = int(args[0])
        rec = ['Read', 'ab', n, r, min(n, f - r)]
    elif act in ('Release', 'Reuse'):
        rec = [act, 'ab', 0, r, 0]
    else:
        raise ValueError(label)
    return rec + [lb_expect(dst)]


def structural(ck, prop, tier):
    """slice-level conformance: every path of LinkedBuffer.tla's graph replayed on real streams, structure compared"""
    quick = [('one4', 8), ('mix37', 16)] if prop == 'C06' else [('one4', 16), ('one4x2', 16), ('one4x0', 24)]
    plan = quick if tier == 'quick' else \
           [('one4', 1), ('mix37', 2), ('one4x2', 2), ('one4x0', 4), ('mix37x1', 2)]
    for name, stride in plan:
        conf = CONFS[name]
        res, nodes, edges, inits = tlc.dump_graph('MC_LinkedBuffer', 'mc.cfg', timeout=1200,
                                                  extra_files=lb_files(conf, [1, 4, 5, 9], [1, 3, 4, 5, 9], 14, 18, 5))
        if res.violation:
            ck.inconc('TLC reports %s on the LinkedBuffer specification (%s)' % (res.violation, name))
            return
        if not res.ok or not edges:
            ck.inconc('TLC did not complete on LinkedBuffer: %s' % (res.error or res.out[-300:]))
            return
        parsed = {k: tlaval.parse_state(v) for k, v in nodes.items()}
        idx = {k: i for i, k in enumerate(parsed)}
        jedges = [[idx[s], idx[d]] + lb_edge(label, parsed[s], parsed[d]) for s, d, label in edges]
        off = ck.seed % stride
        job = {'edges': jedges, 'init': idx[inits[0]], 'max_paths': -1, 'confs': [conf], 'histories': [],
               'known_len': True, 'stride': stride, 'offset': off}
        r = harness(ck, prop, job)
        if r is None:
            return
        ck.add('states', res.distinct)
        ck.add('transitions', len(edges))
        ck.add('traces_validated_against_impl', r['struct_conforming_histories'])
        ck.add('structure_comparisons', r['struct_checks'])
        ck.add('histories_replayed', r['histories'])
        ck.cov['tlc_configs'].append('LinkedBuffer (slice level) %s: %d states, %d transitions; every %d-th path replayed: %d histories, '
                                     '%d structurally conforming, %d structure comparisons'
                                     % (conf['name'], res.distinct, len(edges), stride, r['histories'],
                                        r['struct_conforming_histories'], r['struct_checks']))
        if r['drift_count']:
            for d in r['drift']:
                print('SPEC-DRIFT module=LinkedBuffer at=%s' % d[:700])
            ck.cov['spec_drift'] = True
        if ck.violations:
            return


# observation hook only (no scheduling points): the harness overwrites the payload of every buffer when it is recycled
INSTR = {"files": {"buffer_manager.go": {"entry": ["bufferList.push"]}}}


def harness(ck, prop, job):
    g = gorun.run_harness('^TestVS_BytePipe$', HARNESS, INSTR, inputs={'job': job}, timeout=3000)
    if g.result is None:
        ck.inconc('harness produced no result (rc=%d): %s' % (g.rc, g.out[-1500:]))
        return None
    r = g.result
    for v in r['violations']:
        # a buffer still allocated after both ends closed the stream is C08's "after the release ... available again"
        # and literally C09's statement
        if v['property'] == prop or (prop == 'C09' and v['kind'].startswith('not-returned')):
            ck.violation('%s [%s]: %s | history %s' % (v['kind'], v['conf']['name'], v['detail'], ' '.join(v['history'])),
                         {'kind': 'history', 'conf': v['conf'], 'history': v['history'], 'edges_ops': v['history']})
        else:
            ck.notes.append("also saw a %s violation (%s: %s) - reported by that property's own check"
                            % (v['property'], v['kind'], v['detail'][:120]))
    return r


def run(prop, tier, seed, replay=None, ck=None, finish=True):
    ck = ck or core.Check(prop, 'model_checking', tier, seed)
    fin = ck.finish if finish else (lambda: None)
    ck.assumptions += [
        'the spec is the API-level byte pipe; the slice structure is hidden state of the implementation, which is why '
        'EVERY path of the state graph up to the bound (not an edge cover) is replayed, under several slice-size '
        'configurations and degrees of buffer exhaustion',
        'real Streams of a socket-less session pair (real shared memory mapped twice, real queues, real protocol handlers; '
        'the event loop is replaced by synchronous delivery after every Flush)',
        'reader calls are only issued with size <= Len (blocking behaviour is C11)',
    ]
    known = core.known_findings()
    known_len = ('C06', 'len-excludes-pending') in known
    if replay:
        rep = json.load(open(replay))
        ops = []
        pos = {}
        edges = []
        # rebuild a linear graph from the op names (start/cnt recomputed)
        w, f, r = {}, {}, {}
        for i, name in enumerate(rep['history']):
            m = re.match(r'(\w+)\((\w+),(\d+)\)', name)
            op, d, n = m.group(1), m.group(2), int(m.group(3))
            w.setdefault(d, 0); f.setdefault(d, 0); r.setdefault(d, 0)
            if op in ('WriteBytes', 'Reserve', 'WriteByte', 'WriteString'):
                rec = [op, d, n, f[d] + w[d], n]; w[d] += n
            elif op == 'Flush':
                rec = [op, d, w[d], f[d], w[d]]; f[d] += w[d]; w[d] = 0
            elif op == 'Peek':
                rec = [op, d, n, r[d], n]
            elif op == 'Read':
                k = min(n, f[d] - r[d]); rec = [op, d, n, r[d], k]; r[d] += k
            elif op in ('Release', 'Reuse'):
                rec = [op, d, 0, r[d], 0]
            else:
                rec = [op, d, n, r[d], n]; r[d] += n
            edges.append([i, i + 1] + rec)
        job = {'edges': edges, 'init': 0, 'max_paths': 0, 'confs': [rep['conf']], 'histories': [list(range(len(edges)))],
               'known_len': known_len, 'stride': 1, 'offset': 0}
        ck.cov['evaluations'] = 1
        ck.cov['distinct_nontrivial'] = 1
        harness(ck, prop, job)
        return fin()

    if tier == 'quick':
        plan = [(['ab'], [1, 4, 5, 9], [0, 1, 3, 4, 5, 9], 14, 18, 5, ['one4', 'mix37', 'one4x2', 'one4x0'], 24),
                # both directions of one stream pair (a reader that is also a writer: ReleaseReadAndReuse exchanges its buffers)
                (['ab', 'ba'], [4], [4], 8, 8, 5, ['one4'], 4)]
    else:
        plan = [(['ab'], [1, 4, 5, 9], [1, 3, 4, 5, 9], 14, 18, 5, ['one4', 'mix37', 'mix348', 'one4x2', 'one4x0', 'mix37x1', 'big'], 1),
                (['ab'], [1, 3, 4, 8], [2, 4, 7, 8], 12, 16, 6, ['one4', 'mix37', 'one4x2'], 16),
                (['ab', 'ba'], [4, 5], [1, 4, 5], 10, 10, 6, ['one4', 'mix37', 'one4x2'], 8)]
    ck.cov.setdefault('tlc_configs', [])
    if prop == 'C09':
        plan = [(d, w, r, mm, mt, mo, cf, st * 3) for (d, w, r, mm, mt, mo, cf, st) in plan[:1]]
    for (dirs, ws, rs, mm, mt, mo, confs, stride) in plan:
        ck.log('TLC: dirs %s, writer sizes %s, reader sizes %s, <= %d calls' % (dirs, ws, rs, mo))
        res, nodes, edges, inits = tlc.dump_graph('BytePipe', 'mc.cfg', timeout=1200,
                                                  extra_files={'mc.cfg': cfg(dirs, ws, rs, mm, mt, mo)})
        if res.violation:
            ck.inconc('TLC reports %s on the BytePipe specification itself' % res.violation)
            return fin()
        if not res.ok or not edges:
            ck.inconc('TLC did not complete: %s' % (res.error or res.out[-400:]))
            return fin()
        jedges, init = graph_job((nodes, edges, inits), dirs)
        npaths = count_paths(jedges, init)
        ck.add('states', res.distinct)
        ck.add('transitions', len(edges))
        off = ck.seed % stride
        job = {'edges': jedges, 'init': init, 'max_paths': -1, 'confs': [CONFS[c] for c in confs], 'histories': [],
               'known_len': known_len, 'stride': stride, 'offset': off}
        r = harness(ck, prop, job)
        if r is None:
            return fin()
        ck.add('traces_validated_against_impl', r['executions'] if not r['violations'] else 0)
        ck.add('histories_replayed', r['histories'])
        ck.add('executions_on_real_code', r['executions'])
        ck.add('api_calls_compared', r['ops'])
        ck.add('zero_copy_view_rechecks', r['views_checked'])
        ck.add('len_checks', r['len_checks'])
        ck.add('all_buffers_returned_checks', r['leak_checks'])
        ck.add('fallback_messages', r['fallback_messages'])
        ck.add('known_finding_class_cases', r['known_len_hits'])
        ck.cov['tlc_configs'].append('BytePipe dirs=%s W=%s R=%s calls<=%d: %d states, %d transitions, %d maximal paths '
                                     '(histories), every %d-th replayed (offset %d) x %d configurations'
                                     % (dirs, ws, rs, mo, res.distinct, len(edges), npaths, stride, off, len(confs)))
        for s in r['samples']:
            ck.sample({'history': s, 'configurations': [CONFS[c]['name'] for c in confs]})
        if r['known_len_hits'] and known_len and prop == 'C06':
            ck.known('len-excludes-pending', known[('C06', 'len-excludes-pending')] + ' [witness on real code: %s]' % r['known_len_witness'])
        if ck.violations:
            break
    if not ck.violations and prop in ('C06', 'C08'):
        structural(ck, prop, tier)
    ck.cov['exhaustive'] = (tier == 'thorough')
    ck.cov.setdefault('spec_drift', False)
    return fin()
