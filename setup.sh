#!/bin/sh
# Builds the framework from files on disk only (offline).
set -e
cd "$(dirname "$0")"
export GOFLAGS=-mod=mod GOPROXY=off GOSUMDB=off GOTOOLCHAIN=local
mkdir -p bin evidence replays
(cd tools/instr && go build -o ../../bin/instr .)
# warm the build cache of the library's test binary (non fatal)
(cd /repo && go test -vet=off -count=1 -run '^$' . >/dev/null 2>&1) || true
command -v tlc >/dev/null || { echo "tlc not found"; exit 1; }
echo setup ok
