// instr rewrites selected functions of the library so that every shared-memory access is preceded by a
// scheduling point (vsYield) and every sync/atomic operation goes through a yielding wrapper. It is run at check time
// on the CURRENT sources of /repo; its output is injected with `go test -overlay`, the repository is never modified.
//
// usage: instr -src /repo -out <dir> -cfg cfg.json   (prints the overlay "Replace" map as JSON on stdout)
//
// cfg.json: {"files": {"queue.go": {"funcs": ["queue.put", "queue.pop"], "recvIndex": ["bufferHeader"]}}}
//
// Rules, applied inside the selected functions (syntactic, independent of line numbers):
//  1. atomic.F(args)        -> vsAtomicF("<fn>:F#k", args)         (wrapper = vsYield(label); atomic.F(args))
//  2. a statement whose own expressions dereference a pointer (*p as value or target, but not a conversion type)
//     or index the receiver of a method on a "recvIndex" type  -> vsYield("<fn>:mem#k") is inserted before it
//  3. x[i] |= e / x[i] &= e on such memory -> vsYield; t := x[i]; vsYield; x[i] = t | e   (it is not atomic)
//  4. E.Lock() / E.Unlock() -> vsLock("<fn>:lock#k", E) / vsUnlock("<fn>:unlock#k", E)  (scheduler-aware)
//  5. gopool.Go(f) -> vsGo("<fn>:go#k", f);  X.Wait() on a field named asyncGoroutineWg -> vsWgWait(label, &X)
//     X.Add(n)/X.Done() on asyncGoroutineWg -> vsWgAdd(&X, n) / vsWgAdd(&X, -1)
//  7. functions listed under "entry" (need not be in "funcs"): vsEntry("<fn>", <first parameter>) as first statement
//  8. functions listed under "everyStmt" ("T.f" or "T.*"): vsYield("<fn>:stmt#k") in front of every statement
//  6. in functions listed under "preSelect": vsYield("<fn>:select#k") in front of every select statement
package main

import (
	"bytes"
	"encoding/json"
	"flag"
	"fmt"
	"go/ast"
	"go/format"
	"go/parser"
	"go/token"
	"os"
	"path/filepath"
	"strconv"
	"strings"
)

type fileCfg struct {
	Funcs     []string `json:"funcs"`
	RecvIndex []string `json:"recvIndex"`
	// NoLock: functions (subset of funcs) whose Lock/Unlock calls are left alone
	NoLock []string `json:"noLock"`
	// PreSelect: functions (subset of funcs) in which a scheduling point "<fn>:select#k" is put in front of every select
	PreSelect []string `json:"preSelect"`
	// AddrLocks: names of mutex fields held by value (x.f.Lock() -> vsLock(label, &x.f))
	AddrLocks []string `json:"addrLocks"`
	// EveryStmt: functions ("T.f" or "T.*"; implicitly in funcs) in which a scheduling point "<fn>:stmt#k" precedes
	// every statement, so that sections which rely on a lock only (no atomics, no raw pointers) can be interleaved
	EveryStmt []string `json:"everyStmt"`
	// Entry: functions (need not be in funcs) whose body starts with vsEntry("<fn>", <first parameter>) - an observation
	// hook for the harness (no scheduling point)
	Entry []string `json:"entry"`
}

type config struct {
	Files map[string]fileCfg `json:"files"`
}

type rewriter struct {
	fset      *token.FileSet
	fn        string
	recv      string // receiver identifier when receiver type is in recvIndex
	counter   int
	doLocks   bool
	tmpCount  int
	report    *[]string
	recvIndex map[string]bool
	preSelect bool
	everyStmt bool
	addrLocks map[string]bool
}

func main() {
	src := flag.String("src", "/repo", "repository root")
	out := flag.String("out", "", "output dir")
	cfgPath := flag.String("cfg", "", "config json")
	flag.Parse()
	var cfg config
	b, err := os.ReadFile(*cfgPath)
	if err != nil {
		fatal(err)
	}
	if err := json.Unmarshal(b, &cfg); err != nil {
		fatal(err)
	}
	replace := map[string]string{}
	var report []string
	for name, fc := range cfg.Files {
		path := filepath.Join(*src, name)
		fset := token.NewFileSet()
		f, err := parser.ParseFile(fset, path, nil, parser.ParseComments)
		if err != nil {
			fatal(err)
		}
		want := map[string]bool{}
		for _, fn := range fc.Funcs {
			want[fn] = true
		}
		noLock := map[string]bool{}
		for _, fn := range fc.NoLock {
			noLock[fn] = true
		}
		preSel := map[string]bool{}
		for _, fn := range fc.PreSelect {
			preSel[fn] = true
		}
		ri := map[string]bool{}
		for _, t := range fc.RecvIndex {
			ri[t] = true
		}
		addrLocks := map[string]bool{}
		for _, f := range fc.AddrLocks {
			addrLocks[f] = true
		}
		every := map[string]bool{}
		for _, fn := range fc.EveryStmt {
			every[fn] = true
			want[fn] = true
		}
		entry := map[string]bool{}
		for _, fn := range fc.Entry {
			entry[fn] = true
		}
		found := map[string]bool{}
		for _, d := range f.Decls {
			fd, ok := d.(*ast.FuncDecl)
			if !ok || fd.Body == nil {
				continue
			}
			rt, rn := recvOf(fd)
			full := fd.Name.Name
			if rt != "" {
				full = rt + "." + fd.Name.Name
			}
			if !(want[full] || (rt != "" && want[rt+".*"])) {
				if entry[full] {
					addEntry(fd, full, &report)
				}
				continue
			}
			found[full] = true
			if rt != "" {
				found[rt+".*"] = true
			}
			rw := &rewriter{fset: fset, fn: full, report: &report, recvIndex: ri, doLocks: !noLock[full], preSelect: preSel[full], addrLocks: addrLocks,
				everyStmt: every[full] || (rt != "" && every[rt+".*"])}
			if ri[rt] {
				rw.recv = rn
			}
			rw.block(fd.Body)
			report = append(report, fmt.Sprintf("%s: %d scheduling points", full, rw.counter))
			if entry[full] {
				addEntry(fd, full, &report)
			}
		}
		for fn := range want {
			if !found[fn] {
				report = append(report, "WARNING: function not found: "+name+":"+fn)
			}
		}
		var buf bytes.Buffer
		if err := format.Node(&buf, fset, f); err != nil {
			fatal(err)
		}
		// keep imports used after calls have been replaced
		if bytes.Contains(buf.Bytes(), []byte("vsGo(")) && bytes.Contains(buf.Bytes(), []byte("/gopool\"")) {
			buf.WriteString("\nvar _ = gopool.Go\n")
		}
		if !bytes.Contains(buf.Bytes(), []byte("atomic.")) && bytes.Contains(buf.Bytes(), []byte("\"sync/atomic\"")) {
			buf.WriteString("\nvar _ atomic.Value\n")
		}
		outPath := filepath.Join(*out, "instr_"+name)
		if err := os.WriteFile(outPath, buf.Bytes(), 0o644); err != nil {
			fatal(err)
		}
		replace[path] = outPath
	}
	res := map[string]interface{}{"replace": replace, "report": report}
	enc, _ := json.Marshal(res)
	fmt.Println(string(enc))
}

// addEntry puts vsEntry("<fn>", <first parameter>) at the start of the body
func addEntry(fd *ast.FuncDecl, full string, report *[]string) {
	if fd.Type.Params == nil || len(fd.Type.Params.List) == 0 || len(fd.Type.Params.List[0].Names) == 0 {
		*report = append(*report, "WARNING: entry hook needs a named first parameter: "+full)
		return
	}
	call := &ast.ExprStmt{X: &ast.CallExpr{Fun: ast.NewIdent("vsEntry"), Args: []ast.Expr{
		&ast.BasicLit{Kind: token.STRING, Value: fmt.Sprintf("%q", full)}, ast.NewIdent(fd.Type.Params.List[0].Names[0].Name)}}}
	fd.Body.List = append([]ast.Stmt{call}, fd.Body.List...)
	*report = append(*report, full+": entry hook")
}

func fatal(err error) {
	fmt.Fprintln(os.Stderr, "instr:", err)
	os.Exit(2)
}

func recvOf(fd *ast.FuncDecl) (typ, name string) {
	if fd.Recv == nil || len(fd.Recv.List) == 0 {
		return "", ""
	}
	f := fd.Recv.List[0]
	t := f.Type
	if s, ok := t.(*ast.StarExpr); ok {
		t = s.X
	}
	if id, ok := t.(*ast.Ident); ok {
		typ = id.Name
	}
	if len(f.Names) > 0 {
		name = f.Names[0].Name
	}
	return
}

func (r *rewriter) label(kind string) *ast.BasicLit {
	r.counter++
	return &ast.BasicLit{Kind: token.STRING, Value: strconv.Quote(fmt.Sprintf("%s:%s#%d", r.fn, kind, r.counter))}
}

func (r *rewriter) yieldStmt(kind string) ast.Stmt {
	return &ast.ExprStmt{X: &ast.CallExpr{Fun: ast.NewIdent("vsYield"), Args: []ast.Expr{r.label(kind)}}}
}

// block rewrites a statement list in place.
func (r *rewriter) block(b *ast.BlockStmt) {
	if b == nil {
		return
	}
	b.List = r.stmts(b.List)
}

func (r *rewriter) stmts(list []ast.Stmt) []ast.Stmt {
	var out []ast.Stmt
	for _, s := range list {
		rs := r.stmt(s)
		if r.everyStmt && !(len(rs) > 0 && isYield(rs[0])) {
			if _, decl := s.(*ast.DeclStmt); !decl {
				out = append(out, r.yieldStmt("stmt"))
			}
		}
		out = append(out, rs...)
	}
	return out
}

func isYield(s ast.Stmt) bool {
	es, ok := s.(*ast.ExprStmt)
	if !ok {
		return false
	}
	c, ok := es.X.(*ast.CallExpr)
	if !ok {
		return false
	}
	id, ok := c.Fun.(*ast.Ident)
	return ok && id.Name == "vsYield"
}

func (r *rewriter) stmt(s ast.Stmt) []ast.Stmt {
	switch n := s.(type) {
	case *ast.BlockStmt:
		r.block(n)
		return []ast.Stmt{n}
	case *ast.IfStmt:
		var pre []ast.Stmt
		if r.shared(n.Init) || r.shared(n.Cond) {
			pre = append(pre, r.yieldStmt("mem"))
		}
		r.exprs(n.Init)
		n.Cond = r.expr(n.Cond)
		r.block(n.Body)
		if n.Else != nil {
			e := r.stmt(n.Else)
			if len(e) == 1 {
				n.Else = e[0]
			} else {
				n.Else = &ast.BlockStmt{List: e}
			}
		}
		return append(pre, n)
	case *ast.ForStmt:
		var pre []ast.Stmt
		if r.shared(n.Init) || r.shared(n.Cond) || r.shared(n.Post) {
			pre = append(pre, r.yieldStmt("mem"))
			*r.report = append(*r.report, "NOTE: "+r.fn+": shared access in for-header, only the first evaluation is preceded by a yield")
		}
		r.exprs(n.Init)
		n.Cond = r.expr(n.Cond)
		r.exprs(n.Post)
		r.block(n.Body)
		return append(pre, n)
	case *ast.RangeStmt:
		n.X = r.expr(n.X)
		r.block(n.Body)
		return []ast.Stmt{n}
	case *ast.SwitchStmt:
		var pre []ast.Stmt
		if r.shared(n.Init) || r.shared(n.Tag) {
			pre = append(pre, r.yieldStmt("mem"))
		}
		r.exprs(n.Init)
		n.Tag = r.expr(n.Tag)
		for _, c := range n.Body.List {
			cc := c.(*ast.CaseClause)
			cc.Body = r.stmts(cc.Body)
		}
		return append(pre, n)
	case *ast.TypeSwitchStmt:
		for _, c := range n.Body.List {
			cc := c.(*ast.CaseClause)
			cc.Body = r.stmts(cc.Body)
		}
		return []ast.Stmt{n}
	case *ast.SelectStmt:
		for _, c := range n.Body.List {
			cc := c.(*ast.CommClause)
			cc.Body = r.stmts(cc.Body)
		}
		if r.preSelect {
			return []ast.Stmt{r.yieldStmt("select"), n}
		}
		return []ast.Stmt{n}
	case *ast.LabeledStmt:
		inner := r.stmt(n.Stmt)
		if len(inner) == 1 {
			n.Stmt = inner[0]
		} else {
			n.Stmt = &ast.BlockStmt{List: inner}
		}
		return []ast.Stmt{n}
	case *ast.AssignStmt:
		// rule 3: non-atomic read-modify-write on shared bytes
		if (n.Tok == token.OR_ASSIGN || n.Tok == token.AND_ASSIGN || n.Tok == token.ADD_ASSIGN || n.Tok == token.SUB_ASSIGN) &&
			len(n.Lhs) == 1 && r.sharedExpr(n.Lhs[0]) {
			r.tmpCount++
			tmp := ast.NewIdent("vsTmp" + strconv.Itoa(r.tmpCount))
			op := map[token.Token]token.Token{token.OR_ASSIGN: token.OR, token.AND_ASSIGN: token.AND,
				token.ADD_ASSIGN: token.ADD, token.SUB_ASSIGN: token.SUB}[n.Tok]
			rd := &ast.AssignStmt{Lhs: []ast.Expr{tmp}, Tok: token.DEFINE, Rhs: []ast.Expr{n.Lhs[0]}}
			wr := &ast.AssignStmt{Lhs: []ast.Expr{n.Lhs[0]}, Tok: token.ASSIGN,
				Rhs: []ast.Expr{&ast.BinaryExpr{X: tmp, Op: op, Y: &ast.ParenExpr{X: r.expr(n.Rhs[0])}}}}
			return []ast.Stmt{r.yieldStmt("rmw-load"), rd, r.yieldStmt("rmw-store"), wr}
		}
		var pre []ast.Stmt
		if r.shared(n) {
			pre = append(pre, r.yieldStmt("mem"))
		}
		r.exprs(n)
		return append(pre, n)
	case *ast.ExprStmt:
		// rule 4: locks
		if call, ok := n.X.(*ast.CallExpr); ok && r.doLocks {
			if sel, ok := call.Fun.(*ast.SelectorExpr); ok && len(call.Args) == 0 {
				if sel.Sel.Name == "Lock" || sel.Sel.Name == "Unlock" {
					fn := "vsLock"
					kind := "lock"
					if sel.Sel.Name == "Unlock" {
						fn, kind = "vsUnlock", "unlock"
					}
					var target ast.Expr = sel.X
					if fs, ok := sel.X.(*ast.SelectorExpr); ok && r.addrLocks[fs.Sel.Name] {
						target = &ast.UnaryExpr{Op: token.AND, X: sel.X}
					}
					n.X = &ast.CallExpr{Fun: ast.NewIdent(fn), Args: []ast.Expr{r.label(kind), target}}
					return []ast.Stmt{n}
				}
			}
		}
		var pre []ast.Stmt
		if r.shared(n) {
			pre = append(pre, r.yieldStmt("mem"))
		}
		n.X = r.expr(n.X)
		return append(pre, n)
	case *ast.DeferStmt:
		n.Call = r.expr(n.Call).(*ast.CallExpr)
		return []ast.Stmt{n}
	case *ast.GoStmt:
		n.Call = r.expr(n.Call).(*ast.CallExpr)
		return []ast.Stmt{n}
	case nil:
		return nil
	default:
		var pre []ast.Stmt
		if r.shared(s) {
			pre = append(pre, r.yieldStmt("mem"))
		}
		r.exprs(s)
		return append(pre, s)
	}
}

// exprs rewrites the expressions directly contained in a simple statement (atomic renaming, nested func literals).
func (r *rewriter) exprs(s ast.Stmt) {
	switch n := s.(type) {
	case nil:
	case *ast.AssignStmt:
		for i := range n.Lhs {
			n.Lhs[i] = r.expr(n.Lhs[i])
		}
		for i := range n.Rhs {
			n.Rhs[i] = r.expr(n.Rhs[i])
		}
	case *ast.ExprStmt:
		n.X = r.expr(n.X)
	case *ast.ReturnStmt:
		for i := range n.Results {
			n.Results[i] = r.expr(n.Results[i])
		}
	case *ast.IncDecStmt:
		n.X = r.expr(n.X)
	case *ast.SendStmt:
		n.Chan = r.expr(n.Chan)
		n.Value = r.expr(n.Value)
	case *ast.DeclStmt:
		if gd, ok := n.Decl.(*ast.GenDecl); ok {
			for _, sp := range gd.Specs {
				if vs, ok := sp.(*ast.ValueSpec); ok {
					for i := range vs.Values {
						vs.Values[i] = r.expr(vs.Values[i])
					}
				}
			}
		}
	}
}

// expr renames atomic calls and recurses into function literals (whose bodies get full statement treatment).
func (r *rewriter) expr(e ast.Expr) ast.Expr {
	if e == nil {
		return nil
	}
	switch n := e.(type) {
	case *ast.CallExpr:
		for i := range n.Args {
			n.Args[i] = r.expr(n.Args[i])
		}
		if sel, ok := n.Fun.(*ast.SelectorExpr); ok {
			if id, ok := sel.X.(*ast.Ident); ok && id.Name == "atomic" {
				args := append([]ast.Expr{r.label(sel.Sel.Name)}, n.Args...)
				return &ast.CallExpr{Fun: ast.NewIdent("vsAtomic" + sel.Sel.Name), Args: args}
			}
			if id, ok := sel.X.(*ast.Ident); ok && id.Name == "gopool" && sel.Sel.Name == "Go" {
				args := append([]ast.Expr{r.label("go")}, n.Args...)
				return &ast.CallExpr{Fun: ast.NewIdent("vsGo"), Args: args}
			}
			if inner, ok := sel.X.(*ast.SelectorExpr); ok && inner.Sel.Name == "asyncGoroutineWg" {
				addr := &ast.UnaryExpr{Op: token.AND, X: inner}
				switch sel.Sel.Name {
				case "Wait":
					return &ast.CallExpr{Fun: ast.NewIdent("vsWgWait"), Args: []ast.Expr{r.label("wgwait"), addr}}
				case "Add":
					return &ast.CallExpr{Fun: ast.NewIdent("vsWgAdd"), Args: []ast.Expr{addr, n.Args[0]}}
				case "Done":
					return &ast.CallExpr{Fun: ast.NewIdent("vsWgAdd"), Args: []ast.Expr{addr, &ast.BasicLit{Kind: token.INT, Value: "-1"}}}
				}
			}
			sel.X = r.expr(sel.X)
		} else {
			n.Fun = r.expr(n.Fun)
		}
		return n
	case *ast.FuncLit:
		r.block(n.Body)
		return n
	case *ast.BinaryExpr:
		n.X = r.expr(n.X)
		n.Y = r.expr(n.Y)
		return n
	case *ast.UnaryExpr:
		n.X = r.expr(n.X)
		return n
	case *ast.ParenExpr:
		n.X = r.expr(n.X)
		return n
	case *ast.StarExpr:
		n.X = r.expr(n.X)
		return n
	case *ast.IndexExpr:
		n.X = r.expr(n.X)
		n.Index = r.expr(n.Index)
		return n
	case *ast.SliceExpr:
		n.X = r.expr(n.X)
		n.Low = r.expr(n.Low)
		n.High = r.expr(n.High)
		n.Max = r.expr(n.Max)
		return n
	case *ast.SelectorExpr:
		n.X = r.expr(n.X)
		return n
	case *ast.CompositeLit:
		for i := range n.Elts {
			n.Elts[i] = r.expr(n.Elts[i])
		}
		return n
	case *ast.KeyValueExpr:
		n.Value = r.expr(n.Value)
		return n
	case *ast.TypeAssertExpr:
		n.X = r.expr(n.X)
		return n
	}
	return e
}

// shared reports whether the node's own expressions (not nested blocks / function literals) access shared memory
// through a plain (non-atomic) dereference or receiver index.
func (r *rewriter) shared(n ast.Node) bool {
	if n == nil {
		return false
	}
	switch v := n.(type) {
	case ast.Expr:
		if v == nil {
			return false
		}
		return r.sharedExpr(v)
	}
	found := false
	ast.Inspect(n, func(x ast.Node) bool {
		if found || x == nil {
			return false
		}
		switch v := x.(type) {
		case *ast.BlockStmt, *ast.FuncLit:
			return false
		case ast.Expr:
			if r.sharedExpr(v) {
				found = true
			}
			return false
		}
		return true
	})
	return found
}

func (r *rewriter) sharedExpr(e ast.Expr) bool {
	if e == nil {
		return false
	}
	found := false
	var visit func(x ast.Expr)
	visit = func(x ast.Expr) {
		if found || x == nil {
			return
		}
		switch v := x.(type) {
		case *ast.StarExpr:
			found = true
		case *ast.IndexExpr:
			if id, ok := v.X.(*ast.Ident); ok && r.recv != "" && id.Name == r.recv {
				found = true
				return
			}
			visit(v.X)
			visit(v.Index)
		case *ast.CallExpr:
			// conversion (*T)(x): the StarExpr inside the ParenExpr is a type
			if p, ok := v.Fun.(*ast.ParenExpr); ok {
				if _, isStar := p.X.(*ast.StarExpr); !isStar {
					visit(v.Fun)
				}
			} else if sel, ok := v.Fun.(*ast.SelectorExpr); ok {
				if id, ok := sel.X.(*ast.Ident); ok && (id.Name == "atomic" || id.Name == "unsafe") {
					// atomic ops yield in their wrapper; their pointer args are not plain accesses
					if id.Name == "atomic" {
						for _, a := range v.Args[1:] {
							visit(a)
						}
						return
					}
				} else {
					visit(sel.X)
				}
			}
			for _, a := range v.Args {
				visit(a)
			}
		case *ast.UnaryExpr:
			if v.Op == token.AND {
				// &x[i] takes an address, no access; but look inside index expressions
				if ix, ok := v.X.(*ast.IndexExpr); ok {
					visit(ix.Index)
					if _, isIdent := ix.X.(*ast.Ident); !isIdent {
						visit(ix.X)
					}
					return
				}
				return
			}
			visit(v.X)
		case *ast.BinaryExpr:
			visit(v.X)
			visit(v.Y)
		case *ast.ParenExpr:
			visit(v.X)
		case *ast.SelectorExpr:
			visit(v.X)
		case *ast.SliceExpr:
			visit(v.X)
			visit(v.Low)
			visit(v.High)
			visit(v.Max)
		case *ast.CompositeLit:
			for _, el := range v.Elts {
				visit(el)
			}
		case *ast.KeyValueExpr:
			visit(v.Value)
		case *ast.TypeAssertExpr:
			visit(v.X)
		case *ast.FuncLit:
		}
	}
	visit(e)
	return found
}

var _ = strings.Contains
