module verif/instr

go 1.20
