#!/bin/bash
# recheck_seed_suite.sh <prop> <m>: re-run only the "existing suite passes with the change" part of a seed confirmation
# (the suite has 1 s handshake time-outs and a free-list stress test that fail now and then on a loaded machine), up to
# 3 attempts, and append the outcome to /verif/seeded/<prop>-<m>/confirm.log
set -u
export GOFLAGS=-mod=mod GOPROXY=off GOSUMDB=off GOTOOLCHAIN=local
P=$1; M=$2
WT=/tmp/seed/$P-wt; DST=/verif/seeded/$P-$M
[ -f $DST/patch.diff ] || { echo "no patch"; exit 2; }
cd $WT && git checkout -q -- . && git clean -fdq && git apply $DST/patch.diff || { echo "apply failed"; exit 1; }
for i in 1 2 3; do
  out=$(flock /tmp/seed/suite.lock go test -vet=off -count=1 -timeout 12m ./... 2>&1 | tail -40)
  if echo "$out" | grep -q '^ok  	github.com/cloudwego/shmipc-go	'; then
    echo "-- suite re-run with the change (attempt $i, load $(cut -d' ' -f1 /proc/loadavg)): $(echo "$out" | grep '^ok  	github.com/cloudwego/shmipc-go	')" >> $DST/confirm.log
    git checkout -q -- .; echo "$P $M ok"; exit 0
  fi
  echo "-- suite re-run with the change (attempt $i, load $(cut -d' ' -f1 /proc/loadavg)): FAILED: $(echo "$out" | grep -a 'panic:\|--- FAIL\|timed out' | head -3 | tr '\n' ' ')" >> $DST/confirm.log
done
git checkout -q -- .; echo "$P $M still failing"; exit 1
