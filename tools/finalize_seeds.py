#!/usr/bin/env python3
"""Copies confirmed seeded changes into /verif/seeded/<id>-<m>/ and records which check catches them."""
import json, os, shutil, glob, re
CAUGHT = {
 'C01-m1': ('./check C01', 'BufMgr level: panic / double owner with two classes of one size'),
 'C01-m2': ('./check C09', 'staged fault scenario corrupt-offset/behind-good-message (a queue element with an invalid buffer offset behind a good message; added in round 3 after this seed had escaped two rounds): ledger not exact after the good message was released'),
 'C02-m1': ('./check C02', 'FreeList with message chains: quiescent-chain'),
 'C02-m2': ('./check C02', 'FreeList with message chains: size-bound / double free'),
 'C04-m1': ('./check C04', 'bounds (tail-head > cap)'),
 'C04-m2': ('./check C04', 'unobserved-pop / torn element'),
 'C05-m1': ('./check C05', 'stranded element'),
 'C05-m2': ('./check C05', 'stranded elements'),
 'C06-m1': ('./check C06', 'Peek returns short'),
 'C06-m2': ('./check C07', 'order across transports'),
 'C07-m1': ('./check C07', 'order across transports'),
 'C07-m2': ('./check C07', 'isolation: fallback payload aliases the reused read buffer'),
 'C08-m1': ('./check C08', 'view-invalidated'),
 'C08-m2': ('./check C08', 'view-invalidated'),
 'C09-m1': ('./check C09', 'staged flush-retry/peer-close scenario: leak'),
 'C09-m2': ('./check C09', 'BytePipe histories with mixed shm/heap buffers: not-returned-after-close'),
 'C10-m1': ('./check C10', 'Callback module: callback-twice'),
 'C10-m2': ('./check C10', 'Session module: peer-not-told'),
 'C11-m1': ('./check C11', 'blocked-forever'),
 'C11-m2': ('./check C11', 'timeout-early (timer reuse)'),
 'C12-m1': ('./check C12', 'server newSession does not return'),
 'C12-m2': ('./check C12', 'census: queue mapping left behind (fault class badbuf/nobuf added after this seed escaped)'),
 'C13-m1': ('./check C13', 'process dies on short FallbackData'),
 'C13-m2': ('./check C18', 'window/callback-argument (buffer growth with consumed prefix); not reached by C13 (events < 64 KiB)'),
 'C14-m1': ('./check C14', 'see checks/lifecycle_NOTES.md (scenario added after this seed escaped)'),
 'C14-m2': ('./check C12', 'census: queue mapping left behind'),
 'C15-m1': ('./check C15', 'leak: half-closed pooled stream dropped'),
 'C15-m2': ('./check C15', 'fresh-bytes: late reply handed to the next caller'),
 'C16-m1': ('./check C16', 'completed-not-swapped on the second hot restart'),
 'C16-m2': ('./check C16', 'foreign-epoch-effect (patch ported to HEAD: patch_head.diff)'),
 'C17-m1': ('./check C17', 'see checks/hotrestart_NOTES.md (scenario added after this seed escaped)'),
 'C17-m2': ('./check C17', 'not-healed'),
 'C03-m1': ('./check C03', 'peer attaches while the creator holds buffers (AllocStep dimension added after this seed escaped): peer derives a different layout'),
 'C03-m2': ('./check C03', 'layout mismatch between creator and peer'),
 'C18-m1': ('./check C18', 'window/callback-argument: buffer growth with a consumed prefix'),
 'C18-m2': ('./check C18', 'writers/mutex: send loop enters write while a fast-path sender owns the connection'),
 'C01r2-m1': ('./check C09', 'callback-mode ledger after close: free-list size > cap (double recycle by two overlapping pendingData.clear); statement-granular interleavings, added after this seed escaped'),
 'C01r2-m2': ('./check C20', 'panic / ledger in statement-granular sticky interleavings (probabilistic: about one seed in two in the quick tier, thorough tier 10x the runs)'),
 'C04r2-m1': ('./check C04', 'torn element'),
 'C04r2-m2': ('./check C04', 'unobserved-pop / torn with non-power-of-two capacities (also C03: queues not cross-wired)'),
 'C05r2-m1': ('./check C05', 'staged flush-retry/consumer-drains-and-idles scenario (added after this seed escaped): stranded'),
 'C05r2-m2': ('./check C05', 'stranded: flag left set by an empty polling round'),
 'C06r2-m1': ('./check C06', 'writer-len'),
 'C06r2-m2': ('./check C06', 'bytes: fallback payload aliases the reused read buffer (also C07, C13)'),
 'C07r2-m1': ('./check C07', 'eos-overtakes-data: Blocking read waiter with a gate in front of the select (added after this seed escaped)'),
 'C07r2-m2': ('./check C07', 'isolation: recycled payload scribble (added after this seed escaped) shows the message was assembled after its slices were recycled'),
 'C09r2-m1': ('./check C09', 'leak with three-buffer messages (added after this seed escaped)'),
 'C09r2-m2': ('./check C09', 'callback-mode ledger after close (added after this seed escaped): 1 buffer still allocated'),
 'C10r2-m1': ('./check C11', 'blocked-forever: callback-mode read waiter (reader blocked inside OnData, peer close) added after this seed escaped'),
 'C10r2-m2': ('./check C07', 'event: handleEvents consumed 0 of 12 (also C13); C10 itself does not judge partial consumption'),
 'C20r2-m1': ('./check C20', 'invented / ledger in statement-granular interleavings (added after this seed escaped)'),
 'C20r2-m2': ('./check C20', 'not-serial'),
 'C02r2-m1': ('./check C02', 'BufMgr level with no slack behind the last class (added after this seed escaped): quiescent-size'),
 'C02r2-m2': ('./check C09', 'not-returned-after-close after ReleaseReadAndReuse (also ./check C15 leak-buffers); the allocator-level C02 check does not contain the reset-while-held step'),
 'C03r2-m1': ('./check C03', 'peer derives a different layout (unaligned slice sizes)'),
 'C03r2-m2': ('./check C03', 'queue layout unsound with odd capacities'),
 'C08r2-m1': ('./check C08', 'view-invalidated: recycled payload scribble shows the implicit release by Stream.Read'),
 'C08r2-m2': ('./check C06', 'bytes: fallback payload aliases the reused read buffer (same change as C06r2-m2; also C07, C13); ./check C08 itself holds no fallback view across a second socket message'),
 'C11r2-m1': ('./check C05', 'stranded (check-then-store in markNotWorking; same site as C05-m1); C11 sees no blocked call because its waiters do not share a queue with a second producer'),
 'C11r2-m2': ('./check C18', 'dispatch/stranded-writer: coalesced IN|OUT epoll event on the real dispatcher (EventConnDispatch.tla, added after this seed escaped)'),
 'C12r2-m1': ('./check C12', 'newSession does not return (also ./check C11 blocked-forever)'),
 'C12r2-m2': ('./check C12', 'census: mappings left behind after a failed handshake'),
 'C13r2-m1': ('./check C13', 'handshake goroutine panics on a body ending at the queue path'),
 'C13r2-m2': ('./check C13', 'process dies on a hot-restart event for a session without manager/listener'),
 'C14r2-m1': ('./check C14', 'panic in writer call sequences after teardown (Reserve x2; sequences added after this seed escaped)'),
 'C14r2-m2': ('./check C14', 'panic: Flush parked in the queue-full retry loop at peer death (staged scenarios added after this seed escaped)'),
 'C15r2-m1': ('./check C15', 'see checks/streampool_NOTES.md (callback-mode PutBack during OnData; HEAD fixed by c48bdfd makes this change harmless for the leak)'),
 'C15r2-m2': ('./check C15', 'see checks/streampool_NOTES.md (statement-granular PutBack/GetStream interleaving added after this seed escaped)'),
 'C16r2-m1': ('./check C16', 'second hot restart after a time-out reported done without notifying'),
 'C16r2-m2': ('./check C16', 'not-healed after a timed-out restart (also ./check C17)'),
 'C17r2-m1': ('./check C17', 'close-hangs / not-healed: rebuild whose first attempt fails (WRetry step added after this seed escaped)'),
 'C17r2-m2': ('./check C17', 'manager-stuck: restart event while the new server refuses connections (added after this seed escaped)'),
 'C18r2-m1': ('./check C18', 'pipe/callback-argument and panic in doWritev'),
 'C18r2-m2': ('./check C18', 'dispatch/stranded-writer (EventConnDispatch.tla, added after this seed escaped)'),
 'C19r2-m1': ('./check C19', 'walk: bytes lost by a Read straddling two messages (also ./check C06)'),
 'C19r2-m2': ('./check C19', 'conc: concurrent Close of one conn releases two session references (added after this seed escaped)'),
 'C05r3-m1': ('./check C05', 'staged backlog/5000-elements-in-one-polling-round (round 3, added after this seed escaped: the change only acts once one polling round has consumed >= 4096 elements): stranded'),
 'C09r3-m1': ('./check C09', 'not-returned-after-close in the mixed shm + heap fallback configuration, first run (./check C06 reports SPEC-DRIFT of module LinkedBuffer: free count 39 vs 40)'),
 'C11r3-m1': ('./check C11', 'blocked-forever: must-send-timeout-waiting-result / -waiting-room (waitForSend still blocked 10 s after ConnectionWriteTimeout), first run'),
 'C14r3-m1': ('./check C14', 'severed-connection pass (round 3, added after this seed escaped; ./check C18 had reported SPEC-DRIFT of EventConnDispatch only): survivor-not-closed when the peer dies with unread bytes in its socket (ECONNRESET)'),
 'C19r3-m1': ('./check C19', 'fallback-conn pass (round 3, added after ./check C19 had missed this seed; ./check C06 caught it at first run): bytes - stream position 0 of the first of two unread fallback Writes reads the second one'),
 'C19-m1': ('./check C19', 'late-stream probe (added after this seed escaped)'),
 'C19-m2': ('./check C07', 'order across transports; C19 itself does not stage the fallback/refill interleaving'),
 'C20-m1': ('./check C20', 'stranded (fine-grained random interleavings, added after this seed escaped)'),
 'C20-m2': ('./check C20', 'offered-after-close'),
}
for out in sorted(glob.glob('/tmp/seed/C*-out/m*')):
    pid = re.search(r'/(C\d+(?:r\d)?)-out/(m\d)', out)
    name = '%s-%s' % (pid.group(1), pid.group(2))
    if not os.path.exists(os.path.join(out, 'patch.diff')):
        continue
    dst = os.path.join('/verif/seeded', name)
    os.makedirs(dst, exist_ok=True)
    for f in os.listdir(out):
        p = os.path.join(out, f)
        if os.path.isfile(p) and (f.endswith('.diff') or f.endswith('_test.go') or f == 'meta.json'):
            shutil.copy(p, dst)
    # demo files must not be compiled by accident: keep them with a .txt suffix as well? no: /verif is not a Go package root
    metap = os.path.join(dst, 'meta.json')
    try:
        meta = json.load(open(metap))
    except Exception:
        meta = {'property': pid.group(1)}
    c = CAUGHT.get(name)
    conf = os.path.join(dst, 'confirm.log')
    meta['verif'] = {
        'confirmed_independently': os.path.exists(conf),
        'confirmation_log': 'confirm.log' if os.path.exists(conf) else None,
        'caught_by': c[0] if c else None,
        'how': c[1] if c else 'not yet evaluated',
        'how_it_was_run': 'git apply patch.diff in a scratch worktree of /repo HEAD; VERIF_REPO=<worktree> ./check <id>; worktree reverted',
    }
    json.dump(meta, open(metap, 'w'), indent=1)
print(sorted(os.listdir('/verif/seeded')))
