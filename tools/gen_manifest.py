#!/usr/bin/env python3
"""Regenerates MANIFEST.json from the table below (single source of truth for the interface)."""
import json, os
ROOT = os.path.dirname(os.path.dirname(os.path.abspath(__file__)))

MC = 'model_checking'
CHECKS = {
 'C01': dict(level=MC, engine='FreeList', design='DESIGN.md §3 C01',
   text='TLC decides NoDoubleOwner/NoForeignWrite exhaustively on FreeList.tla (one action per shared-memory access of bufferList.pop/push) for 3 slots x 2 threads (quick) and larger instances (thorough); every transition of the exhaustive state graph is then executed on the real pop/push under a serialising scheduler with the real shared memory compared to the spec state after every access, and holder-table / header-snapshot / payload-signature oracles evaluated on the real memory; seeded random schedules on the real code are validated back against the spec (Trace_FreeList). Exhaustive for the stated constants, sampled beyond.',
   note='Assumes sequential consistency (amd64/TSO); trusts TLC, the go/ast rewriter that inserts scheduling points and the serialising scheduler. The ABA of bufferList.pop is a listed known finding: executions matching its classifier are pruned, its witness is replayed every run.',
   technique='TLA+ spec at shared-access granularity + TLC exhaustive; transition-cover replay on real code with state conformance; trace validation of real schedules'),
 'C02': dict(level=MC, engine='FreeList', design='DESIGN.md §3 C02',
   text='Same module and runs as C01 with the C02 invariants (SizeBound, IdleSizeExact, QuiescentWellFormed: free count exact whenever no operation is in progress, chain from head visits every slot once and ends at tail once everything is recycled); on the real code the chain is walked on the real memory after every replayed behaviour reaches quiescence, size+held<=cap after every access, and a directed scenario drives pop to its retry bound (200 failed CAS) and checks that the failed allocation consumed nothing.',
   note='As C01. Quiescence is forced by the harness (operations in progress are completed, all held buffers recycled).',
   technique='TLA+ spec at shared-access granularity + TLC exhaustive; transition-cover replay on real code with state conformance; trace validation of real schedules'),
}

PENDING = {}

def main():
    props = [json.loads(l) for l in open(os.path.join(ROOT, 'properties.jsonl'))]
    checks = []
    na = []
    for p in props:
        i = p['id']
        if i in CHECKS:
            c = CHECKS[i]
            checks.append({
                'property_id': i,
                'quick_cmd': './check %s --tier quick' % i,
                'thorough_cmd': './check %s --tier thorough' % i,
                'evidence_file': '/verif/evidence/%s.json' % i,
                'replay_cmd_template': './check %s --replay {path}' % i,
                'engine': c['engine'],
                'level_claimed': {'category': c['level'], 'text': c['text'], 'design_ref': c['design']},
                'level_note': c['note'],
                'technique': c['technique'],
            })
        else:
            na.append({'property_id': i, 'reason': PENDING.get(i, 'check not built yet in this revision of /verif (planned: see DESIGN.md §3 %s); not claimed until its TLA+ module and binding exist' % i)})
    engines = {}
    for i, c in CHECKS.items():
        engines.setdefault(c['engine'], []).append(i)
    m = {
        'version': 1,
        'setup_cmd': 'cd /verif && ./setup.sh',
        'hooks': {'guard': 'verif', 'enable': 'go test -tags verif (hooks are add-only calls to verifTrace, compiled to an empty function without the tag); the lock-free modules need no hooks: scheduling points are injected at check time with go test -overlay',
                  'baseline_off_cmd': 'cd /repo && go test -vet=off -count=1 -timeout 25m ./...',
                  'source_commits': [], 'add_only': True},
        'engines': [{'name': n, 'path': '/verif/specs/%s.tla' % n, 'serves_properties': ps,
                     'kind_free_text': 'TLA+ module checked by TLC, bound to the code by checks/%s.py + harness/zz_%s_test.go' % (n.lower(), n.lower())}
                    for n, ps in engines.items()],
        'checks': checks,
        'not_applicable': na,
        'notes': 'exit 0 held / 1 VIOLATION / 2 inconclusive (TLC lead not reproduced on the code, tool failure, timeout). Known findings: /verif/known-findings.txt.',
    }
    json.dump(m, open(os.path.join(ROOT, 'MANIFEST.json'), 'w'), indent=1)

if __name__ == '__main__':
    main()
