#!/usr/bin/env python3
"""Regenerates MANIFEST.json from the table below (single source of truth for the interface)."""
import json, os
ROOT = os.path.dirname(os.path.dirname(os.path.abspath(__file__)))

MC = 'model_checking'
CHECKS = {
 'C01': dict(level=MC, engine='FreeList', design='DESIGN.md §3 C01',
   text='TLC decides NoDoubleOwner/NoForeignWrite exhaustively on FreeList.tla (one action per shared-memory access of bufferList.pop/push) for 3 slots x 2 threads (quick) and larger instances (thorough); every transition of the exhaustive state graph is then executed on the real pop/push under a serialising scheduler with the real shared memory compared to the spec state after every access, and holder-table / header-snapshot / payload-signature oracles evaluated on the real memory; seeded random schedules on the real code are validated back against the spec (Trace_FreeList). Exhaustive for the stated constants, sampled beyond.',
   note='Assumes sequential consistency (amd64/TSO); trusts TLC, the go/ast rewriter that inserts scheduling points and the serialising scheduler. The ABA of bufferList.pop is a listed known finding: executions matching its classifier are pruned, its witness is replayed every run.',
   technique='TLA+ spec at shared-access granularity + TLC exhaustive; transition-cover replay on real code with state conformance; trace validation of real schedules'),
 'C02': dict(level=MC, engine='FreeList', design='DESIGN.md §3 C02',
   text='Same module and runs as C01 with the C02 invariants (SizeBound, IdleSizeExact, QuiescentWellFormed: free count exact whenever no operation is in progress, chain from head visits every slot once and ends at tail once everything is recycled); on the real code the chain is walked on the real memory after every replayed behaviour reaches quiescence, size+held<=cap after every access, and a directed scenario drives pop to its retry bound (200 failed CAS) and checks that the failed allocation consumed nothing.',
   note='As C01. Quiescence is forced by the harness (operations in progress are completed, all held buffers recycled).',
   technique='TLA+ spec at shared-access granularity + TLC exhaustive; transition-cover replay on real code with state conformance; trace validation of real schedules'),
}

B1 = 'TLA+ spec at shared-access granularity + TLC exhaustive; transition-cover replay on real code with state conformance; trace validation of real schedules'
CHECKS.update({
 'C04': dict(level=MC, engine='IOQueue', design='DESIGN.md §3 C04',
   text='TLC checks Bounded/Intact/Fifo/FullTruth/AllDelivered exhaustively on IOQueue.tla (one action per shared access of queue.put/pop, the producer lock, wakeUpPeer and the handlePolling drain loop) for cap 2, 2 producers x 2 elements with a wrapped start index (quick) and more configurations (thorough); every transition of the state graph is executed on the REAL queue.put/pop/markWorking/markNotWorking/Session.wakeUpPeer/handlePolling under a serialising scheduler with the real ring, head, tail, flag compared to the spec after every access; the dispatched elements are observed through the library\'s own stream dispatch (seqID, offset and status fields), with exactly-once, real-time order, bounds and truth of every ErrQueueFull checked on the real run; random real schedules are validated against Trace_IOQueue.',
   note='Sequential consistency assumed (amd64). The event connection is a counting fake; the consumer is the real handlePolling on a second mapping of the same bytes. Trusts TLC, the rewriter and the scheduler.', technique=B1),
 'C05': dict(level=MC, engine='IOQueue', design='DESIGN.md §3 C05',
   text='Same module/runs as C04 with NoStranding and IdleNonEmptyHasWakeup as invariants and <>[](head = tail) under weak fairness; on the real code, after every access and at the end of every replayed behaviour: producers idle + every notification delivered and handled + consumer idle implies the real receive queue is empty.',
   note='As C04. Liveness is decided on the specification only (small constants); the real-code oracle is the safety form of the property at every quiescent point reached.', technique=B1),
 'C06': dict(level=MC, engine='BytePipe', design='DESIGN.md §3 C06',
   text='BytePipe.tla is the API-level meaning of a stream (two byte FIFOs, writer/reader call kinds, zero-copy views); TLC checks its invariants/action properties and produces the state graph whose PATHS are the histories. Every path up to the call bound (quick: every k-th, thorough: all) is executed on real Streams of a socket-less session pair under several slice-size configurations and degrees of buffer exhaustion (shared memory only, mixed, socket fallback), comparing every returned byte and every Len() with the prediction.',
   note='The slice structure is hidden state of the implementation, hence all paths rather than an edge cover. Reader calls only with size <= Len (blocking is C11). Delivery is synchronous after each Flush (interleavings with the event loop are C07).',
   technique='TLA+ API-level spec + TLC; exhaustive history (graph path) replay on real streams with byte-exact comparison'),
 'C08': dict(level=MC, engine='BytePipe', design='DESIGN.md §3 C08',
   text='Same histories as C06; every slice returned by ReadBytes/Peek is kept with its expected content and re-compared after every later call, after all free buffers of every class have been allocated, scribbled and recycled (a prematurely recycled buffer is overwritten deterministically); after release / close the number of allocated buffers must return to the predicted value (0, or the one buffer ReleaseReadAndReuse deliberately keeps).',
   note='As C06.', technique='TLA+ API-level spec + TLC; exhaustive history replay on real streams with live-view re-validation under forced buffer reuse'),
 'C07': dict(level=MC, engine='Session', design='DESIGN.md §3 C07',
   text='Session.tla models streams x {IO queue, socket} x event loop per direction with writers split at the code\'s step boundaries (element queued / flag won / polling event written), sticky fallback, queue-full, close via queue or socket, server-side stream re-creation; TLC checks Order and CloseAfterData exhaustively (listed finding classes pruned by a ghost classifier, and shown non-vacuous by the unpruned run); every transition of the small graphs and simulated behaviours of larger ones are replayed on a pair of real sessions (writers as scheduler threads parked exactly at those boundaries, the event loop driven one socket event at a time) with queues, socket events, flags, stream states, unread counts and the buffer ledger compared after every step; reader-side oracles (prefix order, isolation by payload tagging, end-of-stream only after everything flushed) are evaluated on the real observations.',
   note='Real session code without sockets/epoll: the event connection records events, the harness delivers them. Queue drain atomic at this level (IOQueue covers its interleavings). Three known-finding classes are pruned/skipped and their witnesses replayed every run.',
   technique='TLA+ protocol spec + TLC exhaustive; behaviour replay on real session pair with step-wise state conformance and independent oracles'),
 'C09': dict(level=MC, engine='Session', design='DESIGN.md §3 C09',
   text='Same module/runs as C07 with the buffer ledger: LedgerExact (allocated buffers = queued data elements + pending shared-memory messages) in every state and AllBack at quiescence on the spec; on the real pair the number of allocated buffers is compared with the ledger after EVERY step of every replayed behaviour and must be 0 after all streams are closed on both ends and the session settled (including flush on closed streams, queue-full drops, fallback, data for closed/unknown streams, unread data at close).',
   note='As C07; pool re-use paths are covered by C15/BytePipe Reuse.', technique='TLA+ protocol spec with resource ledger + TLC; behaviour replay on real session pair comparing allocated-buffer count at every step'),
 'C10': dict(level=MC, engine='Session', design='DESIGN.md §3 C10',
   text='Same module/runs as C07 with Monotone (per stream object), PeerLearns and the API-result oracles: after a local Close every Flush/Read fails with the closed-stream error and the stream is not active; closed + settled implies the peer end is not open; Close idempotent; both ends closing concurrently (all interleavings of the two close protocols with in-flight data).',
   note='Synchronous mode; Close from inside callbacks and callback exactly-once are decided by the Callback module (C20 check) — see DESIGN.md.', technique='TLA+ protocol spec + TLC exhaustive; behaviour replay on real session pair with state conformance and API-result oracles'),
})

CHECKS['C20'] = dict(level=MC, engine='Callback', design='DESIGN.md §3 C20',
   text='Callback.tla models the hand-off between the event loop (fillDataToReadBuffer / halfClose), the callback goroutines and Close() (from another goroutine or from inside OnData) at the granularity of the real code\'s scheduling points; TLC checks Serial, NoDupOffer, OrderOffer, NoStranding, NothingAfterClose (+ eventual settling under weak fairness) exhaustively per event scenario with the two listed finding classes pruned by a ghost classifier; every transition is replayed on the REAL functions (gopool.Go replaced by a scheduler thread, wait-group wait scheduler-aware) with state, callbackInProcess, callbackCloseState, wait-group count, pending/read-buffer message counts, bytes offered and callback counts compared after every step; serial execution, exactly-once/in-order offering and no stranding are evaluated on the real observations, plus seeded random interleavings.',
   note='Messages travel through the real IO queue and handlePolling of a socket-less session pair; OnData consumes everything offered. Known findings (data followed by the peer close is never offered; Close during a callback) are pruned by classifier and their witnesses replayed every run.',
   technique='TLA+ spec at scheduling-point granularity + TLC exhaustive; transition-cover replay on real code with state conformance; random real interleavings with oracles')

CHECKS['C12'] = dict(level=MC, engine='Handshake', design='DESIGN.md §3 C12; checks/handshake_NOTES.md',
   text='Handshake.tla has one action per blocking IO operation of each end of session establishment (version exchange, metadata, ack-ready, fd passing, ack; V2 and V3 initializers), the error return, the initialization time-out and a ghost for the handshake goroutine; TLC checks Agreement, NoOneSidedSuccess, Cleanup, Bounded and Termination exhaustively over mapping type x client protocol x server generation x transport x fault (side, step, stall/close/half-message/late): ~1100 scenarios, ~12k states. Every scenario class is executed on the REAL newSession (both ends real, or a real end against a scripted raw-socket peer that plays the faulty/old peer) comparing result class, negotiated version and wire messages with the spec, and checking memory identity of queue and buffer, queue cross-wiring, a stream echo, the time bound, and a census of /proc/self/maps, /proc/self/fd and /dev/shm.',
   note='Old server generations are emulated by the scripted peer. Time bounds use generous margins (loaded machine); anything that is not a clean pass is executed twice. One known finding (protocol 2 has no acknowledgement) is classified and skipped.',
   technique='TLA+ protocol spec + TLC exhaustive over scenario space; scenario replay on real newSession / scripted peer with result and resource-census comparison')

CHECKS['C18'] = dict(level=MC, engine='EventConn', design='DESIGN.md §3 C18; checks/eventconn_NOTES.md',
   text='EventConn.tla models the write loop over kernel results (partial writes, EAGAIN), the kernel FIFO and the onReadReady/maybeExpandReadBuffer/commitRead window (double, 1 MiB callback threshold, 4 MiB shrink, scaled and real literals); EventConnWriters.tla the writer protocol (writing flag CAS of wakeUpPeer/hotRestart fast paths, sendCh, send loop, notifyContinueWriteCh). TLC checks stream integrity, callback-argument = unconsumed ++ new, NoInterleave and send-loop progress exhaustively. Spec -> code: every edge of the window graphs is replayed on the real connEventHandler over a datagram socketpair (each read returns exactly the size TLC chose) with buffer length, offsets and consumed compared at every step; writer-protocol cover paths are executed on the real wakeUpPeer/hotRestart/send with gates at every atomic access. Code -> spec: real write/writev runs against a tiny send buffer are logged and validated by Trace_EventConn. End-to-end runs on the real epoll loop (unix+tcp, small socket buffers, concurrent senders, >13 MiB bursts) with event-boundary and exactly-once-in-order oracles.',
   note='The kernel chooses write sizes (observed, not chosen); the -race dispatcher variant is exercised in the thorough tier only.',
   technique='TLA+ specs of the IO window and writer protocol + TLC exhaustive; edge-cover replay on the real handler with state conformance; trace validation of real write loops')
CHECKS['C19'] = dict(level=MC, engine='NetListener', design='DESIGN.md §3 C19; checks/netlistener_NOTES.md',
   text='NetListener.tla models the net.Listener/net.Conn adapter (per-session accept loop, WaitGroup reference counts, backlog, closeCh, wrapper and stream state, byte counts, one FIFO per direction) with call results as action parameters; TLC checks exactly-once surfacing, io.Reader/io.Writer contracts, Accept/Read release on close and "session ends once the listener and its conns are closed" exhaustively (sync and interleaved configurations). The real ListenWithBacklog, sessions, streams and epoll loop are walked through an edge cover of the spec graph (Go select nondeterminism matched against every alternative the spec allows); return values, completions of parked Accept/Read and a structural projection (closed flag, backlog, session table, WaitGroup counter, stream states, pending bytes) are compared per step; independent ledger oracles check bytes, order, deadlines, exactly-once surfacing and session end.',
   note='Real sockets and the real event loop: under heavy machine load a path is abandoned (not judged) after repeated 1 s handshake time-outs. One known finding (late data re-creates a closed stream) is classified and skipped.',
   technique='TLA+ spec with result-parameterised actions + TLC exhaustive; edge-cover replay on the real listener/sessions with per-step conformance and ledger oracles')

CHECKS['C03'] = dict(level=MC, engine='Layout', design='DESIGN.md §3 C03; checks/layout_NOTES.md',
   text='Layout.tla transcribes createBufferManager/mappingBufferManager/createFreeBufferList/countBufferListMemSize and the queue create/mapping functions as pure operators (including the uint32 arithmetic, at reduced word width so that wrap-around is reachable by TLC) with soundness (slots pairwise disjoint, inside the mapping, behind their headers), creator/mapper agreement and queue cross-wiring as properties over an enumerated configuration space; every grid point and boundary case is executed on the REAL create/mapping functions (heap, /dev/shm file and memfd back-ends, sparse 4 GiB mappings for the wide cases), comparing error/no-error and the full geometry with the operators, writing a pattern through every slot of one side and reading it through the other, and putting an element on one side\'s send queue and popping it from the peer\'s receive queue.',
   note='arm64 queue header layout is not built. Three uint32 wrap-around defects found here are fixed in /repo.',
   technique='TLA+ operators (reduced word width) + TLC over a configuration grid; every configuration executed on the real layout code with geometry comparison')

CHECKS['C11'] = dict(level=MC, engine='Blocking', design='DESIGN.md §3 C11; checks/blocking_NOTES.md',
   text='Blocking.tla models five waiters at shared-access granularity - readMore (notify channel of capacity 1, close channel, timer; several reads in sequence, stale token), the Flush queue-full retry loop against deadline/close/consumer, AcceptStream against new stream and session close, waitForSendErr and the wakeUpPeer/hotRestart slow path against the send loop, initProtocol against a peer that answers, stalls or closes - with the releasing events as environment actions; TLC checks 7 invariants (result table: nil only with the data there, timeout never early, EOS/closed only in those states) and 6 leads-to properties (a waiter whose releasing event completed returns) exhaustively. Cover paths of the TLC graph plus must-replay behaviours are staged on REAL sessions with gates in front of pendingData.moveTo / getStreamState / queue.put (waiter) and pendingData.add / getStreamState / pendingData.clear (environment); whether a goroutine is blocked in select or chan send is read from runtime.Stack so "event just before / just after the waiter subscribes" is staged without sleeps; every observation is validated against the TLC graph and independent oracles check that no waiter stays blocked after its releasing event, no timeout comes early, and every call returns within a generous bound.',
   note='The release time bound is measured (10 s bound on a loaded machine), not proved. Go timer-reuse races and SetReadDeadline during a blocked read are not covered.',
   technique='TLA+ spec with leads-to properties + TLC exhaustive; cover-path staging on real sessions with gate-controlled interleavings and graph conformance')

CHECKS['C13'] = dict(level=MC, engine='EventCodec', design='DESIGN.md §3 C13; checks/eventcodec_NOTES.md',
   text='EventCodec.tla is a byte-level model of one session\'s receive side (handshake header readers and the established-session event loop: handleEvents, the five handlers, checkEventValid, the connEventHandler window) with one action Deliver(n) per read; TLC checks TypeOK, CutIndependent (any cut sequence gives the same result as one uncut read), ErrorMeansClosed, NoCompleteEventLeft and WindowIsSuffix over a generated catalogue of byte strings (valid, truncated, lengths shorter than the fixed fields or longer than the data, unknown types/versions, wrong direction/phase) and every way of cutting each into reads. Each Deliver edge of the TLC graph is one real read on the REAL code through three executors (a real session pair driven through onReadReady/handleEvents with recover and hang detection; the real handshake functions fed chunk by chunk; child processes running the real Server() and epoll loop with a bystander session that must keep working), comparing closed/shutdownErr, the unconsumed window, the stream table and pending bytes, accept order, counters and the epoch that reached the manager after every read.',
   note='Events above 64 KiB / buffer resizing are C18; TCP transport and arm64 not covered. Four crash defects found here are fixed in /repo and kept as regression cases.',
   technique='TLA+ byte-level parser/window spec + TLC over a case catalogue x all cuts; per-read replay on the real parser, handshake and epoll loop with state comparison')

CHECKS['C15'] = dict(level=MC, engine='StreamPool', design='DESIGN.md §3 C15; checks/streampool_NOTES.md',
   text='StreamPool.tla has one action per API call or environment step (Get, Put, Send, Write, Read, CloseHeld, PeerReply, PeerClose, SessClose, Teardown, PoolDrain, Rebuild) with Exclusive, Fresh, PutOutcome (action properties), NoLeak, CountExact, TableShape and CapOK; TLC checks five exhaustive configurations (callers 1-2, pool capacity 1-2; ~21k states). Spec -> code: every cover history is replayed on a real SessionManager.GetStream/PutBack, streamPool and Stream over socket-less real sessions (including pool.close, session replacement, Session.Close and the posted teardown), comparing stream state, table membership, unread count, fallback flag, write buffer, ring contents, holders and sessions after each step; Fresh/Exclusive/PutOutcome/NoLeak are evaluated on the real objects. Code -> spec: free-running concurrent callers record invoke/return histories which Trace_StreamPool validates for linearisability with TLC.',
   note='Interleavings inside Get/Put rest on the free-running runs + linearisability check, not on the scheduler; the background rebuild goroutine and hot-restart pool swap belong to C16/C17. Three defects found here are fixed in /repo and kept as regression witnesses.',
   technique='TLA+ spec at API-call granularity + TLC exhaustive; cover-history replay on the real session manager with state conformance; linearisability check of recorded concurrent histories by trace validation')

HR = dict(level=MC, engine='HotRestart', design='DESIGN.md §3 C16/C17; checks/hotrestart_NOTES.md',
   note='Trace validation needs the verif-tagged hooks committed in /repo (MANIFEST.hooks.source_commits); when they are absent the check skips that part with a note. The 2 s hot-restart time-outs are real time; rebuildInterval is shortened in-package. Known findings (late ack, stale watcher, restart event after Close / on a closed session, two rounds in one epoch) are classified, pruned and their witnesses staged every run.',
   technique='TLA+ protocol spec with leads-to properties + TLC exhaustive; trace validation of real executions recorded through build-tagged hooks; staged fault scenarios on real listeners/session managers')
CHECKS['C16'] = dict(HR, text='HotRestart.tla models Listener.HotRestart/checkHotRestart/resetState, handleHotRestartAck, handleSessionManagerHotRestart, SessionManager.checkHotRestart, the per-pool watcher/rebuild goroutine and SessionManager.Close with messages in flight, time-outs, session loss and a new server that is not listening yet; TLC checks that listener and manager leave the hot-restart state (leads-to under fairness of the time-outs), that completion puts every pool on a session of the announced epoch connected to the new server, that GetStream always has a live or rebuilding session behind it, and that stale epochs change nothing. Binding B3: executions of real Listeners and SessionManagers (the repository\'s hot-restart scenario and fault-injecting drivers: delayed acks, new server not up, sessions killed mid-way, repeated restarts) are recorded through hooks placed under the protecting locks and validated against the spec by TLC (every recorded step must be a spec step; invariants evaluated on every state of the real execution); TLC counterexamples are staged on the real code as witnesses.')
CHECKS['C17'] = dict(HR, text='Same module as C16, for the session-rebuild loop: lost ~> replaced when the server is reachable, GetStream fails (never hangs) in between, a pool swapped by hot restart is not rebuilt a second time, nothing is created after SessionManager.Close. Real executions with sessions/servers killed and restarted at controlled points (rebuild interval shortened) are recorded through the hooks and validated against the spec; outcomes of GetStream over time, identity/health of the session behind each pool and a goroutine census after Close are checked on the real objects.')

CHECKS['C14'] = dict(level=MC, engine='Lifecycle', design='DESIGN.md §3 C14; checks/lifecycle_NOTES.md',
   text='Lifecycle.tla models Session.Close/exitErr (shutdown CAS, shutdownErr, stream notification, shutdownCh), the posted teardown (close conn, close streams, drop the buffer-manager reference, unmap queue), concurrent closers, parked reads/accepts/flushes, callback-mode streams and PeerDies/ConnBreaks enabled at every point of a short workload; TLC checks (fine-grained interleavings) that the survivor ends closed, pending and later calls fail with a known error, each stream gets exactly one close callback, Close is idempotent, nothing races the unmap (outside the listed classes) and both leads-to properties; the run-to-completion graphs are dumped and an edge cover is executed on pairs of REAL sessions (real newSession, handshake, /dev/shm files or memfds, global buffer manager, connEventHandler, dispatcher.post/runLambda, Close/teardown; only the goroutine that turns each end\'s epoll loop belongs to the harness) with 22 observables compared after every procedure; further behaviours run against the untouched dispatcher with the peer severed in-process or running as a child process that is SIGKILLed at the enumerated crash point. End-of-behaviour oracles: survivor closed, no hang, pending calls returned and failed, later calls fail, one close callback, no panic/fault, and a census of descriptors, mappings, /dev/shm files and session goroutines.',
   note='Every crash point of the modelled workload is enumerated; mid-handshake death is C12. Two known findings (no close callback when OnData is running at shutdown; stream calls in flight race the unmap) are classified, pruned and staged every run.',
   technique='TLA+ lifecycle spec with crash actions at every step + TLC; edge-cover and crash-point replay on real session pairs (in-process severing and SIGKILLed child peers) with state comparison and resource census')

PENDING = {}

# what round 2 added to the checks (appended to the claim text)
EXTRA = {
 'C02': ' The buffer-manager level (BufMgr.tla) lays the classes out with no slack behind the last slot.',
 'C05': ' The retry path of Stream.Flush (queue full at the first attempt, consumer drains and goes idle between two attempts) is staged on a real session pair with the same stranded-element oracle. Round 3: staged backlog scenarios (300 / 5000 / 8100 elements consumed by ONE polling round on a queue of 8192, then one more element) - magnitudes the TLC constants (capacities 2-5) do not reach.',
 'C07': ' Every second configuration uses 9-byte messages (a chain of three buffers); the payload of every recycled buffer and the connection read buffer are scribbled by the harness (aliasing / use-after-recycle show deterministically); the Blocking module\'s read waiter with a gate in front of readMore\'s select decides "told the stream ended with flushed bytes delivered and unread" when the peer\'s last data and its close are both ready.',
 'C09': ' Additional passes: staged Flush-retry scenarios, the BytePipe histories, and the Callback module (TLC behaviours + statement-granular random interleavings of Close against delivery) with the ledger and the integrity of every free list checked after both ends closed. Round 3: staged fault scenario \'corrupt queue element behind a good message\' (exact ledger, free-list integrity, foreign buffers untouched) and the backlog scenarios.',
 'C11': ' Round 2 added the callback-mode read waiter (the reader is the callback goroutine blocked inside OnData) and the property "a completed close by either end releases the reader".',
 'C14': ' An additional pass (Listener.tla, checks/listenermod.py) covers the server-side Listener: accept loop, session set, Close from two goroutines, accept errors, session death at any point; TLC edge cover walked on a real Listener over a real unix socket. Round 2 also added writer call sequences after teardown and a Flush parked in the queue-full retry loop at the moment of death. Round 3: severed-connection pass - real sessions over a byte relay; the peer goes away by clean close, close with unread bytes in its socket (the survivor\'s read fails with ECONNRESET) or half-close; survivor server/client, read pending or idle; oracle = postcondition of the spec step PeerDies.',
 'C15': ' Round 2 added callback-mode pooled streams (PutBack while OnData runs, failing/succeeding reset) and statement-granular interleaving of a second caller inside PutBack.',
 'C16': ' Round 2 added failing reconnect attempts, a new server that binds and then refuses connections, and a notification whose write fails (session gone).',
 'C17': ' Round 2 added failing reconnect attempts (WRetry), restart events while the new server refuses connections, Close during a rebuild.',
 'C18': ' EventConnDispatch.tla (round 2) adds the epoll event-mask dimension of handleEvent (IN/OUT/RDHUP coalesced in one event while a writer is parked after EAGAIN), staged deterministically on the real epoll dispatcher.',
 'C19': ' Round 2 added two goroutines closing the same accepted conn, at the granularity of streamWrapper.Close\'s statements. Round 3: fallback-conn pass - the byte-stream oracle on conns that left shared memory (oversized Write), Write sequences with the reader idle until 1, 2 or all have arrived, both directions, real Listen/Accept.',
 'C20': ' Random interleavings on the real code at three granularities, the finest with a scheduling point in front of every statement of pendingData.*, Stream.clean, linkedBuffer.recycle/cleanPinnedList/clean and sliceList.* (half of the runs with few preemptions), readers that keep slices pinned, panic capture and the buffer ledger / free-list integrity after close; design invariant CleanAlone.',
}


def main():
    for k, v in EXTRA.items():
        CHECKS[k]['text'] = CHECKS[k]['text'] + v
    props = [json.loads(l) for l in open(os.path.join(ROOT, 'properties.jsonl'))]
    checks = []
    na = []
    for p in props:
        i = p['id']
        if i in CHECKS:
            c = CHECKS[i]
            checks.append({
                'property_id': i,
                'quick_cmd': './check %s --tier quick' % i,
                'thorough_cmd': './check %s --tier thorough' % i,
                'evidence_file': '/verif/evidence/%s.json' % i,
                'replay_cmd_template': './check %s --replay {path}' % i,
                'engine': c['engine'],
                'level_claimed': {'category': c['level'], 'text': c['text'], 'design_ref': c['design']},
                'level_note': c['note'],
                'technique': c['technique'],
            })
        else:
            na.append({'property_id': i, 'reason': PENDING.get(i, 'check not built yet in this revision of /verif (planned: see DESIGN.md §3 %s); not claimed until its TLA+ module and binding exist' % i)})
    engines = {}
    for i, c in CHECKS.items():
        engines.setdefault(c['engine'], []).append(i)
    more = [('BufMgr', ['C01', 'C02'], 'checks/bufmgr.py + harness/zz_bufmgr_test.go (manager level of the free lists)'),
            ('LinkedBuffer', ['C06', 'C08', 'C09'], 'checks/bytepipe.py structural pass + harness/zz_bytepipe_test.go (slice-level model compared with the real linkedBuffer)'),
            ('Listener', ['C14'], 'checks/listenermod.py + harness/zz_listenermod_test.go (additional pass of C14)'),
            ('EventConnWriters', ['C18'], 'checks/eventconn.py + harness/zz_eventconn_test.go (writer protocol)'),
            ('EventConnDispatch', ['C18'], 'checks/eventconn.py + harness/zz_eventconn_test.go (epoll event masks on the real dispatcher)'),
            ('Trace_FreeList', ['C01', 'C02'], 'trace validation of recorded real schedules'),
            ('Trace_IOQueue', ['C04', 'C05'], 'trace validation of recorded real schedules'),
            ('Trace_EventConn', ['C18'], 'trace validation of real write loops'),
            ('Trace_StreamPool', ['C15'], 'trace validation of concurrent real runs'),
            ('Trace_HotRestart', ['C16', 'C17'], 'trace validation of executions recorded through the verif-tagged hooks')]
    engines.setdefault('Blocking', [])
    if 'C07' not in engines['Blocking']:
        engines['Blocking'].append('C07')
    engines.setdefault('Callback', [])
    for x in ('C10', 'C09'):
        if x not in engines['Callback']:
            engines['Callback'].append(x)
    m = {
        'version': 1,
        'setup_cmd': 'cd /verif && ./setup.sh',
        'hooks': {'guard': 'verif', 'enable': 'go test -tags verif (hooks are add-only calls to verifTrace, compiled to an empty function without the tag); the lock-free modules need no hooks: scheduling points are injected at check time with go test -overlay',
                  'baseline_off_cmd': 'cd /repo && go test -vet=off -count=1 -timeout 25m ./...',
                  'source_commits': ['b52bc24', '633daf6'], 'add_only': True},
        'engines': [{'name': n, 'path': '/verif/specs/%s.tla' % n, 'serves_properties': ps,
                     'kind_free_text': 'TLA+ module checked by TLC, bound to the code by checks/%s.py + harness/zz_%s_test.go' % (n.lower(), n.lower())}
                    for n, ps in engines.items()] +
                   [{'name': n, 'path': '/verif/specs/%s.tla' % n, 'serves_properties': ps,
                     'kind_free_text': 'TLA+ module checked by TLC; ' + t} for n, ps, t in more],
        'checks': checks,
        'not_applicable': na,
        'notes': 'exit 0 held / 1 VIOLATION / 2 inconclusive (TLC lead not reproduced on the code, tool failure, timeout). Known findings: /verif/known-findings.txt.',
    }
    json.dump(m, open(os.path.join(ROOT, 'MANIFEST.json'), 'w'), indent=1)

if __name__ == '__main__':
    main()
