#!/bin/bash
# run_seed.sh <Pr3> <checks...>: confirm, then run listed checks against the patched worktree
P=$1; shift
cd /verif && tools/confirm_seed.sh $P m1 > /tmp/seed/$P-out/confirm.out 2>&1
cd /tmp/seed/$P-wt && git apply /tmp/seed/$P-out/m1/patch.diff
cd /verif
for c in "$@"; do
  VERIF_REPO=/tmp/seed/$P-wt ./check $c 2>&1 | grep -v "^\[" | head -6 > /tmp/seed/$P-out/check_$c.out
done
cd /tmp/seed/$P-wt && git checkout -q -- . 
echo done > /tmp/seed/$P-out/DONE
