#!/bin/bash
# confirm_seed.sh <prop> <m>: independently confirm a seeded change produced by a sub-agent (in its scratch worktree):
# applies, builds, passes the existing suite, the demonstration fails with it and passes without it. Then keeps it
# under /verif/seeded/<prop>-<m>/ with a confirmation log.
set -u
export GOFLAGS=-mod=mod GOPROXY=off GOSUMDB=off GOTOOLCHAIN=local
P=$1; M=$2
WT=/tmp/seed/$P-wt; OUT=/tmp/seed/$P-out/$M; DST=/verif/seeded/$P-$M
[ -f $OUT/patch.diff ] || { echo "no patch"; exit 2; }
cd $WT && git checkout -q -- . && git clean -fdq
LOG=$(mktemp)
{
echo "== confirm $P $M at $(date -u +%FT%TZ)"
git apply --check $OUT/patch.diff || { echo "PATCH DOES NOT APPLY"; exit 1; }
git apply $OUT/patch.diff
echo "-- diff stat"; git diff --stat
go build ./... && echo "BUILD ok" || echo "BUILD FAILED"
echo "-- existing suite with the change"
flock /tmp/seed/suite.lock go test -vet=off -count=1 -timeout 25m ./... 2>&1 | tail -3
DEMO=$(ls $OUT/*_test.go 2>/dev/null | head -1)
if [ -n "$DEMO" ]; then
  cp $DEMO $WT/zz_seed_demo_test.go
  echo "-- demo WITH change (expect FAIL)"
  go test -vet=off -count=1 -timeout 10m -run 'TestSeedDemo' . 2>&1 | tail -4
  git checkout -q -- .
  echo "-- demo WITHOUT change (expect ok)"
  go test -vet=off -count=1 -timeout 10m -run 'TestSeedDemo' . 2>&1 | tail -3
  rm -f $WT/zz_seed_demo_test.go
else
  echo "no go demo test found: $(ls $OUT)"
fi
git checkout -q -- . ; git clean -fdq
} > $LOG 2>&1
mkdir -p $DST && cp $OUT/patch.diff $OUT/meta.json $DST/ 2>/dev/null; cp $OUT/*_test.go $DST/ 2>/dev/null; cp $LOG $DST/confirm.log; rm -f $LOG
cat $DST/confirm.log | tail -20
