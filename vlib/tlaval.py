"""Parser for TLA+ values and states as printed by TLC (dot dumps, simulation files, error traces).

Values map to Python: int, bool, str, list (tuple/sequence), dict (record / function), frozenset (set).
Model values / identifiers become str prefixed with '@'.
"""
import re

_tok = re.compile(r'''\s*(
    <<|>>|\|->|:>|@@|\.\.|
    [\[\]{}(),]|
    -?\d+|
    "(?:[^"\\]|\\.)*"|
    [A-Za-z_][A-Za-z0-9_!]*
)''', re.X)


class _P:
    def __init__(self, s):
        self.toks = []
        pos = 0
        s = s.strip()
        while pos < len(s):
            m = _tok.match(s, pos)
            if not m:
                raise ValueError("tla parse error at %r" % s[pos:pos + 40])
            self.toks.append(m.group(1))
            pos = m.end()
        self.i = 0

    def peek(self):
        return self.toks[self.i] if self.i < len(self.toks) else None

    def next(self):
        t = self.toks[self.i]
        self.i += 1
        return t

    def expect(self, t):
        g = self.next()
        if g != t:
            raise ValueError("expected %s got %s" % (t, g))

    def value(self):
        t = self.next()
        if t == '<<':
            out = []
            if self.peek() == '>>':
                self.next()
                return out
            while True:
                out.append(self.value())
                t2 = self.next()
                if t2 == '>>':
                    return out
                if t2 != ',':
                    raise ValueError("bad tuple")
        if t == '{':
            out = []
            if self.peek() == '}':
                self.next()
                return frozenset()
            while True:
                out.append(_freeze(self.value()))
                t2 = self.next()
                if t2 == '}':
                    return frozenset(out)
                if t2 != ',':
                    raise ValueError("bad set")
        if t == '[':
            out = {}
            while True:
                k = self.next()
                self.expect('|->')
                out[k] = self.value()
                t2 = self.next()
                if t2 == ']':
                    return out
                if t2 != ',':
                    raise ValueError("bad record")
        if t == '(':
            out = {}
            while True:
                k = self.value()
                self.expect(':>')
                out[_freeze(k)] = self.value()
                t2 = self.next()
                if t2 == ')':
                    return out
                if t2 != '@@':
                    raise ValueError("bad function")
        if t[0] == '"':
            return bytes(t[1:-1], 'utf-8').decode('unicode_escape')
        if re.fullmatch(r'-?\d+', t):
            v = int(t)
            if self.peek() == '..':
                self.next()
                hi = int(self.next())
                return frozenset(range(v, hi + 1))
            return v
        if t == 'TRUE':
            return True
        if t == 'FALSE':
            return False
        return '@' + t


def _freeze(v):
    if isinstance(v, list):
        return tuple(_freeze(x) for x in v)
    if isinstance(v, dict):
        return tuple(sorted((k, _freeze(x)) for k, x in v.items()))
    return v


def parse_value(s):
    p = _P(s)
    v = p.value()
    if p.peek() is not None:
        raise ValueError("trailing tokens in %r" % s)
    return v


def parse_state(text):
    """text: '/\\ a = v\n/\\ b = v ...' (newlines may be literal '\\n' already converted)."""
    st = {}
    # split on lines that start a conjunct
    parts = re.split(r'(?:^|\n)\s*/\\ ', text)
    for part in parts:
        part = part.strip()
        if not part:
            continue
        m = re.match(r'([A-Za-z_][A-Za-z0-9_]*)\s*=\s*(.*)$', part, re.S)
        if not m:
            raise ValueError("bad conjunct %r" % part[:80])
        st[m.group(1)] = parse_value(m.group(2))
    return st


def seq_or_fn(v, keys):
    """Return value as dict over keys whether TLC printed a tuple (domain 1..n) or a function."""
    if isinstance(v, list):
        return {k: v[i] for i, k in enumerate(keys)}
    return {k: v[k] for k in keys}


def jsonable(v):
    if isinstance(v, frozenset):
        return sorted((jsonable(x) for x in v), key=lambda x: str(x))
    if isinstance(v, (list, tuple)):
        return [jsonable(x) for x in v]
    if isinstance(v, dict):
        return {str(k): jsonable(x) for k, x in v.items()}
    return v
