"""Shared plumbing of the checks: tiers, seeds, evidence files, known findings, verdict lines."""
import json, os, re, sys, time

ROOT = os.path.dirname(os.path.dirname(os.path.abspath(__file__)))
EVID = os.path.join(ROOT, 'evidence')
KNOWN = os.path.join(ROOT, 'known-findings.txt')
REPLAYS = os.path.join(ROOT, 'replays')


def known_findings():
    """Lines 'known: property=C01 id=<slug> <what fails>' -> {(prop, slug): text}. 'fixed:' lines suppress nothing."""
    out = {}
    if os.path.exists(KNOWN):
        for line in open(KNOWN):
            m = re.match(r'known:\s+property=(\S+)\s+id=(\S+)\s+(.*)', line.strip())
            if m:
                out[(m.group(1), m.group(2))] = m.group(3)
    return out


class Check:
    def __init__(self, prop, level, tier=None, seed=None):
        self.prop = prop
        self.level = level
        self.tier = tier or os.environ.get('VERIF_TIER') or 'quick'
        if self.tier not in ('quick', 'thorough'):
            self.tier = 'quick'
        try:
            self.seed = int(seed if seed is not None else os.environ.get('VERIF_SEED', '1'))
        except ValueError:
            self.seed = 1
        self.t0 = time.time()
        self.cov = {'samples': []}
        self.assumptions = []
        self.violations = []      # (description, replay path)
        self.known_printed = []
        self.inconclusive = []
        self.notes = []

    def log(self, *a):
        print('[%s %6.1fs]' % (self.prop, time.time() - self.t0), *a, flush=True)

    def add(self, key, n):
        self.cov[key] = self.cov.get(key, 0) + n

    def sample(self, s):
        if len(self.cov['samples']) < 6:
            self.cov['samples'].append(s)

    def violation(self, desc, replay_obj, name=None):
        os.makedirs(REPLAYS, exist_ok=True)
        name = name or ('%s_%s_%d.json' % (self.prop, self.tier, len(self.violations)))
        path = os.path.join(REPLAYS, name)
        with open(path, 'w') as fh:
            json.dump(replay_obj, fh)
        self.violations.append((desc, path))
        self.log('violation:', desc)

    def known(self, slug, what):
        line = 'KNOWN-FINDING: property=%s %s: %s' % (self.prop, slug, what)
        if line not in self.known_printed:
            self.known_printed.append(line)

    def inconc(self, why):
        self.inconclusive.append(why)
        self.log('INCONCLUSIVE:', why)

    def finish(self):
        wall = time.time() - self.t0
        ev = {
            'property_id': self.prop, 'tier': self.tier, 'seed': self.seed, 'level': self.level,
            'coverage': self.cov, 'assumptions': self.assumptions, 'wall_s': round(wall, 2),
            'violations': len(self.violations),
        }
        if self.notes:
            ev['coverage']['notes'] = self.notes
        if self.known_printed:
            ev['coverage']['known_findings_reproduced'] = self.known_printed
        if self.inconclusive:
            ev['coverage']['inconclusive'] = self.inconclusive
        os.makedirs(EVID, exist_ok=True)
        # a --replay run re-executes one case: it must not replace the evidence of the last full run
        target = os.path.join(EVID, self.prop + '.json')
        if os.environ.get('VERIF_REPLAY'):
            os.makedirs(REPLAYS, exist_ok=True)
            target = os.path.join(REPLAYS, self.prop + '_replay_evidence.json')
        elif os.environ.get('VERIF_REPO') and os.path.realpath(os.environ['VERIF_REPO']) != '/repo':
            # a run against a scratch tree (seeded change under test) says nothing about /repo
            os.makedirs(REPLAYS, exist_ok=True)
            target = os.path.join(REPLAYS, self.prop + '_scratchrepo_evidence.json')
        with open(target, 'w') as fh:
            json.dump(ev, fh, indent=1, default=str)
        for line in self.known_printed:
            print(line)
        if self.violations:
            for desc, path in self.violations:
                print('VIOLATION property=%s replay=%s' % (self.prop, path))
                print('  ' + desc)
            sys.exit(1)
        if self.inconclusive:
            print('INCONCLUSIVE property=%s: %s' % (self.prop, '; '.join(self.inconclusive)))
            sys.exit(2)
        print('OK property=%s tier=%s seed=%d wall=%.1fs' % (self.prop, self.tier, self.seed, wall))
        sys.exit(0)
