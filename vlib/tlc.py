"""Run TLC (model checking, graph dump, simulation, trace validation) in a scratch directory and parse its output."""
import os, re, shutil, subprocess, tempfile, time, glob
from . import tlaval

SPECS = os.path.join(os.path.dirname(os.path.dirname(os.path.abspath(__file__))), 'specs')


class TLCResult:
    def __init__(self):
        self.ok = False            # completed with no error
        self.violation = None      # name of violated invariant/property, or 'deadlock', 'assert' ...
        self.generated = 0
        self.distinct = 0
        self.depth = 0
        self.trace = []            # list of (action_label, state dict) for a counterexample
        self.timeout = False
        self.error = None          # tool error (parse error, OOM ...) -> inconclusive
        self.out = ''
        self.wall = 0.0
        self.cmd = ''
        self.coverage_zero = []


def scratch(prefix='vtlc'):
    base = os.environ.get('VERIF_SCRATCH') or tempfile.gettempdir()
    return tempfile.mkdtemp(prefix=prefix + '-', dir=base)


def _prepare(workdir, extra_files=None):
    for f in glob.glob(os.path.join(SPECS, '*')):
        if os.path.isfile(f):
            shutil.copy(f, workdir)
    for name, content in (extra_files or {}).items():
        with open(os.path.join(workdir, name), 'w') as fh:
            fh.write(content)


_state_hdr = re.compile(r'^State (\d+): <?([^>\n]*?)(?: line \d+.*)?>?$')


def parse_error_trace(out):
    """Parse 'State n: <Action ...>' blocks of a TLC error trace."""
    trace = []
    lines = out.split('\n')
    i = 0
    while i < len(lines):
        m = re.match(r'^State (\d+): <(.*)>\s*$', lines[i])
        if m:
            label = m.group(2)
            label = re.sub(r' line \d+, col \d+ to line \d+, col \d+ of module \w+', '', label).strip()
            i += 1
            buf = []
            while i < len(lines) and lines[i].strip() != '':
                buf.append(lines[i])
                i += 1
            try:
                st = tlaval.parse_state('\n'.join(buf))
            except Exception as e:  # stuttering marker etc.
                st = {'_unparsed': '\n'.join(buf), '_err': str(e)}
            trace.append((label, st))
        else:
            i += 1
    return trace


def run(module, cfg, workers=None, timeout=600, extra_files=None, tlc_args=None, keep=False, workdir=None,
        java_opts=None, heap=None):
    """Model-check module.tla with cfg (file name in specs/ or provided through extra_files)."""
    res = TLCResult()
    own = workdir is None
    if own:
        workdir = scratch()
    _prepare(workdir, extra_files)
    md = os.path.join(workdir, 'md')
    if workers is None:
        workers = os.environ.get('VERIF_TLC_WORKERS', 'auto')
    cmd = ['tlc', '-workers', str(workers), '-metadir', md, '-noGenerateSpecTE']
    cmd += (tlc_args or [])
    cmd += ['-config', cfg, module + '.tla']
    env = dict(os.environ)
    if java_opts:
        env['JAVA_TOOL_OPTIONS'] = (env.get('JAVA_TOOL_OPTIONS', '') + ' ' + java_opts).strip()
    res.cmd = ' '.join(cmd)
    t0 = time.time()
    try:
        p = subprocess.run(['timeout', '-k', '5', str(int(timeout))] + cmd, cwd=workdir, env=env,
                           stdout=subprocess.PIPE, stderr=subprocess.STDOUT, text=True)
        out = p.stdout
        rc = p.returncode
    except Exception as e:  # pragma: no cover
        out, rc = str(e), 99
    res.wall = time.time() - t0
    res.out = out
    if rc == 124 or rc == 137:
        res.timeout = True
    m = re.findall(r'(\d+) states generated, (\d+) distinct states found', out)
    if m:
        res.generated, res.distinct = int(m[-1][0]), int(m[-1][1])
    m = re.search(r'The number of states generated: (\d+)', out)
    if m and not res.generated:
        res.generated = int(m.group(1))
    m = re.search(r'depth of the complete state graph search is (\d+)', out)
    if m:
        res.depth = int(m.group(1))
    if 'Model checking completed. No error has been found' in out or \
            (rc == 0 and 'Simulation using seed' in out) or (rc == 0 and 'Finished in' in out and 'Error:' not in out):
        res.ok = True
    m = re.search(r'Error: Invariant (\S+) is violated', out)
    if m:
        res.violation = m.group(1)
    elif 'Error: Action property' in out:
        m = re.search(r'Error: Action property (.*?) is violated', out, re.S)
        res.violation = (m.group(1).strip() if m else 'action-property')
    elif 'Temporal properties were violated' in out:
        res.violation = 'temporal'
    elif re.search(r'Error: Postcondition .* is false', out):
        res.violation = 'postcondition'
    elif 'Error: Deadlock reached' in out:
        res.violation = 'deadlock'
    elif re.search(r'Error: The (first|second) argument of Assert evaluated to FALSE|Assert.*failed|The postcondition.*violated|Error: Evaluating assumption', out):
        res.violation = 'assert'
    elif re.search(r'Error: Assumption .* is false', out):
        res.violation = 'assumption'
    elif 'Error:' in out and not res.ok:
        res.error = out[out.find('Error:'):][:2000]
    if res.violation:
        res.ok = False
        res.trace = parse_error_trace(out)
    if not res.ok and not res.violation and not res.timeout and not res.error:
        res.error = 'tlc rc=%d: %s' % (rc, out[-1500:])
    res.workdir = workdir
    if own and not keep:
        shutil.rmtree(workdir, ignore_errors=True)
        res.workdir = None
    return res


_node = re.compile(r'^(-?\d+) \[label="((?:[^"\\]|\\.)*)"')
_edge = re.compile(r'^(-?\d+) -> (-?\d+) \[label="((?:[^"\\]|\\.)*)"')


def _unesc(s):
    out = []
    i = 0
    while i < len(s):
        c = s[i]
        if c == '\\' and i + 1 < len(s):
            n = s[i + 1]
            out.append('\n' if n == 'n' else n)
            i += 2
        else:
            out.append(c)
            i += 1
    return ''.join(out)


def dump_graph(module, cfg, timeout=600, workers=None, extra_files=None, max_bytes=400 << 20):
    """Exhaustive check + state graph. Returns (TLCResult, nodes{id:statedict}, edges[(src,dst,label)], init_ids)."""
    wd = scratch()
    try:
        res = run(module, cfg, workers=workers, timeout=timeout, extra_files=extra_files,
                  tlc_args=['-dump', 'dot,actionlabels', 'graph.dot'], workdir=wd)
        nodes, edges, inits = {}, [], []
        path = os.path.join(wd, 'graph.dot')
        if os.path.exists(path) and os.path.getsize(path) <= max_bytes:
            with open(path) as fh:
                for line in fh:
                    m = _edge.match(line)
                    if m:
                        edges.append((m.group(1), m.group(2), m.group(3)))
                        continue
                    m = _node.match(line)
                    if m:
                        txt = _unesc(m.group(2))
                        nodes[m.group(1)] = txt
                        if 'style = filled' in line:
                            inits.append(m.group(1))
        return res, nodes, edges, inits
    finally:
        shutil.rmtree(wd, ignore_errors=True)


def simulate(module, cfg, num, depth, seed, timeout=300, extra_files=None):
    """Random behaviours of the spec. Returns (TLCResult, [behaviour]) with behaviour = [(label, statedict)]."""
    wd = scratch()
    try:
        pref = os.path.join(wd, 'sim')
        res = run(module, cfg, workers=1, timeout=timeout, extra_files=extra_files, workdir=wd,
                  tlc_args=['-simulate', 'file=%s,num=%d' % (pref, num), '-depth', str(depth), '-seed', str(seed)])
        behs = []
        for f in sorted(glob.glob(pref + '_*')):
            txt = open(f).read()
            beh = []
            for m in re.finditer(r'\\\* <(.*?)>\nSTATE_\d+ == \n(.*?)\n\n', txt, re.S):
                label = re.sub(r' line \d+, col \d+ to line \d+, col \d+ of module \w+', '', m.group(1)).strip()
                beh.append((label, tlaval.parse_state(m.group(2))))
            if beh:
                behs.append(beh)
        return res, behs
    finally:
        shutil.rmtree(wd, ignore_errors=True)


def cover_paths(init_ids, edges, max_paths=None, rng=None):
    """Edge cover of the state graph: a list of paths (each a list of edge indexes, starting at the initial node) such
    that every edge is on some path. One BFS tree gives the shortest prefix to every node; each path is the prefix to
    the source of a still uncovered edge followed by a greedy walk over uncovered edges."""
    from collections import defaultdict, deque
    out = defaultdict(list)
    for idx, (s, d, _l) in enumerate(edges):
        out[s].append(idx)
    start = init_ids[0]
    parent = {start: None}
    order = [start]
    dq = deque([start])
    while dq:
        n = dq.popleft()
        for e in out[n]:
            d = edges[e][1]
            if d not in parent:
                parent[d] = e
                order.append(d)
                dq.append(d)
    covered = [False] * len(edges)
    nxt_unc = {n: 0 for n in parent}   # per node: index into out[n] of the next possibly uncovered edge

    def next_uncovered(n):
        lst = out[n]
        i = nxt_unc.get(n, 0)
        while i < len(lst) and covered[lst[i]]:
            i += 1
        nxt_unc[n] = i
        return lst[i] if i < len(lst) else None

    paths = []
    # deepest nodes first: their prefixes cover many shallow edges on the way
    for n in reversed(order):
        while True:
            e = next_uncovered(n)
            if e is None:
                break
            if max_paths is not None and len(paths) >= max_paths:
                break
            prefix = []
            m = n
            while parent[m] is not None:
                prefix.append(parent[m])
                m = edges[parent[m]][0]
            prefix.reverse()
            path = prefix
            cur = n
            while True:
                e = next_uncovered(cur)
                if e is None:
                    break
                covered[e] = True
                path.append(e)
                cur = edges[e][1]
            for pe in prefix:
                covered[pe] = True
            paths.append(path)
    remaining = sum(1 for idx, c in enumerate(covered) if not c and edges[idx][0] in parent)
    return paths, remaining
