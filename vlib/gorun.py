"""Instrument the CURRENT /repo sources, inject the harness with `go test -overlay`, run a harness test."""
import json, os, shutil, subprocess, tempfile, time

ROOT = os.path.dirname(os.path.dirname(os.path.abspath(__file__)))
REPO = os.environ.get('VERIF_REPO', '/repo')
HARNESS = os.path.join(ROOT, 'harness')
INSTR_SRC = os.path.join(ROOT, 'tools', 'instr')
INSTR_BIN = os.path.join(ROOT, 'bin', 'instr')


def goenv():
    env = dict(os.environ)
    env.update({'GOFLAGS': '-mod=mod', 'GOPROXY': 'off', 'GOSUMDB': 'off', 'GOTOOLCHAIN': 'local'})
    return env


def build_instr():
    src = os.path.join(INSTR_SRC, 'main.go')
    if os.path.exists(INSTR_BIN) and os.path.getmtime(INSTR_BIN) >= os.path.getmtime(src):
        return
    os.makedirs(os.path.dirname(INSTR_BIN), exist_ok=True)
    p = subprocess.run(['go', 'build', '-o', INSTR_BIN, '.'], cwd=INSTR_SRC, env=goenv(),
                       stdout=subprocess.PIPE, stderr=subprocess.STDOUT, text=True)
    if p.returncode != 0:
        raise RuntimeError('cannot build instr: ' + p.stdout)


class GoResult:
    def __init__(self):
        self.rc = 0
        self.out = ''
        self.wall = 0.0
        self.result = None     # parsed JSON written by the harness to VS_OUT
        self.timeout = False
        self.report = []
        self.cmd = ''


def run_harness(test_regex, harness_files, instr_cfg=None, env=None, timeout=600, inputs=None, workdir=None,
                race=False, keep=False, extra_args=None):
    """harness_files: file names under /verif/harness to overlay into /repo (package shmipc).
    instr_cfg: dict for tools/instr or None. inputs: dict name->python obj written as JSON into workdir, exposed to the
    test as env VS_IN_<NAME>. The harness writes its result to $VS_OUT."""
    build_instr()
    own = workdir is None
    if own:
        base = os.environ.get('VERIF_SCRATCH') or tempfile.gettempdir()
        workdir = tempfile.mkdtemp(prefix='vgo-', dir=base)
    res = GoResult()
    try:
        replace = {}
        if instr_cfg:
            cfgp = os.path.join(workdir, 'instr_cfg.json')
            json.dump(instr_cfg, open(cfgp, 'w'))
            p = subprocess.run([INSTR_BIN, '-src', REPO, '-out', workdir, '-cfg', cfgp],
                               stdout=subprocess.PIPE, stderr=subprocess.PIPE, text=True)
            if p.returncode != 0:
                raise RuntimeError('instr failed: ' + p.stderr)
            j = json.loads(p.stdout)
            replace.update(j['replace'])
            res.report = j['report']
        for f in harness_files:
            replace[os.path.join(REPO, f)] = os.path.join(HARNESS, f)
        ov = os.path.join(workdir, 'overlay.json')
        json.dump({'Replace': replace}, open(ov, 'w'))
        e = goenv()
        e.update(env or {})
        for name, obj in (inputs or {}).items():
            pth = os.path.join(workdir, 'in_%s.json' % name)
            with open(pth, 'w') as fh:
                json.dump(obj, fh)
            e['VS_IN_' + name.upper()] = pth
        outp = os.path.join(workdir, 'out.json')
        e['VS_OUT'] = outp
        e['VS_DIR'] = workdir
        e.setdefault('SHMIPC_DEBUG_MODE', '1')
        cmd = ['go', 'test', '-overlay', ov, '-tags', 'verif', '-vet=off', '-count=1',
               '-timeout', '%ds' % int(timeout), '-run', test_regex]
        if race:
            cmd.append('-race')
        cmd += (extra_args or [])
        cmd.append('.')
        res.cmd = ' '.join(cmd)
        t0 = time.time()
        p = subprocess.run(['timeout', '-k', '5', str(int(timeout) + 60)] + cmd, cwd=REPO, env=e,
                           stdout=subprocess.PIPE, stderr=subprocess.STDOUT, text=True, errors='replace')
        res.wall = time.time() - t0
        res.rc = p.returncode
        res.out = p.stdout
        res.timeout = p.returncode in (124, 137) or 'panic: test timed out' in p.stdout
        if os.path.exists(outp):
            try:
                res.result = json.load(open(outp))
            except Exception as ex:
                res.out += '\n[cannot parse out.json: %s]' % ex
        res.workdir = workdir
        return res
    finally:
        if own and not keep:
            shutil.rmtree(workdir, ignore_errors=True)
