------------------------------- MODULE Layout -------------------------------
(* C03 - both processes derive the same memory layout from any configuration.                                        *)
(*                                                                                                                    *)
(* Shaped after buffer_manager.go  createBufferManager / createFreeBufferList / countBufferListMemSize (the creator), *)
(* mappingBufferManager / mappingFreeBufferList (the peer, which only sees the header words the creator left in the   *)
(* shared memory), the sort in getGlobalBufferManager[WithMemFd], and queue.go  createQueueManager[WithMemFd] /       *)
(* mappingQueueManager[Memfd] / createQueueFromBytes / mappingQueueFromBytes.                                         *)
(*                                                                                                                    *)
(* The arithmetic lives in operators (Create, Map, QCreate, QMap). A three-step state machine                         *)
(*     pick --PickStep--> start --CreateStep--> created --AllocStep(k)--> held --MapStep--> mapped                     *)
(*     (or failed / panicked / mapfailed). AllocStep: the creator already holds k buffers of every class when the     *)
(*     peer attaches (late attach, hot restart), so the peer reads header words with size < cap and a moved head.     *)
(* ranges over a grid of configurations (PickStep chooses one; one initial state per mapping length, so the workers  *)
(* share the enumeration - enumerating the grid as initial states is single-threaded and 5x slower), so that the      *)
(* properties are ordinary                                                                                            *)
(* invariants and every grid point has a behaviour whose predicted geometry is printed (one "@B"/"@Q" row per         *)
(* configuration) and executed on the real code by checks/layout.py + harness/zz_layout_test.go.                      *)
(*                                                                                                                    *)
(* Word width. Go computes most of this in uint32 (and one product in uint64). M = 0 means "mathematical integers":   *)
(* exact as long as nothing reaches 2^31 (TLC's limit), i.e. for mappings < 2^30 bytes and Size + 20 < 2^32.          *)
(* M > 0 means "a machine whose uint32 is Z/M and whose uint64 is Z/M^2": every place where the Go code wraps is      *)
(* wrapped (U, U64), header sizes stay 8/36/20/24/12. With M = 256 TLC reaches all wrap corners exhaustively          *)
(* (Size + 20 wrapping, percent sums wrapping, negative region capacity, cap*12 wrapping); those runs are leads for   *)
(* the real width, reproduced on the real code by lifted witnesses, not conformance-bound row by row.                 *)
(*                                                                                                                    *)
(* Named deviations from the code                                                                                     *)
(*  D1 (M = 0 only) a mapping too small for its own headers makes the Go expression                                   *)
(*     uint64(len(mem) - 36*n - 8) wrap to ~2^64; TLC cannot compute that, the spec REQUIRES an error there (no       *)
(*     valid layout exists) and the harness checks that the real code errs. With M > 0 the wrap is transcribed.       *)
(*  D2 regionCap*Percent/100 is computed as (rc div 100)*P + ((rc mod 100)*P) div 100 when M = 0 - the same value     *)
(*     without a 64-bit intermediate.                                                                                 *)
(*  D3 the creator keeps its in-use counter at list-header offset 20, the peer at offset 24 (createFreeBufferList vs  *)
(*     mappingFreeBufferList). Not a class, capacity or slot offset; recorded as CounterOffCreator/CounterOffMapper   *)
(*     and compared structurally by the harness.                                                                      *)
(*  D4 listNum is a uint16 in the code; lists of >= 65536 pairs are not modelled. The empty list is excluded          *)
(*     (VerifyConfig rejects it; createBufferManager would index pairs[0]).                                           *)
(*  D5 only offset 0 of createBufferManager/mappingBufferManager is modelled (the only value the library passes).     *)
EXTENDS Integers, Sequences, FiniteSets, TLC

CONSTANTS
    MemLens,              \* mapping lengths of the grid
    Sizes, Percents,      \* lists of 1 pair are drawn from (Sizes \cup {memLen, memLen+1}) \X Percents
    Sizes2, Percents2,    \* lists of 2 pairs are drawn from (Sizes2 \cup {memLen, memLen+1}) \X Percents2
    Sizes3, Percents3,    \* lists of 3 pairs are drawn from Sizes3 \X Percents3
    Globals,              \* TRUE: unsorted lists with distinct sizes are also laid out through the sorting entry point
    Extra,                \* explicit configurations <<memLen, <<<<size, pct>>, ...>>, viaGlobal>> (random realistic ones)
    QueueCaps,            \* queue capacities
    Arms,                 \* subset of BOOLEAN: header variants (isArmArch) to check
    Helds,                \* how many buffers of every class the creator holds when the peer maps: k >= 0 means
                          \* min(k, cap-1), -1 means cap-1 (everything that can be allocated)
    SmallCap,             \* lists with at most this many slots get slot-by-slot quantification
    M,                    \* word modulus, 0 = mathematical integers
    Emit                  \* print one prediction row per configuration

BMH == 8      \* bufferManagerHeaderSize
LH  == 36     \* bufferListHeaderSize
SH  == 20     \* bufferHeaderSize
QH  == 24     \* queueHeaderLength
QE  == 12     \* queueElementLen
CounterOffCreator == 20
CounterOffMapper  == 24

U(x)   == IF M = 0 THEN x ELSE x % M
U64(x) == IF M = 0 THEN x ELSE x % (M * M)
Fits(x) == M = 0 \/ x < M

-----------------------------------------------------------------------------
\* configurations
Lists1(PP) == {<<p>> : p \in PP}
Lists2(PP) == {<<p, q>> : p \in PP, q \in PP}
Lists3(PP)  == {<<p, q, r>> : p \in PP, q \in PP, r \in PP}
SizesFor(S, m) == {s \in S \cup {m, m + 1} : Fits(s)}
GridLists(m) == Lists1(SizesFor(Sizes, m) \X Percents) \cup Lists2(SizesFor(Sizes2, m) \X Percents2)
                    \cup Lists3(Sizes3 \X Percents3)
DistinctSizes(ps) == \A i, j \in 1..Len(ps) : i # j => ps[i][1] # ps[j][1]
Ascending(ps) == \A i \in 1..(Len(ps) - 1) : ps[i][1] < ps[i + 1][1]
GridCfgs(m) ==
    {[mem |-> m, pairs |-> ps, global |-> FALSE] : ps \in GridLists(m)}
    \cup (IF Globals
          THEN {[mem |-> m, pairs |-> ps, global |-> TRUE] :
                   ps \in {q \in GridLists(m) : Len(q) >= 2 /\ DistinctSizes(q) /\ ~Ascending(q)}}
          ELSE {})
ExtraCfgs == {[mem |-> Extra[i][1], pairs |-> Extra[i][2], global |-> Extra[i][3]] : i \in 1..Len(Extra)}
QueueCfgs == {[cap |-> c, arm |-> a] : c \in QueueCaps, a \in Arms}

\* sort.Sort(sizePercentPairs(pairs)) - deterministic for distinct sizes, which is all the grid sends through it
SortPairs(ps) ==
    LET n == Len(ps)
        rank(i) == Cardinality({j \in 1..n : ps[j][1] < ps[i][1]}) + 1
    IN [k \in 1..n |-> ps[CHOOSE i \in 1..n : rank(i) = k]]
EffPairs(c) == IF c.global /\ DistinctSizes(c.pairs) THEN SortPairs(c.pairs) ELSE c.pairs

-----------------------------------------------------------------------------
\* the creator: createBufferManager
None       == [ok |-> FALSE, panic |-> FALSE, why |-> "none", lists |-> <<>>, used |-> 0]
Err(w)     == [ok |-> FALSE, panic |-> FALSE, why |-> w, lists |-> <<>>, used |-> 0]
Panic(w)   == [ok |-> FALSE, panic |-> TRUE, why |-> w, lists |-> <<>>, used |-> 0]
Ok(ls, u)  == [ok |-> TRUE, panic |-> FALSE, why |-> "", lists |-> ls, used |-> u]

\* uint32(bufferRegionCap*uint64(pair.Percent)/100)
Share(rc, p) == IF M = 0 THEN (rc \div 100) * p + ((rc % 100) * p) \div 100      \* D2
                         ELSE U(U64(rc * p) \div 100)
\* countBufferListMemSize(bufferNum, capPerBuffer) = 36 + bufferNum*(capPerBuffer+20), all uint32
ListMem(num, stride) == U(LH + U(num * stride))
\* the header-initialisation loop of createFreeBufferList indexes bufferRegion[current+16] (flag byte, bounds-checked)
\* for every slot, current accumulating in uint32; impossible without a wrap, so only evaluated when M > 0
InitLoopPanics(num, stride, regionLen) ==
    M # 0 /\ \E k \in 0..(num - 1) : U(k * stride) + 16 >= regionLen

RECURSIVE CreateFrom(_, _, _, _, _, _, _)
CreateFrom(memLen, rc, pairs, i, used, sumPct, acc) ==
    IF i > Len(pairs) THEN Ok(acc, used)
    ELSE LET size   == pairs[i][1]
             sp     == U(sumPct + pairs[i][2])                    \* sumPercent += pair.Percent
             stride == U(size + SH)                               \* pair.Size + bufferHeaderSize
         IN IF sp > 100 THEN Err("percent")
            ELSE IF stride = 0 THEN Panic("integer divide by zero")
            ELSE LET num  == Share(rc, pairs[i][2]) \div stride   \* bufferNum
                     need == ListMem(num, stride)                 \* needSize == atLeastSize
                 IN IF num = 0 \/ size = 0 THEN Err("zero")
                    \* len(mem) < int(offsetInMem+atLeastSize) || offsetInMem > len(mem) || atLeastSize > len(mem)
                    ELSE IF memLen < U(used + need) \/ used > memLen \/ need > memLen THEN Err("room")
                    \* bufferRegionEnd <= bufferRegionStart
                    ELSE IF U(used + need) <= U(used + LH) THEN Err("range")
                    ELSE IF InitLoopPanics(num, stride, need - LH) THEN Panic("index out of range")
                    ELSE CreateFrom(memLen, rc, pairs, i + 1, U(used + need), sp,
                                    Append(acc, [off |-> used, cap |-> num, capPer |-> size, stride |-> stride]))

Create(memLen, pairs) ==
    IF memLen <= 0 THEN Err("nomem")                              \* len(mem) <= int(offset)
    ELSE LET raw == memLen - LH * Len(pairs) - BMH
         IN IF M = 0 /\ raw < 0 THEN Err("headers")               \* D1
            ELSE CreateFrom(memLen, U64(raw), pairs, 1, BMH, 0, <<>>)

\* what the creator leaves in the shared memory for the peer: word offset -> value
\* manager header: listNum at 0, used length at 4; list header at off: size, cap, head, tail, capPerBuffer
\* k: buffers held by the creator (late attach / hot restart: the peer maps a memory that is already in use). A pop
\* of a fresh list takes the head slot, so after h pops size = cap - h and head = h * stride; the last slot is never
\* handed out (pop refuses when size would drop to 0), so h <= cap - 1.
HeldEff(l, k) == IF k < 0 \/ k > l.cap - 1 THEN l.cap - 1 ELSE k
HdrWords(r, k) ==
    LET n == Len(r.lists)
        dom == {0, 4} \cup UNION {{r.lists[i].off + w : w \in {0, 4, 8, 12, 16}} : i \in 1..n}
        val(o) == IF o = 0 THEN n
                  ELSE IF o = 4 THEN U(r.used - BMH)
                  ELSE LET i == CHOOSE j \in 1..n : o - r.lists[j].off \in {0, 4, 8, 12, 16}
                           l == r.lists[i]
                           w == o - l.off
                       IN CASE w = 0  -> l.cap - HeldEff(l, k)
                            [] w = 4  -> l.cap
                            [] w = 8  -> U(HeldEff(l, k) * l.stride)
                            [] w = 12 -> U((l.cap - 1) * l.stride)
                            [] w = 16 -> l.capPer
    IN [o \in dom |-> val(o)]
Rd(w, o) == IF o \in DOMAIN w THEN w[o] ELSE 0                    \* a fresh mapping is zero-filled

\* the peer: mappingBufferManager / mappingFreeBufferList
RECURSIVE MapFrom(_, _, _, _, _, _)
MapFrom(w, memLen, i, n, off, acc) ==
    IF i > n THEN Ok(acc, off)
    ELSE IF memLen < LH + off THEN Err("listheader")
    ELSE LET cap    == Rd(w, off + 4)
             capPer == Rd(w, off + 16)
             stride == U(capPer + SH)
             need   == ListMem(cap, stride)
         IN IF U(off + need) > memLen \/ U(off + need) < U(off + LH) THEN Err("listroom")
            ELSE MapFrom(w, memLen, i + 1, n, U(off + need),
                         Append(acc, [off |-> off, cap |-> cap, capPer |-> capPer, stride |-> stride]))
Map(w, memLen) ==
    IF memLen <= 4 THEN Err("short")
    ELSE LET n == Rd(w, 0)
             length == Rd(w, 4)
         IN IF memLen < BMH + length \/ n = 0 THEN Err("length")
            ELSE MapFrom(w, memLen, 1, n, BMH, <<>>)

-----------------------------------------------------------------------------
\* the IO queues
QHalf(cap) == QH + QE * cap                                       \* countQueueMemSize (int arithmetic)
QRingEnd(capWord) == U(QH + U(capWord * QE))                      \* queueHeaderLength + cap*queueElementLen (uint32)
QView(base, capWord, arm) ==
    [base |-> base, cap |-> capWord,
     head |-> base + (IF arm THEN 8 ELSE 4), tail |-> base + (IF arm THEN 16 ELSE 12),
     flag |-> base + (IF arm THEN 4 ELSE 20),
     ring |-> base + QH, ringEnd |-> base + QRingEnd(capWord)]
QNone == [ok |-> FALSE, panic |-> FALSE, total |-> 0, send |-> QView(0, 0, FALSE), recv |-> QView(0, 0, FALSE)]
\* createQueueManager: sendQueue = first half, recvQueue = second half, cap written into both
QCreate(cap, arm) ==
    LET total == 2 * QHalf(cap)
    IN IF QRingEnd(cap) < QH THEN [QNone EXCEPT !.panic = TRUE]   \* data[24:end] with end < 24
       ELSE [ok |-> TRUE, panic |-> FALSE, total |-> total,
             send |-> QView(0, cap, arm), recv |-> QView(total \div 2, cap, arm)]
QWords(cap) == (0 :> cap) @@ (QHalf(cap) :> cap)
\* mappingQueueManager: sendQueue = SECOND half, recvQueue = first half, cap read from the memory
QMap(w, total, arm) ==
    LET h == total \div 2
    IN IF QRingEnd(Rd(w, h)) < QH \/ QRingEnd(Rd(w, 0)) < QH THEN [QNone EXCEPT !.panic = TRUE]
       ELSE [ok |-> TRUE, panic |-> FALSE, total |-> total,
             send |-> QView(h, Rd(w, h), arm), recv |-> QView(0, Rd(w, 0), arm)]

-----------------------------------------------------------------------------
VARIABLES kind, cfg, phase, words, A, B, held
vars == <<kind, cfg, phase, words, A, B, held>>

RECURSIVE FlatPairs(_, _)
FlatPairs(ps, i) == IF i > Len(ps) THEN <<>> ELSE <<ps[i][1], ps[i][2]>> \o FlatPairs(ps, i + 1)
RECURSIVE FlatLists(_, _, _)
FlatLists(ls, w, i) == IF i > Len(ls) THEN <<>>
                      ELSE <<ls[i].off, ls[i].cap, ls[i].capPer, Rd(w, ls[i].off), Rd(w, ls[i].off + 8)>> \o FlatLists(ls, w, i + 1)
B01(b) == IF b THEN 1 ELSE 0
\* @B <<viaGlobal, held, memLen, nPairs, (size, pct)*, creatorOk, peerOk (2 = not attempted), nLists,
\*      (off, cap, capPer, size word, head word when the peer maps)*, used>>
BufRow(c, k, w, a, bOk) ==
    <<B01(c.global), k, c.mem, Len(c.pairs)>> \o FlatPairs(c.pairs, 1) \o <<B01(a.ok), bOk, Len(a.lists)>>
        \o FlatLists(a.lists, w, 1) \o <<a.used>>
\* @Q <<cap, arm, total, A.send.base, A.recv.base, B.send.base, B.recv.base, head, tail, flag, ring (relative), ring bytes>>
QRow(c, a, b) ==
    <<c.cap, B01(c.arm), a.total, a.send.base, a.recv.base, b.send.base, b.recv.base,
      a.send.head - a.send.base, a.send.tail - a.send.base, a.send.flag - a.send.base,
      a.send.ring - a.send.base, a.send.ringEnd - a.send.ring>>
Say(tag, row) == Emit => PrintT(tag \o " " \o ToString(row))

Init ==
    /\ phase = "pick" /\ words = <<>> /\ held = 0
    /\ \/ kind = "buf" /\ cfg \in {[mem |-> m] : m \in MemLens \cup {-1}} /\ A = None /\ B = None
       \/ kind = "queue" /\ cfg = [mem |-> -2] /\ A = QNone /\ B = QNone
PickStep ==
    /\ phase = "pick" /\ phase' = "start"
    /\ cfg' \in (IF kind = "queue" THEN QueueCfgs ELSE IF cfg.mem = -1 THEN ExtraCfgs ELSE GridCfgs(cfg.mem))
    /\ UNCHANGED <<kind, words, A, B, held>>

CreateStep ==
    /\ kind = "buf" /\ phase = "start"
    /\ LET r == Create(cfg.mem, EffPairs(cfg))
       IN /\ A' = r
          /\ IF r.ok THEN phase' = "created" /\ words' = HdrWords(r, 0)
                     ELSE /\ phase' = (IF r.panic THEN "panicked" ELSE "failed") /\ words' = words
                          /\ Say("@B", BufRow(cfg, 0, words, r, 2))
    /\ UNCHANGED <<kind, cfg, B, held>>
\* the creator allocates k buffers of every class (real pops) before the peer attaches
AllocStep(k) ==
    /\ kind = "buf" /\ phase = "created"
    /\ phase' = "held" /\ held' = k /\ words' = HdrWords(A, k)
    /\ UNCHANGED <<kind, cfg, A, B>>
MapStep ==
    /\ kind = "buf" /\ phase = "held"
    /\ LET r == Map(words, cfg.mem)
       IN /\ B' = r
          /\ phase' = (IF r.ok THEN "mapped" ELSE "mapfailed")
          /\ Say("@B", BufRow(cfg, held, words, A, B01(r.ok)))
    /\ UNCHANGED <<kind, cfg, words, A, held>>
QCreateStep ==
    /\ kind = "queue" /\ phase = "start"
    /\ LET r == QCreate(cfg.cap, cfg.arm)
       IN /\ A' = r
          /\ IF r.ok THEN phase' = "created" /\ words' = QWords(cfg.cap)
                     ELSE phase' = "panicked" /\ words' = words
    /\ UNCHANGED <<kind, cfg, B, held>>
QMapStep ==
    /\ kind = "queue" /\ phase = "created"
    /\ LET r == QMap(words, A.total, cfg.arm)
       IN /\ B' = r
          /\ phase' = (IF r.ok THEN "mapped" ELSE "panicked")
          /\ (r.ok => Say("@Q", QRow(cfg, A, r)))
    /\ UNCHANGED <<kind, cfg, words, A, held>>
Next == PickStep \/ CreateStep \/ (\E k \in Helds : AllocStep(k)) \/ MapStep \/ QCreateStep \/ QMapStep
Spec == Init /\ [][Next]_vars

-----------------------------------------------------------------------------
\* C03, buffer part
ListEnd(l) == l.off + LH + l.cap * l.stride
SlotStart(l, k) == l.off + LH + U(k * l.stride)
SlotEnd(l, k) == SlotStart(l, k) + SH + l.capPer
Meet(a1, a2, b1, b2) == a1 < b2 /\ b1 < a2                        \* half-open intervals intersect

\* closed form, any size: lists in order, inside the mapping, behind the manager header, stride covers a slot
GeomOK(memLen, r) ==
    /\ \A i \in DOMAIN r.lists :
         LET l == r.lists[i]
         IN /\ l.cap >= 1 /\ l.capPer >= 1
            /\ l.off >= BMH
            /\ ListEnd(l) <= memLen
            /\ l.stride >= SH + l.capPer
            /\ \A j \in DOMAIN r.lists : i < j => ListEnd(l) <= r.lists[j].off
    /\ r.used <= memLen
    /\ Len(r.lists) > 0 => r.used = ListEnd(r.lists[Len(r.lists)])
\* slot by slot (the property as stated), for lists small enough to enumerate
SlotsOf(r) == {<<i, k>> \in (DOMAIN r.lists) \X (0..SmallCap) : r.lists[i].cap <= SmallCap /\ k < r.lists[i].cap}
SlotsOK(memLen, r) ==
    LET S == SlotsOf(r)
        \* <<class, index, start, end>> of every enumerated slot, computed once
        Ext == {<<s[1], s[2], SlotStart(r.lists[s[1]], s[2]), SlotEnd(r.lists[s[1]], s[2])>> : s \in S}
    IN \A x \in Ext :
        /\ x[3] >= r.lists[x[1]].off + LH                             \* behind its list header
        /\ x[4] <= memLen                                             \* inside the mapping
        /\ ~Meet(x[3], x[4], 0, BMH)                                  \* not on the manager header
        /\ \A j \in DOMAIN r.lists : ~Meet(x[3], x[4], r.lists[j].off, r.lists[j].off + LH)   \* nor on any list header
        /\ \A y \in Ext : (x[1] # y[1] \/ x[2] # y[2]) => ~Meet(x[3], x[4], y[3], y[4])       \* pairwise disjoint
ClassesAsConfigured(c, r) ==
    LET ps == EffPairs(c)
    IN Len(r.lists) = Len(ps) /\ \A i \in DOMAIN r.lists : r.lists[i].capPer = ps[i][1]

NoPanic == phase # "panicked"
PeerMaps == phase # "mapfailed"
LayoutSound ==
    (kind = "buf" /\ phase \in {"created", "held", "mapped"}) =>
        /\ GeomOK(cfg.mem, A) /\ SlotsOK(cfg.mem, A) /\ ClassesAsConfigured(cfg, A)
PeerSame ==
    (kind = "buf" /\ phase = "mapped") =>
        /\ B.lists = A.lists /\ B.used = A.used
        /\ GeomOK(cfg.mem, B) /\ SlotsOK(cfg.mem, B)
\* the words the peer reads while buffers are held: the free count is below the capacity, never below 1, head on a slot
HeldWords ==
    (kind = "buf" /\ phase \in {"held", "mapped"}) =>
        \A i \in DOMAIN A.lists :
            LET l == A.lists[i] IN
            /\ Rd(words, l.off) = l.cap - HeldEff(l, held) /\ Rd(words, l.off) >= 1 /\ Rd(words, l.off + 4) = l.cap
            /\ Rd(words, l.off + 8) = U(HeldEff(l, held) * l.stride)
SortedThroughGlobal ==
    (kind = "buf" /\ phase \in {"created", "held", "mapped"} /\ cfg.global) =>
        \A i \in 1..(Len(A.lists) - 1) : A.lists[i].capPer < A.lists[i + 1].capPer

\* C03, queue part
QFields(v) == {<<v.base, v.base + 4>>, <<v.head, v.head + 8>>, <<v.tail, v.tail + 8>>, <<v.flag, v.flag + 4>>}
QViewOK(v, half, cap) ==
    /\ \A f \in QFields(v) : f[1] >= v.base /\ f[2] <= v.base + QH          \* header fields inside the header
    /\ \A f, g \in QFields(v) : f # g => ~Meet(f[1], f[2], g[1], g[2])      \* and pairwise disjoint
    /\ v.cap = cap
    /\ v.ring = v.base + QH /\ v.ringEnd - v.ring = QE * cap                \* room for exactly cap elements
    /\ v.ringEnd <= v.base + half                                            \* inside its half
QueueSound ==
    (kind = "queue" /\ phase \in {"created", "mapped"}) =>
        LET half == A.total \div 2
        IN /\ QViewOK(A.send, half, cfg.cap) /\ QViewOK(A.recv, half, cfg.cap)
           /\ A.send.base = 0 /\ A.recv.base = half /\ A.total = 2 * half
CrossWired ==
    (kind = "queue" /\ phase = "mapped") =>
        /\ A.send = B.recv /\ A.recv = B.send
        /\ A.send.base # A.recv.base
ArmAligned ==
    (kind = "queue" /\ phase = "mapped" /\ cfg.arm /\ cfg.cap % 8 = 0) =>
        \A v \in {A.send, A.recv, B.send, B.recv} : v.head % 8 = 0 /\ v.tail % 8 = 0

\* classifiers of the recorded findings (state constraints for the reduced-width runs)
NoSizeWrap == (kind = "buf" /\ phase # "pick") => \A i \in DOMAIN cfg.pairs : cfg.pairs[i][1] + SH < M
NoQueueWrap == (kind = "queue" /\ phase # "pick") => QH + cfg.cap * QE < M
RECURSIVE SumPct(_, _)
SumPct(ps, i) == IF i > Len(ps) THEN 0 ELSE ps[i][2] + SumPct(ps, i + 1)
NoPercentWrap == (kind = "buf" /\ phase # "pick") => SumPct(cfg.pairs, 1) < M
=============================================================================
