----------------------------- MODULE EventCodec -----------------------------
(* C13: whatever bytes arrive on the control connection, in whatever cuts, the receiving side either performs the     *)
(* effect of a well-formed event or ends exactly this session with an error.                                          *)
(*                                                                                                                    *)
(* A BYTE-LEVEL reference model of the receive side of one session, shaped like the code:                             *)
(*   connEventHandler.onReadReady / commitRead  -> the window `win` (bytes read from the socket, not yet consumed)     *)
(*   Session.onEventData / handleEvents         -> Run: parse events off the front of the window until stop / error   *)
(*   checkEventValid + the handler table        -> HeaderValid, HasHandler                                            *)
(*   handlePolling / handleStreamClose / handleFallbackData / handleHotRestart / handleHotRestartAck -> RunStep       *)
(*   serverGetProtocolInitializer, protocolInitializerV2/V3.serverInit, handleShareMemoryByFilePath/ByMemFd,          *)
(*   extractShmMetadata (blocking reads of exact sizes)                        -> phases hs1, hs2, meta, metafd, fdw  *)
(*   clientGetProtocolInitializer, V3.clientInit, sendMemFdToPeer (headers only) -> phases c_ver, c_rdy, c_ack        *)
(*   (a client configured with MemMapTypeDevShmFile reads nothing during the handshake: only memfd clients are here)   *)
(* One action: Deliver(n) = the kernel hands the next n bytes of the stream to one read; then the receive side runs.  *)
(* TLC explores every case of the catalogue `Cases` and EVERY way of cutting its byte string into reads.              *)
(*                                                                                                                    *)
(* The spec states the REQUIRED behaviour. For four input classes the originally pinned code lacked a validation and    *)
(* panicked (repaired in /repo by "fix: malformed or misdirected control events crash the process"); the spec requires  *)
(* "session ends with an error" for them and records the class in the ghost `hit`, so that the check can tell a listed  *)
(* known finding from a new violation should one of them ever be listed in known-findings.txt instead of repaired:      *)
(*   fallback-short-length        FallbackData event whose Length field is < 16 (header + seqID + status)             *)
(*   hotrestart-no-manager        HotRestart event on a session that has no SessionManager                             *)
(*   hotrestartack-no-listener    HotRestartAck event on a session that has no Listener                                *)
(*   handshake-metadata-unchecked share-memory metadata event whose Length < 12 or whose path lengths exceed the body *)
(*                                                                                                                    *)
(* Named deviations / abstractions:                                                                                   *)
(*  - Length fields >= 2^24 are represented by Huge (TLC integers are 32 bit); sound while a case has < 2^24 bytes.    *)
(*  - stream ids and epochs are kept as byte tuples (no arithmetic is done on them by the code either).               *)
(*  - the read buffer is unbounded (maybeExpandReadBuffer, the 1 MiB onData threshold and the shrink in commitRead    *)
(*    belong to C18); the window is only its unconsumed part.                                                         *)
(*  - mapping the share memory named in the metadata succeeds iff both paths are the ones the environment created     *)
(*    (GoodQ/GoodB of the case), otherwise it fails with an error; files with foreign content are not modelled.       *)
(*  - memfd handshake: the scripted peer never passes descriptors, so the fd wait ends with an error after one byte.   *)
(*  - after the session has ended nothing more is delivered (the event loop unregisters the descriptor).              *)
EXTENDS Integers, Sequences, FiniteSets, TLC

CONSTANTS Cases    \* sequence of case records (generated, see MC wrapper):
                   \* [bytes, role ("server"|"client"), phase0, lst (has Listener), mgr (has SessionManager),
                   \*  epoch (listener epoch, 8 bytes), known (set of existing stream ids), queue (recv queue content:
                   \*  seq of [id, st, data]), goodq, goodb (byte strings of the paths that exist), stoprun (stop parsing
                   \*  when the handshake is over)]

VARIABLES c,       \* case index
          cs,      \* the case record Cases[c] (never changes; a variable so that TLC evaluates the catalogue once)
          pos,     \* bytes delivered so far
          win,     \* unconsumed window
          ss       \* session state (record, see InitSess)
vars == <<c, cs, pos, win, ss>>

Huge == 16777216
Len32(w) == IF w[1] > 0 THEN Huge ELSE w[2] * 65536 + w[3] * 256 + w[4]
U16(w, i) == w[i] * 256 + w[i + 1]
MagicOk(w) == w[5] = 119 /\ w[6] = 88            \* 0x7758
Ver(w) == w[7]
Typ(w) == w[8]
HeaderValid(w) == MagicOk(w) /\ Ver(w) # 0 /\ Typ(w) <= 9        \* checkEventValid
HasHandler(t) == t \in {1, 2, 3, 8, 9}                             \* non-nil entries of protocolHandlers
Drop(w, n) == SubSeq(w, n + 1, Len(w))
Take(w, a, b) == SubSeq(w, a, b)
Min(a, b) == IF a < b THEN a ELSE b

InitSess(K) ==
  [phase |-> K.phase0, closed |-> FALSE, err |-> "none", hit |-> "none",
   strm |-> [id \in K.known |-> [st |-> "open", data |-> <<>>, chunks |-> 0]],
   acc |-> <<>>, poll |-> 0, fb |-> 0, ack |-> 0, hrdone |-> FALSE, posted |-> <<>>,
   queue |-> K.queue, recycled |-> 0,
   blen |-> 0, ver |-> 0, sent |-> <<>>, hsdone |-> FALSE]

Fail(S, e) == [S EXCEPT !.closed = TRUE, !.err = e]
KnownClass(S, slug) == [Fail(S, "required-error") EXCEPT !.hit = slug]

-----------------------------------------------------------------------------
\* stream table (Session.getStream, handleStreamMessage, Stream.halfClose, fillDataToReadBuffer)
HalfClose(S, id) == IF S.strm[id].st = "open" THEN [S EXCEPT !.strm[id].st = "half"] ELSE S

Message(S, role, id, st, data, fromQueue) ==
  IF id \in DOMAIN S.strm
    THEN IF st = 1 THEN HalfClose(S, id)
         ELSE [S EXCEPT !.strm[id].data = @ \o data, !.strm[id].chunks = @ + 1]
    ELSE IF role = "server" /\ st = 0
      THEN [S EXCEPT !.strm = @ @@ (id :> [st |-> "open", data |-> data, chunks |-> 1]), !.acc = Append(@, id)]
      ELSE IF fromQueue /\ st = 0 THEN [S EXCEPT !.recycled = @ + 1]    \* client: unknown stream, buffer recycled
      ELSE S

RECURSIVE Drain(_, _, _)
Drain(S, role, q) == IF q = <<>> THEN [S EXCEPT !.queue = <<>>]
                     ELSE Drain(Message(S, role, q[1].id, q[1].st, q[1].data, TRUE), role, Tail(q))

-----------------------------------------------------------------------------
\* how many bytes the next parsing step needs in the window (it does nothing with fewer)
Need(S, w) ==
  CASE S.phase \in {"hs1", "hs2", "c_ver", "c_rdy", "c_ack"} -> 8
    [] S.phase \in {"meta", "metafd"} -> S.blen
    [] S.phase = "fdw" -> 1
    [] OTHER ->                      \* "run"
       IF Len(w) < 8 THEN 8
       ELSE IF ~(HeaderValid(w) /\ HasHandler(Typ(w))) THEN 8
       ELSE CASE Typ(w) = 1 -> 8
              [] Typ(w) = 2 -> 12
              [] Typ(w) = 3 -> IF Len32(w) < 16 THEN 8 ELSE Len32(w)
              [] OTHER -> 16

\* one event of the established session (Session.handleEvents, one iteration)
RunStep(S, w, K) ==
  LET role == K.role IN
  IF ~(HeaderValid(w) /\ HasHandler(Typ(w))) THEN <<Fail(S, "invalid-msg-type"), Drop(w, 8)>>
  ELSE CASE Typ(w) = 1 -> <<Drain([S EXCEPT !.poll = @ + 1], role, S.queue), Drop(w, 8)>>
         [] Typ(w) = 2 ->
              LET id == Take(w, 9, 12) IN
              <<IF id \in DOMAIN S.strm THEN HalfClose(S, id) ELSE S, Drop(w, 12)>>
         [] Typ(w) = 3 ->
              LET L == Len32(w) IN
              IF L < 16 THEN <<KnownClass(S, "fallback-short-length"), w>>
              ELSE <<Message([S EXCEPT !.fb = @ + 1], role, Take(w, 9, 12), w[16], Take(w, 17, L), FALSE), Drop(w, L)>>
         [] Typ(w) = 8 ->
              IF ~K.mgr THEN <<KnownClass(S, "hotrestart-no-manager"), w>>
              ELSE <<[S EXCEPT !.posted = Append(@, Take(w, 9, 16))], Drop(w, 16)>>
         [] OTHER ->
              IF ~K.lst THEN <<KnownClass(S, "hotrestartack-no-listener"), w>>
              ELSE <<IF Take(w, 9, 16) = K.epoch THEN [S EXCEPT !.ack = @ + 1, !.hrdone = TRUE] ELSE S,
                     Drop(w, 16)>>

\* share-memory metadata body (extractShmMetadata + mapping)
MetaOk(b) == /\ Len(b) >= 2
             /\ Len(b) >= 2 + U16(b, 1) + 2
             /\ Len(b) >= 4 + U16(b, 1) + U16(b, 3 + U16(b, 1))
MetaQ(b) == Take(b, 3, 2 + U16(b, 1))
MetaB(b) == Take(b, 5 + U16(b, 1), 4 + U16(b, 1) + U16(b, 3 + U16(b, 1)))

\* header of a metadata event has just been read in phase hs1/hs2: decide the body length. A metadata event carries at
\* least two 2-byte path lengths, so Length < 12 cannot be well-formed and is rejected on the header (the pinned code
\* computes Length-8 in uint32 and, for 8..11, slices the short body out of bounds)
ToMeta(S, w, ph) == IF Len32(w) < 12 THEN KnownClass(S, "handshake-metadata-unchecked")
                    ELSE [S EXCEPT !.phase = ph, !.blen = Len32(w) - 8]

HsStep(S, w, K) ==
  CASE S.phase = "hs1" ->        \* serverGetProtocolInitializer + Init: first header
         IF ~HeaderValid(w) THEN <<Fail(S, "hs-error"), Drop(w, 8)>>
         ELSE IF Ver(w) = 2 THEN
                IF Typ(w) # 0 THEN <<Fail(S, "hs-error"), Drop(w, 8)>>
                ELSE <<ToMeta([S EXCEPT !.ver = 2], w, "meta"), Drop(w, 8)>>
         ELSE IF Ver(w) = 3 THEN
                IF Typ(w) # 4 THEN <<Fail(S, "hs-error"), Drop(w, 8)>>
                ELSE <<[S EXCEPT !.ver = 3, !.phase = "hs2", !.sent = Append(@, 4)], Drop(w, 8)>>
         ELSE <<Fail(S, "hs-error"), Drop(w, 8)>>
    [] S.phase = "hs2" ->        \* V3 serverInit: the share-memory event
         IF ~HeaderValid(w) THEN <<Fail(S, "hs-error"), Drop(w, 8)>>
         ELSE IF Typ(w) = 0 THEN <<ToMeta(S, w, "meta"), Drop(w, 8)>>
         ELSE IF Typ(w) = 5 THEN <<ToMeta(S, w, "metafd"), Drop(w, 8)>>
         ELSE <<Fail(S, "hs-error"), Drop(w, 8)>>
    [] S.phase = "meta" ->       \* handleShareMemoryByFilePath
         LET b == Take(w, 1, S.blen) IN
         IF ~MetaOk(b) THEN <<KnownClass(S, "handshake-metadata-unchecked"), Drop(w, S.blen)>>
         ELSE IF MetaQ(b) = K.goodq /\ MetaB(b) = K.goodb
           THEN <<[S EXCEPT !.phase = "run", !.hsdone = TRUE,
                            !.sent = IF S.ver = 3 THEN Append(@, 6) ELSE @], Drop(w, S.blen)>>
           ELSE <<Fail(S, "hs-error"), Drop(w, S.blen)>>
    [] S.phase = "metafd" ->     \* handleShareMemoryByMemFd: body, ack, then wait for descriptors
         LET b == Take(w, 1, S.blen) IN
         IF ~MetaOk(b) THEN <<KnownClass(S, "handshake-metadata-unchecked"), Drop(w, S.blen)>>
         ELSE <<[S EXCEPT !.phase = "fdw", !.sent = Append(@, 7)], Drop(w, S.blen)>>
    [] S.phase = "fdw" ->        \* recvmsg returns one ordinary byte without descriptors
         <<Fail(S, "hs-error"), Drop(w, 1)>>
    [] S.phase = "c_ver" ->      \* clientGetProtocolInitializer: the server's version
         IF ~HeaderValid(w) \/ Typ(w) # 4 THEN <<Fail(S, "hs-error"), Drop(w, 8)>>
         ELSE LET v == Min(3, Ver(w)) IN     \* only version 3 can pass descriptors: a lower negotiated version is an error
              IF v = 3 THEN <<[S EXCEPT !.ver = 3, !.phase = "c_rdy", !.sent = Append(@, 5)], Drop(w, 8)>>
              ELSE <<Fail(S, "hs-error"), Drop(w, 8)>>
    [] S.phase = "c_rdy" ->      \* sendMemFdToPeer: AckReadyRecvFD
         IF ~HeaderValid(w) \/ Typ(w) # 7 THEN <<Fail(S, "hs-error"), Drop(w, 8)>>
         ELSE <<[S EXCEPT !.phase = "c_ack", !.sent = Append(@, 99)], Drop(w, 8)>>     \* 99: the descriptors
    [] OTHER ->                  \* c_ack: AckShareMemory
         IF ~HeaderValid(w) \/ Typ(w) # 6 THEN <<Fail(S, "hs-error"), Drop(w, 8)>>
         ELSE <<[S EXCEPT !.phase = "run", !.hsdone = TRUE], Drop(w, 8)>>

Step(S, w, K) == IF S.phase = "run" THEN RunStep(S, w, K) ELSE HsStep(S, w, K)

\* the receive side runs until it needs more bytes, the session has ended, or (stoprun) the handshake is over
RECURSIVE Run(_, _, _)
Run(S, w, K) ==
  IF S.closed \/ (K.stoprun /\ S.phase = "run") \/ Len(w) < Need(S, w) THEN <<S, w>>
  ELSE LET r == Step(S, w, K) IN Run(r[1], r[2], K)

-----------------------------------------------------------------------------
Init == /\ c \in 1..Len(Cases) /\ cs = Cases[c] /\ pos = 0 /\ win = <<>> /\ ss = InitSess(Cases[c])

Deliver(n) ==
  /\ ~ss.closed
  /\ pos + n <= Len(cs.bytes)
  /\ LET r == Run(ss, win \o SubSeq(cs.bytes, pos + 1, pos + n), cs) IN
       /\ ss' = r[1] /\ win' = r[2]
  /\ pos' = pos + n /\ UNCHANGED <<c, cs>>

Next == \E n \in 1..Len(cs.bytes) : Deliver(n)
Spec == Init /\ [][Next]_vars

-----------------------------------------------------------------------------
\* Properties
\* (1) the effect does not depend on the cuts: whatever the cuts were, after p bytes the session is what ONE read of
\*     those p bytes produces, and while it is alive so is its window
Uncut(K, p) == Run(InitSess(K), SubSeq(K.bytes, 1, p), K)
CutIndependent == /\ ss = Uncut(cs, pos)[1]
                  /\ ~ss.closed => win = Uncut(cs, pos)[2]

\* (2) anything that is not a well-formed event ends the session with an error and nothing else: an error is always
\*     accompanied by closed, and a closed session never has err = "none"
ErrorMeansClosed == (ss.err # "none") <=> ss.closed

\* (3) the parser never looks beyond the window / never leaves a complete event unprocessed: when it stops, the window
\*     is shorter than what the next step needs
NoCompleteEventLeft == ss.closed \/ (cs.stoprun /\ ss.phase = "run") \/ Len(win) < Need(ss, win)

\* (4) bookkeeping: consumed + window = delivered (nothing is dropped or duplicated while the session is alive)
WindowIsSuffix == ss.closed \/ (Len(win) <= pos /\ win = SubSeq(cs.bytes, pos - Len(win) + 1, pos))

TypeOK == /\ pos \in 0..Len(cs.bytes)
          /\ ss.closed \in BOOLEAN
          /\ ss.phase \in {"run", "hs1", "hs2", "meta", "metafd", "fdw", "c_ver", "c_rdy", "c_ack"}
=============================================================================
