----------------------------- MODULE FreeList -----------------------------
(* The lock-free free list of one size class: bufferList.pop / bufferList.push (buffer_manager.go) together with   *)
(* the bufferHeader accessors (buffer_slice.go). ONE ACTION PER SHARED-MEMORY ACCESS of the real code: the action   *)
(* names carry the label of the scheduling point that the source rewriter (tools/instr) puts in front of that        *)
(* access, so a TLC behaviour is replayed on the real code one vsStep per action.                                    *)
(* Slots are numbered 0..NSlots-1; the real offset of slot k is k*(cap+20).                                          *)
(* Properties: C01 (NoDoubleOwner, NoForeignWrite), C02 (SizeBound, IdleSizeExact, QuiescentWellFormed).             *)
EXTENDS Integers, FiniteSets, Sequences, TLC
CONSTANTS NSlots,      \* slots in the list
          Threads,     \* threads of both processes (process-local state is not shared, so they are not told apart)
          MaxOps,      \* bound on pops started per thread (finiteness)
          MaxRetry,    \* the literal 200 of the real loop
          RetryView    \* exploration bound on the retry counter (CONSTRAINT), keeps replayed behaviours faithful
Slots == 0..(NSlots-1)
HASNEXT == 1
INUSED == 2

CONSTANT MaxLinks    \* bound on message-link operations per thread (0 switches the chain operations off)
VARIABLES head, tail, size, nxt, flag, counter,   \* shared memory
          pc, oh, nx, it, ot, fb, buf, held, ops,  \* thread-local: program counter and registers
          ca, cnext, nlinks,                        \* chain walk (recycleBuffers): current slot, next slot (-1 none); links made
          mnext,                                    \* ghost: message links made by holders (bufferSlice.update), -1 = none
          stale, aba, foreign                       \* ghosts: ABA classifier, foreign-write detector
shared == <<head, tail, size, nxt, flag, counter>>
locals == <<pc, oh, nx, it, ot, fb, buf, held, ops, ca, cnext, nlinks, mnext>>
ghosts == <<stale, aba, foreign>>
vars == <<shared, locals, ghosts>>

HasNext(f) == f \in {1, 3}
SetBit(f, b) == IF (f \div b) % 2 = 1 THEN f ELSE f + b

Init == /\ head = 0 /\ tail = NSlots-1 /\ size = NSlots /\ counter = 0
        /\ nxt = [s \in Slots |-> IF s < NSlots-1 THEN s+1 ELSE 0]
        /\ flag = [s \in Slots |-> IF s < NSlots-1 THEN HASNEXT ELSE 0]
        /\ pc = [t \in Threads |-> "idle"]
        /\ oh = [t \in Threads |-> 0] /\ nx = [t \in Threads |-> 0]
        /\ it = [t \in Threads |-> 0] /\ ot = [t \in Threads |-> 0]
        /\ fb = [t \in Threads |-> 0] /\ buf = [t \in Threads |-> 0]
        /\ held = [t \in Threads |-> {}] /\ ops = [t \in Threads |-> 0]
        /\ ca = [t \in Threads |-> 0] /\ cnext = [t \in Threads |-> -1] /\ nlinks = [t \in Threads |-> 0]
        /\ mnext = [s \in Slots |-> -1]
        /\ stale = [t \in Threads |-> FALSE] /\ aba = FALSE /\ foreign = FALSE

Goto(t, l) == pc' = [pc EXCEPT ![t] = l]

\* who owns slot s (by the property's definition: from the winning CAS until the owner starts recycling it)
OwnedBy(t) == held[t] \cup (IF pc[t] \in {"p_clr", "p_iu_ld", "p_iu_st", "p_cnt", "p_cap"} THEN {oh[t]} ELSE {})
OwnerOf(s) == {t \in Threads : s \in OwnedBy(t)}
\* a store by t into the header of slot s
Foreign(t, s) == \E o \in OwnerOf(s) : o # t

-----------------------------------------------------------------------------
\* pop
PopStart(t) ==   \* bufferList.pop:LoadUint32#1   oldHead := load(head)
    /\ pc[t] = "idle" /\ ops[t] < MaxOps
    /\ oh' = [oh EXCEPT ![t] = head] /\ it' = [it EXCEPT ![t] = 0]
    /\ ops' = [ops EXCEPT ![t] = @ + 1]
    /\ stale' = [stale EXCEPT ![t] = FALSE]
    /\ Goto(t, "p_dec")
    /\ UNCHANGED <<shared, nx, ot, fb, buf, held, aba, foreign, ca, cnext, nlinks, mnext>>
PDec(t) ==       \* bufferList.pop:AddInt32#2     remain := add(size,-1)
    /\ pc[t] = "p_dec"
    /\ size' = size - 1
    /\ IF size - 1 <= 0 THEN Goto(t, "p_restoreA") ELSE Goto(t, "p_flag")
    /\ UNCHANGED <<head, tail, nxt, flag, counter, oh, nx, it, ot, fb, buf, held, ops, ghosts, ca, cnext, nlinks, mnext>>
PRestoreA(t) ==  \* bufferList.pop:AddInt32#3
    /\ pc[t] = "p_restoreA" /\ size' = size + 1 /\ Goto(t, "idle")
    /\ UNCHANGED <<head, tail, nxt, flag, counter, oh, nx, it, ot, fb, buf, held, ops, ghosts, ca, cnext, nlinks, mnext>>
PFlag(t) ==      \* bufferHeader.hasNext:mem#1    bh.hasNext()
    /\ pc[t] = "p_flag"
    /\ IF HasNext(flag[oh[t]]) THEN Goto(t, "p_next") ELSE Goto(t, "p_size")
    /\ UNCHANGED <<shared, oh, nx, it, ot, fb, buf, held, ops, ghosts, ca, cnext, nlinks, mnext>>
PNext(t) ==      \* bufferHeader.nextBufferOffset:mem#1  (argument of the CAS, evaluated before it)
    /\ pc[t] = "p_next"
    /\ nx' = [nx EXCEPT ![t] = nxt[oh[t]]]
    /\ Goto(t, "p_cas")
    /\ UNCHANGED <<shared, oh, it, ot, fb, buf, held, ops, ghosts, ca, cnext, nlinks, mnext>>
PCas(t) ==       \* bufferList.pop:CompareAndSwapUint32#4
    /\ pc[t] = "p_cas"
    /\ IF head = oh[t]
         THEN /\ head' = nx[t] /\ Goto(t, "p_clr")
              /\ aba' = (aba \/ stale[t])
              /\ stale' = [u \in Threads |-> IF u = t THEN FALSE ELSE TRUE]
         ELSE /\ head' = head /\ Goto(t, "p_reload") /\ UNCHANGED <<aba, stale>>
    /\ UNCHANGED <<tail, size, nxt, flag, counter, oh, nx, it, ot, fb, buf, held, ops, foreign, ca, cnext, nlinks, mnext>>
PClr(t) ==       \* bufferHeader.clearFlag:mem#1
    /\ pc[t] = "p_clr"
    /\ flag' = [flag EXCEPT ![oh[t]] = 0]
    /\ foreign' = (foreign \/ Foreign(t, oh[t]))
    /\ Goto(t, "p_iu_ld")
    /\ UNCHANGED <<head, tail, size, nxt, counter, oh, nx, it, ot, fb, buf, held, ops, stale, aba, ca, cnext, nlinks, mnext>>
PIuLd(t) ==      \* bufferHeader.setInUsed:rmw-load#1
    /\ pc[t] = "p_iu_ld"
    /\ fb' = [fb EXCEPT ![t] = flag[oh[t]]]
    /\ Goto(t, "p_iu_st")
    /\ UNCHANGED <<shared, oh, nx, it, ot, buf, held, ops, ghosts, ca, cnext, nlinks, mnext>>
PIuSt(t) ==      \* bufferHeader.setInUsed:rmw-store#2
    /\ pc[t] = "p_iu_st"
    /\ flag' = [flag EXCEPT ![oh[t]] = SetBit(fb[t], INUSED)]
    /\ foreign' = (foreign \/ Foreign(t, oh[t]))
    /\ Goto(t, "p_cnt")
    /\ UNCHANGED <<head, tail, size, nxt, counter, oh, nx, it, ot, fb, buf, held, ops, stale, aba, ca, cnext, nlinks, mnext>>
PCnt(t) ==       \* bufferList.pop:AddInt32#5     add(counter, 1)
    /\ pc[t] = "p_cnt" /\ counter' = counter + 1 /\ Goto(t, "p_cap")
    /\ UNCHANGED <<head, tail, size, nxt, flag, oh, nx, it, ot, fb, buf, held, ops, ghosts, ca, cnext, nlinks, mnext>>
PCap(t) ==       \* bufferList.pop:mem#6          *b.capPerBuffer, then return the slice
    /\ pc[t] = "p_cap"
    /\ held' = [held EXCEPT ![t] = @ \cup {oh[t]}]
    /\ Goto(t, "idle")
    /\ UNCHANGED <<shared, oh, nx, it, ot, fb, buf, ops, ghosts, ca, cnext, nlinks, mnext>>
PSize(t) ==      \* bufferList.pop:mem#7          *b.size <= 1 ("don't alloc the last slice")
    /\ pc[t] = "p_size"
    /\ IF size <= 1 THEN Goto(t, "p_restoreB") ELSE Goto(t, "p_reload")
    /\ UNCHANGED <<shared, oh, nx, it, ot, fb, buf, held, ops, ghosts, ca, cnext, nlinks, mnext>>
PRestoreB(t) ==  \* bufferList.pop:AddInt32#8
    /\ pc[t] = "p_restoreB" /\ size' = size + 1 /\ Goto(t, "idle")
    /\ UNCHANGED <<head, tail, nxt, flag, counter, oh, nx, it, ot, fb, buf, held, ops, ghosts, ca, cnext, nlinks, mnext>>
PReload(t) ==    \* bufferList.pop:LoadUint32#9   oldHead = load(head); i++
    /\ pc[t] = "p_reload"
    /\ oh' = [oh EXCEPT ![t] = head]
    /\ it' = [it EXCEPT ![t] = @ + 1]
    /\ stale' = [stale EXCEPT ![t] = FALSE]
    /\ IF it[t] + 1 >= MaxRetry THEN Goto(t, "p_restoreC") ELSE Goto(t, "p_flag")
    /\ UNCHANGED <<shared, nx, ot, fb, buf, held, ops, aba, foreign, ca, cnext, nlinks, mnext>>
PRestoreC(t) ==  \* bufferList.pop:AddInt32#10
    /\ pc[t] = "p_restoreC" /\ size' = size + 1 /\ Goto(t, "idle")
    /\ UNCHANGED <<head, tail, nxt, flag, counter, oh, nx, it, ot, fb, buf, held, ops, ghosts, ca, cnext, nlinks, mnext>>

-----------------------------------------------------------------------------
HasPred(s) == \E q \in Slots : mnext[q] = s
\* push(b): buffer.reset() [its two plain stores to the size/start words of the holder's own header are not modelled],
PushStart(t) ==  \* bufferHeader.clearFlag:mem#1  (inside reset())
    /\ pc[t] = "idle" /\ held[t] # {}
    /\ \E b \in held[t] :
         /\ ~HasPred(b)          \* a buffer inside a message chain is recycled after its predecessors (reader order)
         /\ buf' = [buf EXCEPT ![t] = b]
         /\ held' = [held EXCEPT ![t] = @ \ {b}]
         /\ flag' = [flag EXCEPT ![b] = 0]
         /\ foreign' = (foreign \/ Foreign(t, b))
         /\ mnext' = [mnext EXCEPT ![b] = -1]
    /\ Goto(t, "u_lt")
    /\ UNCHANGED <<head, tail, size, nxt, counter, oh, nx, it, ot, fb, ops, stale, aba, ca, cnext, nlinks>>
ULoadTail(t) ==  \* bufferList.push:LoadUint32#1
    /\ pc[t] = "u_lt" /\ ot' = [ot EXCEPT ![t] = tail] /\ Goto(t, "u_cas")
    /\ UNCHANGED <<shared, oh, nx, it, fb, buf, held, ops, ghosts, ca, cnext, nlinks, mnext>>
UCas(t) ==       \* bufferList.push:CompareAndSwapUint32#2
    /\ pc[t] = "u_cas"
    /\ IF tail = ot[t] THEN tail' = buf[t] /\ Goto(t, "u_link")
                       ELSE tail' = tail /\ Goto(t, "u_lt")
    /\ UNCHANGED <<head, size, nxt, flag, counter, oh, nx, it, ot, fb, buf, held, ops, ghosts, ca, cnext, nlinks, mnext>>
ULink(t) ==      \* bufferHeader.linkNext:mem#1   next(oldTail) = newTail
    /\ pc[t] = "u_link"
    /\ nxt' = [nxt EXCEPT ![ot[t]] = buf[t]]
    /\ foreign' = (foreign \/ Foreign(t, ot[t]))
    /\ Goto(t, "u_fl_ld")
    /\ UNCHANGED <<head, tail, size, flag, counter, oh, nx, it, ot, fb, buf, held, ops, stale, aba, ca, cnext, nlinks, mnext>>
UFlLd(t) ==      \* bufferHeader.linkNext:rmw-load#2
    /\ pc[t] = "u_fl_ld" /\ fb' = [fb EXCEPT ![t] = flag[ot[t]]] /\ Goto(t, "u_fl_st")
    /\ UNCHANGED <<shared, oh, nx, it, ot, buf, held, ops, ghosts, ca, cnext, nlinks, mnext>>
UFlSt(t) ==      \* bufferHeader.linkNext:rmw-store#3
    /\ pc[t] = "u_fl_st"
    /\ flag' = [flag EXCEPT ![ot[t]] = SetBit(fb[t], HASNEXT)]
    /\ foreign' = (foreign \/ Foreign(t, ot[t]))
    /\ Goto(t, "u_sz")
    /\ UNCHANGED <<head, tail, size, nxt, counter, oh, nx, it, ot, fb, buf, held, ops, stale, aba, ca, cnext, nlinks, mnext>>
USize(t) ==      \* bufferList.push:AddInt32#3
    /\ pc[t] = "u_sz" /\ size' = size + 1 /\ Goto(t, "u_cnt")
    /\ UNCHANGED <<head, tail, nxt, flag, counter, oh, nx, it, ot, fb, buf, held, ops, ghosts, ca, cnext, nlinks, mnext>>
UCnt(t) ==       \* bufferList.push:AddInt32#4 ; inside recycleBuffers the walk goes on with the slot read before the push
    /\ pc[t] = "u_cnt" /\ counter' = counter - 1
    /\ IF cnext[t] = -1 THEN Goto(t, "idle") /\ UNCHANGED <<ca, cnext>>
                        ELSE Goto(t, "c_flag") /\ ca' = [ca EXCEPT ![t] = cnext[t]] /\ cnext' = [cnext EXCEPT ![t] = -1]
    /\ UNCHANGED <<head, tail, size, nxt, flag, oh, nx, it, ot, fb, buf, held, ops, ghosts, nlinks, mnext>>

-----------------------------------------------------------------------------
\* message chains. A holder links two of its buffers (bufferSlice.update -> linkNext, done by linkedBuffer.done()),
\* and a whole chain is recycled by bufferManager.recycleBuffers: read hasNext / next of the current slice, push it, go on.
LinkStart(t) ==  \* bufferHeader.linkNext:mem#1   next(a) = offset of b   (a, b held by t; b a single buffer, a a chain tail)
    /\ pc[t] = "idle" /\ nlinks[t] < MaxLinks
    /\ \E a, b \in held[t] :
         /\ a # b /\ mnext[a] = -1 /\ mnext[b] = -1 /\ ~HasPred(b)
         /\ nxt' = [nxt EXCEPT ![a] = b] /\ mnext' = [mnext EXCEPT ![a] = b]
         /\ buf' = [buf EXCEPT ![t] = a]
         /\ foreign' = (foreign \/ Foreign(t, a))
    /\ nlinks' = [nlinks EXCEPT ![t] = @ + 1]
    /\ Goto(t, "l_fl_ld")
    /\ UNCHANGED <<head, tail, size, flag, counter, oh, nx, it, ot, fb, held, ops, ca, cnext, stale, aba>>
LFlLd(t) ==      \* bufferHeader.linkNext:rmw-load#2
    /\ pc[t] = "l_fl_ld" /\ fb' = [fb EXCEPT ![t] = flag[buf[t]]] /\ Goto(t, "l_fl_st")
    /\ UNCHANGED <<shared, oh, nx, it, ot, buf, held, ops, ghosts, ca, cnext, nlinks, mnext>>
LFlSt(t) ==      \* bufferHeader.linkNext:rmw-store#3
    /\ pc[t] = "l_fl_st"
    /\ flag' = [flag EXCEPT ![buf[t]] = SetBit(fb[t], HASNEXT)]
    /\ foreign' = (foreign \/ Foreign(t, buf[t]))
    /\ Goto(t, "idle")
    /\ UNCHANGED <<head, tail, size, nxt, counter, oh, nx, it, ot, fb, buf, held, ops, stale, aba, ca, cnext, nlinks, mnext>>
ChainStart(t) == \* bufferHeader.hasNext:mem#1 on the head of a chain held by t (recycleBuffers)
    /\ pc[t] = "idle"
    /\ \E a \in held[t] :
         /\ ~HasPred(a) /\ mnext[a] # -1
         /\ ca' = [ca EXCEPT ![t] = a]
         /\ IF HasNext(flag[a]) THEN Goto(t, "c_next") ELSE Goto(t, "c_push")
    /\ cnext' = [cnext EXCEPT ![t] = -1]
    /\ UNCHANGED <<shared, oh, nx, it, ot, fb, buf, held, ops, ghosts, nlinks, mnext>>
CFlag(t) ==      \* bufferHeader.hasNext:mem#1 on the next slice of the chain
    /\ pc[t] = "c_flag"
    /\ IF HasNext(flag[ca[t]]) THEN Goto(t, "c_next") ELSE Goto(t, "c_push")
    /\ UNCHANGED <<shared, oh, nx, it, ot, fb, buf, held, ops, ghosts, ca, cnext, nlinks, mnext>>
CNext(t) ==      \* bufferHeader.nextBufferOffset:mem#1   read BEFORE the slice is recycled
    /\ pc[t] = "c_next" /\ cnext' = [cnext EXCEPT ![t] = nxt[ca[t]]] /\ Goto(t, "c_push")
    /\ UNCHANGED <<shared, oh, nx, it, ot, fb, buf, held, ops, ghosts, ca, nlinks, mnext>>
CPush(t) ==      \* bufferHeader.clearFlag:mem#1 (reset() of the push of the current slice)
    /\ pc[t] = "c_push"
    /\ buf' = [buf EXCEPT ![t] = ca[t]]
    /\ held' = [held EXCEPT ![t] = @ \ {ca[t]}]
    /\ flag' = [flag EXCEPT ![ca[t]] = 0]
    /\ foreign' = (foreign \/ Foreign(t, ca[t]))
    /\ mnext' = [mnext EXCEPT ![ca[t]] = -1]
    /\ Goto(t, "u_lt")
    /\ UNCHANGED <<head, tail, size, nxt, counter, oh, nx, it, ot, fb, ops, stale, aba, ca, cnext, nlinks>>

Step(t) == \/ PopStart(t) \/ PDec(t) \/ PRestoreA(t) \/ PFlag(t) \/ PNext(t) \/ PCas(t) \/ PClr(t) \/ PIuLd(t)
           \/ PIuSt(t) \/ PCnt(t) \/ PCap(t) \/ PSize(t) \/ PRestoreB(t) \/ PReload(t) \/ PRestoreC(t)
           \/ PushStart(t) \/ ULoadTail(t) \/ UCas(t) \/ ULink(t) \/ UFlLd(t) \/ UFlSt(t) \/ USize(t) \/ UCnt(t)
           \/ LinkStart(t) \/ LFlLd(t) \/ LFlSt(t) \/ ChainStart(t) \/ CFlag(t) \/ CNext(t) \/ CPush(t)
Next == \E t \in Threads : Step(t)
Spec == Init /\ [][Next]_vars

-----------------------------------------------------------------------------
\* exploration bounds
RetryBound == \A t \in Threads : it[t] <= RetryView
\* prune everything after the known finding (ABA: a head CAS that succeeds although head was modified since it was read)
NoAbaSoFar == ~aba
View == <<shared, pc, oh, nx, it, ot, fb, buf, held, ops, ca, cnext, nlinks, mnext, stale, aba, foreign>>

\* C01
NoDoubleOwner == \A a, b \in Threads : a # b => OwnedBy(a) \cap OwnedBy(b) = {}
NoSelfDouble == \A t \in Threads : pc[t] \in {"p_clr", "p_iu_ld", "p_iu_st", "p_cnt", "p_cap"} => oh[t] \notin held[t]
NoForeignWrite == ~foreign

\* C02
HeldTotal == Cardinality(UNION {OwnedBy(t) : t \in Threads})
SizeBound == size + HeldTotal <= NSlots
AllIdle == \A t \in Threads : pc[t] = "idle"
IdleSizeExact == AllIdle => size = NSlots - HeldTotal
Quiescent == AllIdle /\ \A t \in Threads : held[t] = {}
RECURSIVE Walk(_, _, _)
\* follow the chain from slot s: set of visited slots, or {-1} when a slot repeats / the chain is longer than NSlots
Walk(s, seen, n) == IF s \in seen \/ n > NSlots THEN {-1}
                    ELSE IF HasNext(flag[s]) THEN Walk(nxt[s], seen \cup {s}, n + 1)
                    ELSE seen \cup {s}
RECURSIVE Last(_, _)
Last(s, n) == IF n > NSlots THEN -1 ELSE IF HasNext(flag[s]) THEN Last(nxt[s], n + 1) ELSE s
QuiescentWellFormed == Quiescent => /\ size = NSlots
                                    /\ counter = 0
                                    /\ Walk(head, {}, 0) = Slots
                                    /\ Last(head, 0) = tail
=============================================================================
