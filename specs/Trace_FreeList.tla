-------------------------- MODULE Trace_FreeList --------------------------
(* Trace validation for FreeList: every line of an NDJSON trace recorded from the REAL bufferList.pop/push running   *)
(* under the serialising scheduler (one line per executed shared access: thread, whether an operation starts, and    *)
(* the projected shared memory after the access) must be a step of that thread in FreeList whose effect on the       *)
(* shared variables is exactly the logged one. Thread-local registers and program counters are not logged; TLC       *)
(* infers them. Runs are concatenated; a "reset" line starts a new run.                                              *)
EXTENDS FreeList, Json, TracePath
VARIABLE l
Trace == ndJsonDeserialize(TracePath)
tvars == <<vars, l>>
Line == Trace[l]

Matches(st) == /\ head' = st[1] /\ tail' = st[2] /\ size' = st[3] /\ counter' = st[4]
               /\ \A s \in Slots : nxt'[s] = st[5 + s] /\ flag'[s] = st[5 + NSlots + s]

TraceInit == Init /\ l = 1

TraceReset == /\ l <= Len(Trace) /\ Line.ev = "reset"
              /\ head' = 0 /\ tail' = NSlots-1 /\ size' = NSlots /\ counter' = 0
              /\ nxt' = [s \in Slots |-> IF s < NSlots-1 THEN s+1 ELSE 0]
              /\ flag' = [s \in Slots |-> IF s < NSlots-1 THEN HASNEXT ELSE 0]
              /\ pc' = [t \in Threads |-> "idle"]
              /\ oh' = [t \in Threads |-> 0] /\ nx' = [t \in Threads |-> 0]
              /\ it' = [t \in Threads |-> 0] /\ ot' = [t \in Threads |-> 0]
              /\ fb' = [t \in Threads |-> 0] /\ buf' = [t \in Threads |-> 0]
              /\ held' = [t \in Threads |-> {}] /\ ops' = [t \in Threads |-> 0]
              /\ ca' = [t \in Threads |-> 0] /\ cnext' = [t \in Threads |-> -1] /\ nlinks' = [t \in Threads |-> 0]
              /\ mnext' = [s \in Slots |-> -1]
              /\ stale' = [t \in Threads |-> FALSE] /\ aba' = FALSE /\ foreign' = FALSE
              /\ Matches(Line.st)
              /\ l' = l + 1

TraceStep == /\ l <= Len(Trace) /\ Line.ev = "step"
             /\ LET t == Line.t IN
                  /\ t \in Threads
                  /\ CASE Line.k = 1 -> PopStart(t)
                       [] Line.k = 2 -> PushStart(t) /\ buf'[t] = Line.b
                       [] Line.k = 3 -> LinkStart(t) /\ buf'[t] = Line.b /\ mnext'[Line.b] = Line.b2
                       [] Line.k = 4 -> ChainStart(t) /\ ca'[t] = Line.b
                       [] OTHER -> pc[t] # "idle" /\ Step(t)
                  /\ Matches(Line.st)
             /\ l' = l + 1

TraceNext == TraceReset \/ TraceStep
TraceSpec == TraceInit /\ [][TraceNext]_tvars

TraceAccepted == LET d == TLCGet("stats").diameter IN
                   IF d - 1 = Len(Trace) THEN TRUE
                   ELSE Print(<<"TRACE-REJECTED-AT-LINE", d>>, FALSE)
\* the properties, evaluated on the states of the real execution; executions matching the listed ABA finding excluded
TraceNoDoubleOwner == aba \/ NoDoubleOwner
TraceNoForeignWrite == aba \/ NoForeignWrite
TraceSizeBound == aba \/ SizeBound
TraceIdleSizeExact == aba \/ IdleSizeExact
TraceQuiescent == aba \/ QuiescentWellFormed
=============================================================================
