------------------------------- MODULE BufMgr -------------------------------
(* The buffer manager above the free lists, at operation granularity (sequential meaning): several size classes,     *)
(* allocShmBuffer (smallest class that fits and still has more than one free buffer, falling through to larger ones), *)
(* allocShmBuffers (from the largest class down until the requested size is covered or the classes run dry),          *)
(* recycleBuffer / recycleBuffers (back to the class with that capacity).                                             *)
(* Named deviation kept from the code: recycleBuffer returns a buffer to the FIRST class whose capacity equals the     *)
(* buffer's - with two classes of the same size every buffer migrates to the first of them.                           *)
(* The PATHS of the (small) state graph are the histories; checks/bufmgr.py replays every path on the real            *)
(* bufferManager and compares the outcome of every call and the free count of every class.                            *)
(* Properties (C01/C02 at the manager level): Conservation, NeverLastBuffer, QuiescentFull.                           *)
EXTENDS Integers, Sequences, FiniteSets, TLC
CONSTANTS Caps,      \* capacity of each class, ascending (a sequence)
          Counts,    \* number of buffers of each class
          ReqSizes,  \* sizes asked for
          MaxOps
N == Len(Caps)
Classes == 1..N
VARIABLES free,   \* [Classes -> Nat] free count as the list header shows it
          out,    \* [Classes -> Nat] buffers of that (origin) class currently handed out
          nops, last
vars == <<free, out, nops, last>>

Init == /\ free = [c \in Classes |-> Counts[c]] /\ out = [c \in Classes |-> 0] /\ nops = 0
        /\ last = [op |-> "init", size |-> 0, got |-> <<>>]
Tick == nops < MaxOps /\ nops' = nops + 1

\* a pop of class c succeeds iff more than one buffer is free (the last one is never handed out)
CanPop(f, c) == f[c] >= 2
Fits(sz) == {c \in Classes : Caps[c] >= sz /\ CanPop(free, c)}
Min(S) == CHOOSE x \in S : \A y \in S : x <= y
Target(c) == Min({d \in Classes : Caps[d] = Caps[c]})

Alloc(sz) ==
    /\ Tick
    /\ IF Fits(sz) # {}
         THEN LET c == Min(Fits(sz)) IN
                /\ free' = [free EXCEPT ![c] = @ - 1] /\ out' = [out EXCEPT ![c] = @ + 1]
                /\ last' = [op |-> "alloc", size |-> sz, got |-> <<c>>]
         ELSE /\ UNCHANGED <<free, out>> /\ last' = [op |-> "alloc", size |-> sz, got |-> <<>>]

\* allocShmBuffers: classes from the largest down, each until it runs dry or the size is covered
RECURSIVE Take(_, _, _, _)
Take(c, remain, f, acc) ==
    IF c = 0 \/ remain <= 0 THEN <<f, acc>>
    ELSE IF CanPop(f, c) THEN Take(c, remain - Caps[c], [f EXCEPT ![c] = @ - 1], Append(acc, c))
    ELSE Take(c - 1, remain, f, acc)
AllocMany(sz) ==
    /\ Tick
    /\ LET r == Take(N, sz, free, <<>>) IN
         /\ free' = r[1]
         /\ out' = [c \in Classes |-> out[c] + Cardinality({i \in 1..Len(r[2]) : r[2][i] = c})]
         /\ last' = [op |-> "allocmany", size |-> sz, got |-> r[2]]

Recycle(c) ==
    /\ Tick /\ out[c] > 0
    /\ out' = [out EXCEPT ![c] = @ - 1]
    /\ free' = [free EXCEPT ![Target(c)] = @ + 1]
    /\ last' = [op |-> "recycle", size |-> c, got |-> <<>>]

Next == (\E sz \in ReqSizes : Alloc(sz) \/ AllocMany(sz)) \/ (\E c \in Classes : Recycle(c))
Spec == Init /\ [][Next]_vars
View == <<free, out, nops>>

Sum(f) == LET RECURSIVE S(_) S(i) == IF i = 0 THEN 0 ELSE f[i] + S(i - 1) IN S(N)
Conservation == Sum(free) + Sum(out) = Sum(Counts)
NeverLastBuffer == \A c \in Classes : free[c] >= 1
NoDuplicateSizes == \A c, d \in Classes : c # d => Caps[c] # Caps[d]
QuiescentFull == ((\A c \in Classes : out[c] = 0) /\ NoDuplicateSizes) => free = [c \in Classes |-> Counts[c]]
QuiescentFullPerSize == (\A c \in Classes : out[c] = 0) =>
                          \A c \in Classes : Sum([d \in Classes |-> IF Caps[d] = Caps[c] THEN free[d] ELSE 0])
                                             = Sum([d \in Classes |-> IF Caps[d] = Caps[c] THEN Counts[d] ELSE 0])
=============================================================================
