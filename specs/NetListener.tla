---------------------------- MODULE NetListener ----------------------------
(***************************************************************************)
(* C19 - the net.Listener / net.Conn adapter of shmipc-go (net_listener.go *)
(* on top of Session/Stream) behaves like a stream socket.                 *)
(*                                                                         *)
(* Shaped after the code:                                                  *)
(*   listener      closed flag, closeCh, backlog channel (capacity BCap),  *)
(*                 sessions map: session -> WaitGroup                       *)
(*   per session   the goroutine started in listenLoop: Server(), the      *)
(*                 registration under l.mu (Register), the wg.Wait()       *)
(*                 goroutine (WaiterFire), the AcceptStream loop           *)
(*                 (LoopTake / LoopPush / LoopAbort / LoopErr)             *)
(*   streamWrapper closed flag + one WaitGroup reference                   *)
(*   Stream        state open / half (peer closed) / closed, pendingData   *)
(*                 (pend) and recvBuf (buf) byte counts; Read moves pend   *)
(*                 to buf only when buf is empty (linkedBuffer.read ->     *)
(*                 readMore(1)); a server Stream only comes into being     *)
(*                 with the first data message (Session.getStream)         *)
(*                                                                         *)
(* Named deviations from the code:                                         *)
(*  D1 one FIFO channel per session and direction (the code has the shm    *)
(*     queue plus the socket fallback; their mutual order is C07's topic)  *)
(*  D2 bytes are counted, not stored: the harness gives byte i of a stream *)
(*     direction a value derived from (stream, direction, i) and checks    *)
(*     order/content itself; sizes are in "units" scaled by the harness    *)
(*  D3 a session going down (SrvDown/CliDown) closes its streams in the    *)
(*     same step (the code does it in a dispatcher lambda a little later)  *)
(*  D4 the handshake is one step (Connect); only the registration under    *)
(*     l.mu is a separate step (Register)                                  *)
(*  D5 a Read that would block is performed with a read deadline and is    *)
(*     predicted to time out ("timeout"); ReadStart/ReadWake model a Read  *)
(*     parked without deadline (at most one at a time)                     *)
(*  D6 the raw unix listener is closed atomically with l.closed            *)
(*                                                                         *)
(* "drainfix" \in Feat models the repaired listener (Close drains and closes *)
(* the backlog, the accept loop closes the conn it holds when it sees        *)
(* closeCh, Accept on a closed listener always fails); without it the spec   *)
(* is the code as pinned, including the known finding backlog-orphan.        *)
(*                                                                         *)
(* "conc" \in Feat opens streamWrapper.Close of the conn in slot 1 at the   *)
(* granularity of its steps (guard CAS / stream.Close() / wg.Done()) for   *)
(* two concurrent callers (net.Conn allows concurrent Close); the harness   *)
(* interleaves two real goroutines exactly like that with the serialising   *)
(* scheduler (scheduling point before every statement and atomic of         *)
(* streamWrapper.Close). "weakguard" models a check-then-act guard          *)
(* (load ... store) instead of the CAS: a design lead, RelOnce fails.       *)
(*                                                                         *)
(* Sync = TRUE restricts API calls to quiescent states: that sub-graph is  *)
(* what the harness replays on the real code (binding B2, settle mode).    *)
(* Sync = FALSE lets API calls interleave with every internal step.        *)
(***************************************************************************)
EXTENDS Integers, Sequences, FiniteSets, TLC

CONSTANTS NS, NK, WSizes, RSizes, MaxW, BCap, Sync, Feat

Sess  == 1..NS
Slots == 1..NK
Str   == Sess \X Slots

VARIABLES lclosed,   \* listener.closed (and closeCh closed, raw listener closed)
          backlog,   \* listener.backlog: sequence of streams (wrapped conns)
          acc,       \* "idle" | "wait": a user goroutine parked in Accept
          S,         \* per session record
          T,         \* per stream record
          pr         \* parked Read: <<>> or <<side, c, k, size>>
\* What a caller observes is not a variable: every action carries the result of the call as a parameter
\* (Read("S",1,1,3,"ok",2) = "Read with a 3-unit buffer returned 2 units"), so the labels of the state graph are the
\* predictions that the harness compares with the real return values.

vars == <<lclosed, backlog, acc, S, T, pr>>

Min(a, b) == IF a < b THEN a ELSE b

S0 == [cl |-> "none",      \* client Session: none | up | closed | failed (dial refused)
       sv |-> "none",      \* server Session: none | up | closed
       reg |-> "no",       \* registration in listenLoop's goroutine: no | pending | done
       inmap |-> FALSE,    \* session in listener.sessions
       wg |-> 0,           \* WaitGroup counter
       loop |-> "none",    \* accept loop: none | run (in AcceptStream) | hold (in the select with a wrapped conn) | exit
       holdk |-> 0,
       waiter |-> "none",  \* the wg.Wait() goroutine: none | wait | fired
       acch |-> <<>>,      \* Session.acceptCh
       up |-> <<>>,        \* messages client -> server
       down |-> <<>>]      \* messages server -> client

T0 == [cst |-> "none",     \* client Stream: none | open | half | closed
       sst |-> "none",     \* server Stream: none | open | half | closed (closed = removed from Session.streams)
       wrap |-> "none",    \* streamWrapper: none | hold | backlog | held (returned by Accept) | dropped (abandoned at closeCh)
                           \*                | drained (closed by the repaired listener.Close)
       wcl |-> FALSE,      \* streamWrapper.closed
       dead |-> FALSE,     \* ghost: wrapped when its session was already closed (taken from acceptCh after shutdown)
       reinc |-> FALSE,    \* ghost: a data message arrived after the server had closed and removed the stream, and
                           \* Session.getStream took it for the first message of a new stream (same id, second Stream)
       wc |-> <<"idle", "idle">>, \* "conc": two goroutines inside streamWrapper.Close of this conn, each
                           \* idle | guard (before the CAS on closed) | sclose (before stream.Close()) | store ("weakguard"
                           \* only: before StoreUint32(&closed, 1)) | done (before wg.Done()) | fin
       rel |-> 0,          \* ghost: how often this wrapper's WaitGroup reference has been released
       surf |-> 0,         \* how often Accept returned this stream
       sp |-> 0, sb |-> 0, \* server side pendingData / recvBuf bytes
       cp |-> 0, cb |-> 0, \* client side
       uw |-> 0, dw |-> 0] \* successful writes so far, client->server / server->client

Init == /\ lclosed = FALSE /\ backlog = <<>> /\ acc = "idle"
        /\ S = [c \in Sess |-> S0] /\ T = [s \in Str |-> T0]
        /\ pr = <<>>

---------------------------------------------------------------------------
(* helpers *)
SrvDownS(SS, c) == [SS EXCEPT ![c].sv = "closed", ![c].up = <<>>]
SrvDownT(TT, c) == [s \in Str |-> IF s[1] = c /\ TT[s].sst \in {"open", "half"}
                                  THEN [TT[s] EXCEPT !.sst = "closed", !.sp = 0, !.sb = 0] ELSE TT[s]]
CliDownS(SS, c) == [SS EXCEPT ![c].cl = "closed", ![c].down = <<>>]
CliDownT(TT, c) == [s \in Str |-> IF s[1] = c /\ TT[s].cst \in {"open", "half"}
                                  THEN [TT[s] EXCEPT !.cst = "closed", !.cp = 0, !.cb = 0] ELSE TT[s]]

\* linkedBuffer.read(p) with len(p) = sz on a stream in state st with pend/buf bytes
ReadRes(st, pend, buf, sz) ==
  IF buf >= 1 THEN [kind |-> "ok", n |-> Min(sz, buf), pend |-> pend, buf |-> buf - Min(sz, buf)]
  ELSE IF pend >= 1 THEN [kind |-> "ok", n |-> Min(sz, pend), pend |-> 0, buf |-> pend - Min(sz, pend)]
  ELSE IF st # "open" THEN [kind |-> "err", n |-> 0, pend |-> 0, buf |-> 0]
  ELSE [kind |-> "block", n |-> 0, pend |-> 0, buf |-> 0]

RState(side, s) == IF side = "C" THEN T[s].cst ELSE T[s].sst
RPend(side, s)  == IF side = "C" THEN T[s].cp ELSE T[s].sp
RBuf(side, s)   == IF side = "C" THEN T[s].cb ELSE T[s].sb
Exists(side, s) == IF side = "C" THEN T[s].cst # "none" ELSE T[s].wrap = "held"
ReadOf(side, s, sz) == ReadRes(RState(side, s), RPend(side, s), RBuf(side, s), sz)
ApplyRead(TT, side, s, r) == IF side = "C" THEN [TT EXCEPT ![s].cp = r.pend, ![s].cb = r.buf]
                             ELSE [TT EXCEPT ![s].sp = r.pend, ![s].sb = r.buf]

\* "drainfix": the conns in the sequence bl are closed by the listener itself (streamWrapper.Close on each)
Fixed == "drainfix" \in Feat
InSeq(bl, s) == \E i \in 1..Len(bl) : bl[i] = s
DrainT(TT, bl, how) == [s \in Str |-> IF InSeq(bl, s)
                                      THEN [TT[s] EXCEPT !.wcl = TRUE, !.wrap = how, !.sp = 0, !.sb = 0,
                                                         !.sst = IF @ \in {"open", "half"} THEN "closed" ELSE @]
                                      ELSE TT[s]]
DrainS(SS, TT, bl) ==
  [c \in Sess |-> LET mine == SelectSeq(bl, LAMBDA s : s[1] = c)
                      tell == SelectSeq(mine, LAMBDA s : TT[s].sst = "open" /\ SS[c].sv = "up" /\ SS[c].cl = "up")
                  IN [SS[c] EXCEPT !.wg = @ - Len(mine),
                                   !.down = @ \o [i \in 1..Len(tell) |-> [k |-> tell[i][2], t |-> "close", n |-> 0]]]]

---------------------------------------------------------------------------
(* internal steps: guards first, so that Quiescent can name them *)
GDeliverUp(c)   == S[c].up # <<>> /\ S[c].sv = "up"
GDeliverDown(c) == S[c].down # <<>> /\ S[c].cl = "up"
GRegister(c)    == S[c].reg = "pending"
GSeeResetS(c)   == S[c].sv = "up" /\ S[c].cl = "closed"
GSeeResetC(c)   == S[c].cl = "up" /\ S[c].sv = "closed"
GLoopTake(c)    == S[c].loop = "run" /\ S[c].acch # <<>>
GLoopErr(c)     == S[c].loop = "run" /\ S[c].sv = "closed"
GLoopPush(c)    == S[c].loop = "hold" /\ Len(backlog) < BCap
GLoopAbort(c)   == S[c].loop = "hold" /\ lclosed
GWaiterFire(c)  == S[c].waiter = "wait" /\ S[c].wg = 0
GAcceptWake     == acc = "wait" /\ (backlog # <<>> \/ lclosed)
GReadWake       == pr # <<>> /\ ReadOf(pr[1], <<pr[2], pr[3]>>, pr[4]).kind # "block"

Quiescent == /\ \A c \in Sess : ~GDeliverUp(c) /\ ~GDeliverDown(c) /\ ~GRegister(c) /\ ~GSeeResetS(c)
                               /\ ~GSeeResetC(c) /\ ~GLoopTake(c) /\ ~GLoopErr(c) /\ ~GLoopPush(c)
                               /\ ~GLoopAbort(c) /\ ~GWaiterFire(c)
             /\ ~GAcceptWake /\ ~GReadWake

\* Session.handlePolling / handleStreamClose on the server: getStream creates the Stream on the first data message
DeliverUp(c) ==
  /\ GDeliverUp(c)
  /\ LET m == Head(S[c].up)  s == <<c, m.k>> IN
     IF m.t = "data" THEN
        IF T[s].sst \in {"none", "closed"}
        THEN /\ T' = [T EXCEPT ![s].sst = "open", ![s].sp = m.n, ![s].sb = 0, ![s].wrap = "none", ![s].wcl = FALSE,
                           ![s].dead = FALSE, ![s].reinc = (T[s].sst = "closed"),
                           ![s].wc = <<"idle", "idle">>, ![s].rel = 0]
             /\ S' = [S EXCEPT ![c].up = Tail(@), ![c].acch = Append(@, m.k)]
        ELSE /\ T' = [T EXCEPT ![s].sp = @ + m.n]
             /\ S' = [S EXCEPT ![c].up = Tail(@)]
     ELSE /\ T' = [T EXCEPT ![s].sst = IF @ = "open" THEN "half" ELSE @]
          /\ S' = [S EXCEPT ![c].up = Tail(@)]
  /\ UNCHANGED <<lclosed, backlog, acc, pr>>

DeliverDown(c) ==
  /\ GDeliverDown(c)
  /\ LET m == Head(S[c].down)  s == <<c, m.k>> IN
     /\ S' = [S EXCEPT ![c].down = Tail(@)]
     /\ IF m.t = "data"
        THEN T' = [T EXCEPT ![s].cp = IF T[s].cst \in {"open", "half"} THEN @ + m.n ELSE @]
        ELSE T' = [T EXCEPT ![s].cst = IF @ = "open" THEN "half" ELSE @]
  /\ UNCHANGED <<lclosed, backlog, acc, pr>>

\* listenLoop's goroutine after Server() returned: l.mu.Lock(); closed? -> session.Close() : register
Register(c) ==
  /\ GRegister(c)
  /\ IF lclosed
     THEN /\ S' = [SrvDownS(S, c) EXCEPT ![c].reg = "done"]
          /\ T' = SrvDownT(T, c)
     ELSE /\ S' = [S EXCEPT ![c].reg = "done", ![c].inmap = TRUE, ![c].wg = 1, ![c].loop = "run", ![c].waiter = "wait"]
          /\ T' = T
  /\ UNCHANGED <<lclosed, backlog, acc, pr>>

SeeResetS(c) == /\ GSeeResetS(c) /\ S' = SrvDownS(S, c) /\ T' = SrvDownT(T, c)
                /\ UNCHANGED <<lclosed, backlog, acc, pr>>
SeeResetC(c) == /\ GSeeResetC(c) /\ S' = CliDownS(S, c) /\ T' = CliDownT(T, c)
                /\ UNCHANGED <<lclosed, backlog, acc, pr>>

\* stream, err := session.AcceptStream(); conn := newStreamWrapper(...)  (wg.Add(1))
LoopTake(c) ==
  /\ GLoopTake(c)
  /\ LET k == Head(S[c].acch) IN
     /\ S' = [S EXCEPT ![c].acch = Tail(@), ![c].wg = @ + 1, ![c].loop = "hold", ![c].holdk = k]
     /\ T' = [T EXCEPT ![<<c, k>>].wrap = "hold", ![<<c, k>>].dead = (S[c].sv = "closed")]
  /\ UNCHANGED <<lclosed, backlog, acc, pr>>

\* AcceptStream returned an error: session.Close(); under l.mu: still in the map? delete + wg.Done()
LoopErr(c) ==
  /\ GLoopErr(c)
  /\ S' = [S EXCEPT ![c].loop = "exit", ![c].inmap = FALSE, ![c].wg = IF S[c].inmap THEN @ - 1 ELSE @]
  /\ UNCHANGED <<lclosed, backlog, acc, T, pr>>

\* select { case l.backlog <- conn: }
LoopPush(c) ==
  /\ GLoopPush(c)
  /\ IF Fixed /\ lclosed
     THEN \* repaired: after the send it sees closed and drains the backlog (this conn and whatever else is there)
          LET bl == Append(backlog, <<c, S[c].holdk>>) IN
          /\ backlog' = <<>>
          /\ T' = DrainT(T, bl, "drained")
          /\ S' = [DrainS(S, T, bl) EXCEPT ![c].loop = "run", ![c].holdk = 0]
     ELSE /\ backlog' = Append(backlog, <<c, S[c].holdk>>)
          /\ T' = [T EXCEPT ![<<c, S[c].holdk>>].wrap = "backlog"]
          /\ S' = [S EXCEPT ![c].loop = "run", ![c].holdk = 0]
  /\ UNCHANGED <<lclosed, acc, pr>>

\* select { case <-l.closeCh: return }   -- the wrapped conn is abandoned, its reference is never released
LoopAbort(c) ==
  /\ GLoopAbort(c)
  /\ IF Fixed
     THEN LET bl == << <<c, S[c].holdk>> >> IN    \* repaired: conn.Close() before returning
          /\ T' = DrainT(T, bl, "dropped")
          /\ S' = [DrainS(S, T, bl) EXCEPT ![c].loop = "exit", ![c].holdk = 0]
     ELSE /\ T' = [T EXCEPT ![<<c, S[c].holdk>>].wrap = "dropped"]
          /\ S' = [S EXCEPT ![c].loop = "exit", ![c].holdk = 0]
  /\ UNCHANGED <<lclosed, backlog, acc, pr>>

\* go func() { wg.Wait(); session.Close() }
WaiterFire(c) ==
  /\ GWaiterFire(c)
  /\ IF S[c].sv = "up"
     THEN /\ S' = [SrvDownS(S, c) EXCEPT ![c].waiter = "fired"] /\ T' = SrvDownT(T, c)
     ELSE /\ S' = [S EXCEPT ![c].waiter = "fired"] /\ T' = T
  /\ UNCHANGED <<lclosed, backlog, acc, pr>>

\* a parked Accept: select { case conn := <-l.backlog | case <-l.closeCh }  (Go picks at random when both are ready)
AcceptWakeConn(c, k) ==
  /\ GAcceptWake /\ backlog # <<>> /\ Head(backlog) = <<c, k>>
  /\ backlog' = Tail(backlog)
  /\ T' = [T EXCEPT ![<<c, k>>].wrap = "held", ![<<c, k>>].surf = @ + 1]
  /\ acc' = "idle"
  /\ UNCHANGED <<lclosed, S, pr>>
AcceptWakeErr ==
  /\ GAcceptWake /\ lclosed
  /\ acc' = "idle"
  /\ UNCHANGED <<lclosed, backlog, S, T, pr>>

\* the parked Read returns: res = "ok" with n units, or "err"
ReadWake(res, n) ==
  /\ pr # <<>>
  /\ LET r == ReadOf(pr[1], <<pr[2], pr[3]>>, pr[4]) IN res = r.kind /\ n = r.n
  /\ LET s == <<pr[2], pr[3]>>  r == ReadOf(pr[1], s, pr[4]) IN
     /\ T' = IF r.kind = "ok" THEN ApplyRead(T, pr[1], s, r) ELSE T
  /\ pr' = <<>>
  /\ UNCHANGED <<lclosed, backlog, acc, S>>

\* range of the "units returned" result parameter of Read: at most what can have been written
SetMax(X) == CHOOSE m \in X : \A y \in X : y <= m
NRange == 0..Min(MaxW * SetMax(WSizes), SetMax(RSizes))

Internal == \/ \E c \in Sess : \/ DeliverUp(c) \/ DeliverDown(c) \/ Register(c) \/ SeeResetS(c) \/ SeeResetC(c)
                               \/ LoopTake(c) \/ LoopErr(c) \/ LoopPush(c) \/ LoopAbort(c) \/ WaiterFire(c)
            \/ \E c \in Sess, k \in Slots : AcceptWakeConn(c, k)
            \/ AcceptWakeErr
            \/ \E res \in {"ok", "err"}, n \in NRange : ReadWake(res, n)

---------------------------------------------------------------------------
(* API calls; the last parameters are the result the caller sees *)
Gate == (~Sync \/ Quiescent)

\* net.Dial + client Session; the server side runs Server() in listenLoop's goroutine
Connect(c, res) ==
  /\ S[c].cl = "none" /\ (IF c = 1 THEN TRUE ELSE S[c - 1].cl # "none")
  /\ res = (IF lclosed THEN "err" ELSE "ok")
  /\ Gate
  /\ IF lclosed
     THEN S' = [S EXCEPT ![c].cl = "failed"]
     ELSE S' = [S EXCEPT ![c].cl = "up", ![c].sv = "up", ![c].reg = "pending"]
  /\ UNCHANGED <<lclosed, backlog, acc, T, pr>>

\* client Session.OpenStream: nothing reaches the server yet
COpen(c, k, res) ==
  /\ S[c].cl \in {"up", "closed"} /\ T[<<c, k>>].cst = "none"
  /\ (IF k = 1 THEN TRUE ELSE T[<<c, k - 1>>].cst # "none")
  /\ res = (IF S[c].cl = "up" THEN "ok" ELSE "err")
  /\ Gate
  /\ T' = IF S[c].cl = "up" THEN [T EXCEPT ![<<c, k>>].cst = "open"] ELSE T
  /\ UNCHANGED <<lclosed, backlog, acc, S, pr>>

Msg(k, t, n) == [k |-> k, t |-> t, n |-> n]

\* conn.Write(p), len(p) = n units: copyWriteAndFlush. res = "ok": (len(p), nil); "err": an error
Write(side, c, k, n, res) ==
  /\ Exists(side, <<c, k>>)
  /\ ~(side = "S" /\ "nodown" \in Feat)      \* "nodown": only client -> server data (keeps a replay graph small)
  /\ res = IF RState(side, <<c, k>>) = "open" THEN "ok" ELSE "err"
  /\ Gate
  /\ LET s == <<c, k>> IN
     IF side = "C" THEN
        /\ T[s].uw < MaxW
        /\ IF T[s].cst = "open"
           THEN /\ T' = [T EXCEPT ![s].uw = @ + 1]
                /\ S' = [S EXCEPT ![c].up = IF S[c].sv = "up" THEN Append(@, Msg(k, "data", n)) ELSE @]
           ELSE UNCHANGED <<S, T>>
     ELSE
        /\ T[s].dw < MaxW
        /\ IF T[s].sst = "open"
           THEN /\ T' = [T EXCEPT ![s].dw = @ + 1]
                /\ S' = [S EXCEPT ![c].down = IF S[c].cl = "up" THEN Append(@, Msg(k, "data", n)) ELSE @]
           ELSE UNCHANGED <<S, T>>
  /\ UNCHANGED <<lclosed, backlog, acc, pr>>

\* conn.Read(p), len(p) = sz units. res = "ok" with n units | "err" | "timeout": a Read that would block is done
\* with a read deadline and must time out (D5)
Read(side, c, k, sz, res, n) ==
  /\ Exists(side, <<c, k>>)
  /\ ~(side = "C" /\ "nodown" \in Feat)
  /\ LET r == ReadOf(side, <<c, k>>, sz) IN res = (IF r.kind = "block" THEN "timeout" ELSE r.kind) /\ n = r.n
  /\ ~(pr # <<>> /\ pr[1] = side /\ pr[2] = c /\ pr[3] = k)
  /\ Gate
  /\ LET s == <<c, k>>  r == ReadOf(side, s, sz) IN
     T' = IF r.kind = "ok" THEN ApplyRead(T, side, s, r) ELSE T
  /\ UNCHANGED <<lclosed, backlog, acc, S, pr>>

\* a Read without deadline that parks (only issued when it would block)
ReadStart(side, c, k, sz) ==
  /\ "pread" \in Feat
  /\ Exists(side, <<c, k>>) /\ pr = <<>>
  /\ ReadOf(side, <<c, k>>, sz).kind = "block"
  /\ Gate
  /\ pr' = <<side, c, k, sz>>
  /\ UNCHANGED <<lclosed, backlog, acc, S, T>>

\* client Stream.Close()
CClose(c, k) ==
  /\ T[<<c, k>>].cst # "none" /\ Gate
  /\ LET s == <<c, k>> IN
     /\ T' = [T EXCEPT ![s].cst = "closed", ![s].cp = 0, ![s].cb = 0]
     /\ S' = [S EXCEPT ![c].up = IF T[s].cst = "open" /\ S[c].cl = "up" /\ S[c].sv = "up"
                                 THEN Append(@, Msg(k, "close", 0)) ELSE @]
  /\ UNCHANGED <<lclosed, backlog, acc, pr>>

\* streamWrapper.Close(): CAS closed 0->1, stream.Close(), wg.Done()
SClose(c, k) ==
  /\ T[<<c, k>>].wrap = "held" /\ Gate
  /\ ~("conc" \in Feat /\ k = 1)      \* the conn in slot 1 is closed step by step (Wc* below)
  /\ LET s == <<c, k>> IN
     IF T[s].wcl THEN UNCHANGED <<S, T>>
     ELSE /\ T' = [T EXCEPT ![s].wcl = TRUE, ![s].sp = 0, ![s].sb = 0, ![s].rel = @ + 1,
                            ![s].sst = IF @ \in {"open", "half"} THEN "closed" ELSE @]
          /\ S' = [S EXCEPT ![c].wg = @ - 1,
                            ![c].down = IF T[s].sst = "open" /\ S[c].sv = "up" /\ S[c].cl = "up"
                                        THEN Append(@, Msg(k, "close", 0)) ELSE @]
  /\ UNCHANGED <<lclosed, backlog, acc, pr>>

\* streamWrapper.Close() of the conn in slot 1, step by step, for two concurrent callers t \in {1, 2}
WcSet(s, t, v) == [T[s].wc EXCEPT ![t] = v]
WcBegin(t, c, k) ==
  /\ "conc" \in Feat /\ k = 1 /\ T[<<c, k>>].wrap = "held" /\ T[<<c, k>>].wc[t] = "idle" /\ Gate
  /\ T' = [T EXCEPT ![<<c, k>>].wc = WcSet(<<c, k>>, t, "guard")]
  /\ UNCHANGED <<lclosed, backlog, acc, S, pr>>
\* if atomic.CompareAndSwapUint32(&s.closed, 0, 1)    ("weakguard": if atomic.LoadUint32(&s.closed) == 0)
WcGuard(t, c, k) ==
  /\ T[<<c, k>>].wc[t] = "guard" /\ Gate
  /\ LET s == <<c, k>> IN
     IF T[s].wcl THEN T' = [T EXCEPT ![s].wc = WcSet(s, t, "fin")]
     ELSE T' = [T EXCEPT ![s].wc = WcSet(s, t, "sclose"), ![s].wcl = ("weakguard" \notin Feat)]
  /\ UNCHANGED <<lclosed, backlog, acc, S, pr>>
\* _ = s.stream.Close()
WcStream(t, c, k) ==
  /\ T[<<c, k>>].wc[t] = "sclose" /\ Gate
  /\ LET s == <<c, k>> IN
     /\ T' = [T EXCEPT ![s].wc = WcSet(s, t, IF "weakguard" \in Feat THEN "store" ELSE "done"), ![s].sp = 0, ![s].sb = 0,
                       ![s].sst = IF @ \in {"open", "half"} THEN "closed" ELSE @]
     /\ S' = [S EXCEPT ![c].down = IF T[s].sst = "open" /\ S[c].sv = "up" /\ S[c].cl = "up"
                                   THEN Append(@, Msg(k, "close", 0)) ELSE @]
  /\ UNCHANGED <<lclosed, backlog, acc, pr>>
WcStore(t, c, k) ==
  /\ T[<<c, k>>].wc[t] = "store" /\ Gate
  /\ T' = [T EXCEPT ![<<c, k>>].wc = WcSet(<<c, k>>, t, "done"), ![<<c, k>>].wcl = TRUE]
  /\ UNCHANGED <<lclosed, backlog, acc, S, pr>>
\* s.wg.Done()
WcDone(t, c, k) ==
  /\ T[<<c, k>>].wc[t] = "done" /\ Gate
  /\ T' = [T EXCEPT ![<<c, k>>].wc = WcSet(<<c, k>>, t, "fin"), ![<<c, k>>].rel = @ + 1]
  /\ S' = [S EXCEPT ![c].wg = @ - 1]
  /\ UNCHANGED <<lclosed, backlog, acc, pr>>

\* listener.Accept() returning at once with a conn ...
AcceptConn(c, k) ==
  /\ acc = "idle" /\ backlog # <<>> /\ Head(backlog) = <<c, k>> /\ Gate
  /\ ~(Fixed /\ lclosed)        \* repaired: a closed listener never hands out a conn
  /\ backlog' = Tail(backlog)
  /\ T' = [T EXCEPT ![<<c, k>>].wrap = "held", ![<<c, k>>].surf = @ + 1]
  /\ UNCHANGED <<lclosed, acc, S, pr>>
\* ... or with the "listener is closed" error (when both are possible Go's select picks at random) ...
AcceptErr ==
  /\ acc = "idle" /\ lclosed /\ Gate
  /\ UNCHANGED vars
\* ... or parking
AcceptPark ==
  /\ acc = "idle" /\ backlog = <<>> /\ ~lclosed /\ Gate
  /\ acc' = "wait"
  /\ UNCHANGED <<lclosed, backlog, S, T, pr>>

\* listener.Close(): CAS closed, raw close, close(closeCh), Done() for every session in the map, clear the map
LClose(res) ==
  /\ res = (IF lclosed THEN "again" ELSE "first")
  /\ Gate
  /\ IF lclosed THEN /\ "lclose2" \in Feat /\ UNCHANGED <<lclosed, S, T, backlog>>
     ELSE LET S1 == [c \in Sess |-> IF S[c].inmap THEN [S[c] EXCEPT !.wg = @ - 1, !.inmap = FALSE] ELSE S[c]] IN
          /\ lclosed' = TRUE
          /\ IF Fixed THEN /\ backlog' = <<>> /\ T' = DrainT(T, backlog, "drained") /\ S' = DrainS(S1, T, backlog)
                      ELSE /\ S' = S1 /\ UNCHANGED <<backlog, T>>
  /\ UNCHANGED <<acc, pr>>

\* client Session.Close(): the server sees "connection reset by peer"
CSessClose(c) ==
  /\ "sessclose" \in Feat
  /\ S[c].cl = "up" /\ Gate
  /\ S' = CliDownS(S, c) /\ T' = CliDownT(T, c)
  /\ UNCHANGED <<lclosed, backlog, acc, pr>>

Res2 == {"ok", "err"}
Api == \/ \E c \in Sess : \/ \E res \in Res2 : Connect(c, res)
                          \/ CSessClose(c)
       \/ \E c \in Sess, k \in Slots :
             \/ \E res \in Res2 : COpen(c, k, res)
             \/ CClose(c, k) \/ SClose(c, k) \/ AcceptConn(c, k)
             \/ \E t \in {1, 2} : WcBegin(t, c, k) \/ WcGuard(t, c, k) \/ WcStream(t, c, k) \/ WcStore(t, c, k)
                                 \/ WcDone(t, c, k)
             \/ \E side \in {"C", "S"} :
                   \/ \E n \in WSizes, res \in Res2 : Write(side, c, k, n, res)
                   \/ \E z \in RSizes, res \in {"ok", "err", "timeout"}, n \in NRange : Read(side, c, k, z, res, n)
                   \/ \E z \in RSizes : ReadStart(side, c, k, z)
       \/ AcceptErr \/ AcceptPark
       \/ \E res \in {"first", "again"} : LClose(res)

Next == Internal \/ Api
Spec == Init /\ [][Next]_vars

---------------------------------------------------------------------------
(* properties *)
Wrapped(c) == {k \in Slots : T[<<c, k>>].wrap \in {"hold", "backlog", "held", "dropped", "drained"} /\ ~T[<<c, k>>].wcl}
\* conns whose Close is past the guard and has not released the reference yet
Closing(c) == {k \in Slots : \E t \in {1, 2} : T[<<c, k>>].wc[t] \in {"sclose", "store", "done"}}
\* the reference of a conn is released exactly once, however many goroutines close it at the same time
RelOnce == \A s \in Str : T[s].rel <= 1

\* WaitGroup never negative (a negative counter panics the process)
CounterNonNeg == \A c \in Sess : S[c].wg >= 0
\* the counter is 1 for the listener's reference + 1 per wrapped, unclosed stream
CounterExact == \A c \in Sess : S[c].reg = "done" /\ S[c].waiter # "none" =>
                   S[c].wg = (IF S[c].inmap THEN 1 ELSE 0) + Cardinality(Wrapped(c)) + Cardinality(Closing(c))
\* a stream surfaces at most once
AtMostOnce == \A s \in Str : T[s].surf <= 1
\* classifier of the known finding "late-data-resurrects-closed-stream": only such a stream may surface twice
AtMostOnceModuloLateData == \A s \in Str : T[s].surf <= 1 \/ T[s].reinc
\* ... and at least once: at rest, with the listener open, every stream that reached a live registered server session
\* has been returned by Accept or is waiting in the backlog (or is held by the loop because the backlog is full)
Surfaces == Quiescent /\ ~lclosed =>
              \A s \in Str : S[s[1]].sv = "up" /\ S[s[1]].reg = "done" /\ T[s].sst # "none" /\ T[s].sst # "closed" =>
                 \/ T[s].wrap \in {"backlog", "held"}
                 \/ T[s].wrap = "hold" /\ Len(backlog) = BCap
\* a parked Accept is not left parked when there is something to return or the listener is closed
AcceptNotStuck == Quiescent /\ acc = "wait" => backlog = <<>> /\ ~lclosed
\* nothing is returned by Accept that the client did not open, backlog holds each stream at most once
BacklogSane == /\ \A i \in 1..Len(backlog) : T[backlog[i]].wrap = "backlog" /\ T[backlog[i]].cst # "none"
               /\ \A i, j \in 1..Len(backlog) : i # j => backlog[i] # backlog[j]
               /\ Len(backlog) <= BCap
\* a parked Read is not left parked when data, a close or EOF is there
ReadNotStuck == Quiescent /\ pr # <<>> => ReadOf(pr[1], <<pr[2], pr[3]>>, pr[4]).kind = "block"

\* the adapter never ends a session while the listener is open (unless its client went away) ...
NoPrematureEnd == \A c \in Sess : S[c].sv = "closed" => S[c].cl = "closed" \/ lclosed
\* ... and never while a conn it handed out is open: such a conn keeps working (its session is up) unless the client
\* went away (dead = the conn was wrapped out of the accept channel of a session that had already ended)
HeldStaysUsable == \A s \in Str : T[s].wrap = "held" /\ ~T[s].wcl /\ ~T[s].dead /\ S[s[1]].cl = "up" => S[s[1]].sv = "up"
\* the wg.Wait() goroutine only fires when the listener's reference is gone
WaiterOnlyAfterClose == \A c \in Sess : S[c].waiter = "fired" => lclosed \/ S[c].cl = "closed"

AllHeldClosed(c) == \A k \in Slots : T[<<c, k>>].wrap = "held" => T[<<c, k>>].wcl /\ k \notin Closing(c)
\* classifier of the known finding "backlog-orphan": a stream wrapped by the adapter that Accept never returned
Orphan(c) == \E k \in Slots : T[<<c, k>>].wrap \in {"hold", "backlog", "dropped"} /\ ~T[<<c, k>>].wcl
\* closing the listener lets a session end once its surfaced connections are closed
SessionEnds == Quiescent => \A c \in Sess : S[c].reg = "done" /\ lclosed /\ AllHeldClosed(c) => S[c].sv = "closed"
SessionEndsModuloOrphan ==
   Quiescent => \A c \in Sess : S[c].reg = "done" /\ lclosed /\ AllHeldClosed(c) /\ ~Orphan(c) => S[c].sv = "closed"

\* state constraint used to cut the known-finding class out of an exploration
NoOrphanAtClose == ~(lclosed /\ \E c \in Sess : Orphan(c))

\* bound for the interleaved exploration (channels cannot grow beyond the writes that are allowed anyway)
TypeOK == /\ lclosed \in BOOLEAN /\ acc \in {"idle", "wait"}
          /\ \A c \in Sess : S[c].wg \in -2..(NK + 2)
=============================================================================
