-------------------------- MODULE Trace_HotRestart --------------------------
(* Trace validation (binding B3) for HotRestart: every line of an NDJSON trace recorded from FREE-RUNNING executions  *)
(* of the real code (hooks `verifTrace`, build tag verif; no interception, real timing) must be a step of HotRestart *)
(* with the logged parameters and, where the hook logs a value (ack count, epochs, new session), the logged effect.   *)
(* Events are ordered by one global sequence number drawn inside the hook, i.e. under the lock protecting the state   *)
(* and before the step's first socket write. Sessions are numbered in creation order by the recorder, like nextId.    *)
(* Several executions are concatenated; a "reset" line starts a new one (its field t lists the pools whose watcher    *)
(* had not yet reached its select when recording began: they start in "pick").                                        *)
(* The old listener's notification set is taken from the trace (the LNotify lines of that call): the server's view of *)
(* which sessions are open may lag behind the client's (deviation D2), so only T \subseteq {old, default} is checked. *)
EXTENDS HotRestart, Json, TracePath
VARIABLE l
Trace == ndJsonDeserialize(TracePath)
tvars == <<vars, l>>
E == Trace[l]
Is(name) == l <= Len(Trace) /\ E.ev = name /\ l' = l + 1
Same == UNCHANGED vars
SetOfSeq(q) == {q[k] : k \in 1..Len(q)}

TInit == Init /\ l = 1
TReset == /\ Is("reset")
          /\ nextId' = NP + 1
          /\ sess' = [i \in SessIds |-> IF i <= NP THEN [epoch |-> 0, srv |-> "old", alive |-> TRUE, sstate |-> "def", pool |-> i] ELSE Blank]
          /\ s2c' = [i \in SessIds |-> <<>>] /\ c2s' = [i \in SessIds |-> <<>>]
          /\ lstate' = "def" /\ lepoch' = 0 /\ ack' = 0 /\ hrCalls' = 0 /\ oldUp' = TRUE /\ newUp' = "no"
          /\ mstate' = "def" /\ mepoch' = 0 /\ cur' = [p \in Pools |-> p] /\ reserve' = [p \in Pools |-> NoSess] /\ closed' = "no"
          /\ wpc' = [p \in Pools |-> IF p \in SetOfSeq(E.t) THEN "pick" ELSE "watch"] /\ wsess' = [p \in Pools |-> p]
          /\ tq' = <<>> /\ dies' = 0 /\ injs' = 0 /\ kf' = {} /\ idAtClose' = 0 /\ gone' = {}

\* ---- old listener
TLBegin == /\ Is("LBegin")
           /\ LET T == SetOfSeq(E.t) IN
                /\ T \subseteq {i \in 1..(nextId-1) : sess[i].srv = "old" /\ sess[i].sstate = "def"}
                /\ LHotRestartT(E.a, T)
TLNotify == Is("LNotify") /\ Same /\ sess[E.s].sstate = "hot" /\ sess[E.s].srv = "old" /\ lepoch = E.a
TLEnd == Is("LEnd") /\ Same /\ lstate = "hot" /\ lepoch = E.a /\ ack = E.b
TLAck == Is("LAck") /\ LAck(E.s) /\ Head(c2s[E.s]) = E.a /\ ack' = E.b
TLDone == Is("LDone") /\ LCheckTick /\ lepoch = E.a
TLTimeout == Is("LTimeout") /\ LTimeout
TLClose == Is("LClose") /\ OldServerExits
TNew == Is("NewServerStarts") /\ NewServerStarts
\* ---- session manager
TMIgnore == /\ Is("MIgnore") /\ Head(s2c[E.s]) = E.a
            /\ (MOnHR(E.s) \/ MIgnoreClosing(E.s))
            /\ UNCHANGED <<mstate, mepoch, cur, reserve, nextId>>
TMRepeat == Is("MRepeat") /\ MOnHR(E.s) /\ Head(s2c[E.s]) = E.a /\ UNCHANGED <<cur, reserve, nextId>> /\ mepoch' = E.a
TMConnFail == Is("MConnFail") /\ MOnHR(E.s) /\ Head(s2c[E.s]) = E.a /\ nextId' = nextId /\ Connect = "none" /\ mepoch' = E.a
TMSwapOn == Is("MSwapOn") /\ MOnHR(E.s) /\ Head(s2c[E.s]) = E.a /\ nextId' = nextId + 1 /\ mepoch' = E.a
TMSwap == Is("MSwap") /\ Same /\ E.s = nextId - 1 /\ cur[E.b + 1] = E.s /\ sess[E.s].epoch = E.a /\ reserve[E.b + 1] # NoSess
TMDone == Is("MDone") /\ MCheckDone /\ mepoch = E.a
TMTimeout == Is("MTimeout") /\ MTimeout
\* ---- watchers
TWPick == Is("WPick") /\ WPick(E.a + 1) /\ cur[E.a + 1] = E.s
TWLost == Is("WLost") /\ WLost(E.a + 1) /\ ((E.b = 1) <=> (mstate = "hot"))
TWSkip == Is("WSkip") /\ WRebuild(E.a + 1) /\ nextId' = nextId
TWFail == /\ Is("WFail") /\ Connect = "none" /\ sess[cur[E.a + 1]].epoch = sess[wsess[E.a + 1]].epoch
          /\ (WRetry(E.a + 1) \/ (Same /\ wpc[E.a + 1] = "retry"))
TWConn == Is("WConn") /\ WRebuild(E.a + 1) /\ nextId' = nextId + 1 /\ E.s = nextId
TWExit == Is("WExit") /\ WExit(E.a + 1)
TSMClose == Is("SMClose") /\ SMClose
TSMClosed == Is("SMClosed") /\ SMCloseFin
\* ---- a client session is closed (by the peer's death, by the manager, by a fault)
TSClose == /\ Is("SClose") /\ sess' = Kill({E.s})
           /\ UNCHANGED <<nextId,s2c,c2s,lstate,lepoch,ack,hrCalls,oldUp,newUp,mstate,mepoch,cur,reserve,closed,wpc,wsess,tq,dies,injs,kf,idAtClose,gone>>

\* once an execution has entered a listed known-finding class its remaining events are outside the claim: skipped
TSkip == /\ l <= Len(Trace) /\ E.ev # "reset" /\ ~NotPruned /\ l' = l + 1 /\ Same

TraceNext == \/ TSkip \/ TReset \/ TLBegin \/ TLNotify \/ TLEnd \/ TLAck \/ TLDone \/ TLTimeout \/ TLClose \/ TNew
             \/ TMIgnore \/ TMRepeat \/ TMConnFail \/ TMSwapOn \/ TMSwap \/ TMDone \/ TMTimeout
             \/ TWPick \/ TWLost \/ TWSkip \/ TWFail \/ TWConn \/ TWExit \/ TSMClose \/ TSMClosed \/ TSClose
TraceSpec == TInit /\ [][TraceNext]_tvars

TraceAccepted == LET d == TLCGet("stats").diameter IN
                   IF d - 1 = Len(Trace) THEN TRUE
                   ELSE Print(<<"TRACE-REJECTED-AT-LINE", d, Trace[d]>>, FALSE)
\* the safety properties, evaluated on every state of the real executions (states inside a listed finding class excluded)
T_AckNonNeg == K_AckNonNeg
T_DoneMeansAllAcked == K_DoneMeansAllAcked
T_CompletedMeansSwapped == K_CompletedMeansSwapped
T_NoOrphan == K_NoOrphan
T_AfterCloseNoNew == K_AfterCloseNoNew
=============================================================================
