----------------------------- MODULE Lifecycle -----------------------------
(* Life cycle of ONE end of a session (the "survivor" under test) against an abstract peer.                             *)
(* Shaped after the code (session.go, stream.go, event_dispatcher_linux.go, buffer_manager.go, queue.go):                *)
(*  Session.Close   : CAS shutdown 0->1 (loser returns nil) . shutdownErr := ErrSessionShutdown if still nil (under      *)
(*                    shutdownLock) . safeCloseNotify on every stream of the table (closeNotifyCh, state untouched) .    *)
(*                    close(shutdownCh) . dispatcher.post(teardown).  One action per step: c_cas c_err c_notify c_chan   *)
(*                    c_post, executed by a user goroutine (Closers), by the event loop (exitErr after RDHUP) or by a    *)
(*                    writer whose socket write failed (writeEventData -> exitErr).                                      *)
(*  exitErr         : shutdownErr := err if still nil, then Close.                                                       *)
(*  event loop      : Events = one epoll_wait + handleEvent: RDHUP/EOF -> onRemoteClose -> exitErr, then deferredClose   *)
(*                    (isClose := 1, wake blocked writers, post(fd close)); unread socket data is dropped.  Otherwise    *)
(*                    the polling event drains the receive queue: data -> pendingData of the stream (+ wake reader /     *)
(*                    start the callback goroutine), close element -> halfClose.  Lambdas = runLambda: the batch posted  *)
(*                    so far; lambdas posted meanwhile wait for the next batch.                                          *)
(*  teardown lambda : eventConn.close (deferredClose) . streams := nil (snapshot) . for every stream of the snapshot:     *)
(*                    Stream.Close + asyncGoroutineWg.Wait . drop the buffer-manager reference (unmap at 0) . unmap the   *)
(*                    queue, queueManager := nil.                                                                         *)
(*  Stream.Close    : callbacks set -> callbackCloseState := waitExit; callbackInProcess = 1 -> state open->half and      *)
(*                    return (the callback goroutine finishes the close); else close(): state -> closed, clean (leave     *)
(*                    the table, recycle buffers); if it was open: closeNotify, OnRemoteClose (session closed) or         *)
(*                    OnLocalClose, and (session open) tell the peer: close element on the queue + wakeUpPeer.            *)
(*  Stream.Flush    : (the user first writes one byte into the BufferWriter: allocShmBuffer touches the mapped buffer     *)
(*                    memory) check state (s_chk) . queue put + wakeUpPeer (s_put): CAS working flag, if won write a polling     *)
(*                    event; a failed write calls exitErr from the writer's goroutine and Flush still returns nil.        *)
(*  pending calls   : reader parked in readMore (recvNotifyCh | closeNotifyCh), AcceptStream parked on acceptCh |         *)
(*                    shutdownCh, a fallback Flush parked in waitForSendErr while the send loop is blocked in write on    *)
(*                    EAGAIN (onWriteReadyCh).                                                                            *)
(* Named deviations:                                                                                                     *)
(*  D1 the peer is abstract: PeerSend / PeerCloseStream / PeerDrain / PeerDies.  A graceful Session.Close of the peer,   *)
(*     a SIGKILL of the peer process and shutdown(2) of the socket all look the same to this end (RDHUP) = PeerDies.      *)
(*  D2 every message is one byte in one shared-memory buffer; a reader reads one message; OnData blocks until released    *)
(*     (CbRelease) and then consumes everything pending.                                                                  *)
(*  D3 CbRelease folds "OnData returns . callbackInProcess := 0 . Done . deferred close()" into one step; in the code     *)
(*     the deferred close runs after Done, i.e. possibly after the teardown went on to unmap (see NOTES, not explored).   *)
(*  D4 Stream.Close by the user is one step (no interleaving inside clean()); a user never closes a stream whose          *)
(*     callback is running (that class belongs to C10/C20).                                                               *)
(*  D6 the user closes a stream locally only when no data for it is in flight (a server end re-creates the stream when    *)
(*     data arrives for an id it no longer knows: class server-recreates-closed-stream of C10); D7 when data and the      *)
(*     peer's close of the same stream are handled in one drain the callback goroutine (started through gopool) finds    *)
(*     the stream half-closed and never calls OnData (C20's finding); the opposite order is possible in the code.        *)
(*  D8 streams that appear late (LateStreams = {L1, L2}, server end with a ListenCallback): the peer opens both, the event  *)
(*     loop's drain registers L1 and blocks inside the user's OnNewStream(L1) (DrainBegin) - Close may run meanwhile -,   *)
(*     after NsRelease the same drain delivers L1's data, registers L2 (s.streams is still non-nil: the teardown runs on   *)
(*     the same goroutine later) and delivers its data (DrainEnd).  L2 is thus registered between Close() and the         *)
(*     teardown lambda; the lambda takes the table when it RUNS, so it closes L2 as well.                                 *)
(*  D9 "flush-in-retry": the peer is stalled, the user fills the send queue (on an extra stream that is not in Streams) and   *)
(*     one more Flush sits in the retry loop `select { retryTimer | writeDeadline | closeNotifyCh }` (10 x 10 ms).  It is   *)
(*     released by Session.Close's notification of the streams (CloseNotify) with ErrStreamClosed, or it gives up by       *)
(*     itself (RetryExpire, ErrQueueFull).  RetryWoken = FALSE models a select without the closeNotifyCh arm: the next      *)
(*     retry after the teardown dereferences the nil queue manager / the cleaned send buffer ("fault").  While the queue    *)
(*     is full no other Flush / user Stream.Close / fallback flush is part of the workload.                                 *)
(*  D10 writer call sequences on a stream of a shut-down session (Reserve x2, WriteBytes.Reserve, Reserve.WriteString ...,   *)
(*     each followed by Flush) are one action WriteSeq: nothing is allocated from the shared memory of a closed session      *)
(*     (FixedReserve), so the result is "ok" (the Flush then fails); FixedReserve = FALSE models an allocation path without  *)
(*     the check: "fault" once the buffer-manager reference is dropped.                                                      *)
(*  D5 the buffer-manager reference is per end ("held"/"released"); whether the mapping goes away depends on the other    *)
(*     holders in the same process and is decided by the census of the harness.                                           *)
(* Constant Atomic = TRUE restricts the scheduler to run every procedure to completion (or until it blocks): these are    *)
(* the behaviours that can be replayed 1:1 on the real code with a harness-driven event loop.  Atomic = FALSE is the      *)
(* design check over every interleaving of the steps.                                                                     *)
EXTENDS Integers, Sequences, FiniteSets, TLC
CONSTANTS Streams, CbStreams, Closers, Atomic, MaxSend, MaxPeerClose, WithAccept, WithFlush,
          LateStreams,             \* {} or two streams that do not exist at the start (D8)
          WithRetry,               \* a Flush parked inside its queue-full retry loop is part of the workload (D9)
          RetryWoken,              \* TRUE = the code: the retry loop's select has the closeNotifyCh arm
          WithSeq,                 \* multi-step writer call sequences on a stream of a shut-down session (D10)
          FixedReserve,            \* TRUE = the code: every allocation path of the BufferWriter checks Session.IsClosed()
          FixedOpen, FixedFlush,   \* TRUE = the code after the fix: commits a49166e (OpenStream) and 075bc66 (Flush / alloc)
          MaxOps       \* bound on the number of user / peer operations of one behaviour (the workload length)

Threads == Closers \cup {"loop", "w"}
Idle(p) == p \in {"idle", "done"}

VARIABLES shutdown,   \* Session.shutdown
          serr,       \* Session.shutdownErr: "nil" | "user" (ErrSessionShutdown) | "reset" (anything else)
          shutCh,     \* shutdownCh closed
          pc, ret,    \* per thread: position, and where Close returns to
          lambdas,    \* dispatcher.pendingLambda
          batch,      \* dispatcher.runningLambda (rest of the batch being executed)
          conn,       \* "open" | "closing" (isClose = 1, descriptor still registered) | "closed" (descriptor closed)
          link,       \* "up" | "down"
          hup,        \* RDHUP not yet seen by this end's loop
          inbox,      \* elements on the receive queue announced by a polling event: <<"d"|"c", stream>>
          flag,       \* working flag of the send queue
          st, inTable, tableNil, notified, cbBusy, waitExit, cbL, cbR, unread,
          peerClosed, \* the peer has closed its end of the stream
          rd,         \* reader: "idle" | "parked" | "data" | "eos" | "closed"
          fl,         \* parked fallback flush: "idle" | "parked" | "err"
          acc,        \* AcceptStream: "idle" | "parked" | "err"
          bm, qm,     \* "held" | "released" ; "mapped" | "unmapped"
          sendLoop,   \* "run" | "exit"
          snap, cur,  \* teardown: streams still to close, stream being closed
          ws,         \* stream of the writer thread's current call
          tdRuns, nsent, npc,
          nops,       \* user / peer operations so far
          nsBusy,     \* the event loop is inside the user's OnNewStream (D8)
          fr,         \* a Flush inside its queue-full retry loop: "idle" | "parked" | "err" | "fault" (D9)
          qfull,      \* the send queue is full (the peer is stalled)
          lastSeq,    \* writer call sequence on a shut-down session: "none" | "ok" | "fault" (D10)
          lastOpen,   \* OpenStream after shutdown = 1: "none" | "err" | "nilnil"
          lastSend,   \* last Flush: "none" | "ok" | "err" | "fault";  sendLate = it started when shutdown was already 1
          sendLate,
          openAtDeath,\* ghost: streams that were open (not half, not closed) when shutdown became 1
          kf          \* ghost: set of known-finding classes this execution belongs to

vars == <<shutdown, serr, shutCh, pc, ret, lambdas, batch, conn, link, hup, inbox, flag, st, inTable, tableNil, notified,
          cbBusy, waitExit, cbL, cbR, unread, peerClosed, rd, fl, acc, bm, qm, sendLoop, snap, cur, ws, tdRuns, nsent, npc,
          nops, nsBusy, fr, qfull, lastSeq, lastOpen, lastSend, sendLate, openAtDeath, kf>>

L1 == CHOOSE s \in LateStreams : \A t \in LateStreams : s <= t
L2 == CHOOSE s \in LateStreams : \A t \in LateStreams : s >= t

Init == /\ shutdown = 0 /\ serr = "nil" /\ shutCh = FALSE
        /\ pc = [t \in Threads |-> "idle"] /\ ret = [t \in Threads |-> "idle"]
        /\ lambdas = <<>> /\ batch = <<>> /\ conn = "open" /\ link = "up" /\ hup = FALSE /\ inbox = <<>> /\ flag = 0
        /\ st = [s \in Streams |-> IF s \in LateStreams THEN "none" ELSE "open"]
        /\ inTable = [s \in Streams |-> s \notin LateStreams] /\ tableNil = FALSE /\ nsBusy = FALSE
        /\ fr = "idle" /\ qfull = FALSE /\ lastSeq = "none"
        /\ notified = [s \in Streams |-> FALSE] /\ cbBusy = [s \in Streams |-> FALSE]
        /\ waitExit = [s \in Streams |-> FALSE] /\ cbL = [s \in Streams |-> 0] /\ cbR = [s \in Streams |-> 0]
        /\ unread = [s \in Streams |-> 0] /\ peerClosed = [s \in Streams |-> FALSE]
        /\ rd = [s \in Streams |-> "idle"] /\ fl = "idle" /\ acc = "idle"
        /\ bm = "held" /\ qm = "mapped" /\ sendLoop = "run" /\ snap = {} /\ cur = 0 /\ ws = 0
        /\ tdRuns = 0 /\ nsent = 0 /\ npc = 0 /\ nops = 0 /\ lastOpen = "none" /\ lastSend = "none" /\ sendLate = FALSE
        /\ openAtDeath = {} /\ kf = {}

Blocked(t) == t = "loop" /\ ((pc[t] = "t_wait" /\ cbBusy[cur]) \/ (pc[t] = "e_wait" /\ nsBusy))
Quiet == \A u \in Threads : Idle(pc[u]) \/ Blocked(u)
Start == Atomic => Quiet
Step(t) == Atomic => \A u \in Threads \ {t} : Idle(pc[u]) \/ Blocked(u)

\* the reader of a stream whose closeNotifyCh has just been closed wakes up: end of stream if half-closed, else closed
Op == nops < MaxOps /\ nops' = nops + 1
Woken(s, state) == IF state = "half" THEN "eos" ELSE "closed"

-----------------------------------------------------------------------------
\* Stream.close(): effect on the per-stream variables; sd = value of Session.IsClosed() seen by the callback choice
CloseStreamVars(s, sd) ==
    LET old == st[s] IN
    /\ st' = [st EXCEPT ![s] = "closed"]
    /\ inTable' = [inTable EXCEPT ![s] = IF tableNil THEN @ ELSE FALSE]
    /\ unread' = [unread EXCEPT ![s] = 0]
    /\ notified' = [notified EXCEPT ![s] = @ \/ old = "open"]
    /\ cbR' = [cbR EXCEPT ![s] = IF old = "open" /\ s \in CbStreams /\ sd THEN @ + 1 ELSE @]
    /\ cbL' = [cbL EXCEPT ![s] = IF old = "open" /\ s \in CbStreams /\ ~sd THEN @ + 1 ELSE @]
    /\ rd' = [rd EXCEPT ![s] = IF @ = "parked" /\ old = "open" THEN "closed" ELSE @]

-----------------------------------------------------------------------------
\* peer / environment (D1)
PeerSend(s) == /\ Start /\ Op /\ link = "up" /\ nsent < MaxSend /\ st[s] = "open" /\ ~peerClosed[s] /\ shutdown = 0
               /\ inbox' = Append(inbox, <<"d", s>>) /\ nsent' = nsent + 1
               /\ UNCHANGED <<shutdown, serr, shutCh, pc, ret, lambdas, batch, conn, link, hup, flag, st, inTable, tableNil,
                              notified, cbBusy, waitExit, cbL, cbR, unread, peerClosed, rd, fl, acc, bm, qm, sendLoop, snap,
                              cur, ws, tdRuns, npc, lastOpen, lastSend, sendLate, openAtDeath, kf, nsBusy, fr, qfull, lastSeq>>

PeerCloseStream(s) == /\ Start /\ Op /\ link = "up" /\ npc < MaxPeerClose /\ ~peerClosed[s] /\ st[s] = "open" /\ shutdown = 0
                      /\ inbox' = Append(inbox, <<"c", s>>) /\ peerClosed' = [peerClosed EXCEPT ![s] = TRUE]
                      /\ npc' = npc + 1
                      /\ UNCHANGED <<shutdown, serr, shutCh, pc, ret, lambdas, batch, conn, link, hup, flag, st, inTable,
                                     tableNil, notified, cbBusy, waitExit, cbL, cbR, unread, rd, fl, acc, bm, qm, sendLoop,
                                     snap, cur, ws, tdRuns, nsent, lastOpen, lastSend, sendLate, openAtDeath, kf, nsBusy, fr, qfull, lastSeq>>

PeerDrain == /\ Start /\ Op /\ link = "up" /\ flag = 1 /\ shutdown = 0 /\ conn = "open" /\ fl # "parked" /\ fr # "parked"
             /\ qfull' = FALSE
             /\ flag' = 0
             /\ UNCHANGED <<shutdown, serr, shutCh, pc, ret, lambdas, batch, conn, link, hup, inbox, st, inTable, tableNil,
                            notified, cbBusy, waitExit, cbL, cbR, unread, peerClosed, rd, fl, acc, bm, qm, sendLoop, snap,
                            cur, ws, tdRuns, nsent, npc, lastOpen, lastSend, sendLate, openAtDeath, kf, nsBusy, fr, lastSeq>>

PeerDies == /\ Start /\ link = "up"
            /\ link' = "down" /\ hup' = (conn # "closed")
            /\ UNCHANGED <<shutdown, serr, shutCh, pc, ret, lambdas, batch, conn, inbox, flag, st, inTable, tableNil,
                           notified, cbBusy, waitExit, cbL, cbR, unread, peerClosed, rd, fl, acc, bm, qm, sendLoop, snap,
                           cur, ws, tdRuns, nsent, npc, lastOpen, lastSend, sendLate, openAtDeath, kf, nops, nsBusy, fr, qfull, lastSeq>>

-----------------------------------------------------------------------------
\* pending calls of the user
ParkRead(s) == /\ Start /\ Op /\ s \notin CbStreams /\ rd[s] = "idle" /\ st[s] # "none"
               /\ IF unread[s] > 0
                    THEN rd' = [rd EXCEPT ![s] = "data"] /\ unread' = [unread EXCEPT ![s] = @ - 1]
                    ELSE /\ unread' = unread
                         /\ rd' = [rd EXCEPT ![s] = IF st[s] = "half" THEN "eos"
                                                    ELSE IF st[s] = "closed" \/ notified[s] THEN "closed" ELSE "parked"]
               /\ UNCHANGED <<shutdown, serr, shutCh, pc, ret, lambdas, batch, conn, link, hup, inbox, flag, st, inTable,
                              tableNil, notified, cbBusy, waitExit, cbL, cbR, peerClosed, fl, acc, bm, qm, sendLoop, snap,
                              cur, ws, tdRuns, nsent, npc, lastOpen, lastSend, sendLate, openAtDeath, kf, nsBusy, fr, qfull, lastSeq>>

ParkAccept == /\ Start /\ Op /\ WithAccept /\ acc = "idle"
              /\ acc' = IF shutCh THEN "err" ELSE "parked"
              /\ UNCHANGED <<shutdown, serr, shutCh, pc, ret, lambdas, batch, conn, link, hup, inbox, flag, st, inTable,
                             tableNil, notified, cbBusy, waitExit, cbL, cbR, unread, peerClosed, rd, fl, bm, qm, sendLoop,
                             snap, cur, ws, tdRuns, nsent, npc, lastOpen, lastSend, sendLate, openAtDeath, kf, nsBusy, fr, qfull, lastSeq>>

\* a fallback Flush large enough to fill the socket (the peer is not reading): the send loop blocks on EAGAIN
ParkFlush == /\ Start /\ Op /\ WithFlush /\ fl = "idle" /\ shutdown = 0 /\ conn = "open" /\ link = "up" /\ ~qfull
             /\ fl' = "parked"
             /\ UNCHANGED <<shutdown, serr, shutCh, pc, ret, lambdas, batch, conn, link, hup, inbox, flag, st, inTable,
                            tableNil, notified, cbBusy, waitExit, cbL, cbR, unread, peerClosed, rd, acc, bm, qm, sendLoop,
                            snap, cur, ws, tdRuns, nsent, npc, lastOpen, lastSend, sendLate, openAtDeath, kf, nsBusy, fr, qfull, lastSeq>>

\* OnData returns (D2, D3)
CbRelease(s) ==
    /\ Start /\ cbBusy[s]
    /\ cbBusy' = [cbBusy EXCEPT ![s] = FALSE]
    /\ IF waitExit[s] /\ st[s] # "closed"
         THEN /\ CloseStreamVars(s, shutdown = 1)
              /\ kf' = IF st[s] = "half" /\ cbL[s] + cbR[s] = 0
                         THEN kf \cup {"no-close-callback-when-busy"} ELSE kf
         ELSE /\ unread' = [unread EXCEPT ![s] = 0]     \* the running OnData reads everything that has arrived (D2)
              /\ UNCHANGED <<st, inTable, notified, cbR, cbL, rd, kf>>
    /\ UNCHANGED <<shutdown, serr, shutCh, pc, ret, lambdas, batch, conn, link, hup, inbox, flag, tableNil, waitExit,
                   peerClosed, fl, acc, bm, qm, sendLoop, snap, cur, ws, tdRuns, nsent, npc, lastOpen, lastSend, sendLate,
                   openAtDeath, nops, nsBusy, fr, qfull, lastSeq>>

\* OpenStream once the session is shut down: reads shutdownErr under shutdownLock and falls back to ErrSessionShutdown
\* while Close is between its CAS and the store of shutdownErr (fix a49166e; before it the result was (nil, nil)).
\* FixedOpen = FALSE models the code before the fix (regression lead: ErrorKnown is then violated).
\* (a49166e made OpenStream take shutdownLock, which the teardown lambda holds also while it waits for a running callback;
\* f060076 removed the lock again: TryOpen is enabled in every state with shutdown = 1)
InTeardown == pc["loop"] \in {"t_conn", "t_table", "t_stream", "t_wait", "t_bm", "t_q"}
TryOpen == /\ Start /\ Op /\ shutdown = 1 /\ lastOpen = "none"
           /\ lastOpen' = IF serr = "nil" /\ ~FixedOpen THEN "nilnil" ELSE "err"
           /\ kf' = IF serr = "nil" /\ ~FixedOpen THEN kf \cup {"open-nil-nil"} ELSE kf
           /\ UNCHANGED <<shutdown, serr, shutCh, pc, ret, lambdas, batch, conn, link, hup, inbox, flag, st, inTable,
                          tableNil, notified, cbBusy, waitExit, cbL, cbR, unread, peerClosed, rd, fl, acc, bm, qm, sendLoop,
                          snap, cur, ws, tdRuns, nsent, npc, lastSend, sendLate, openAtDeath, nsBusy, fr, qfull, lastSeq>>

-----------------------------------------------------------------------------
\* Session.Close, one action per step, thread t
CloseCall(c) == /\ Start /\ c \in Closers /\ pc[c] = "idle"
                /\ pc' = [pc EXCEPT ![c] = "c_cas"] /\ ret' = [ret EXCEPT ![c] = "done"]
                /\ UNCHANGED <<shutdown, serr, shutCh, lambdas, batch, conn, link, hup, inbox, flag, st, inTable, tableNil,
                               notified, cbBusy, waitExit, cbL, cbR, unread, peerClosed, rd, fl, acc, bm, qm, sendLoop,
                               snap, cur, ws, tdRuns, nsent, npc, lastOpen, lastSend, sendLate, openAtDeath, kf, nops, nsBusy, fr, qfull, lastSeq>>

ExitSetErr(t) == /\ Step(t) /\ pc[t] = "x_err"
                 /\ serr' = IF serr = "nil" THEN "reset" ELSE serr
                 /\ pc' = [pc EXCEPT ![t] = "c_cas"]
                 /\ UNCHANGED <<shutdown, shutCh, ret, lambdas, batch, conn, link, hup, inbox, flag, st, inTable, tableNil,
                                notified, cbBusy, waitExit, cbL, cbR, unread, peerClosed, rd, fl, acc, bm, qm, sendLoop,
                                snap, cur, ws, tdRuns, nsent, npc, lastOpen, lastSend, sendLate, openAtDeath, kf, nops, nsBusy, fr, qfull, lastSeq>>

CloseCAS(t) == /\ Step(t) /\ pc[t] = "c_cas"
               /\ IF shutdown = 0
                    THEN /\ shutdown' = 1 /\ pc' = [pc EXCEPT ![t] = "c_err"]
                         /\ openAtDeath' = {s \in Streams : st[s] = "open"}
                    ELSE /\ pc' = [pc EXCEPT ![t] = ret[t]] /\ UNCHANGED <<shutdown, openAtDeath>>
               /\ UNCHANGED <<serr, shutCh, ret, lambdas, batch, conn, link, hup, inbox, flag, st, inTable, tableNil,
                              notified, cbBusy, waitExit, cbL, cbR, unread, peerClosed, rd, fl, acc, bm, qm, sendLoop, snap,
                              cur, ws, tdRuns, nsent, npc, lastOpen, lastSend, sendLate, kf, nops, nsBusy, fr, qfull, lastSeq>>

CloseErr(t) == /\ Step(t) /\ pc[t] = "c_err"
               /\ serr' = IF serr = "nil" THEN "user" ELSE serr
               /\ pc' = [pc EXCEPT ![t] = "c_notify"]
               /\ UNCHANGED <<shutdown, shutCh, ret, lambdas, batch, conn, link, hup, inbox, flag, st, inTable, tableNil,
                              notified, cbBusy, waitExit, cbL, cbR, unread, peerClosed, rd, fl, acc, bm, qm, sendLoop, snap,
                              cur, ws, tdRuns, nsent, npc, lastOpen, lastSend, sendLate, openAtDeath, kf, nops, nsBusy, fr, qfull, lastSeq>>

CloseNotify(t) == /\ Step(t) /\ pc[t] = "c_notify"
                  /\ notified' = [s \in Streams |-> notified[s] \/ (inTable[s] /\ ~tableNil)]
                  /\ rd' = [s \in Streams |-> IF rd[s] = "parked" /\ inTable[s] /\ ~tableNil THEN Woken(s, st[s]) ELSE rd[s]]
                  /\ fr' = IF fr = "parked" /\ RetryWoken /\ ~tableNil THEN "err" ELSE fr    \* closeNotifyCh of the extra stream (D9)
                  /\ pc' = [pc EXCEPT ![t] = "c_chan"]
                  /\ UNCHANGED <<shutdown, serr, shutCh, ret, lambdas, batch, conn, link, hup, inbox, flag, st, inTable,
                                 tableNil, cbBusy, waitExit, cbL, cbR, unread, peerClosed, fl, acc, bm, qm, sendLoop, snap,
                                 cur, ws, tdRuns, nsent, npc, lastOpen, lastSend, sendLate, openAtDeath, kf, nops, nsBusy, qfull, lastSeq>>

CloseChan(t) == /\ Step(t) /\ pc[t] = "c_chan"
                /\ shutCh' = TRUE /\ sendLoop' = IF fl = "parked" /\ conn = "open" THEN sendLoop ELSE "exit"
                /\ acc' = IF acc = "parked" THEN "err" ELSE acc
                /\ fl' = IF fl = "parked" THEN "err" ELSE fl   \* the caller returns; the send loop itself stays blocked
                /\ pc' = [pc EXCEPT ![t] = "c_post"]
                /\ UNCHANGED <<shutdown, serr, ret, lambdas, batch, conn, link, hup, inbox, flag, st, inTable, tableNil,
                               notified, cbBusy, waitExit, cbL, cbR, unread, peerClosed, rd, bm, qm, snap, cur, ws,
                               tdRuns, nsent, npc, lastOpen, lastSend, sendLate, openAtDeath, kf, nops, nsBusy, fr, qfull, lastSeq>>

ClosePost(t) == /\ Step(t) /\ pc[t] = "c_post"
                /\ lambdas' = Append(lambdas, "teardown")
                /\ pc' = [pc EXCEPT ![t] = ret[t]]
                /\ UNCHANGED <<shutdown, serr, shutCh, ret, batch, conn, link, hup, inbox, flag, st, inTable, tableNil,
                               notified, cbBusy, waitExit, cbL, cbR, unread, peerClosed, rd, fl, acc, bm, qm, sendLoop,
                               snap, cur, ws, tdRuns, nsent, npc, lastOpen, lastSend, sendLate, openAtDeath, kf, nops, nsBusy, fr, qfull, lastSeq>>

\* connEventHandler.deferredClose: wakes a writer blocked on EAGAIN, posts the descriptor close
DeferredCloseVars == IF conn = "open"
                       THEN /\ conn' = "closing" /\ lambdas' = Append(lambdas, "fdclose")
                            /\ sendLoop' = IF shutCh THEN "exit" ELSE sendLoop
                            /\ fl' = IF fl = "parked" THEN "err" ELSE fl
                       ELSE UNCHANGED <<conn, lambdas, sendLoop, fl>>

-----------------------------------------------------------------------------
\* event loop
\* one stream element of the receive queue handled by handlePolling
Deliver(e, S) ==   \* S = record of the per-stream variables, returns the updated record
    LET s == e[2] IN
    IF e[1] = "d"
      THEN IF S.st[s] \in {"open", "half"} /\ S.inT[s]
             THEN IF s \in CbStreams
                    THEN [S EXCEPT !.unread[s] = @ + 1, !.start[s] = TRUE]
                    ELSE IF S.rd[s] = "parked" THEN [S EXCEPT !.rd[s] = "data"] ELSE [S EXCEPT !.unread[s] = @ + 1]
             ELSE S
      ELSE IF S.st[s] = "open" /\ S.inT[s]
             THEN [S EXCEPT !.st[s] = "half", !.notified[s] = TRUE,
                            !.cbR[s] = IF s \in CbStreams THEN @ + 1 ELSE @,
                            !.rd[s] = IF @ = "parked" THEN "eos" ELSE @]
             ELSE S

RECURSIVE DeliverAll(_, _)
DeliverAll(q, S) == IF q = <<>> THEN S ELSE DeliverAll(Tail(q), Deliver(Head(q), S))

Events == /\ Start /\ pc["loop"] = "idle" /\ conn # "closed" /\ (hup \/ inbox # <<>>)
          /\ IF hup
               THEN /\ hup' = FALSE /\ inbox' = <<>>
                    /\ pc' = [pc EXCEPT !["loop"] = "x_err"] /\ ret' = [ret EXCEPT !["loop"] = "dc"]
                    /\ UNCHANGED <<st, notified, cbR, rd, unread, cbBusy>>
               ELSE /\ inbox' = <<>> /\ UNCHANGED <<hup, pc, ret>>
                    /\ IF shutdown = 1
                         THEN UNCHANGED <<st, notified, cbR, rd, unread, cbBusy>>
                         ELSE LET S == DeliverAll(inbox, [st |-> st, inT |-> [s \in Streams |-> inTable[s] /\ ~tableNil],
                                                          notified |-> notified, cbR |-> cbR, rd |-> rd,
                                                          unread |-> unread, start |-> [s \in Streams |-> FALSE]])
                              IN /\ st' = S.st /\ notified' = S.notified /\ cbR' = S.cbR /\ rd' = S.rd
                                 /\ unread' = S.unread
                                 \* the callback goroutine is started through gopool and looks at the state when it runs:
                                 \* a close element handled later in the same drain wins (the data is then never offered)
                                 /\ cbBusy' = [s \in Streams |-> cbBusy[s] \/ (S.start[s] /\ S.st[s] = "open")]
          /\ UNCHANGED <<shutdown, serr, shutCh, lambdas, batch, conn, link, flag, inTable, tableNil, waitExit, cbL,
                         peerClosed, fl, acc, bm, qm, sendLoop, snap, cur, ws, tdRuns, nsent, npc, lastOpen, lastSend,
                         sendLate, openAtDeath, kf, nops, nsBusy, fr, qfull, lastSeq>>

DeferredClose == /\ Step("loop") /\ pc["loop"] = "dc"
                 /\ DeferredCloseVars
                 /\ pc' = [pc EXCEPT !["loop"] = "idle"]
                 /\ UNCHANGED <<shutdown, serr, shutCh, ret, batch, link, hup, inbox, flag, st, inTable, tableNil, notified,
                                cbBusy, waitExit, cbL, cbR, unread, peerClosed, rd, acc, bm, qm, snap, cur, ws, tdRuns,
                                nsent, npc, lastOpen, lastSend, sendLate, openAtDeath, kf, nops, nsBusy, fr, qfull, lastSeq>>

Lambdas == /\ Start /\ pc["loop"] = "idle" /\ lambdas # <<>>
           /\ batch' = lambdas /\ lambdas' = <<>> /\ pc' = [pc EXCEPT !["loop"] = "l_next"]
           /\ UNCHANGED <<shutdown, serr, shutCh, ret, conn, link, hup, inbox, flag, st, inTable, tableNil, notified, cbBusy,
                          waitExit, cbL, cbR, unread, peerClosed, rd, fl, acc, bm, qm, sendLoop, snap, cur, ws, tdRuns,
                          nsent, npc, lastOpen, lastSend, sendLate, openAtDeath, kf, nops, nsBusy, fr, qfull, lastSeq>>

LNext == /\ Step("loop") /\ pc["loop"] = "l_next"
         /\ IF batch = <<>>
              THEN pc' = [pc EXCEPT !["loop"] = "idle"] /\ UNCHANGED <<batch, conn>>
              ELSE /\ batch' = Tail(batch)
                   /\ IF Head(batch) = "teardown"
                        THEN pc' = [pc EXCEPT !["loop"] = "t_conn"] /\ conn' = conn
                        ELSE pc' = pc /\ conn' = "closed"
         /\ UNCHANGED <<shutdown, serr, shutCh, ret, lambdas, link, hup, inbox, flag, st, inTable, tableNil, notified,
                        cbBusy, waitExit, cbL, cbR, unread, peerClosed, rd, fl, acc, bm, qm, sendLoop, snap, cur, ws, tdRuns,
                        nsent, npc, lastOpen, lastSend, sendLate, openAtDeath, kf, nops, nsBusy, fr, qfull, lastSeq>>

TdConn == /\ Step("loop") /\ pc["loop"] = "t_conn"
          /\ DeferredCloseVars
          /\ pc' = [pc EXCEPT !["loop"] = "t_table"]
          /\ UNCHANGED <<shutdown, serr, shutCh, ret, batch, link, hup, inbox, flag, st, inTable, tableNil, notified, cbBusy,
                         waitExit, cbL, cbR, unread, peerClosed, rd, acc, bm, qm, snap, cur, ws, tdRuns, nsent, npc,
                         lastOpen, lastSend, sendLate, openAtDeath, kf, nops, nsBusy, fr, qfull, lastSeq>>

TdTable == /\ Step("loop") /\ pc["loop"] = "t_table"
           /\ snap' = IF tableNil THEN {} ELSE {s \in Streams : inTable[s]}
           /\ tableNil' = TRUE
           /\ pc' = [pc EXCEPT !["loop"] = "t_stream"]
           /\ UNCHANGED <<shutdown, serr, shutCh, ret, lambdas, batch, conn, link, hup, inbox, flag, st, inTable, notified,
                          cbBusy, waitExit, cbL, cbR, unread, peerClosed, rd, fl, acc, bm, qm, sendLoop, cur, ws, tdRuns,
                          nsent, npc, lastOpen, lastSend, sendLate, openAtDeath, kf, nops, nsBusy, fr, qfull, lastSeq>>

\* Stream.Close() called by the teardown for one stream of the snapshot, then asyncGoroutineWg.Wait()
TdStream == /\ Step("loop") /\ pc["loop"] = "t_stream"
            /\ IF snap = {}
                 THEN /\ pc' = [pc EXCEPT !["loop"] = "t_bm"]
                      /\ UNCHANGED <<snap, cur, waitExit, st, inTable, unread, notified, cbR, cbL, rd>>
                 ELSE \E s \in snap :
                      /\ snap' = snap \ {s} /\ cur' = s
                      /\ waitExit' = [waitExit EXCEPT ![s] = @ \/ s \in CbStreams]
                      /\ pc' = [pc EXCEPT !["loop"] = "t_wait"]
                      /\ IF cbBusy[s]
                           THEN /\ st' = [st EXCEPT ![s] = IF @ = "open" THEN "half" ELSE @]
                                /\ UNCHANGED <<inTable, unread, notified, cbR, cbL, rd>>
                           ELSE IF st[s] = "closed"
                                  THEN UNCHANGED <<st, inTable, unread, notified, cbR, cbL, rd>>
                                  ELSE CloseStreamVars(s, TRUE)
            /\ UNCHANGED <<shutdown, serr, shutCh, ret, lambdas, batch, conn, link, hup, inbox, flag, tableNil, cbBusy,
                           peerClosed, fl, acc, bm, qm, sendLoop, ws, tdRuns, nsent, npc, lastOpen, lastSend, sendLate,
                           openAtDeath, kf, nops, nsBusy, fr, qfull, lastSeq>>

TdWait == /\ Step("loop") /\ pc["loop"] = "t_wait" /\ ~cbBusy[cur]
          /\ pc' = [pc EXCEPT !["loop"] = "t_stream"]
          /\ UNCHANGED <<shutdown, serr, shutCh, ret, lambdas, batch, conn, link, hup, inbox, flag, st, inTable, tableNil,
                         notified, cbBusy, waitExit, cbL, cbR, unread, peerClosed, rd, fl, acc, bm, qm, sendLoop, snap, cur,
                         ws, tdRuns, nsent, npc, lastOpen, lastSend, sendLate, openAtDeath, kf, nops, nsBusy, fr, qfull, lastSeq>>

TdBm == /\ Step("loop") /\ pc["loop"] = "t_bm"
        /\ bm' = "released" /\ pc' = [pc EXCEPT !["loop"] = "t_q"]
        /\ UNCHANGED <<shutdown, serr, shutCh, ret, lambdas, batch, conn, link, hup, inbox, flag, st, inTable, tableNil,
                       notified, cbBusy, waitExit, cbL, cbR, unread, peerClosed, rd, fl, acc, qm, sendLoop, snap, cur, ws,
                       tdRuns, nsent, npc, lastOpen, lastSend, sendLate, openAtDeath, kf, nops, nsBusy, fr, qfull, lastSeq>>

TdQueue == /\ Step("loop") /\ pc["loop"] = "t_q"
           /\ qm' = "unmapped" /\ tdRuns' = tdRuns + 1 /\ pc' = [pc EXCEPT !["loop"] = "l_next"]
           /\ UNCHANGED <<shutdown, serr, shutCh, ret, lambdas, batch, conn, link, hup, inbox, flag, st, inTable, tableNil,
                          notified, cbBusy, waitExit, cbL, cbR, unread, peerClosed, rd, fl, acc, bm, sendLoop, snap, cur, ws,
                          nsent, npc, lastOpen, lastSend, sendLate, openAtDeath, kf, nops, nsBusy, fr, qfull, lastSeq>>

-----------------------------------------------------------------------------
\* the writer thread "w": Stream.Flush of one message through shared memory, and Stream.Close by the user
\* Since 075bc66 Flush fails with ErrStreamClosed when the stream is not open OR the session is closed (written data is
\* given back), and a BufferWriter write on a closed session allocates from the heap instead of the (unmapped) shared memory.
\* FixedFlush = FALSE models the code before: the write after the teardown faults, a Flush in the window succeeds.
SendCheck(s) == /\ Start /\ Op /\ pc["w"] = "idle" /\ s \notin CbStreams /\ st[s] # "none" /\ ~qfull
                /\ ws' = s /\ sendLate' = (shutdown = 1)
                /\ IF bm = "released" /\ ~FixedFlush
                     THEN pc' = pc /\ lastSend' = "fault" /\ kf' = kf \cup {"write-after-teardown-faults"}
                     ELSE /\ kf' = kf
                          /\ IF st[s] = "open" /\ ~(FixedFlush /\ shutdown = 1)
                               THEN pc' = [pc EXCEPT !["w"] = "s_put"] /\ lastSend' = "none"
                               ELSE pc' = pc /\ lastSend' = "err"
                /\ UNCHANGED <<shutdown, serr, shutCh, ret, lambdas, batch, conn, link, hup, inbox, flag, st, inTable,
                               tableNil, notified, cbBusy, waitExit, cbL, cbR, unread, peerClosed, rd, fl, acc, bm, qm,
                               sendLoop, snap, cur, tdRuns, nsent, npc, lastOpen, openAtDeath, nsBusy, fr, qfull, lastSeq>>

\* queue put + wakeUpPeer.  A write on a connection that is closing / whose peer is gone fails: exitErr from this goroutine
\* (while the send loop sits in a blocked fallback write it holds `writing`: the polling event is only queued on sendCh)
WriteFails == conn # "open" \/ (link = "down" /\ fl # "parked")
SendPut == /\ Step("w") /\ pc["w"] = "s_put"
           /\ IF qm = "unmapped"
                THEN /\ lastSend' = "fault" /\ kf' = kf \cup {"stream-op-races-unmap"}
                     /\ pc' = [pc EXCEPT !["w"] = "idle"] /\ UNCHANGED <<flag, ret>>
                ELSE /\ lastSend' = "ok"
                     /\ kf' = IF sendLate THEN kf \cup {"flush-nil-after-close"} ELSE kf
                     /\ IF flag = 0
                          THEN /\ flag' = 1
                               /\ IF WriteFails
                                    THEN pc' = [pc EXCEPT !["w"] = "x_err"] /\ ret' = [ret EXCEPT !["w"] = "idle"]
                                    ELSE pc' = [pc EXCEPT !["w"] = "idle"] /\ ret' = ret
                          ELSE pc' = [pc EXCEPT !["w"] = "idle"] /\ UNCHANGED <<flag, ret>>
           /\ UNCHANGED <<shutdown, serr, shutCh, lambdas, batch, conn, link, hup, inbox, st, inTable, tableNil, notified,
                          cbBusy, waitExit, cbL, cbR, unread, peerClosed, rd, fl, acc, bm, qm, sendLoop, snap, cur, ws,
                          tdRuns, nsent, npc, lastOpen, sendLate, openAtDeath, nops, nsBusy, fr, qfull, lastSeq>>

StreamClose(s) == /\ Start /\ Op /\ pc["w"] = "idle" /\ st[s] \notin {"closed", "none"} /\ ~cbBusy[s] /\ ~qfull
                  /\ ~(pc["loop"] = "e_wait" /\ s = L1)      \* (D6: its data is still in the drain)
                  /\ ~\E i \in 1..Len(inbox) : inbox[i] = <<"d", s>>
                  /\ ws' = s
                  /\ waitExit' = [waitExit EXCEPT ![s] = @ \/ s \in CbStreams]
                  /\ CloseStreamVars(s, shutdown = 1)
                  /\ IF st[s] = "open" /\ shutdown = 0 /\ flag = 0
                       THEN /\ flag' = 1
                            /\ IF WriteFails
                                 THEN pc' = [pc EXCEPT !["w"] = "x_err"] /\ ret' = [ret EXCEPT !["w"] = "idle"]
                                 ELSE UNCHANGED <<pc, ret>>
                       ELSE UNCHANGED <<flag, pc, ret>>
                  /\ UNCHANGED <<shutdown, serr, shutCh, lambdas, batch, conn, link, hup, inbox, tableNil, cbBusy, peerClosed,
                                 fl, acc, bm, qm, sendLoop, snap, cur, tdRuns, nsent, npc, lastOpen, lastSend, sendLate,
                                 openAtDeath, kf, nsBusy, fr, qfull, lastSeq>>

-----------------------------------------------------------------------------
\* a Flush in the queue-full retry loop (D9)
ParkRetryFlush == /\ Start /\ Op /\ WithRetry /\ fr = "idle" /\ ~qfull /\ fl # "parked" /\ pc["w"] = "idle"
                  /\ shutdown = 0 /\ conn = "open" /\ link = "up" /\ ~tableNil
                  /\ fr' = "parked" /\ qfull' = TRUE /\ flag' = 1
                  /\ UNCHANGED <<shutdown, serr, shutCh, pc, ret, lambdas, batch, conn, link, hup, inbox, st, inTable, tableNil,
                                 notified, cbBusy, waitExit, cbL, cbR, unread, peerClosed, rd, fl, acc, bm, qm, sendLoop, snap, cur,
                                 ws, tdRuns, nsent, npc, nsBusy, lastSeq, lastOpen, lastSend, sendLate, openAtDeath, kf>>

\* the retry loop gives up after its ten timers (ErrQueueFull) - or, without the closeNotifyCh arm, the next retry after the
\* teardown touches the queue manager that is gone
RetryExpire == /\ Start /\ fr = "parked"
               /\ fr' = IF qm = "unmapped" THEN "fault" ELSE "err"
               /\ UNCHANGED <<shutdown, serr, shutCh, pc, ret, lambdas, batch, conn, link, hup, inbox, flag, st, inTable, tableNil,
                              notified, cbBusy, waitExit, cbL, cbR, unread, peerClosed, rd, fl, acc, bm, qm, sendLoop, snap, cur, ws,
                              tdRuns, nsent, npc, nops, nsBusy, qfull, lastSeq, lastOpen, lastSend, sendLate, openAtDeath, kf>>

\* writer call sequences on a stream of a shut-down session (D10)
WriteSeq(s) == /\ Start /\ Op /\ WithSeq /\ shutdown = 1 /\ lastSeq = "none" /\ pc["w"] = "idle" /\ s \notin CbStreams
               /\ st[s] # "none"
               /\ lastSeq' = IF bm = "released" /\ ~FixedReserve THEN "fault" ELSE "ok"
               /\ UNCHANGED <<shutdown, serr, shutCh, pc, ret, lambdas, batch, conn, link, hup, inbox, flag, st, inTable, tableNil,
                              notified, cbBusy, waitExit, cbL, cbR, unread, peerClosed, rd, fl, acc, bm, qm, sendLoop, snap, cur, ws,
                              tdRuns, nsent, npc, nsBusy, fr, qfull, lastOpen, lastSend, sendLate, openAtDeath, kf>>

\* late streams (D8)
DrainBegin == /\ Start /\ Op /\ LateStreams # {} /\ pc["loop"] = "idle" /\ shutdown = 0 /\ conn = "open" /\ link = "up"
              /\ ~hup /\ inbox = <<>> /\ st[L1] = "none" /\ fl # "parked"
              /\ st' = [st EXCEPT ![L1] = "open"] /\ inTable' = [inTable EXCEPT ![L1] = TRUE]
              /\ nsBusy' = TRUE /\ pc' = [pc EXCEPT !["loop"] = "e_wait"]
              /\ UNCHANGED <<shutdown, serr, shutCh, ret, lambdas, batch, conn, link, hup, inbox, flag, tableNil, notified, cbBusy,
                             waitExit, cbL, cbR, unread, peerClosed, rd, fl, acc, bm, qm, sendLoop, snap, cur, ws, tdRuns, nsent,
                             npc, lastOpen, lastSend, sendLate, openAtDeath, kf, fr, qfull, lastSeq>>

NsRelease == /\ Start /\ nsBusy /\ nsBusy' = FALSE
             /\ UNCHANGED <<shutdown, serr, shutCh, pc, ret, lambdas, batch, conn, link, hup, inbox, flag, st, inTable, tableNil,
                            notified, cbBusy, waitExit, cbL, cbR, unread, peerClosed, rd, fl, acc, bm, qm, sendLoop, snap, cur, ws,
                            tdRuns, nsent, npc, nops, lastOpen, lastSend, sendLate, openAtDeath, kf, fr, qfull, lastSeq>>

\* the rest of the same handlePolling drain: L1's data, then the element of L2: getStream registers it whatever `shutdown` is
DrainEnd == /\ Step("loop") /\ pc["loop"] = "e_wait" /\ ~nsBusy
            /\ LET st1 == [st EXCEPT ![L2] = "open"]
                   inT1 == [s \in Streams |-> (inTable[s] \/ s = L2) /\ ~tableNil]
                   rd1 == [rd EXCEPT ![L1] = IF @ = "parked" THEN "data" ELSE @]
                   un1 == [unread EXCEPT ![L1] = IF rd[L1] = "parked" \/ st[L1] = "closed" THEN @ ELSE @ + 1, ![L2] = @ + 1]
                   \* handlePolling goes on until the queue is empty: whatever the peer queued while the drain was parked is
                   \* handled by this drain too (no IsClosed() check between two elements)
                   S == DeliverAll(inbox, [st |-> st1, inT |-> inT1, notified |-> notified, cbR |-> cbR, rd |-> rd1,
                                           unread |-> un1, start |-> [s \in Streams |-> FALSE]])
               IN /\ st' = S.st /\ notified' = S.notified /\ cbR' = S.cbR /\ rd' = S.rd /\ unread' = S.unread
                  /\ cbBusy' = [s \in Streams |-> cbBusy[s] \/ (S.start[s] /\ S.st[s] = "open")]
            /\ inTable' = [inTable EXCEPT ![L2] = TRUE] /\ inbox' = <<>>
            /\ pc' = [pc EXCEPT !["loop"] = "idle"]
            /\ UNCHANGED <<shutdown, serr, shutCh, ret, lambdas, batch, conn, link, hup, flag, tableNil,
                           waitExit, cbL, peerClosed, fl, acc, bm, qm, sendLoop, snap, cur, ws, tdRuns, nsent, npc, nops,
                           nsBusy, lastOpen, lastSend, sendLate, openAtDeath, kf, fr, qfull, lastSeq>>

ThreadStep(t) == ExitSetErr(t) \/ CloseCAS(t) \/ CloseErr(t) \/ CloseNotify(t) \/ CloseChan(t) \/ ClosePost(t)
LoopStep == DrainEnd \/ DeferredClose \/ LNext \/ TdConn \/ TdTable \/ TdStream \/ TdWait \/ TdBm \/ TdQueue

Next == \/ \E s \in Streams : PeerSend(s) \/ PeerCloseStream(s) \/ ParkRead(s) \/ CbRelease(s) \/ SendCheck(s) \/ StreamClose(s)
        \/ PeerDrain \/ PeerDies \/ ParkAccept \/ ParkFlush \/ TryOpen \/ DrainBegin \/ NsRelease
        \/ ParkRetryFlush \/ RetryExpire \/ \E s \in Streams : WriteSeq(s)
        \/ \E c \in Closers : CloseCall(c)
        \/ \E t \in Threads : ThreadStep(t)
        \/ Events \/ Lambdas \/ LoopStep \/ SendPut

Fair == /\ \A t \in Threads : WF_vars(ThreadStep(t))
        /\ WF_vars(Events) /\ WF_vars(Lambdas) /\ WF_vars(LoopStep) /\ WF_vars(SendPut)
        /\ \A s \in Streams : WF_vars(CbRelease(s))
        /\ WF_vars(NsRelease) /\ WF_vars(RetryExpire)

Spec == Init /\ [][Next]_vars /\ Fair

-----------------------------------------------------------------------------
\* properties (C14)
TypeOK == /\ shutdown \in {0, 1} /\ serr \in {"nil", "user", "reset"} /\ conn \in {"open", "closing", "closed"}
          /\ \A s \in Streams : st[s] \in {"none", "open", "half", "closed"} /\ rd[s] \in {"idle", "parked", "data", "eos", "closed"}
          /\ tdRuns \in 0..2 /\ bm \in {"held", "released"} /\ qm \in {"mapped", "unmapped"}

\* the teardown has run and nothing is in progress
Final == /\ shutdown = 1 /\ \A t \in Threads : Idle(pc[t])
         /\ lambdas = <<>> /\ batch = <<>> /\ tdRuns >= 1 /\ \A s \in Streams : ~cbBusy[s]

\* "the surviving session becomes closed": once the loop has seen the hang-up and is idle again, the session is shut down
SurvivorClosed == (link = "down" /\ ~hup /\ pc["loop"] = "idle") => shutdown = 1
\* whoever observes IsClosed() gets a proper error from then on (OpenStream must not return nil, nil)
ErrorKnown == lastOpen # "nilnil"
\* "pending calls fail": a parked call is released by the step that closes its channel
PendingReleased == /\ shutCh => (acc # "parked" /\ fl # "parked" /\ (RetryWoken => fr # "parked"))
                   /\ \A s \in Streams : notified[s] => rd[s] # "parked"
                   /\ Final => \A s \in Streams : rd[s] # "parked"
\* "later calls fail": a Flush that starts after the session is shut down does not report success; nothing faults
LaterFail == (lastSend = "ok" => ~sendLate) /\ lastSend # "fault" /\ fr # "fault" /\ lastSeq # "fault"
NoFault == lastSend # "fault" /\ fr # "fault" /\ lastSeq # "fault"
NoRace == "stream-op-races-unmap" \notin kf
RetryNoFault == fr # "fault"          \* violated in the model with RetryWoken = FALSE
SeqNoFault == lastSeq # "fault"       \* violated in the model with FixedReserve = FALSE
\* "every stream gets its close callback": never twice; exactly once when everything is over
CallbackAtMostOnce == \A s \in CbStreams : cbL[s] + cbR[s] <= 1
CallbackExactlyOnce == Final => \A s \in CbStreams : cbL[s] + cbR[s] = 1
\* Close is idempotent: one teardown, however many callers
TeardownOnce == tdRuns <= 1
\* everything is released once the end is closed
AllReleased == Final => /\ conn = "closed" /\ bm = "released" /\ qm = "unmapped" /\ tableNil /\ sendLoop = "exit"
                        \* every stream that ever existed - also one registered between Close() and the teardown - is closed
                        /\ \A s \in Streams : st[s] \in {"closed", "none"} /\ unread[s] = 0 /\ (st[s] = "closed" => notified[s])
\* no stream operation touches the queue after it is unmapped, resources are only released by the teardown
UnmapOnlyAtEnd == (qm = "unmapped" \/ bm = "released") => (shutdown = 1 /\ tableNil)

\* liveness: a shut-down session reaches Final; a dead peer is noticed
Terminates == (shutdown = 1) ~> Final
DeathNoticed == (link = "down" /\ hup) ~> (shutdown = 1)

NoKnownFinding == kf = {}
\* guarded forms used together with CONSTRAINT NoKnownFinding (TLC evaluates invariants on a state before it discards it)
G_ErrorKnown == NoKnownFinding => ErrorKnown
G_LaterFail == NoKnownFinding => LaterFail
G_CallbackExactlyOnce == NoKnownFinding => CallbackExactlyOnce
=============================================================================
