---------------------------- MODULE LinkedBuffer ----------------------------
(* Slice-level model of one direction of a stream: the writer's linkedBuffer (WriteBytes / Reserve / WriteByte /      *)
(* WriteString over alloc: single buffer of the smallest fitting class, else buffers from the largest class down,     *)
(* else a heap slice of max(remaining, 4096) bytes), Flush (done(): headers, unused pre-allocated slices recycled;     *)
(* transfer through the queue: pendingData.moveTo drops empty slices; or the socket fallback: one heap slice), and     *)
(* the reader's linkedBuffer (ReadBytes / Peek / Discard / ReadString / ReadByte / Read, readNextSlice with pinning,   *)
(* ReleasePreviousRead, ReleaseReadAndReuse) - transcribed branch by branch from buffer.go / stream.go.                *)
(* It refines BytePipe (same operations, same byte positions) and adds what BytePipe hides: which slices exist, where  *)
(* the cursors are, what is pinned, and how many buffers of every class are free after EVERY call.                     *)
(* checks/bytepipe.py replays every path of this graph on real streams and compares that structure after each call.    *)
EXTENDS Integers, Sequences, FiniteSets, TLC
CONSTANTS Caps,       \* capacity per size class, ascending (sequence)
          Free0,      \* free buffers per class at the start (a class can hand out Free0[c]-1 of them)
          WSizes, RSizes, MaxMsg, MaxTotal, MaxOps,
          HeapMin     \* 4096 in the code: minimum size of a heap fallback slice
NC == Len(Caps)
Classes == 1..NC
WriterKinds == {"WriteBytes", "Reserve", "WriteByte", "WriteString"}

VARIABLES free,                 \* [Classes -> Nat]
          ws, wi, wlen, wshm,   \* writer: slices [c, cap, w] (c = 0: heap), index of writeSlice (0 = nil), Len(), isFromShm
          fbk,                  \* the writer's stream is in (sticky) fallback state
          rs, rwi, rlen,        \* reader: slices [c, cap, r, w], index of writeSlice (last appended; 0 = nil), Len()
          pinned, curPinned,    \* reader: classes of the pinned slices, currentPinned
          spare,                \* class of the slice ReleaseReadAndReuse keeps as the next write buffer (0 = none)
          nreuse,
          fpos, rpos, wpos,     \* BytePipe positions: flushed, consumed, written-unflushed
          nops, last
vars == <<free, ws, wi, wlen, wshm, fbk, rs, rwi, rlen, pinned, curPinned, spare, nreuse, fpos, rpos, wpos, nops, last>>

Init == /\ free = [c \in Classes |-> Free0[c]]
        /\ ws = <<>> /\ wi = 0 /\ wlen = 0 /\ wshm = TRUE /\ fbk = FALSE
        /\ rs = <<>> /\ rwi = 0 /\ rlen = 0 /\ pinned = <<>> /\ curPinned = FALSE /\ spare = 0 /\ nreuse = 0
        /\ fpos = 0 /\ rpos = 0 /\ wpos = 0 /\ nops = 0
        /\ last = [op |-> "init", n |-> 0]
Tick == nops < MaxOps /\ nops' = nops + 1
Min2(a, b) == IF a < b THEN a ELSE b
Max2(a, b) == IF a < b THEN b ELSE a
Remain(s) == s.cap - s.w
Size(s) == s.w - s.r
MinSet(S) == CHOOSE x \in S : \A y \in S : x <= y

-----------------------------------------------------------------------------
\* allocator (sequential meaning, see BufMgr): a class can be popped while it has at least 2 free buffers
CanPop(f, c) == f[c] >= 2
\* allocShmBuffer(n): smallest class that fits and can be popped
Single(f, n) == {c \in Classes : Caps[c] >= n /\ CanPop(f, c)}
\* allocShmBuffers(n): from the largest class down, each until it runs dry or the size is covered
RECURSIVE Many(_, _, _, _)
Many(c, remain, f, acc) ==
    IF c = 0 \/ remain <= 0 THEN <<f, acc, remain>>
    ELSE IF CanPop(f, c) THEN Many(c, remain - Caps[c], [f EXCEPT ![c] = @ - 1], Append(acc, [c |-> c, cap |-> Caps[c], w |-> 0]))
    ELSE Many(c - 1, remain, f, acc)
\* linkedBuffer.alloc(n): result <<free', slices to append, stillFromShm>>
Alloc(f, n) ==
    IF Single(f, n) # {}
      THEN LET c == MinSet(Single(f, n)) IN <<[f EXCEPT ![c] = @ - 1], <<[c |-> c, cap |-> Caps[c], w |-> 0]>>, TRUE>>
      ELSE LET m == Many(NC, n, f, <<>>) IN
             IF m[3] > 0 THEN <<m[1], Append(m[2], [c |-> 0, cap |-> Max2(m[3], HeapMin), w |-> 0]), FALSE>>
                         ELSE <<m[1], m[2], TRUE>>

\* fill `left` bytes starting in slice i of list l (WriteBytes loop); returns <<list, index, free, shm>>
RECURSIVE Fill(_, _, _, _, _)
Fill(l, i, left, f, shm) ==
    LET k == Min2(Remain(l[i]), left)
        l1 == [l EXCEPT ![i].w = @ + k] IN
      IF left - k = 0 THEN <<l1, i, f, shm>>
      ELSE IF i < Len(l1) THEN Fill(l1, i + 1, left - k, f, shm)
           ELSE LET a == Alloc(f, left - k) IN Fill(l1 \o a[2], i + 1, left - k, a[1], shm /\ a[3])

WriteBytes(n) ==      \* also WriteString
    LET a == IF wi = 0 THEN Alloc(free, n) ELSE <<free, <<>>, TRUE>>
        l0 == ws \o a[2]
        r == Fill(l0, IF wi = 0 THEN 1 ELSE wi, n, a[1], wshm /\ a[3]) IN
      /\ ws' = r[1] /\ wi' = r[2] /\ free' = r[3] /\ wshm' = r[4] /\ wlen' = wlen + n
Reserve(n) ==
    LET a == IF wi = 0 THEN Alloc(free, n) ELSE <<free, <<>>, TRUE>>
        l0 == ws \o a[2]
        i == IF wi = 0 THEN 1 ELSE wi
        shm0 == wshm /\ a[3] IN
      /\ wlen' = wlen + n
      /\ IF Remain(l0[i]) >= n
           THEN ws' = [l0 EXCEPT ![i].w = @ + n] /\ wi' = i /\ free' = a[1] /\ wshm' = shm0
         ELSE IF i < Len(l0) /\ Remain(l0[i + 1]) >= n
           THEN ws' = [l0 EXCEPT ![i + 1].w = @ + n] /\ wi' = i + 1 /\ free' = a[1] /\ wshm' = shm0
         ELSE IF Single(a[1], n) # {}
           THEN LET c == MinSet(Single(a[1], n)) IN
                  /\ ws' = Append(l0, [c |-> c, cap |-> Caps[c], w |-> n]) /\ wi' = Len(l0) + 1
                  /\ free' = [a[1] EXCEPT ![c] = @ - 1] /\ wshm' = shm0
           ELSE /\ ws' = Append(l0, [c |-> 0, cap |-> Max2(n, HeapMin), w |-> n]) /\ wi' = Len(l0) + 1
                /\ free' = a[1] /\ wshm' = FALSE
WriteByte ==
    LET a == IF wi = 0 THEN Alloc(free, 1) ELSE <<free, <<>>, TRUE>>
        l0 == ws \o a[2]
        i == IF wi = 0 THEN 1 ELSE wi
        shm0 == wshm /\ a[3] IN
      /\ wlen' = wlen + 1
      /\ IF Remain(l0[i]) >= 1
           THEN ws' = [l0 EXCEPT ![i].w = @ + 1] /\ wi' = i /\ free' = a[1] /\ wshm' = shm0
           ELSE LET b == Alloc(a[1], 1)           \* alloc(1) is called even if a pre-allocated next slice exists
                    l1 == l0 \o b[2] IN
                  /\ ws' = [l1 EXCEPT ![i + 1].w = @ + 1] /\ wi' = i + 1 /\ free' = b[1] /\ wshm' = shm0 /\ b[3]

Write(kind, n) ==
    /\ Tick /\ kind \in WriterKinds /\ (kind = "WriteByte" => n = 1)
    /\ wpos + n <= MaxMsg /\ fpos + wpos + n <= MaxTotal
    /\ CASE kind \in {"WriteBytes", "WriteString"} -> WriteBytes(n)
         [] kind = "Reserve" -> Reserve(n)
         [] kind = "WriteByte" -> WriteByte
    /\ wpos' = wpos + n
    /\ last' = [op |-> kind, n |-> n]
    /\ UNCHANGED <<fbk, rs, rwi, rlen, pinned, curPinned, spare, nreuse, fpos, rpos>>

-----------------------------------------------------------------------------
\* Flush: done() + transfer + clean()
RecycleAll(f, l) == [c \in Classes |-> f[c] + Cardinality({i \in 1..Len(l) : l[i].c = c})]
SubSeqFrom(l, i) == IF i > Len(l) THEN <<>> ELSE SubSeq(l, i, Len(l))
\* pendingData.moveTo: non-empty slices are appended to the read buffer, empty ones are recycled
RECURSIVE Move(_, _, _, _)
Move(chain, f, r, rw) ==
    IF chain = <<>> THEN <<f, r, rw>>
    ELSE LET s == Head(chain) IN
           IF s.w = 0 THEN Move(Tail(chain), [f EXCEPT ![s.c] = @ + 1], r, rw)
           ELSE Move(Tail(chain), f, Append(r, [c |-> s.c, cap |-> s.cap, r |-> 0, w |-> s.w]), Len(r) + 1)
Flush ==
    /\ Tick /\ wlen > 0
    /\ IF wshm /\ ~fbk
         THEN \* shared-memory path: unused slices after writeSlice go back, the chain front..writeSlice travels
              LET unused == SubSeqFrom(ws, wi + 1)
                  f1 == RecycleAll(free, unused)
                  m == Move(SubSeq(ws, 1, wi), f1, rs, rwi) IN
                /\ free' = m[1] /\ rs' = m[2] /\ rwi' = m[3] /\ fbk' = fbk
         ELSE \* socket fallback: everything copied into one heap slice at the reader, all buffers recycled
              /\ free' = RecycleAll(free, ws)
              /\ rs' = Append(rs, [c |-> 0, cap |-> wlen, r |-> 0, w |-> wlen]) /\ rwi' = Len(rs) + 1
              /\ fbk' = TRUE
    /\ rlen' = rlen + wlen
    /\ ws' = <<>> /\ wi' = 0 /\ wlen' = 0 /\ wshm' = TRUE
    /\ fpos' = fpos + wpos /\ wpos' = 0
    /\ last' = [op |-> "Flush", n |-> wlen]
    /\ UNCHANGED <<pinned, curPinned, spare, nreuse, rpos>>

-----------------------------------------------------------------------------
\* reader. R is the record of the reader variables: [rs, rwi, free, pinned, cur]
Rd == [rs |-> rs, rwi |-> rwi, free |-> free, pinned |-> pinned, cur |-> curPinned]
\* readNextSlice: the front slice leaves the list: pinned (if currentPinned) or recycled; heap slices are dropped
NextSlice(R) ==
    LET s == Head(R.rs) IN
      [R EXCEPT !.rs = Tail(R.rs), !.rwi = IF R.rwi > 0 THEN R.rwi - 1 ELSE 0,
                !.pinned = IF s.c # 0 /\ R.cur THEN Append(R.pinned, s.c) ELSE R.pinned,
                !.free = IF s.c # 0 /\ ~R.cur THEN [R.free EXCEPT ![s.c] = @ + 1] ELSE R.free,
                !.cur = FALSE]
Advance(R, k) == [R EXCEPT !.rs = [R.rs EXCEPT ![1].r = @ + k]]
FrontSize(R) == Size(R.rs[1])
Apply(R) == /\ rs' = R.rs /\ rwi' = R.rwi /\ free' = R.free /\ pinned' = R.pinned /\ curPinned' = R.cur

\* ReadBytes slow path / ReadString slow path / Discard / Read share the shape "consume k, maybe go to the next slice"
RECURSIVE SlowBytes(_, _)       \* ReadBytes: next slice when the read came back short (len(readData) != size)
SlowBytes(R, left) ==
    IF left = 0 THEN R
    ELSE LET k == Min2(FrontSize(R), left) R1 == Advance(R, k) IN
           IF k # left THEN SlowBytes(NextSlice(R1), left - k) ELSE R1
RECURSIVE SlowString(_, _)      \* ReadString: next slice when the front is empty, checked before each read
SlowString(R, left) ==
    IF left = 0 THEN R
    ELSE LET R0 == IF FrontSize(R) = 0 THEN NextSlice(R) ELSE R
             k == Min2(FrontSize(R0), left) IN SlowString(Advance(R0, k), left - k)
RECURSIVE Skip(_, _)            \* Discard: skip, stop when done, else next slice
Skip(R, left) ==
    LET k == Min2(FrontSize(R), left) R1 == Advance(R, k) IN
      IF left - k = 0 THEN R1 ELSE Skip(NextSlice(R1), left - k)
RECURSIVE Copy(_, _)            \* read(p): stop when the front satisfied the rest, else next slice (even the last one)
Copy(R, left) ==
    IF R.rs = <<>> \/ left = 0 THEN R
    ELSE LET k == Min2(FrontSize(R), left) R1 == Advance(R, k) IN
           IF FrontSize(R) >= left THEN R1 ELSE Copy(NextSlice(R1), left - k)

Consumed(op, n, k) == /\ rlen' = rlen - k /\ rpos' = rpos + k
                      /\ last' = [op |-> op, n |-> n]
                      /\ UNCHANGED <<ws, wi, wlen, wshm, fbk, spare, nreuse, fpos, wpos>>
ReadBytes(n) ==
    /\ Tick /\ n >= 1 /\ n <= rlen
    /\ LET R0 == IF FrontSize(Rd) = 0 THEN NextSlice(Rd) ELSE Rd IN
         IF FrontSize(R0) >= n THEN Apply([Advance(R0, n) EXCEPT !.cur = TRUE])
                               ELSE Apply(SlowBytes(R0, n))
    /\ Consumed("ReadBytes", n, n)
Peek(n) ==
    /\ Tick /\ n >= 1 /\ n <= rlen
    /\ Apply(IF FrontSize(Rd) >= n THEN [Rd EXCEPT !.cur = TRUE] ELSE Rd)
    /\ Consumed("Peek", n, 0)
Discard(n) ==
    /\ Tick /\ n >= 1 /\ n <= rlen /\ Apply(Skip(Rd, n)) /\ Consumed("Discard", n, n)
ReadString(n) ==
    /\ Tick /\ n >= 1 /\ n <= rlen
    /\ Apply(IF FrontSize(Rd) >= n THEN Advance(Rd, n) ELSE SlowString(Rd, n))
    /\ Consumed("ReadString", n, n)
ReadByte ==
    /\ Tick /\ rlen >= 1
    /\ Apply(IF FrontSize(Rd) >= 1 THEN Advance(Rd, 1) ELSE Advance(NextSlice(Rd), 1))
    /\ Consumed("ReadByte", 1, 1)
Read(n) ==
    /\ Tick /\ n >= 1 /\ rlen >= 1
    /\ Apply(Copy(Rd, n)) /\ Consumed("Read", n, Min2(n, rlen))

\* cleanPinnedList: nothing pinned -> returns at once (currentPinned is NOT reset); else all pinned buffers go back
CleanPinned(R) ==
    IF R.pinned = <<>> THEN R
    ELSE [R EXCEPT !.free = [c \in Classes |-> R.free[c] + Cardinality({i \in 1..Len(R.pinned) : R.pinned[i] = c})],
                   !.pinned = <<>>, !.cur = FALSE]
Release ==      \* ReleasePreviousRead: also gives back an exhausted front slice when it is the last one appended
    /\ Tick
    /\ LET R0 == CleanPinned(Rd) IN
         IF R0.rs # <<>> /\ FrontSize(R0) = 0 /\ R0.rwi = 1
           THEN Apply([R0 EXCEPT !.rs = Tail(R0.rs), !.rwi = 0,
                                 !.free = IF R0.rs[1].c # 0 THEN [R0.free EXCEPT ![R0.rs[1].c] = @ + 1] ELSE R0.free])
           ELSE Apply(R0)
    /\ last' = [op |-> "Release", n |-> 0]
    /\ UNCHANGED <<ws, wi, wlen, wshm, fbk, rlen, spare, nreuse, fpos, rpos, wpos>>
Reuse ==        \* ReleaseReadAndReuse: everything consumed and one slice left -> it is kept as the next write buffer
    /\ Tick /\ nreuse = 0 /\ nreuse' = 1       \* bounded to one per history: the swapped-in buffer object is fresh
    /\ LET R0 == CleanPinned(Rd) IN
         IF rlen = 0 /\ Len(R0.rs) = 1
           THEN IF R0.rs[1].c # 0
                  THEN /\ Apply([R0 EXCEPT !.rs = <<>>, !.rwi = 0, !.cur = FALSE]) /\ spare' = R0.rs[1].c
                  ELSE /\ Apply([R0 EXCEPT !.rs = <<>>, !.rwi = 0]) /\ spare' = spare
           ELSE Apply(R0) /\ spare' = spare
    /\ last' = [op |-> "Reuse", n |-> 0]
    /\ UNCHANGED <<ws, wi, wlen, wshm, fbk, rlen, fpos, rpos, wpos>>

Next == \/ \E n \in WSizes : \E k \in WriterKinds : Write(k, n)
        \/ Flush
        \/ \E n \in RSizes : ReadBytes(n) \/ Peek(n) \/ Discard(n) \/ ReadString(n) \/ Read(n)
        \/ ReadByte \/ Release \/ Reuse
Spec == Init /\ [][Next]_vars
View == <<free, ws, wi, wlen, wshm, fbk, rs, rwi, rlen, pinned, curPinned, spare, nreuse, fpos, rpos, wpos, nops>>

-----------------------------------------------------------------------------
Sum(f) == LET RECURSIVE S(_) S(i) == IF i = 0 THEN 0 ELSE f[i] + S(i - 1) IN S(NC)
Shm(l) == Cardinality({i \in 1..Len(l) : l[i].c # 0})
\* C09 / C08 at every step: every buffer is free, or in exactly one place
Ledger == Sum(free) + Shm(ws) + Shm(rs) + Len(pinned) + (IF spare # 0 THEN 1 ELSE 0) = Sum([c \in Classes |-> Free0[c]])
\* C06: the structure carries exactly the bytes BytePipe says
LenRight == /\ rlen = fpos - rpos /\ wlen = wpos
            /\ rlen = LET RECURSIVE T(_) T(i) == IF i = 0 THEN 0 ELSE Size(rs[i]) + T(i - 1) IN T(Len(rs))
            /\ wlen = LET RECURSIVE T(_) T(i) == IF i = 0 THEN 0 ELSE ws[i].w + T(i - 1) IN T(Len(ws))
CursorsRight == /\ \A i \in 1..Len(rs) : 0 <= rs[i].r /\ rs[i].r <= rs[i].w /\ rs[i].w <= rs[i].cap
                /\ \A i \in 1..Len(ws) : ws[i].w <= ws[i].cap
                /\ (ws # <<>> => wi \in 1..Len(ws))
NeverLast == \A c \in Classes : free[c] >= 1
\* C08: after a release with everything consumed, only the deliberately kept slice is out
AllBackWhenDrained == (last.op = "Release" /\ rlen = 0 /\ ws = <<>>) =>
                         Sum(free) + (IF spare # 0 THEN 1 ELSE 0) = Sum([c \in Classes |-> Free0[c]])
=============================================================================
