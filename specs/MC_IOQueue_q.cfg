SPECIFICATION Spec
CONSTANTS
  Cap = 2
  Producers = {1, 2}
  PerProducer = 2
  Start = 1
INVARIANTS Bounded Intact Fifo PerProducerOrder FullTruth NoStranding IdleNonEmptyHasWakeup AllDelivered
CHECK_DEADLOCK FALSE
