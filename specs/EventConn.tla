------------------------------ MODULE EventConn ------------------------------
(* One direction of an event connection (event_dispatcher_linux.go / event_dispatcher_race_linux.go):               *)
(*   writer  : connEventHandler.write, ONE ACTION PER write(2) SYSCALL of its loop (kernel accepts any n <= what    *)
(*             is left and fits, or EAGAIN -> `<-onWriteReadyCh`), onWriteReady = token into the 1-slot channel;    *)
(*   kernel  : a FIFO of bytes of bounded capacity, EPOLLIN edge;                                                   *)
(*   reader  : connEventHandler.onReadReady, one action per loop iteration step: maybeExpandReadBuffer (loop top),  *)
(*             read(2) returning any n <= min(available, room) or EAGAIN, the callback at the 1 MiB threshold and   *)
(*             the final callback, commitRead(k) for any k the callback chooses (reset and shrink when drained).    *)
(* Byte identities: the i-th byte ever written has value i, so "exactly once, in order" is "the window holds        *)
(* consumed+1 .. consumed+(end-start)" and the callback argument is unconsumed ++ new by the same equation.         *)
(* Named deviations from the code: (d1) the callback never returns an error (Session.onEventData always returns     *)
(* nil); (d2) close / EPIPE / read errors are not modelled (C18 quantifies over sizes, kernel IO and pacing, not    *)
(* over close); (d3) writev is write over the concatenation of its slices (its iovec bookkeeping is checked on the  *)
(* real code by the harness oracle only); (d4) a spurious EPOLLOUT token may arrive whenever the socket is writable *)
(* (edge-triggered epoll reports EPOLLOUT together with every other event), a read-ready call whenever an edge is   *)
(* pending.                                                                                                         *)
EXTENDS Integers, Sequences, FiniteSets, TLC

CONSTANTS N,          \* bytes in the stream
          MsgEnds,    \* stream positions at which a write() call ends (N is one of them)
          SockCap,    \* the kernel never holds more than SockCap bytes
          SockMin,    \* ... and may refuse (EAGAIN) as soon as it holds SockMin (= SockCap: exact capacity)
          InitLen,    \* len(readBuffer) at start (64 KiB in newConnection)
          Threshold,  \* onDataThreshold  (1 MiB literal of onReadReady)
          ShrinkMin,  \* minResizedBufferSize (4 MiB literal of commitRead)
          Greedy,     \* TRUE: read(2) returns min(available, room) (what a stream socket does when not raced)
          MaxRead,    \* bound on one read (datagram size used by the exact replay)
          Consume,    \* "any": the callback consumes any k in 0..avail; "edges": k in {0,1,avail-1,avail}
          Lean        \* TRUE: reader-centred instance - write(2) accepts as much as fits, no spurious EPOLLOUT token

ASSUME /\ N \in Nat \ {0} /\ MsgEnds \subseteq 1..N /\ N \in MsgEnds
       /\ SockCap >= 1 /\ SockMin \in 1..SockCap /\ InitLen >= 1 /\ MaxRead >= 1

VARIABLES wpc, wbase, wwr, wtok,     \* writer: pc, bytes of completed calls, `written` of the current call, onWriteReadyCh
          sock, rdEdge,              \* kernel: bytes in flight, pending EPOLLIN edge
          buf, rs, re, rpc,          \* reader: readBuffer (0 = never written), readStartOff, readEndOff, pc
          consumed, offered          \* ghosts: bytes committed by the callback so far, highest byte ever shown to it
wvars == <<wpc, wbase, wwr, wtok>>
rvars == <<buf, rs, re, rpc>>
vars == <<wvars, sock, rdEdge, rvars, consumed, offered>>

Min(a, b) == IF a < b THEN a ELSE b
Max(a, b) == IF a > b THEN a ELSE b
Stream(a, b) == [i \in 1..(b - a) |-> a + i]          \* bytes a+1 .. b
MsgEnd(base) == CHOOSE e \in MsgEnds : e > base /\ \A f \in MsgEnds : f > base => e <= f
DropN(s, n) == SubSeq(s, n + 1, Len(s))

Init == /\ wpc = "idle" /\ wbase = 0 /\ wwr = 0 /\ wtok = 0
        /\ sock = <<>> /\ rdEdge = FALSE
        /\ buf = [i \in 1..InitLen |-> 0] /\ rs = 0 /\ re = 0 /\ rpc = "idle"
        /\ consumed = 0 /\ offered = 0

-----------------------------------------------------------------------------
\* writer: connEventHandler.write(data), data = bytes wbase+1 .. MsgEnd(wbase)
WStart == /\ wpc = "idle" /\ wbase < N
          /\ wpc' = "chk" /\ wwr' = 0
          /\ UNCHANGED <<wbase, wtok, sock, rdEdge, rvars, consumed, offered>>

WSys(n) ==  \* SYS_WRITE accepted n bytes:  written += n
    /\ wpc = "chk"
    /\ n >= 1 /\ n <= MsgEnd(wbase) - wbase - wwr /\ Len(sock) + n <= SockCap
    /\ Lean => n = Min(MsgEnd(wbase) - wbase - wwr, SockCap - Len(sock))
    /\ sock' = sock \o Stream(wbase + wwr, wbase + wwr + n)
    /\ rdEdge' = TRUE
    /\ IF wwr + n = MsgEnd(wbase) - wbase
         THEN /\ wpc' = "idle" /\ wbase' = MsgEnd(wbase) /\ wwr' = 0
         ELSE /\ wpc' = "chk" /\ wbase' = wbase /\ wwr' = wwr + n
    /\ UNCHANGED <<wtok, rvars, consumed, offered>>

WEagain ==  \* SYS_WRITE returned EAGAIN: the loop goes to `<-c.onWriteReadyCh`
    /\ wpc = "chk" /\ Len(sock) >= SockMin
    /\ wpc' = "wait"
    /\ UNCHANGED <<wbase, wwr, wtok, sock, rdEdge, rvars, consumed, offered>>

WWake ==    \* the channel receive returns, `continue`
    /\ wpc = "wait" /\ wtok = 1
    /\ wtok' = 0 /\ wpc' = "chk"
    /\ UNCHANGED <<wbase, wwr, sock, rdEdge, rvars, consumed, offered>>

WReady ==   \* onWriteReady: asyncNotify(onWriteReadyCh) (dropped when the slot is taken)
    /\ Len(sock) < SockCap /\ wtok = 0
    /\ Lean => wpc = "wait"
    /\ wtok' = 1
    /\ UNCHANGED <<wpc, wbase, wwr, sock, rdEdge, rvars, consumed, offered>>

-----------------------------------------------------------------------------
\* reader: onReadReady
RStart == /\ rpc = "idle" /\ rdEdge
          /\ rdEdge' = FALSE /\ rpc' = "top"
          /\ UNCHANGED <<wvars, sock, buf, rs, re, consumed, offered>>

RTop ==     \* maybeExpandReadBuffer: when end = len, allocate 2*len and move the unconsumed bytes to the front
    /\ rpc = "top"
    /\ IF Len(buf) - re = 0
         THEN /\ buf' = [i \in 1..(2 * Len(buf)) |-> IF i <= re - rs THEN buf[rs + i] ELSE 0]
              /\ re' = re - rs /\ rs' = 0
         ELSE UNCHANGED <<buf, rs, re>>
    /\ rpc' = "read"
    /\ UNCHANGED <<wvars, sock, rdEdge, consumed, offered>>

ReadChoices == LET m == Min(Min(Len(sock), Len(buf) - re), MaxRead)
               IN IF Greedy THEN {m} \ {0} ELSE 1..m

RSys(n) ==  \* SYS_READ returned n > 0 bytes into readBuffer[end:]
    /\ rpc = "read" /\ n \in ReadChoices
    /\ buf' = [i \in 1..Len(buf) |-> IF i > re /\ i <= re + n THEN sock[i - re] ELSE buf[i]]
    /\ sock' = DropN(sock, n)
    /\ re' = re + n
    /\ rpc' = IF re + n - rs >= Threshold THEN "thr" ELSE "top"
    /\ UNCHANGED <<wvars, rdEdge, rs, consumed, offered>>

REagain ==  \* SYS_READ returned EAGAIN: leave the loop, final callback
    /\ rpc = "read" /\ sock = <<>>
    /\ rpc' = "fin"
    /\ UNCHANGED <<wvars, sock, rdEdge, buf, rs, re, consumed, offered>>

ConsumeChoices(avail) == IF Consume = "any" THEN 0..avail
                         ELSE {0, 1, avail - 1, avail} \cap (0..avail)

\* callback.onEventData(readBuffer[start:end]) which calls commitRead(k)
RCallback(k) ==
    /\ rpc \in {"thr", "fin"} /\ k \in ConsumeChoices(re - rs)
    /\ offered' = Max(offered, consumed + (re - rs))
    /\ consumed' = consumed + k
    /\ IF rs + k = re
         THEN /\ rs' = 0 /\ re' = 0
              /\ buf' = IF Len(buf) > ShrinkMin THEN SubSeq(buf, 1, Len(buf) \div 2) ELSE buf
         ELSE /\ rs' = rs + k /\ UNCHANGED <<re, buf>>
    /\ rpc' = IF rpc = "thr" THEN "top" ELSE "idle"
    /\ UNCHANGED <<wvars, sock, rdEdge>>

Finished == wpc = "idle" /\ wbase = N /\ sock = <<>> /\ rpc = "idle" /\ ~rdEdge
Terminated == Finished /\ UNCHANGED vars

WNext == WStart \/ (\E n \in 1..N : WSys(n)) \/ WEagain \/ WWake \/ WReady
RNext == RStart \/ RTop \/ (\E n \in 1..N : RSys(n)) \/ REagain \/ (\E k \in 0..N : RCallback(k))
Next == WNext \/ RNext \/ Terminated
Spec == Init /\ [][Next]_vars
FairSpec == Spec /\ WF_vars(WNext \/ RNext)

-----------------------------------------------------------------------------
\* C18
WindowOK == rs >= 0 /\ rs <= re /\ re <= Len(buf) /\ Len(buf) >= 1
\* the unconsumed bytes of the window are exactly the next bytes of the stream, in order: nothing lost, duplicated or
\* reordered by write / kernel / read / expand / commit / shrink, and every callback sees unconsumed ++ new
ContentOK == SubSeq(buf, rs + 1, re) = Stream(consumed, consumed + (re - rs))
KernelOK == sock = Stream(consumed + (re - rs), wbase + wwr)
\* whenever nothing is left to do every byte has been shown to the callback (with deadlock checking on: no stuck state)
QuiescentOK == Finished => offered = N
ConsumedOK == consumed <= offered /\ offered <= wbase + wwr
EventuallyOffered == <>(offered = N)
=============================================================================
