------------------------------ MODULE Listener ------------------------------
(***************************************************************************)
(* C14 (additional pass) - the server-side Listener of listener.go:        *)
(* accept loop Run, the `sessions` set (add / removeShutdownSession /      *)
(* closeAll), Listener.Close, the sessionCallback adapter, shutdownErrStr, *)
(* isClose, unlink-on-close.  The hot-restart part (HotRestart /           *)
(* checkHotRestart / resetState) is module HotRestart's.                   *)
(*                                                                         *)
(* Shaped after the code: one action per segment between two points at     *)
(* which another goroutine can observe or block the thread - i.e. between  *)
(* two lock / unlock operations on Listener.mu and sessions.sessionMu and  *)
(* the calls that leave the listener (ln.Accept, ln.Close).                *)
(*                                                                         *)
(* Threads (all integers so that TLC can compare them):                    *)
(*   RUN = 100        the goroutine in Listener.Run                        *)
(*   200 + i          user goroutines calling Listener.Close               *)
(*   s \in 1..NSess   the goroutine in which session s shuts down because  *)
(*                    its peer went away (event loop: onRemoteClose ->     *)
(*                    exitErr -> Session.Close)                            *)
(*                                                                         *)
(* pc values = where the thread is parked (the harness parks the real      *)
(* goroutine at exactly these points):                                     *)
(*   idle  not started            acc   in front of ln.Accept()            *)
(*   addL  in front of sessionMu.Lock() in sessions.add                    *)
(*   addU  in front of sessionMu.Unlock() in sessions.add                  *)
(*   clsL  in front of mu.Lock() in Listener.Close                         *)
(*   lnc   in front of ln.Close() (isClose set, OnShutdown delivered)      *)
(*   caL / caU   in front of sessionMu.Lock() / Unlock() in closeAll       *)
(*   rmL / rmU   the same in removeShutdownSession (reached from           *)
(*               Session.Close -> sessionCallback.OnShutdown)              *)
(*   done  returned                                                        *)
(*                                                                         *)
(* Session.Close is modelled by its first step only (the CAS on `shutdown`:*)
(* live -> closed, exactly one winner) followed by the synchronous call    *)
(* config.listenCallback.OnShutdown = sessionCallback.OnShutdown ->        *)
(* removeShutdownSession; the rest of Session.Close (notify streams,       *)
(* shutdownCh, posted teardown) is module Lifecycle's and happens between  *)
(* rmU and the thread's next point.                                        *)
(*                                                                         *)
(* Named deviations:                                                       *)
(*  D1 Accept + newSession (+ `session.listener = l`) is one step: before  *)
(*     newSession returns the listener does not know the session; a peer   *)
(*     that goes away during the handshake is the outcome AccFail          *)
(*  D2 a fatal Accept error and the store to shutdownErrStr are one step   *)
(*     (nobody can tell that Accept has failed before the store)           *)
(*  D3 isClose := TRUE, the choice of the reason and the call of           *)
(*     ListenCallback.OnShutdown are one step (all under mu, nothing else  *)
(*     shared changes in between); ln.Close and os.Remove are one step     *)
(*  D4 closeAll visits the sessions in an arbitrary order (Go map          *)
(*     iteration); Close of an already closed session is a no-op and does  *)
(*     not end the step                                                    *)
(*  D5 OnNewStream forwarding is an environment step with a counter        *)
(*                                                                         *)
(* Feat: "addfix"   = repaired sessions.add (session.Close() after         *)
(*                    sessionMu.Unlock(), not under it)                    *)
(*       "stalefix" = repaired sessions.add (a session that is already     *)
(*                    closed is not registered)                            *)
(*       without them the spec is the code as pinned, including the two    *)
(*       finding classes KfDeadlock and KfStale.                           *)
(***************************************************************************)
EXTENDS Integers, Sequences, FiniteSets, TLC

CONSTANTS NSess,       \* connections that become sessions, accepted in the order 1..NSess
          NClosers,    \* user goroutines calling Listener.Close
          MaxTemp,     \* temporary Accept errors (kind 1: net.Error.Temporary, kind 2: "too many open files")
          MaxFail,     \* accepted connections whose newSession fails
          Fatal,       \* BOOLEAN: a fatal Accept error that is not caused by Close may happen (once)
          Unlink,      \* BOOLEAN: unlinkOnClose
          MaxStreams,  \* new streams per session (OnNewStream forwarding)
          Feat

RUN     == 100
Closers == {200 + i : i \in 1..NClosers}
Sess    == 1..NSess
Threads == {RUN} \cup Closers \cup Sess
Free    == 0

VARIABLES pc,        \* [Threads -> pc value]
          ctx,       \* [Threads -> "none"|"ca"|"add"|"die"]: who called Session.Close (where rmU continues)
          closing,   \* [Threads -> 0 | session whose shutdown CAS the thread has won and whose sweep is pending]
          mu, smu,   \* owner of Listener.mu / sessions.sessionMu (Free or a thread)
          isClose, errStr, lnClosed, file,
          cbShut,    \* reasons delivered to ListenCallback.OnShutdown: sequence of "close" | "accept"
          guardBy,   \* thread that passed the isClose guard (0 = nobody yet)
          dataNil,   \* sessions.data == nil
          members,   \* keys of sessions.data
          toClose,   \* closeAll's local map, minus the sessions it has already closed itself
          sess,      \* [Sess -> "none"|"live"|"closed"]   (Session.shutdown)
          swept,     \* [Sess -> BOOLEAN] ghost: the removeShutdownSession of the session's own shutdown has run
          cur,       \* the session the accept loop holds between newSession and add
          addClose,  \* "addfix": add has seen data == nil and will close the session after unlocking
          ntemp, nfail, nfatal, nstr

vars == <<pc, ctx, closing, mu, smu, isClose, errStr, lnClosed, file, cbShut, guardBy, dataNil, members, toClose, sess,
          swept, cur, addClose, ntemp, nfail, nfatal, nstr>>

AddFix   == "addfix" \in Feat
StaleFix == "stalefix" \in Feat

Init == /\ pc = [t \in Threads |-> "idle"] /\ ctx = [t \in Threads |-> "none"] /\ closing = [t \in Threads |-> 0]
        /\ mu = Free /\ smu = Free
        /\ isClose = FALSE /\ errStr = FALSE /\ lnClosed = FALSE /\ file = TRUE
        /\ cbShut = <<>> /\ guardBy = 0 /\ dataNil = FALSE /\ members = {} /\ toClose = {}
        /\ sess = [s \in Sess |-> "none"] /\ swept = [s \in Sess |-> FALSE]
        /\ cur = 0 /\ addClose = FALSE /\ ntemp = 0 /\ nfail = 0 /\ nfatal = 0 /\ nstr = [s \in Sess |-> 0]

NAccepted == Cardinality({s \in Sess : sess[s] # "none"})

---------------------------------------------------------------------------
(* environment / API steps *)

\* go l.Run()
RunStart == /\ pc[RUN] = "idle"
            /\ pc' = [pc EXCEPT ![RUN] = "acc"]
            /\ UNCHANGED <<ctx, closing, mu, smu, isClose, errStr, lnClosed, file, cbShut, guardBy, dataNil, members,
                           toClose, sess, swept, cur, addClose, ntemp, nfail, nfatal, nstr>>

\* Accept returns a temporary error: `continue`
AccTemp(kind) == /\ pc[RUN] = "acc" /\ ~lnClosed /\ ntemp < MaxTemp
                 /\ ntemp' = ntemp + 1
                 /\ UNCHANGED <<pc, ctx, closing, mu, smu, isClose, errStr, lnClosed, file, cbShut, guardBy, dataNil,
                                members, toClose, sess, swept, cur, addClose, nfail, nfatal, nstr>>

\* Accept returns a connection, newSession fails (peer gone during the handshake): conn.Close(); continue
AccFail == /\ pc[RUN] = "acc" /\ ~lnClosed /\ nfail < MaxFail
           /\ nfail' = nfail + 1
           /\ UNCHANGED <<pc, ctx, closing, mu, smu, isClose, errStr, lnClosed, file, cbShut, guardBy, dataNil, members,
                          toClose, sess, swept, cur, addClose, ntemp, nfatal, nstr>>

\* Accept returns a connection, newSession succeeds: the session is live from now on, the loop is about to add it
AccOk(s) == /\ pc[RUN] = "acc" /\ ~lnClosed /\ s = NAccepted + 1 /\ s \in Sess
            /\ sess' = [sess EXCEPT ![s] = "live"]
            /\ cur' = s
            /\ pc' = [pc EXCEPT ![RUN] = "addL"]
            /\ UNCHANGED <<ctx, closing, mu, smu, isClose, errStr, lnClosed, file, cbShut, guardBy, dataNil, members,
                           toClose, swept, addClose, ntemp, nfail, nfatal, nstr>>

\* Accept fails for good: because the raw listener has been closed ("closed"), or for another reason ("inject").
\* l.shutdownErrStr = ...; l.Close()
AccFatal(kind) == /\ pc[RUN] = "acc"
                  /\ \/ kind = "closed" /\ lnClosed
                     \/ kind = "inject" /\ ~lnClosed /\ Fatal /\ nfatal = 0
                  /\ errStr' = TRUE
                  /\ nfatal' = IF kind = "inject" THEN 1 ELSE nfatal
                  /\ pc' = [pc EXCEPT ![RUN] = "clsL"]
                  /\ UNCHANGED <<ctx, closing, mu, smu, isClose, lnClosed, file, cbShut, guardBy, dataNil, members, toClose,
                                 sess, swept, cur, addClose, ntemp, nfail, nstr>>

\* a user goroutine calls Listener.Close()
CloseCall(c) == /\ c \in Closers /\ pc[c] = "idle"
                /\ \A d \in Closers : d < c => pc[d] # "idle"          \* closers are interchangeable: start them in order
                /\ pc' = [pc EXCEPT ![c] = "clsL"]
                /\ UNCHANGED <<ctx, closing, mu, smu, isClose, errStr, lnClosed, file, cbShut, guardBy, dataNil, members,
                               toClose, sess, swept, cur, addClose, ntemp, nfail, nfatal, nstr>>

\* the peer of session s goes away: the event loop calls onRemoteClose -> exitErr -> Session.Close, which wins the CAS
\* and calls sessionCallback.OnShutdown -> removeShutdownSession (parked in front of its Lock)
Die(s) == /\ s \in Sess /\ pc[s] = "idle" /\ sess[s] = "live"
          /\ sess' = [sess EXCEPT ![s] = "closed"]
          /\ pc' = [pc EXCEPT ![s] = "rmL"]
          /\ ctx' = [ctx EXCEPT ![s] = "die"]
          /\ closing' = [closing EXCEPT ![s] = s]
          /\ UNCHANGED <<mu, smu, isClose, errStr, lnClosed, file, cbShut, guardBy, dataNil, members, toClose, swept, cur,
                         addClose, ntemp, nfail, nfatal, nstr>>

\* the peer opens a stream on a live session: Session.getStream -> sessionCallback.OnNewStream -> ListenCallback.OnNewStream
NewStream(s) == /\ s \in Sess /\ sess[s] = "live" /\ nstr[s] < MaxStreams
                /\ nstr' = [nstr EXCEPT ![s] = @ + 1]
                /\ UNCHANGED <<pc, ctx, closing, mu, smu, isClose, errStr, lnClosed, file, cbShut, guardBy, dataNil, members,
                               toClose, sess, swept, cur, addClose, ntemp, nfail, nfatal>>

---------------------------------------------------------------------------
(* thread steps *)

\* where a thread goes when the call of Session.Close it was in returns
After(t, c) == IF c = "die" THEN "done" ELSE IF c = "add" THEN "acc" ELSE "?"

\* closeAll's loop `for session := range toCloseSessions { session.Close() }` from thread t, lock mu held by t:
\* either it wins the CAS of some live session s (and parks in front of the sweep), or there is none left and
\* closeAll, Close (deferred mu.Unlock) and - for RUN - Run itself return.
LoopNext(t, s) ==
  /\ s \in toClose /\ sess[s] = "live"
  /\ sess' = [sess EXCEPT ![s] = "closed"]
  /\ toClose' = toClose \ {s}
  /\ pc' = [pc EXCEPT ![t] = "rmL"]
  /\ ctx' = [ctx EXCEPT ![t] = "ca"]
  /\ closing' = [closing EXCEPT ![t] = s]
  /\ mu' = mu
LoopEnd(t) ==
  /\ \A s \in toClose : sess[s] # "live"
  /\ toClose' = {}
  /\ pc' = [pc EXCEPT ![t] = "done"]
  /\ ctx' = [ctx EXCEPT ![t] = "none"]
  /\ mu' = Free
  /\ closing' = [closing EXCEPT ![t] = 0]
  /\ UNCHANGED sess
Loop(t) == (\E s \in Sess : LoopNext(t, s)) \/ LoopEnd(t)

\* Listener.Close: mu.Lock(); if isClose return; isClose = true; callback.OnShutdown(reason)
StepClsL(t) ==
  /\ pc[t] = "clsL" /\ mu = Free
  /\ IF isClose
     THEN /\ pc' = [pc EXCEPT ![t] = "done"]
          /\ UNCHANGED <<mu, isClose, cbShut, guardBy>>
     ELSE /\ mu' = t /\ isClose' = TRUE /\ guardBy' = t
          /\ cbShut' = Append(cbShut, IF errStr THEN "accept" ELSE "close")
          /\ pc' = [pc EXCEPT ![t] = "lnc"]
  /\ UNCHANGED <<ctx, closing, smu, errStr, lnClosed, file, dataNil, members, toClose, sess, swept, cur, addClose, ntemp,
                 nfail, nfatal, nstr>>

\* l.ln.Close(); if unix && unlinkOnClose { os.Remove(path) }
StepLnc(t) ==
  /\ pc[t] = "lnc"
  /\ lnClosed' = TRUE
  /\ file' = IF Unlink THEN FALSE ELSE file
  /\ pc' = [pc EXCEPT ![t] = "caL"]
  /\ UNCHANGED <<ctx, closing, mu, smu, isClose, errStr, cbShut, guardBy, dataNil, members, toClose, sess, swept, cur,
                 addClose, ntemp, nfail, nfatal, nstr>>

\* closeAll: sessionMu.Lock(); toCloseSessions := s.data; s.data = nil
StepCaL(t) ==
  /\ pc[t] = "caL" /\ smu = Free
  /\ smu' = t
  /\ toClose' = members /\ members' = {} /\ dataNil' = TRUE
  /\ pc' = [pc EXCEPT ![t] = "caU"]
  /\ UNCHANGED <<ctx, closing, mu, isClose, errStr, lnClosed, file, cbShut, guardBy, sess, swept, cur, addClose, ntemp,
                 nfail, nfatal, nstr>>

\* closeAll: sessionMu.Unlock(); then the loop
StepCaU(t) ==
  /\ pc[t] = "caU"
  /\ smu' = Free
  /\ Loop(t)
  /\ UNCHANGED <<isClose, errStr, lnClosed, file, cbShut, guardBy, dataNil, members, swept, cur, addClose, ntemp, nfail,
                 nfatal, nstr>>

\* removeShutdownSession: sessionMu.Lock(); delete every closed session.  A thread that owns sessionMu itself
\* (sessions.add -> Session.Close -> OnShutdown, code as pinned) waits here for ever.
StepRmL(t) ==
  /\ pc[t] = "rmL" /\ smu = Free
  /\ smu' = t
  /\ members' = {x \in members : sess[x] # "closed"}
  /\ swept' = [swept EXCEPT ![closing[t]] = TRUE]
  /\ pc' = [pc EXCEPT ![t] = "rmU"]
  /\ UNCHANGED <<ctx, closing, mu, isClose, errStr, lnClosed, file, cbShut, guardBy, dataNil, toClose, sess, cur, addClose,
                 ntemp, nfail, nfatal, nstr>>

\* removeShutdownSession: sessionMu.Unlock(); the rest of Session.Close; back in the caller
StepRmU(t) ==
  /\ pc[t] = "rmU"
  /\ smu' = Free
  /\ IF ctx[t] = "ca"
     THEN Loop(t)
     ELSE /\ pc' = [pc EXCEPT ![t] = After(t, ctx[t])]
          /\ ctx' = [ctx EXCEPT ![t] = "none"]
          /\ closing' = [closing EXCEPT ![t] = 0]
          /\ UNCHANGED <<mu, sess, toClose>>
  /\ UNCHANGED <<isClose, errStr, lnClosed, file, cbShut, guardBy, dataNil, members, swept, cur, addClose, ntemp, nfail,
                 nfatal, nstr>>

\* sessions.add: sessionMu.Lock(); data != nil -> insert; else -> session.Close() (pinned: right here, under the lock)
StepAddL ==
  /\ pc[RUN] = "addL" /\ smu = Free
  /\ smu' = RUN
  /\ IF ~dataNil
     THEN /\ members' = IF StaleFix /\ sess[cur] = "closed" THEN members ELSE members \cup {cur}
          /\ pc' = [pc EXCEPT ![RUN] = "addU"]
          /\ UNCHANGED <<sess, ctx, closing, addClose>>
     ELSE IF AddFix
          THEN /\ addClose' = TRUE /\ pc' = [pc EXCEPT ![RUN] = "addU"]
               /\ UNCHANGED <<members, sess, ctx, closing>>
          ELSE IF sess[cur] = "live"
               THEN /\ sess' = [sess EXCEPT ![cur] = "closed"]
                    /\ pc' = [pc EXCEPT ![RUN] = "rmL"]
                    /\ ctx' = [ctx EXCEPT ![RUN] = "add"]
                    /\ closing' = [closing EXCEPT ![RUN] = cur]
                    /\ UNCHANGED <<members, addClose>>
               ELSE /\ pc' = [pc EXCEPT ![RUN] = "addU"]
                    /\ UNCHANGED <<members, sess, ctx, closing, addClose>>
  /\ UNCHANGED <<mu, isClose, errStr, lnClosed, file, cbShut, guardBy, dataNil, toClose, swept, cur, ntemp, nfail, nfatal,
                 nstr>>

\* sessions.add: sessionMu.Unlock() (repaired: then session.Close() when the set was closed); back to Accept
StepAddU ==
  /\ pc[RUN] = "addU"
  /\ smu' = Free
  /\ addClose' = FALSE
  /\ IF addClose /\ sess[cur] = "live"
     THEN /\ sess' = [sess EXCEPT ![cur] = "closed"]
          /\ pc' = [pc EXCEPT ![RUN] = "rmL"]
          /\ ctx' = [ctx EXCEPT ![RUN] = "add"]
          /\ closing' = [closing EXCEPT ![RUN] = cur]
     ELSE /\ pc' = [pc EXCEPT ![RUN] = "acc"]
          /\ UNCHANGED <<sess, ctx, closing>>
  /\ UNCHANGED <<mu, isClose, errStr, lnClosed, file, cbShut, guardBy, dataNil, members, toClose, swept, cur, ntemp, nfail,
                 nfatal, nstr>>

\* the scheduler lets thread t run to its next point
Step(t) == \/ StepClsL(t) \/ StepLnc(t) \/ StepCaL(t) \/ StepCaU(t) \/ StepRmL(t) \/ StepRmU(t)
           \/ (t = RUN /\ (StepAddL \/ StepAddU))

Next == \/ RunStart
        \/ \E k \in {1, 2} : AccTemp(k)
        \/ AccFail
        \/ \E s \in Sess : AccOk(s)
        \/ \E k \in {"closed", "inject"} : AccFatal(k)
        \/ \E c \in Closers : CloseCall(c)
        \/ \E s \in Sess : Die(s) \/ NewStream(s)
        \/ \E t \in Threads : Step(t)

Spec == Init /\ [][Next]_vars
FairSpec == Spec /\ \A t \in Threads : WF_vars(Step(t)) /\ WF_vars(AccFatal("closed"))

---------------------------------------------------------------------------
(* finding classes (classifiers) *)

\* sessions.add found the set closed and closes the live session while it holds sessionMu: Session.Close calls
\* sessionCallback.OnShutdown -> removeShutdownSession -> sessionMu.Lock() on the same goroutine
KfDeadlock == pc[RUN] = "rmL" /\ smu = RUN
\* a session whose own shutdown sweep has already run is (still / again) registered
KfStale    == \E s \in Sess : swept[s] /\ s \in members
Kf         == KfDeadlock \/ KfStale
NoKf       == ~Kf

(* properties *)
PcSet == {"idle", "acc", "addL", "addU", "clsL", "lnc", "caL", "caU", "rmL", "rmU", "done"}
TypeOK == /\ pc \in [Threads -> PcSet]
          /\ mu \in {Free} \cup Threads /\ smu \in {Free} \cup Threads
          /\ members \subseteq Sess /\ toClose \subseteq Sess
          /\ Len(cbShut) <= 2
          /\ \A t \in Threads : pc[t] # "?"

\* ListenCallback.OnShutdown is delivered at most once, and exactly once when a Close has returned
ShutdownAtMostOnce == Len(cbShut) <= 1
ShutdownDelivered  == (\E t \in Threads : pc[t] = "done" /\ (t \in Closers \/ (t = RUN /\ errStr))) => Len(cbShut) = 1
\* ... with the right reason: "accept failed" only after a fatal Accept error, and always when Run itself closes
ReasonRight == cbShut # <<>> => /\ (cbShut[1] = "accept" => errStr)
                                /\ (guardBy = RUN => cbShut[1] = "accept")
\* nobody waits for a lock that he holds himself
NoSelfDeadlock == \A t \in Threads : ~(pc[t] \in {"rmL", "caL", "addL"} /\ smu = t) /\ ~(pc[t] = "clsL" /\ mu = t)
\* lock order: sessionMu is never held while waiting for mu
LockOrder == \A t \in Threads : pc[t] = "clsL" => smu # t
\* the registered sessions are live, or closed with their own sweep still to come
NoStale == \A s \in members : sess[s] = "live" \/ (sess[s] = "closed" /\ ~swept[s])
\* a closed set is empty, and only Close closes it
SetClosed == dataNil => members = {} /\ isClose
\* the raw listener is closed only by Close, the socket file is removed iff unlinkOnClose
LnClosed == (lnClosed => isClose) /\ (file = (~lnClosed \/ ~Unlink))

\* Run returns only after the listener has been closed (a fatal Accept error closes it)
RunDoneClosed == pc[RUN] = "done" => isClose

\* at rest after a Close: everything is closed and released
Quiet == \A t \in Threads : pc[t] \in {"idle", "done"}
Final == Quiet /\ isClose =>
           /\ \A s \in Sess : sess[s] # "live"          \* every accepted session is closed: none runs un-owned
           /\ members = {} /\ dataNil                    \* nothing registered
           /\ lnClosed /\ Len(cbShut) = 1
           /\ mu = Free /\ smu = Free
\* every session that dies while the listener is open is unregistered once its sweep is over (and nothing else is)
SweptGone == \A s \in Sess : swept[s] /\ ~(\E t \in Threads : pc[t] = "addL" /\ cur = s) => s \notin members

\* guarded forms used while a finding class is listed (the class is cut out of the exploration by CONSTRAINT NoKf;
\* TLC evaluates invariants on the first state that violates the constraint)
G_NoSelfDeadlock == Kf \/ NoSelfDeadlock
G_NoStale        == Kf \/ NoStale
G_SweptGone      == Kf \/ SweptGone
G_Final          == Kf \/ Final

(* liveness, under weak fairness of every thread and of the failing Accept on a closed listener *)
CloseReturns == \A c \in Closers : (pc[c] = "clsL") ~> (pc[c] = "done")
RunReturns   == (isClose /\ pc[RUN] # "idle") ~> (pc[RUN] = "done")
DeadUnregistered == \A s \in Sess : (sess[s] = "closed") ~> (s \notin members)
=============================================================================
