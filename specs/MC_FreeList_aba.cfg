SPECIFICATION Spec
CONSTANTS
  NSlots = 4
  Threads = {1, 2, 3}
  MaxOps = 2
  MaxRetry = 200
  MaxLinks = 0
  RetryView = 1
CONSTRAINT RetryBound
VIEW View
INVARIANTS NoDoubleOwner
CHECK_DEADLOCK FALSE
