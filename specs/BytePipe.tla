------------------------------ MODULE BytePipe ------------------------------
(* What a stream IS at the API: two independent byte FIFOs (one per direction) between the endpoints "a" and "b".     *)
(* A writer composes a message with any mix of WriteBytes / Reserve / WriteByte / WriteString and makes it readable  *)
(* with Flush; the reader consumes with any mix of ReadBytes / Peek / Discard / ReadByte / ReadString / Read, of any  *)
(* sizes. ReadBytes and Peek return zero-copy views that stay valid until the reader releases them                    *)
(* (ReleasePreviousRead, ReleaseReadAndReuse, Close).                                                                 *)
(* Byte i of direction d always has the value Val(d, i), so a position range identifies the bytes a call must return. *)
(* The state graph is small on purpose: its PATHS are the histories. checks/bytepipe.py enumerates every path up to a *)
(* bound and replays each on the real linkedBuffer / Stream code under several slice-size configurations and degrees  *)
(* of buffer exhaustion, comparing every returned byte, every Len() and every live zero-copy view with this spec.     *)
(* Properties: C06 (the invariants + the per-step predictions), C08 (Live: views valid until released, all buffers    *)
(* back when everything is consumed and released).                                                                    *)
EXTENDS Integers, FiniteSets, Sequences, TLC
CONSTANTS Dirs,        \* subset of {"ab", "ba"}
          WSizes,      \* sizes used by writer calls
          RSizes,      \* sizes used by reader calls
          MaxMsg,      \* bound on bytes per message
          MaxTotal,    \* bound on bytes per direction
          MaxOps       \* bound on calls (finiteness of the graph; histories are its paths)
VARIABLES w,      \* [Dirs -> Nat]   bytes written and not yet flushed
          f,      \* [Dirs -> Nat]   bytes flushed (made readable) so far
          r,      \* [Dirs -> Nat]   bytes consumed so far
          live,   \* [Dirs -> SUBSET (Nat \X Nat)]  zero-copy views <<start, len>> handed out and not released
          nops,
          last    \* the call just made and what it must return: [op, dir, n, start, cnt]  (observation only)
vars == <<w, f, r, live, nops, last>>

Unread(d) == f[d] - r[d]
WriterKinds == {"WriteBytes", "Reserve", "WriteByte", "WriteString"}

Init == /\ w = [d \in Dirs |-> 0] /\ f = [d \in Dirs |-> 0] /\ r = [d \in Dirs |-> 0]
        /\ live = [d \in Dirs |-> {}] /\ nops = 0
        /\ last = [op |-> "init", dir |-> "", n |-> 0, start |-> 0, cnt |-> 0]

Obs(op, d, n, start, cnt) == last' = [op |-> op, dir |-> d, n |-> n, start |-> start, cnt |-> cnt]
Tick == nops < MaxOps /\ nops' = nops + 1

Write(d, kind, n) ==
    /\ Tick /\ kind \in WriterKinds /\ (kind = "WriteByte" => n = 1)
    /\ w[d] + n <= MaxMsg /\ f[d] + w[d] + n <= MaxTotal
    /\ (d = "ba" => ("ab" \in Dirs /\ f["ab"] > 0))   \* the server end of a stream exists once the client's first message arrived
    /\ w' = [w EXCEPT ![d] = @ + n]
    /\ Obs(kind, d, n, f[d] + w[d], n)
    /\ UNCHANGED <<f, r, live>>
Flush(d) ==
    /\ Tick /\ w[d] > 0
    /\ f' = [f EXCEPT ![d] = @ + w[d]] /\ w' = [w EXCEPT ![d] = 0]
    /\ Obs("Flush", d, w[d], f[d], w[d])
    /\ UNCHANGED <<r, live>>
\* reader calls never block here: only sizes <= Len are issued (blocking is property C11)
ReadBytes(d, n) ==
    /\ Tick /\ n <= Unread(d)
    /\ r' = [r EXCEPT ![d] = @ + n]
    /\ live' = [live EXCEPT ![d] = @ \cup {<<r[d], n>>}]
    /\ Obs("ReadBytes", d, n, r[d], n)
    /\ UNCHANGED <<w, f>>
Peek(d, n) ==
    /\ Tick /\ n <= Unread(d)
    /\ live' = [live EXCEPT ![d] = @ \cup {<<r[d], n>>}]
    /\ Obs("Peek", d, n, r[d], n)
    /\ UNCHANGED <<w, f, r>>
Consume(d, kind, n) ==      \* Discard, ReadString, ReadByte: exactly n bytes
    /\ Tick /\ kind \in {"Discard", "ReadString", "ReadByte"} /\ (kind = "ReadByte" => n = 1)
    /\ n <= Unread(d)
    /\ r' = [r EXCEPT ![d] = @ + n]
    /\ Obs(kind, d, n, r[d], n)
    /\ UNCHANGED <<w, f, live>>
Read(d, n) ==               \* io.Reader: returns between 1 and n bytes; the implementation returns min(n, Len)
    /\ Tick /\ Unread(d) >= 1
    /\ LET k == IF n <= Unread(d) THEN n ELSE Unread(d) IN
         /\ r' = [r EXCEPT ![d] = @ + k]
         /\ Obs("Read", d, n, r[d], k)
    /\ UNCHANGED <<w, f, live>>
Release(d) ==
    /\ Tick
    /\ live' = [live EXCEPT ![d] = {}]
    /\ Obs("Release", d, 0, r[d], 0)
    /\ UNCHANGED <<w, f, r>>
Reuse(d) ==                 \* ReleaseReadAndReuse by the reader of direction d (swaps its buffers when fully consumed)
    /\ Tick
    /\ live' = [live EXCEPT ![d] = {}]
    /\ Obs("Reuse", d, 0, r[d], 0)
    /\ UNCHANGED <<w, f, r>>

Next == \E d \in Dirs :
          \/ \E n \in WSizes : \E k \in WriterKinds : Write(d, k, n)
          \/ Flush(d)
          \/ \E n \in RSizes : ReadBytes(d, n) \/ Peek(d, n) \/ Read(d, n)
                               \/ \E k \in {"Discard", "ReadString", "ReadByte"} : Consume(d, k, n)
          \/ Release(d) \/ Reuse(d)
Spec == Init /\ [][Next]_vars
View == <<w, f, r, live, nops>>

\* C06
Ordered == \A d \in Dirs : 0 <= r[d] /\ r[d] <= f[d] /\ f[d] + w[d] <= MaxTotal
LenIsFlushedMinusConsumed == \A d \in Dirs : Unread(d) >= 0
PeekConsumesNothing == [][\A d \in Dirs : (last'.op = "Peek" /\ last'.dir = d) => r'[d] = r[d]]_vars
ReturnsExactlyNext == [][last'.op \in {"ReadBytes", "Discard", "ReadString", "ReadByte", "Read"} =>
                           /\ last'.start = r[last'.dir]
                           /\ r'[last'.dir] = r[last'.dir] + last'.cnt]_vars
\* C08
LiveWithinFlushed == \A d \in Dirs : \A v \in live[d] : v[1] + v[2] <= f[d]
ReleasedMeansNoLive == [][last'.op \in {"Release", "Reuse"} => live'[last'.dir] = {}]_vars
=============================================================================
