---------------------------- MODULE StreamPool ----------------------------
(* C15 - the stream pool of the session manager (session_manager.go: streamPool, getOrOpenStream, putOrCloseStream,
   pop/push, close; stream.go: reset, ReleaseReadAndReuse, Close/close/clean, halfClose; session.go: OpenStream,
   Close and its posted teardown, onStreamClose).

   One action = one API call of a caller (GetStream, PutBack, a use of the held stream) or one step of the environment
   (the peer answers / closes its end, the session is lost, its teardown runs, the manager's background goroutine
   drains the pool and later installs a rebuilt session).  Every state is "settled": whatever a step sent to the other
   end has been handled there.

   Named deviations from the code
   * the ring (streams[], head, tail, capacity) is a sequence `ring` of length <= Cap; pop takes the first, push appends.
   * API calls are atomic.  getOrOpenStream is a loop of pop (under the pool mutex) + checks on the popped stream (which
     only the popper can reach) + OpenStream (under the stream-table lock); putOrCloseStream is reset (on a stream only
     the caller can reach) + push (under the mutex): every interleaving of two callers is equivalent to an atomic order.
     Environment steps between reset and push commute with both (they only change state/unread data of the stream,
     which push does not read), so they are covered by the orders "before Put" / "after Put".
   * a message is one 3-byte payload in one buffer slice; `unread` counts messages.
   * `Send(c, TRUE)` / `PeerReply(s, TRUE)`: the shared memory is exhausted for the duration of that one call (the
     harness hogs every free buffer, performs the call, gives the buffers back).
   * bounded: N stream ids, MaxOwed unanswered requests and MaxUnread unread answers per stream, MaxSess sessions. *)
EXTENDS Integers, Sequences, FiniteSets

CONSTANTS Callers,          \* e.g. {1, 2}
          Cap,              \* pool capacity (MaxStreamNum)
          N,                \* stream ids 1..N, in the order of OpenStream
          MaxSess,          \* sessions 1..MaxSess (2 = one rebuild)
          MaxOwed, MaxUnread,
          DropCloses,       \* FALSE = as the code: getOrOpenStream drops an unusable pooled stream without Close
          GetChecksUnread,  \* FALSE = as the code: getOrOpenStream does not look at unread data of a pooled stream
          PutChecksWbuf,    \* FALSE = as the code: putOrCloseStream/reset do not look at the write buffer
          Feat              \* optional actions: "fb" "closeheld" "sess" "rebuild" "peerclose" "reply" "write"

Ids == 1..N
SessIds == 1..MaxSess

VARIABLES sess,    \* [SessIds -> {"none","live","closing","dead"}]  closing = Close() done, posted teardown not run
          cur,     \* the session the pool points at
          bg,      \* "idle" | "drained": the background goroutine has run pool.close() for the lost session
          nid,     \* streams opened so far
          owner,   \* [Ids -> 0..MaxSess]
          st,      \* client end of the stream: "none" "open" "half" (peer closed) "closed"
          tab,     \* the stream is in its session's stream table (= counted by GetActiveStreamCount)
          unread,  \* unread messages at the client end (recvBuf + pendingData)
          ufb,     \* an unread message that has not been moved to recvBuf yet came through the socket fallback
          fb,      \* Stream.inFallbackState
          rsv,     \* the stream holds a reserved shared-memory slice for its next write (ReleaseReadAndReuse swap)
          cons,    \* the read buffer still holds the consumed slice of the last message read
          srv,     \* server end: "none" (the server has not seen the stream) "open" "half" (client closed) "closed"
          owed,    \* requests the server end has received and not answered
          holder,  \* [Callers -> 0..N]
          ring,    \* pooled streams, oldest first
          leaked,  \* ghost: streams getOrOpenStream dropped without Close while they were in a live session's table
          late,    \* ghost: pooled streams that received an answer while they were in the pool
          wbuf,    \* the stream's write buffer holds a request the caller wrote and did not flush
          wstale   \* ghost: pooled streams that were given back with an unflushed request in the write buffer

vars == <<sess, cur, bg, nid, owner, st, tab, unread, ufb, fb, rsv, cons, srv, owed, holder, ring, leaked, late, wbuf, wstale>>
strm == <<st, tab, unread, ufb, fb, rsv, cons, srv, owed, wbuf>>

Range(f) == {f[i] : i \in 1..Len(f)}
Held == {holder[c] : c \in Callers} \ {0}
Live(s) == owner[s] # 0 /\ sess[owner[s]] = "live"

Init == /\ sess = [k \in SessIds |-> IF k = 1 THEN "live" ELSE "none"]
        /\ cur = 1 /\ bg = "idle" /\ nid = 0
        /\ owner = [s \in Ids |-> 0]
        /\ st = [s \in Ids |-> "none"] /\ tab = [s \in Ids |-> FALSE]
        /\ unread = [s \in Ids |-> 0] /\ ufb = [s \in Ids |-> FALSE] /\ fb = [s \in Ids |-> FALSE]
        /\ rsv = [s \in Ids |-> FALSE] /\ cons = [s \in Ids |-> FALSE]
        /\ srv = [s \in Ids |-> "none"] /\ owed = [s \in Ids |-> 0]
        /\ holder = [c \in Callers |-> 0] /\ ring = <<>>
        /\ leaked = {} /\ late = {} /\ wbuf = [s \in Ids |-> FALSE] /\ wstale = {}

-----------------------------------------------------------------------------
(* Stream.Close() on every stream of S (client end): close CAS, clean (leave the table, drop unread data and buffers),
   tell the peer if the stream was open and the session is not closed. *)
StC(S)   == [s \in Ids |-> IF s \in S /\ st[s] # "none" THEN "closed" ELSE st[s]]
TabC(S)  == [s \in Ids |-> IF s \in S THEN FALSE ELSE tab[s]]
ZeroC(f, S) == [s \in Ids |-> IF s \in S THEN 0 ELSE f[s]]
FalseC(f, S) == [s \in Ids |-> IF s \in S THEN FALSE ELSE f[s]]
SrvC(S)  == [s \in Ids |-> IF s \in S /\ st[s] = "open" /\ Live(s) /\ srv[s] = "open" THEN "half" ELSE srv[s]]
OwedC(S) == [s \in Ids |-> IF s \in S /\ st[s] = "open" /\ Live(s) THEN 0 ELSE owed[s]]

CloseAll(S) == /\ st' = StC(S) /\ tab' = TabC(S) /\ unread' = ZeroC(unread, S) /\ ufb' = FalseC(ufb, S)
               /\ fb' = FalseC(fb, S) /\ rsv' = FalseC(rsv, S) /\ cons' = FalseC(cons, S)
               /\ srv' = SrvC(S) /\ owed' = OwedC(S) /\ wbuf' = FalseC(wbuf, S)

-----------------------------------------------------------------------------
(* getOrOpenStream *)
Usable(s) == Live(s) /\ st[s] = "open" /\ (GetChecksUnread => unread[s] = 0)
FirstUsable == IF \E i \in 1..Len(ring) : Usable(ring[i])
               THEN CHOOSE i \in 1..Len(ring) : Usable(ring[i]) /\ \A j \in 1..(i-1) : ~Usable(ring[j])
               ELSE 0

Get(c) ==
  /\ holder[c] = 0
  /\ LET k == FirstUsable
         dropped == IF k = 0 THEN Range(ring) ELSE {ring[i] : i \in 1..(k-1)}
         D == IF DropCloses THEN dropped ELSE {}        \* what is closed on the way
         lk == IF DropCloses THEN {} ELSE {s \in dropped : tab[s] /\ Live(s)}
     IN /\ (k = 0 /\ sess[cur] = "live") => nid < N        \* bound: a new id must be left
        /\ leaked' = leaked \cup lk
        /\ late' = late \ (dropped \cup (IF k > 0 THEN {ring[k]} ELSE {}))
        /\ wstale' = wstale \ (dropped \cup (IF k > 0 THEN {ring[k]} ELSE {}))
        /\ IF k > 0
           THEN /\ holder' = [holder EXCEPT ![c] = ring[k]]
                /\ ring' = SubSeq(ring, k + 1, Len(ring))
                /\ CloseAll(D)
                /\ UNCHANGED <<nid, owner>>
           ELSE /\ ring' = <<>>
                /\ IF sess[cur] = "live"
                   THEN /\ nid' = nid + 1
                        /\ owner' = [owner EXCEPT ![nid + 1] = cur]
                        /\ holder' = [holder EXCEPT ![c] = nid + 1]
                        /\ st' = [StC(D) EXCEPT ![nid + 1] = "open"]
                        /\ tab' = [TabC(D) EXCEPT ![nid + 1] = TRUE]
                        /\ unread' = ZeroC(unread, D) /\ ufb' = FalseC(ufb, D) /\ fb' = FalseC(fb, D)
                        /\ rsv' = FalseC(rsv, D) /\ cons' = FalseC(cons, D) /\ srv' = SrvC(D) /\ owed' = OwedC(D)
                        /\ wbuf' = FalseC(wbuf, D)
                   ELSE /\ CloseAll(D)                     \* OpenStream fails: the session is closed
                        /\ UNCHANGED <<nid, owner, holder>>
  /\ UNCHANGED <<sess, cur, bg>>

(* putOrCloseStream *)
Put(c) ==
  LET s == holder[c] IN
  /\ s # 0
  /\ holder' = [holder EXCEPT ![c] = 0]
  /\ IF ~fb[s] /\ st[s] = "open" /\ unread[s] = 0 /\ Len(ring) < Cap /\ (PutChecksWbuf => ~wbuf[s])
     THEN /\ ring' = Append(ring, s)
          \* ReleaseReadAndReuse: if the read buffer holds exactly the consumed slice of the last message, that slice is
          \* reset and the two buffers are SWAPPED: the old write buffer - with whatever the caller left in it - becomes
          \* the read buffer
          /\ rsv' = [rsv EXCEPT ![s] = rsv[s] \/ cons[s]]
          /\ cons' = [cons EXCEPT ![s] = FALSE]
          /\ unread' = [unread EXCEPT ![s] = IF cons[s] /\ wbuf[s] THEN 1 ELSE 0]
          /\ wbuf' = [wbuf EXCEPT ![s] = wbuf[s] /\ ~cons[s]]
          /\ wstale' = IF wbuf[s] THEN wstale \cup {s} ELSE wstale
          /\ UNCHANGED <<st, tab, ufb, fb, srv, owed>>
     ELSE /\ CloseAll({s})
          /\ UNCHANGED <<ring, wstale>>
  /\ UNCHANGED <<sess, cur, bg, nid, owner, leaked, late>>

(* use of the held stream: one request (WriteBytes + Flush) *)
Send(c, f) ==
  LET s == holder[c]
      k == IF wbuf[s] THEN 2 ELSE 1      \* what is flushed: the buffered request (if any) and the new one
  IN
  /\ s # 0 /\ Live(s)
  /\ (f => "fb" \in Feat)
  /\ IF st[s] # "open"
     THEN /\ ~f
          /\ rsv' = [rsv EXCEPT ![s] = FALSE]            \* Flush recycles the send buffer
          /\ UNCHANGED <<fb, srv, owed>>
     ELSE /\ owed[s] + k <= MaxOwed
          /\ (f => ~rsv[s] /\ ~fb[s] /\ ~wbuf[s])       \* (a reserved slice is used even when memory is exhausted)
          /\ fb' = [fb EXCEPT ![s] = fb[s] \/ f]
          /\ rsv' = [rsv EXCEPT ![s] = FALSE]
          /\ srv' = [srv EXCEPT ![s] = "open"]
          /\ owed' = [owed EXCEPT ![s] = owed[s] + k]
  /\ wbuf' = [wbuf EXCEPT ![s] = FALSE]
  /\ UNCHANGED <<sess, cur, bg, nid, owner, st, tab, unread, ufb, cons, holder, ring, leaked, late, wstale>>

(* use of the held stream: the caller buffers a request (WriteBytes) and does not flush it *)
Write(c) ==
  LET s == holder[c] IN
  /\ "write" \in Feat
  /\ s # 0 /\ Live(s) /\ ~wbuf[s] /\ ~fb[s]
  /\ st[s] # "closed"     \* (WriteBytes on a stream the caller has closed allocates a buffer nobody releases: C09, not here)
  /\ wbuf' = [wbuf EXCEPT ![s] = TRUE]
  /\ UNCHANGED <<sess, cur, bg, nid, owner, st, tab, unread, ufb, fb, rsv, cons, srv, owed, holder, ring, leaked, late, wstale>>

(* use of the held stream: read one message *)
Read(c) ==
  LET s == holder[c] IN
  /\ s # 0 /\ unread[s] > 0
  /\ unread' = [unread EXCEPT ![s] = unread[s] - 1]
  /\ fb' = [fb EXCEPT ![s] = fb[s] \/ ufb[s]]
  /\ ufb' = [ufb EXCEPT ![s] = FALSE]
  /\ cons' = [cons EXCEPT ![s] = ("fb" \in Feat \/ "write" \in Feat)]       \* (only tracked when exhaustion is explored: it decides rsv)
  /\ UNCHANGED <<sess, cur, bg, nid, owner, st, tab, rsv, srv, owed, holder, ring, leaked, late, wbuf, wstale>>

(* the caller closes the stream it holds (and gives it back later) *)
CloseHeld(c) ==
  LET s == holder[c] IN
  /\ "closeheld" \in Feat
  /\ s # 0 /\ st[s] # "closed"
  /\ CloseAll({s})
  /\ UNCHANGED <<sess, cur, bg, nid, owner, holder, ring, leaked, late, wstale>>

(* the peer answers one request; the answer reaches the client end wherever the stream is (held or pooled) *)
PeerReply(s, f) ==
  /\ "reply" \in Feat /\ (f => "fb" \in Feat)
  /\ srv[s] = "open" /\ owed[s] > 0 /\ Live(s) /\ st[s] = "open" /\ unread[s] < MaxUnread
  /\ owed' = [owed EXCEPT ![s] = owed[s] - 1]
  /\ unread' = [unread EXCEPT ![s] = unread[s] + 1]
  /\ ufb' = [ufb EXCEPT ![s] = ufb[s] \/ f]
  /\ late' = IF s \in Range(ring) THEN late \cup {s} ELSE late
  /\ UNCHANGED <<sess, cur, bg, nid, owner, st, tab, fb, rsv, cons, srv, holder, ring, leaked, wbuf, wstale>>

(* the peer closes its end *)
PeerClose(s) ==
  /\ "peerclose" \in Feat
  /\ srv[s] \in {"open", "half"} /\ Live(s)
  /\ srv' = [srv EXCEPT ![s] = "closed"]
  /\ owed' = [owed EXCEPT ![s] = 0]
  /\ st' = [st EXCEPT ![s] = IF st[s] = "open" THEN "half" ELSE st[s]]
  /\ UNCHANGED <<sess, cur, bg, nid, owner, tab, unread, ufb, fb, rsv, cons, holder, ring, leaked, late, wbuf, wstale>>

(* session loss: Session.Close() (local close, or exitErr after the peer died): shutdown flag set, teardown posted *)
SessClose ==
  /\ "sess" \in Feat
  /\ sess[cur] = "live"
  /\ sess' = [sess EXCEPT ![cur] = "closing"]
  /\ UNCHANGED <<cur, bg, nid, owner, strm, holder, ring, leaked, late, wstale>>

(* the posted teardown: every stream still in the table is closed, the table is dropped *)
Teardown(k) ==
  LET S == {s \in Ids : owner[s] = k /\ tab[s]} IN
  /\ sess[k] = "closing"
  /\ sess' = [sess EXCEPT ![k] = "dead"]
  /\ st' = StC(S) /\ tab' = TabC(S) /\ unread' = ZeroC(unread, S) /\ ufb' = FalseC(ufb, S)
  /\ fb' = FalseC(fb, S) /\ rsv' = FalseC(rsv, S) /\ cons' = FalseC(cons, S)
  \* the peer's session ends as well (its connection is gone): every server end it knows is closed
  /\ srv' = [s \in Ids |-> IF owner[s] = k /\ srv[s] # "none" THEN "closed" ELSE srv[s]]
  /\ owed' = [s \in Ids |-> IF owner[s] = k THEN 0 ELSE owed[s]]
  /\ leaked' = leaked \ {s \in Ids : owner[s] = k}
  /\ late' = late \ {s \in Ids : owner[s] = k}
  /\ wstale' = wstale \ {s \in Ids : owner[s] = k}
  /\ wbuf' = FalseC(wbuf, S)
  /\ UNCHANGED <<cur, bg, nid, owner, holder, ring>>

(* SessionManager.background: the session's CloseChan fired -> pool.close() ... *)
PoolDrain ==
  /\ "rebuild" \in Feat
  /\ sess[cur] \in {"closing", "dead"} /\ bg = "idle"
  /\ CloseAll(Range(ring))
  /\ ring' = <<>>
  /\ bg' = "drained"
  /\ late' = late \ Range(ring)
  /\ wstale' = wstale \ Range(ring)
  /\ UNCHANGED <<sess, cur, nid, owner, holder, leaked>>

(* ... and after the rebuild interval a new session is stored into the same pool *)
Rebuild ==
  /\ bg = "drained" /\ cur < MaxSess
  /\ cur' = cur + 1
  /\ sess' = [sess EXCEPT ![cur + 1] = "live"]
  /\ bg' = "idle"
  /\ UNCHANGED <<nid, owner, strm, holder, ring, leaked, late, wstale>>

Next == \/ \E c \in Callers : Get(c) \/ Put(c) \/ Read(c) \/ Write(c) \/ CloseHeld(c) \/ Send(c, FALSE) \/ Send(c, TRUE)
        \/ \E s \in Ids : PeerReply(s, FALSE) \/ PeerReply(s, TRUE) \/ PeerClose(s)
        \/ SessClose \/ PoolDrain \/ Rebuild
        \/ \E k \in SessIds : Teardown(k)

Spec == Init /\ [][Next]_vars

-----------------------------------------------------------------------------
TypeOK == /\ sess \in [SessIds -> {"none", "live", "closing", "dead"}] /\ cur \in SessIds /\ bg \in {"idle", "drained"}
          /\ nid \in 0..N /\ owner \in [Ids -> 0..MaxSess]
          /\ st \in [Ids -> {"none", "open", "half", "closed"}] /\ tab \in [Ids -> BOOLEAN]
          /\ unread \in [Ids -> 0..MaxUnread] /\ owed \in [Ids -> 0..MaxOwed]
          /\ srv \in [Ids -> {"none", "open", "half", "closed"}]
          /\ holder \in [Callers -> 0..N] /\ Len(ring) <= Cap /\ Range(ring) \subseteq 1..nid
          /\ wbuf \in [Ids -> BOOLEAN] /\ wstale \subseteq Ids /\ late \subseteq Ids /\ leaked \subseteq Ids

(* no stream is handed to two callers at once (nor to a caller while it sits in the pool) *)
Exclusive == /\ \A c, d \in Callers : (c # d /\ holder[c] # 0) => holder[c] # holder[d]
             /\ \A i, j \in 1..Len(ring) : i # j => ring[i] # ring[j]
             /\ Held \cap Range(ring) = {}

(* a stream obtained from the manager is open, belongs to a live session, carries no bytes from an earlier use *)
FreshAt(s) == st[s] = "open" /\ Live(s) /\ owner[s] = cur /\ unread[s] = 0
Handed(c) == holder[c] = 0 /\ holder'[c] # 0
Fresh == [][\A c \in Callers : Handed(c) =>
              LET s == holder'[c] IN /\ st'[s] = "open" /\ sess'[owner'[s]] = "live" /\ owner'[s] = cur'
                                     /\ unread'[s] = 0 /\ ~wbuf'[s]]_vars
(* ... outside the classes "an answer reached the stream while it was pooled" and "given back with an unflushed request" *)
FreshModKnown == [][\A c \in Callers : Handed(c) =>
                      LET s == holder'[c] IN /\ st'[s] = "open" /\ sess'[owner'[s]] = "live" /\ owner'[s] = cur'
                                             /\ ((unread'[s] = 0 /\ ~wbuf'[s]) \/ s \in late \/ s \in wstale)]_vars

(* a stream given back is kept for reuse or closed *)
PutOutcome == [][\A c \in Callers : (holder[c] # 0 /\ holder'[c] = 0) =>
                   LET s == holder[c] IN s \in Range(ring') \/ (st'[s] = "closed" /\ ~tab'[s])]_vars

(* the active-stream count of a live session is what callers hold plus what the pool keeps *)
NoLeak == \A s \in Ids : (tab[s] /\ Live(s)) => (s \in Held \/ s \in Range(ring))
NoLeakModKnown == \A s \in Ids : (tab[s] /\ Live(s)) => (s \in Held \/ s \in Range(ring) \/ s \in leaked)
ActiveCount(k) == Cardinality({s \in Ids : owner[s] = k /\ tab[s]})
CountExact == \A k \in SessIds : sess[k] = "live" =>
                 ActiveCount(k) = Cardinality({s \in Held \cup Range(ring) \cup leaked : owner[s] = k /\ tab[s]})

(* table membership follows the stream state *)
TableShape == \A s \in Ids : /\ (st[s] \in {"none", "closed"} => ~tab[s])
                             /\ (st[s] \in {"open", "half"} => tab[s])
                             /\ (tab[s] => sess[owner[s]] \in {"live", "closing"})
(* the pool capacity is respected *)
CapOK == Len(ring) <= Cap
=============================================================================
