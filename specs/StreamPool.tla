---------------------------- MODULE StreamPool ----------------------------
(* C15 - the stream pool of the session manager (session_manager.go: streamPool, getOrOpenStream, putOrCloseStream,
   pop/push, close; stream.go: reset, ReleaseReadAndReuse, Close/close/clean, halfClose; session.go: OpenStream,
   Close and its posted teardown, onStreamClose).

   One action = one API call of a caller (GetStream, PutBack, a use of the held stream) or one step of the environment
   (the peer answers / closes its end, the session is lost, its teardown runs, the manager's background goroutine
   drains the pool and later installs a rebuilt session).  Every state is "settled": whatever a step sent to the other
   end has been handled there.

   Named deviations from the code
   * the ring (streams[], head, tail, capacity) is a sequence `ring` of length <= Cap; pop takes the first, push appends.
   * API calls are atomic.  getOrOpenStream is a loop of pop (under the pool mutex) + checks on the popped stream (which
     only the popper can reach) + OpenStream (under the stream-table lock); putOrCloseStream is reset (on a stream only
     the caller can reach) + push (under the mutex): every interleaving of two callers is equivalent to an atomic order.
     Environment steps between reset and push commute with both (they only change state/unread data of the stream,
     which push does not read), so they are covered by the orders "before Put" / "after Put".
   * a message is one 3-byte payload in one buffer slice; `unread` counts messages.
   * `Send(c, TRUE)` / `PeerReply(s, TRUE)`: the shared memory is exhausted for the duration of that one call (the
     harness hogs every free buffer, performs the call, gives the buffers back).
   * callback mode (feature "cb"): the callbacks' OnData consumes ONE message and then stays inside OnData until the
     environment step CbReturn lets it return; a stream whose OnData is running has `inproc`. Named restriction: a
     pooled stream whose previous user's OnData is still running is not handed out again (the environment lets OnData
     return first), and a session with a running OnData is not closed/torn down (the teardown would wait for it).
   * feature "split": PutBack is three steps (reset / ReleaseReadAndReuse / push-or-close) that other callers and the
     environment interleave with; the binding runs the real PutBack under the serialising scheduler and parks it at the
     entry of Stream.ReleaseReadAndReuse and of streamPool.push.
   * bounded: N stream ids, MaxOwed unanswered requests and MaxUnread unread answers per stream, MaxSess sessions. *)
EXTENDS Integers, Sequences, FiniteSets

CONSTANTS Callers,          \* e.g. {1, 2}
          Cap,              \* pool capacity (MaxStreamNum)
          N,                \* stream ids 1..N, in the order of OpenStream
          MaxSess,          \* sessions 1..MaxSess (2 = one rebuild)
          MaxOwed, MaxUnread,
          DropCloses,       \* FALSE = pinned tree: getOrOpenStream drops an unusable pooled stream without Close
          GetChecksUnread,  \* FALSE = pinned tree: getOrOpenStream does not look at unread data of a pooled stream
          PutChecksWbuf,    \* FALSE = pinned tree: putOrCloseStream/reset do not look at the write buffer
          CloseArmsAlways,  \* FALSE = Stream.Close() arms the deferred close only while callbacks are set
          ResetClearsCbFirst, \* design variant (seeded change m1): reset() clears the callbacks before its checks
          PushBeforeRelease,  \* design variant (seeded change m2): push before ReleaseReadAndReuse
          Feat              \* optional actions: "fb" "closeheld" "sess" "rebuild" "peerclose" "reply" "write" "cb" "split"

Ids == 1..N
SessIds == 1..MaxSess

VARIABLES sess,    \* [SessIds -> {"none","live","closing","dead"}]  closing = Close() done, posted teardown not run
          cur,     \* the session the pool points at
          bg,      \* "idle" | "drained": the background goroutine has run pool.close() for the lost session
          nid,     \* streams opened so far
          owner,   \* [Ids -> 0..MaxSess]
          st,      \* client end of the stream: "none" "open" "half" (peer closed / close deferred) "closed"
          tab,     \* the stream is in its session's stream table (= counted by GetActiveStreamCount)
          unread,  \* unread messages at the client end (recvBuf + pendingData)
          ufb,     \* an unread message that has not been moved to recvBuf yet came through the socket fallback
          fb,      \* Stream.inFallbackState
          rsv,     \* the stream holds a reserved shared-memory slice for its next write (ReleaseReadAndReuse swap)
          cons,    \* the read buffer still holds the consumed slice of the last message read
          srv,     \* server end: "none" (the server has not seen the stream) "open" "half" (client closed) "closed"
          owed,    \* requests the server end has received and not answered
          holder,  \* [Callers -> 0..N]
          ring,    \* pooled streams, oldest first
          leaked,  \* ghost: streams getOrOpenStream dropped without Close while they were in a live session's table
          late,    \* ghost: pooled streams that received an answer while they were in the pool
          wbuf,    \* the stream's write buffer holds a request the caller wrote and did not flush
          wstale,  \* ghost: pooled streams that were given back with an unflushed request in the write buffer
          cb,      \* StreamCallbacks are set on the stream
          inproc,  \* callbackInProcess: the callback goroutine runs (OnData has consumed a message and has not returned)
          armed,   \* callbackCloseState = callbackWaitExit: the callback goroutine closes the stream when OnData returns
          cbleak,  \* ghost: Close() deferred to a running callback goroutine WITHOUT arming it (nobody will close)
          pc       \* [Callers -> "idle" | "rel" | "push"]: where the caller's PutBack is (feature "split")

vars == <<sess, cur, bg, nid, owner, st, tab, unread, ufb, fb, rsv, cons, srv, owed, holder, ring, leaked, late, wbuf, wstale,
          cb, inproc, armed, cbleak, pc>>
strm == <<st, tab, unread, ufb, fb, rsv, cons, srv, owed, wbuf, armed, cbleak>>   \* what CloseAll assigns

Range(f) == {f[i] : i \in 1..Len(f)}
Held == {holder[c] : c \in Callers} \ {0}
Live(s) == owner[s] # 0 /\ sess[owner[s]] = "live"
Track == "fb" \in Feat \/ "write" \in Feat        \* (cons is only tracked where it matters: it decides rsv and the swap)

Init == /\ sess = [k \in SessIds |-> IF k = 1 THEN "live" ELSE "none"]
        /\ cur = 1 /\ bg = "idle" /\ nid = 0
        /\ owner = [s \in Ids |-> 0]
        /\ st = [s \in Ids |-> "none"] /\ tab = [s \in Ids |-> FALSE]
        /\ unread = [s \in Ids |-> 0] /\ ufb = [s \in Ids |-> FALSE] /\ fb = [s \in Ids |-> FALSE]
        /\ rsv = [s \in Ids |-> FALSE] /\ cons = [s \in Ids |-> FALSE]
        /\ srv = [s \in Ids |-> "none"] /\ owed = [s \in Ids |-> 0]
        /\ holder = [c \in Callers |-> 0] /\ ring = <<>>
        /\ leaked = {} /\ late = {} /\ wbuf = [s \in Ids |-> FALSE] /\ wstale = {}
        /\ cb = [s \in Ids |-> FALSE] /\ inproc = [s \in Ids |-> FALSE] /\ armed = [s \in Ids |-> FALSE]
        /\ cbleak = {} /\ pc = [c \in Callers |-> "idle"]

-----------------------------------------------------------------------------
(* Stream.Close() on every stream of S (client end).
   No callback goroutine running (Now): close CAS, clean (leave the table, drop unread data and buffers), tell the peer if
   the stream was open and the session is not closed.
   Callback goroutine running (Def): the close is DEFERRED - the stream only becomes half-closed; the goroutine closes
   it when OnData returns, provided Close() armed callbackCloseState, which it does only while callbacks are set
   (`cbf` = the callbacks as Close() sees them). *)
Now(S) == {s \in S : ~inproc[s]}
Def(S) == {s \in S : inproc[s]}
StC(S)   == [s \in Ids |-> IF s \in Now(S) /\ st[s] # "none" THEN "closed"
                           ELSE IF s \in Def(S) /\ st[s] = "open" THEN "half" ELSE st[s]]
TabC(S)  == [s \in Ids |-> IF s \in Now(S) THEN FALSE ELSE tab[s]]
ZeroC(f, S) == [s \in Ids |-> IF s \in Now(S) THEN 0 ELSE f[s]]
FalseC(f, S) == [s \in Ids |-> IF s \in Now(S) THEN FALSE ELSE f[s]]
SrvC(S)  == [s \in Ids |-> IF s \in Now(S) /\ st[s] = "open" /\ Live(s) /\ srv[s] = "open" THEN "half" ELSE srv[s]]
OwedC(S) == [s \in Ids |-> IF s \in Now(S) /\ st[s] = "open" /\ Live(s) THEN 0 ELSE owed[s]]
Arms(s, cbf) == cbf[s] \/ CloseArmsAlways
ArmC(S, cbf) == [s \in Ids |-> IF s \in Def(S) /\ Arms(s, cbf) THEN TRUE ELSE armed[s]]
LeakC(S, cbf) == cbleak \cup {s \in Def(S) : ~Arms(s, cbf) /\ ~armed[s]}

CloseAllCb(S, cbf) ==
               /\ st' = StC(S) /\ tab' = TabC(S) /\ unread' = ZeroC(unread, S) /\ ufb' = FalseC(ufb, S)
               /\ fb' = FalseC(fb, S) /\ rsv' = FalseC(rsv, S) /\ cons' = FalseC(cons, S)
               /\ srv' = SrvC(S) /\ owed' = OwedC(S) /\ wbuf' = FalseC(wbuf, S)
               /\ armed' = ArmC(S, cbf) /\ cbleak' = LeakC(S, cbf)
CloseAll(S) == CloseAllCb(S, cb)

-----------------------------------------------------------------------------
(* getOrOpenStream *)
Usable(s) == Live(s) /\ st[s] = "open" /\ (GetChecksUnread => unread[s] = 0)
FirstUsable == IF \E i \in 1..Len(ring) : Usable(ring[i])
               THEN CHOOSE i \in 1..Len(ring) : Usable(ring[i]) /\ \A j \in 1..(i-1) : ~Usable(ring[j])
               ELSE 0

Get(c) ==
  /\ holder[c] = 0 /\ pc[c] = "idle"
  /\ LET k == FirstUsable
         dropped == IF k = 0 THEN Range(ring) ELSE {ring[i] : i \in 1..(k-1)}
         D == IF DropCloses THEN dropped ELSE {}        \* what is closed on the way
         lk == IF DropCloses THEN {} ELSE {s \in dropped : tab[s] /\ Live(s)}
     IN /\ (k = 0 /\ sess[cur] = "live") => nid < N        \* bound: a new id must be left
        /\ (k > 0 => ~inproc[ring[k]])                      \* (named restriction: the previous user's OnData has returned)
        /\ leaked' = leaked \cup lk
        /\ late' = late \ (dropped \cup (IF k > 0 THEN {ring[k]} ELSE {}))
        /\ wstale' = wstale \ (dropped \cup (IF k > 0 THEN {ring[k]} ELSE {}))
        /\ IF k > 0
           THEN /\ holder' = [holder EXCEPT ![c] = ring[k]]
                /\ ring' = SubSeq(ring, k + 1, Len(ring))
                /\ CloseAll(D)
                /\ UNCHANGED <<nid, owner>>
           ELSE /\ ring' = <<>>
                /\ IF sess[cur] = "live"
                   THEN /\ nid' = nid + 1
                        /\ owner' = [owner EXCEPT ![nid + 1] = cur]
                        /\ holder' = [holder EXCEPT ![c] = nid + 1]
                        /\ st' = [StC(D) EXCEPT ![nid + 1] = "open"]
                        /\ tab' = [TabC(D) EXCEPT ![nid + 1] = TRUE]
                        /\ unread' = ZeroC(unread, D) /\ ufb' = FalseC(ufb, D) /\ fb' = FalseC(fb, D)
                        /\ rsv' = FalseC(rsv, D) /\ cons' = FalseC(cons, D) /\ srv' = SrvC(D) /\ owed' = OwedC(D)
                        /\ wbuf' = FalseC(wbuf, D) /\ armed' = ArmC(D, cb) /\ cbleak' = LeakC(D, cb)
                   ELSE /\ CloseAll(D)                     \* OpenStream fails: the session is closed
                        /\ UNCHANGED <<nid, owner, holder>>
  /\ UNCHANGED <<sess, cur, bg, cb, inproc, pc>>

(* putOrCloseStream = [fallback check, reset] ; ReleaseReadAndReuse ; push-or-close *)
PutOk(s) == ~fb[s] /\ st[s] = "open" /\ unread[s] = 0 /\ (PutChecksWbuf => ~wbuf[s])
\* the callbacks after reset(): cleared at its end when every check passed (or first thing, in the design variant)
CbAfterReset(s) == IF fb[s] THEN cb
                   ELSE IF PutOk(s) \/ ResetClearsCbFirst THEN [cb EXCEPT ![s] = FALSE] ELSE cb
\* ReleaseReadAndReuse: if the read buffer holds exactly the consumed slice of the last message, that slice is reset and
\* the two buffers are SWAPPED: the old write buffer - with whatever is in it - becomes the read buffer
RelEff(s) == /\ rsv' = [rsv EXCEPT ![s] = rsv[s] \/ cons[s]]
             /\ cons' = [cons EXCEPT ![s] = FALSE]
             /\ unread' = [unread EXCEPT ![s] = unread[s] + (IF cons[s] /\ wbuf[s] THEN 1 ELSE 0)]
             /\ wbuf' = [wbuf EXCEPT ![s] = wbuf[s] /\ ~cons[s]]
             /\ wstale' = IF wbuf[s] THEN wstale \cup {s} ELSE wstale

Put(c) ==
  LET s == holder[c] IN
  /\ "split" \notin Feat
  /\ s # 0 /\ pc[c] = "idle"
  /\ holder' = [holder EXCEPT ![c] = 0]
  /\ cb' = CbAfterReset(s)
  /\ IF PutOk(s) /\ Len(ring) < Cap
     THEN /\ ring' = Append(ring, s)
          /\ RelEff(s)
          /\ UNCHANGED <<st, tab, ufb, fb, srv, owed, armed, cbleak>>
     ELSE /\ CloseAllCb({s}, CbAfterReset(s))
          /\ UNCHANGED <<ring, wstale>>
  /\ UNCHANGED <<sess, cur, bg, nid, owner, leaked, late, inproc, pc>>

PutBegin(c) ==
  LET s == holder[c] IN
  /\ "split" \in Feat
  /\ s # 0 /\ pc[c] = "idle"
  /\ cb' = CbAfterReset(s)
  /\ IF PutOk(s)
     THEN /\ pc' = [pc EXCEPT ![c] = IF PushBeforeRelease THEN "push" ELSE "rel"]
          /\ UNCHANGED <<strm, holder, wstale>>
     ELSE /\ CloseAllCb({s}, CbAfterReset(s))
          /\ holder' = [holder EXCEPT ![c] = 0]
          /\ UNCHANGED <<pc, wstale>>
  /\ UNCHANGED <<sess, cur, bg, nid, owner, ring, leaked, late, inproc>>

PutRelease(c) ==
  LET s == holder[c] IN
  /\ pc[c] = "rel"
  /\ RelEff(s)
  /\ IF PushBeforeRelease
     THEN pc' = [pc EXCEPT ![c] = "idle"] /\ holder' = [holder EXCEPT ![c] = 0]
     ELSE pc' = [pc EXCEPT ![c] = "push"] /\ UNCHANGED holder
  /\ UNCHANGED <<sess, cur, bg, nid, owner, st, tab, ufb, fb, srv, owed, armed, cbleak, ring, leaked, late, cb, inproc>>

PutPush(c) ==
  LET s == holder[c] IN
  /\ pc[c] = "push"
  /\ IF Len(ring) < Cap
     THEN /\ ring' = Append(ring, s)
          /\ IF PushBeforeRelease
             THEN pc' = [pc EXCEPT ![c] = "rel"] /\ UNCHANGED holder
             ELSE pc' = [pc EXCEPT ![c] = "idle"] /\ holder' = [holder EXCEPT ![c] = 0]
          /\ UNCHANGED strm
     ELSE /\ CloseAll({s})
          /\ pc' = [pc EXCEPT ![c] = "idle"] /\ holder' = [holder EXCEPT ![c] = 0]
          /\ UNCHANGED ring
  /\ UNCHANGED <<sess, cur, bg, nid, owner, leaked, late, wstale, cb, inproc>>

(* use of the held stream: one request (WriteBytes + Flush) *)
Send(c, f) ==
  LET s == holder[c]
      k == IF wbuf[s] THEN 2 ELSE 1      \* what is flushed: the buffered request (if any) and the new one
  IN
  /\ s # 0 /\ Live(s) /\ pc[c] = "idle"
  /\ (f => "fb" \in Feat)
  /\ IF st[s] # "open"
     THEN /\ ~f
          /\ rsv' = [rsv EXCEPT ![s] = FALSE]            \* Flush recycles the send buffer
          /\ UNCHANGED <<fb, srv, owed>>
     ELSE /\ owed[s] + k <= MaxOwed
          /\ (f => ~rsv[s] /\ ~fb[s] /\ ~wbuf[s])       \* (a reserved slice is used even when memory is exhausted)
          /\ fb' = [fb EXCEPT ![s] = fb[s] \/ f]
          /\ rsv' = [rsv EXCEPT ![s] = FALSE]
          /\ srv' = [srv EXCEPT ![s] = "open"]
          /\ owed' = [owed EXCEPT ![s] = owed[s] + k]
  /\ wbuf' = [wbuf EXCEPT ![s] = FALSE]
  /\ UNCHANGED <<sess, cur, bg, nid, owner, st, tab, unread, ufb, cons, holder, ring, leaked, late, wstale,
                 cb, inproc, armed, cbleak, pc>>

(* use of the held stream: the caller buffers a request (WriteBytes) and does not flush it *)
Write(c) ==
  LET s == holder[c] IN
  /\ "write" \in Feat
  /\ s # 0 /\ Live(s) /\ ~wbuf[s] /\ ~fb[s] /\ pc[c] = "idle"
  /\ st[s] # "closed"     \* (WriteBytes on a stream the caller has closed allocates a buffer nobody releases: C09, not here)
  /\ wbuf' = [wbuf EXCEPT ![s] = TRUE]
  /\ UNCHANGED <<sess, cur, bg, nid, owner, st, tab, unread, ufb, fb, rsv, cons, srv, owed, holder, ring, leaked, late, wstale,
                 cb, inproc, armed, cbleak, pc>>

(* use of the held stream: read one message (synchronous mode) *)
Read(c) ==
  LET s == holder[c] IN
  /\ s # 0 /\ unread[s] > 0 /\ pc[c] = "idle" /\ ~cb[s] /\ ~inproc[s]
  /\ unread' = [unread EXCEPT ![s] = unread[s] - 1]
  /\ fb' = [fb EXCEPT ![s] = fb[s] \/ ufb[s]]
  /\ ufb' = [ufb EXCEPT ![s] = FALSE]
  /\ cons' = [cons EXCEPT ![s] = Track]
  /\ UNCHANGED <<sess, cur, bg, nid, owner, st, tab, rsv, srv, owed, holder, ring, leaked, late, wbuf, wstale,
                 cb, inproc, armed, cbleak, pc>>

(* use of the held stream: switch it to callback mode *)
SetCb(c) ==
  LET s == holder[c] IN
  /\ "cb" \in Feat
  /\ s # 0 /\ pc[c] = "idle" /\ ~cb[s] /\ ~inproc[s] /\ st[s] # "closed"
  /\ cb' = [cb EXCEPT ![s] = TRUE]
  /\ UNCHANGED <<sess, cur, bg, nid, owner, strm, holder, ring, leaked, late, wstale, inproc, pc>>

(* the caller closes the stream it holds (and gives it back later) *)
CloseHeld(c) ==
  LET s == holder[c] IN
  /\ "closeheld" \in Feat
  /\ s # 0 /\ st[s] # "closed" /\ pc[c] = "idle"
  /\ CloseAll({s})
  /\ UNCHANGED <<sess, cur, bg, nid, owner, holder, ring, leaked, late, wstale, cb, inproc, pc>>

(* the peer answers one request; the answer reaches the client end wherever the stream is (held or pooled). In callback
   mode with no callback goroutine running one is started: OnData consumes a message and stays in OnData *)
PeerReply(s, f) ==
  /\ "reply" \in Feat /\ (f => "fb" \in Feat)
  /\ srv[s] = "open" /\ owed[s] > 0 /\ Live(s) /\ st[s] = "open" /\ unread[s] < MaxUnread
  /\ owed' = [owed EXCEPT ![s] = owed[s] - 1]
  /\ IF cb[s] /\ ~inproc[s]
     THEN /\ inproc' = [inproc EXCEPT ![s] = TRUE]
          /\ fb' = [fb EXCEPT ![s] = fb[s] \/ ufb[s] \/ f]
          /\ ufb' = [ufb EXCEPT ![s] = FALSE]
          /\ cons' = [cons EXCEPT ![s] = Track]
          /\ UNCHANGED <<unread, late>>
     ELSE /\ unread' = [unread EXCEPT ![s] = unread[s] + 1]
          /\ ufb' = [ufb EXCEPT ![s] = ufb[s] \/ f]
          /\ late' = IF s \in Range(ring) THEN late \cup {s} ELSE late
          /\ UNCHANGED <<inproc, fb, cons>>
  /\ UNCHANGED <<sess, cur, bg, nid, owner, st, tab, rsv, srv, holder, ring, leaked, wbuf, wstale, cb, armed, cbleak, pc>>

(* OnData returns. The callback goroutine offers the next unread message while the stream is open (OnData again); else it
   leaves, and closes the stream if a Close() was deferred to it AND armed *)
CbReturn(s) ==
  /\ inproc[s]
  /\ IF st[s] = "open" /\ unread[s] > 0
     THEN /\ unread' = [unread EXCEPT ![s] = unread[s] - 1]
          /\ fb' = [fb EXCEPT ![s] = fb[s] \/ ufb[s]]
          /\ ufb' = [ufb EXCEPT ![s] = FALSE]
          /\ cons' = [cons EXCEPT ![s] = Track]
          /\ UNCHANGED <<st, tab, rsv, wbuf, armed, inproc>>
     ELSE /\ inproc' = [inproc EXCEPT ![s] = FALSE]
          /\ IF armed[s]
             THEN /\ st' = [st EXCEPT ![s] = "closed"] /\ tab' = [tab EXCEPT ![s] = FALSE]
                  /\ unread' = [unread EXCEPT ![s] = 0] /\ ufb' = [ufb EXCEPT ![s] = FALSE]
                  /\ fb' = [fb EXCEPT ![s] = FALSE] /\ rsv' = [rsv EXCEPT ![s] = FALSE]
                  /\ cons' = [cons EXCEPT ![s] = FALSE] /\ wbuf' = [wbuf EXCEPT ![s] = FALSE]
                  /\ armed' = [armed EXCEPT ![s] = FALSE]
             ELSE UNCHANGED <<st, tab, unread, ufb, fb, rsv, cons, wbuf, armed>>
  /\ UNCHANGED <<sess, cur, bg, nid, owner, srv, owed, holder, ring, leaked, late, wstale, cb, cbleak, pc>>

(* the peer closes its end *)
PeerClose(s) ==
  /\ "peerclose" \in Feat
  /\ srv[s] \in {"open", "half"} /\ Live(s)
  /\ srv' = [srv EXCEPT ![s] = "closed"]
  /\ owed' = [owed EXCEPT ![s] = 0]
  /\ st' = [st EXCEPT ![s] = IF st[s] = "open" THEN "half" ELSE st[s]]
  /\ UNCHANGED <<sess, cur, bg, nid, owner, tab, unread, ufb, fb, rsv, cons, holder, ring, leaked, late, wbuf, wstale,
                 cb, inproc, armed, cbleak, pc>>

NoCbRunning(k) == \A s \in Ids : owner[s] = k => ~inproc[s]

(* session loss: Session.Close() (local close, or exitErr after the peer died): shutdown flag set, teardown posted *)
SessClose ==
  /\ "sess" \in Feat
  /\ sess[cur] = "live" /\ NoCbRunning(cur)
  /\ sess' = [sess EXCEPT ![cur] = "closing"]
  /\ UNCHANGED <<cur, bg, nid, owner, strm, holder, ring, leaked, late, wstale, cb, inproc, pc>>

(* the posted teardown: every stream still in the table is closed, the table is dropped *)
Teardown(k) ==
  LET S == {s \in Ids : owner[s] = k /\ tab[s]} IN
  /\ sess[k] = "closing" /\ NoCbRunning(k)
  /\ sess' = [sess EXCEPT ![k] = "dead"]
  /\ st' = StC(S) /\ tab' = TabC(S) /\ unread' = ZeroC(unread, S) /\ ufb' = FalseC(ufb, S)
  /\ fb' = FalseC(fb, S) /\ rsv' = FalseC(rsv, S) /\ cons' = FalseC(cons, S)
  \* the peer's session ends as well (its connection is gone): every server end it knows is closed
  /\ srv' = [s \in Ids |-> IF owner[s] = k /\ srv[s] # "none" THEN "closed" ELSE srv[s]]
  /\ owed' = [s \in Ids |-> IF owner[s] = k THEN 0 ELSE owed[s]]
  /\ leaked' = leaked \ {s \in Ids : owner[s] = k}
  /\ late' = late \ {s \in Ids : owner[s] = k}
  /\ wstale' = wstale \ {s \in Ids : owner[s] = k}
  /\ cbleak' = cbleak \ {s \in Ids : owner[s] = k}
  /\ wbuf' = FalseC(wbuf, S)
  /\ UNCHANGED <<cur, bg, nid, owner, holder, ring, cb, inproc, armed, pc>>

(* SessionManager.background: the session's CloseChan fired -> pool.close() ... *)
PoolDrain ==
  /\ "rebuild" \in Feat
  /\ sess[cur] \in {"closing", "dead"} /\ bg = "idle"
  /\ CloseAll(Range(ring))
  /\ ring' = <<>>
  /\ bg' = "drained"
  /\ late' = late \ Range(ring)
  /\ wstale' = wstale \ Range(ring)
  /\ UNCHANGED <<sess, cur, nid, owner, holder, leaked, cb, inproc, pc>>

(* ... and after the rebuild interval a new session is stored into the same pool *)
Rebuild ==
  /\ bg = "drained" /\ cur < MaxSess
  /\ cur' = cur + 1
  /\ sess' = [sess EXCEPT ![cur + 1] = "live"]
  /\ bg' = "idle"
  /\ UNCHANGED <<nid, owner, strm, holder, ring, leaked, late, wstale, cb, inproc, pc>>

Next == \/ \E c \in Callers : \/ Get(c) \/ Put(c) \/ PutBegin(c) \/ PutRelease(c) \/ PutPush(c)
                              \/ Read(c) \/ Write(c) \/ CloseHeld(c) \/ SetCb(c) \/ Send(c, FALSE) \/ Send(c, TRUE)
        \/ \E s \in Ids : PeerReply(s, FALSE) \/ PeerReply(s, TRUE) \/ PeerClose(s) \/ CbReturn(s)
        \/ SessClose \/ PoolDrain \/ Rebuild
        \/ \E k \in SessIds : Teardown(k)

Spec == Init /\ [][Next]_vars

-----------------------------------------------------------------------------
TypeOK == /\ sess \in [SessIds -> {"none", "live", "closing", "dead"}] /\ cur \in SessIds /\ bg \in {"idle", "drained"}
          /\ nid \in 0..N /\ owner \in [Ids -> 0..MaxSess]
          /\ st \in [Ids -> {"none", "open", "half", "closed"}] /\ tab \in [Ids -> BOOLEAN]
          /\ unread \in [Ids -> 0..MaxUnread] /\ owed \in [Ids -> 0..MaxOwed]
          /\ srv \in [Ids -> {"none", "open", "half", "closed"}]
          /\ holder \in [Callers -> 0..N] /\ Len(ring) <= Cap /\ Range(ring) \subseteq 1..nid
          /\ wbuf \in [Ids -> BOOLEAN] /\ wstale \subseteq Ids /\ late \subseteq Ids /\ leaked \subseteq Ids
          /\ cb \in [Ids -> BOOLEAN] /\ inproc \in [Ids -> BOOLEAN] /\ armed \in [Ids -> BOOLEAN] /\ cbleak \subseteq Ids
          /\ pc \in [Callers -> {"idle", "rel", "push"}]

(* no stream is handed to two callers at once (nor to a caller while it sits in the pool) *)
Exclusive == /\ \A c, d \in Callers : (c # d /\ holder[c] # 0) => holder[c] # holder[d]
             /\ \A i, j \in 1..Len(ring) : i # j => ring[i] # ring[j]
             /\ Held \cap Range(ring) = {}

(* a stream obtained from the manager is open, belongs to a live session, carries no bytes from an earlier use *)
Handed(c) == holder[c] = 0 /\ holder'[c] # 0
Fresh == [][\A c \in Callers : Handed(c) =>
              LET s == holder'[c] IN /\ st'[s] = "open" /\ sess'[owner'[s]] = "live" /\ owner'[s] = cur'
                                     /\ unread'[s] = 0 /\ ~wbuf'[s] /\ ~inproc'[s]]_vars
(* ... outside the classes "an answer reached the stream while it was pooled" and "given back with an unflushed request" *)
FreshModKnown == [][\A c \in Callers : Handed(c) =>
                      LET s == holder'[c] IN /\ st'[s] = "open" /\ sess'[owner'[s]] = "live" /\ owner'[s] = cur'
                                             /\ ~inproc'[s]
                                             /\ ((unread'[s] = 0 /\ ~wbuf'[s]) \/ s \in late \/ s \in wstale)]_vars

(* a stream given back is kept for reuse or closed - at once, or by its still running callback goroutine *)
PutOutcome == [][\A c \in Callers : (holder[c] # 0 /\ holder'[c] = 0) =>
                   LET s == holder[c] IN \/ s \in Range(ring')
                                         \/ (st'[s] = "closed" /\ ~tab'[s])
                                         \/ (inproc'[s] /\ (armed'[s] \/ s \in cbleak'))]_vars
(* ... and when that goroutine leaves, the stream is held, pooled or closed *)
DeferredCloseDone == [][\A s \in Ids : (inproc[s] /\ ~inproc'[s]) =>
                          (s \in Held \/ s \in Range(ring) \/ st'[s] = "closed" \/ s \in cbleak)]_vars
DeferredCloseDoneStrict == [][\A s \in Ids : (inproc[s] /\ ~inproc'[s]) =>
                                (s \in Held \/ s \in Range(ring) \/ st'[s] = "closed")]_vars

(* the active-stream count of a live session is what callers hold plus what the pool keeps (plus streams whose user's
   callback is still running: their close is pending) *)
NoLeak == \A s \in Ids : (tab[s] /\ Live(s)) => (s \in Held \/ s \in Range(ring) \/ inproc[s])
NoLeakModKnown == \A s \in Ids : (tab[s] /\ Live(s)) =>
                     (s \in Held \/ s \in Range(ring) \/ inproc[s] \/ s \in leaked \/ s \in cbleak)
ActiveCount(k) == Cardinality({s \in Ids : owner[s] = k /\ tab[s]})
CountExact == \A k \in SessIds : sess[k] = "live" =>
                 ActiveCount(k) = Cardinality({s \in Held \cup Range(ring) \cup leaked \cup cbleak \cup {x \in Ids : inproc[x]} :
                                                  owner[s] = k /\ tab[s]})

(* table membership follows the stream state *)
TableShape == \A s \in Ids : /\ (st[s] \in {"none", "closed"} => ~tab[s])
                             /\ (st[s] \in {"open", "half"} => tab[s])
                             /\ (tab[s] => sess[owner[s]] \in {"live", "closing"})
(* the pool capacity is respected *)
CapOK == Len(ring) <= Cap
=============================================================================
