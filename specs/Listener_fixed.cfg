\* Listener.tla with the repaired sessions.add (Feat = {"addfix", "stalefix"}): every invariant unguarded, plus liveness
\* (Close returns, Run returns after Close, a dead session is unregistered) under weak fairness.
SPECIFICATION FairSpec
CONSTANTS
  NSess = 2
  NClosers = 2
  MaxTemp = 1
  MaxFail = 1
  Fatal = TRUE
  Unlink = TRUE
  MaxStreams = 0
  Feat = {"addfix", "stalefix"}
INVARIANTS TypeOK ShutdownAtMostOnce ShutdownDelivered ReasonRight LockOrder SetClosed LnClosed RunDoneClosed NoSelfDeadlock NoStale SweptGone Final
PROPERTIES CloseReturns RunReturns DeadUnregistered
CHECK_DEADLOCK FALSE
