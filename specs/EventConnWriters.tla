--------------------------- MODULE EventConnWriters ---------------------------
(* Who may write to the event connection (session.go): the `writing` flag taken by CAS on the fast path of           *)
(* Session.wakeUpPeer (thread 1) and Session.hotRestart (thread 2), the slow path through sendCh, the send loop      *)
(* Session.send with its wait on notifyContinueWriteCh (capacity 1, asyncNotify drops when full).                    *)
(* ONE ACTION PER ATOMIC ACCESS of the real functions (the scheduling points tools/instr puts in front of            *)
(* atomic.AddUint64 / CompareAndSwapUint32 / StoreUint32), plus the two channel receives of the send loop.           *)
(* An event is written in two parts so that "no interleaving inside an event" is a statement about the wire: part 1  *)
(* goes out right after the winning CAS, part 2 right before the store that releases the flag (the real write call   *)
(* sits between the two accesses).                                                                                    *)
(* Deviations: write errors / shutdown are not modelled (d2 of EventConn); sendCh is unbounded here (4096 in the     *)
(* code, never filled by the bounded workloads); Eager = TRUE restricts the interleavings to those in which the      *)
(* send loop's channel receives happen as soon as they can (what a free-running goroutine does) - used for replay,   *)
(* the verdict is taken with Eager = FALSE.                                                                           *)
EXTENDS Integers, Sequences, FiniteSets, TLC

CONSTANTS Calls1, Calls2,   \* calls of wakeUpPeer by thread 1 / hotRestart by thread 2
          Submits,          \* events put into sendCh by waitForSend callers
          Eager

Fast == {1, 2}
NCalls(t) == IF t = 1 THEN Calls1 ELSE Calls2
Id(t, k) == t * 100 + k

VARIABLES writing, sendCh, tok, wire,    \* s.writing, s.sendCh, s.notifyContinueWriteCh, bytes on the connection
          fpc, fk,                       \* fast threads: pc, number of the current/last call
          lpc, lcur,                     \* send loop: pc, entry taken from sendCh
          subs
vars == <<writing, sendCh, tok, wire, fpc, fk, lpc, lcur, subs>>

Init == /\ writing = 0 /\ sendCh = <<>> /\ tok = 0 /\ wire = <<>>
        /\ fpc = [t \in Fast |-> "idle"] /\ fk = [t \in Fast |-> 0]
        /\ lpc = "recv" /\ lcur = 0 /\ subs = 0

SilentEnabled == (lpc = "recv" /\ sendCh # <<>>) \/ (lpc = "tokwait" /\ tok = 1)
Visible == ~Eager \/ ~SilentEnabled

Begin(t) ==       \* the call starts and runs up to its first atomic access
    /\ Visible /\ fpc[t] = "idle" /\ fk[t] < NCalls(t)
    /\ fk' = [fk EXCEPT ![t] = @ + 1]
    /\ fpc' = [fpc EXCEPT ![t] = IF t = 1 THEN "stat" ELSE "cas"]
    /\ UNCHANGED <<writing, sendCh, tok, wire, lpc, lcur, subs>>

FastStat(t) ==    \* wakeUpPeer: atomic.AddUint64(&s.stats.sendPollingEventCount, 1)
    /\ Visible /\ fpc[t] = "stat"
    /\ fpc' = [fpc EXCEPT ![t] = "cas"]
    /\ UNCHANGED <<writing, sendCh, tok, wire, fk, lpc, lcur, subs>>

FastCAS(t) ==     \* atomic.CompareAndSwapUint32(&s.writing, 0, 1): fast path and the write, or `s.sendCh <- ...` and return
    /\ Visible /\ fpc[t] = "cas"
    /\ IF writing = 0
         THEN /\ writing' = 1 /\ wire' = Append(wire, <<Id(t, fk[t]), 1>>)
              /\ fpc' = [fpc EXCEPT ![t] = "store"] /\ UNCHANGED sendCh
         ELSE /\ sendCh' = Append(sendCh, Id(t, fk[t]))
              /\ fpc' = [fpc EXCEPT ![t] = "idle"] /\ UNCHANGED <<writing, wire>>
    /\ UNCHANGED <<tok, fk, lpc, lcur, subs>>

FastStore(t) ==   \* atomic.StoreUint32(&s.writing, 0); asyncNotify(s.notifyContinueWriteCh); return
    /\ Visible /\ fpc[t] = "store"
    /\ wire' = Append(wire, <<Id(t, fk[t]), 2>>)
    /\ writing' = 0 /\ tok' = 1
    /\ fpc' = [fpc EXCEPT ![t] = "idle"]
    /\ UNCHANGED <<sendCh, fk, lpc, lcur, subs>>

Submit ==         \* waitForSendErr: s.sendCh <- ready
    /\ Visible /\ subs < Submits
    /\ subs' = subs + 1 /\ sendCh' = Append(sendCh, Id(3, subs + 1))
    /\ UNCHANGED <<writing, tok, wire, fpc, fk, lpc, lcur>>

LoopRecv ==       \* case ready := <-s.sendCh
    /\ lpc = "recv" /\ sendCh # <<>>
    /\ lcur' = Head(sendCh) /\ sendCh' = Tail(sendCh) /\ lpc' = "cas"
    /\ UNCHANGED <<writing, tok, wire, fpc, fk, subs>>

LoopCAS ==        \* for !atomic.CompareAndSwapUint32(&s.writing, 0, 1) { <-s.notifyContinueWriteCh }
    /\ Visible /\ lpc = "cas"
    /\ IF writing = 0
         THEN /\ writing' = 1 /\ wire' = Append(wire, <<lcur, 1>>) /\ lpc' = "store"
         ELSE /\ lpc' = "tokwait" /\ UNCHANGED <<writing, wire>>
    /\ UNCHANGED <<sendCh, tok, fpc, fk, lcur, subs>>

LoopTok ==        \* <-s.notifyContinueWriteCh returns
    /\ lpc = "tokwait" /\ tok = 1
    /\ tok' = 0 /\ lpc' = "cas"
    /\ UNCHANGED <<writing, sendCh, wire, fpc, fk, lcur, subs>>

LoopStore ==      \* atomic.StoreUint32(&s.writing, 0); asyncSendErr(ready.Err, nil); back to the select
    /\ Visible /\ lpc = "store"
    /\ wire' = Append(wire, <<lcur, 2>>)
    /\ writing' = 0 /\ lpc' = "recv"
    /\ UNCHANGED <<sendCh, tok, fpc, fk, lcur, subs>>

AllStarted == (\A t \in Fast : fk[t] = NCalls(t) /\ fpc[t] = "idle") /\ subs = Submits
Finished == AllStarted /\ lpc = "recv" /\ sendCh = <<>>
Terminated == Finished /\ UNCHANGED vars

Next == (\E t \in Fast : Begin(t) \/ FastStat(t) \/ FastCAS(t) \/ FastStore(t))
        \/ Submit \/ LoopRecv \/ LoopCAS \/ LoopTok \/ LoopStore \/ Terminated
Spec == Init /\ [][Next]_vars

-----------------------------------------------------------------------------
Inside == {t \in Fast : fpc[t] = "store"} \cup (IF lpc = "store" THEN {3} ELSE {})
Mutex == Cardinality(Inside) <= 1 /\ (writing = 0 => Inside = {})
\* writes of concurrent senders never interleave inside an event
NoInterleave == \A i \in 1..Len(wire) :
                   /\ wire[i][2] = 1 => (i = Len(wire) \/ wire[i + 1] = <<wire[i][1], 2>>)
                   /\ wire[i][2] = 2 => (i > 1 /\ wire[i - 1] = <<wire[i][1], 1>>)
\* exactly once
WireOK == \A i, j \in 1..Len(wire) : (wire[i] = wire[j]) => i = j
AllIds == {Id(1, k) : k \in 1..Calls1} \cup {Id(2, k) : k \in 1..Calls2} \cup {Id(3, k) : k \in 1..Submits}
\* nothing left behind when everybody has returned and the loop waits on an empty sendCh (with deadlock checking on:
\* the loop never waits forever on notifyContinueWriteCh while an entry is pending)
QuiescentOK == Finished => /\ writing = 0
                           /\ {wire[i][1] : i \in 1..Len(wire)} = AllIds
                           /\ Len(wire) = 2 * Cardinality(AllIds)
\* events of one slow-path submitter keep their order
SubmitOrder == \A i, j \in 1..Len(wire) : (i < j /\ wire[i][1] > 300 /\ wire[j][1] > 300) => wire[i][1] <= wire[j][1]
=============================================================================
