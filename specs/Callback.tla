------------------------------ MODULE Callback ------------------------------
(* One stream in callback mode (StreamCallbacks installed): the hand-off between the event loop, which receives      *)
(* messages and peer-close events for the stream (Stream.fillDataToReadBuffer / Stream.halfClose), the callback       *)
(* goroutines it spawns (the closure passed to gopool.Go), and a user goroutine calling Stream.Close - or OnData     *)
(* calling Close itself. Step boundaries are the scheduling points of the REAL code (atomic operations on             *)
(* callbackInProcess / callbackCloseState / state, the wait-group wait, entering and leaving OnData), so that a TLC  *)
(* behaviour is replayed on the real functions one step per action.                                                  *)
(*   Events       : sequence of "d" (a message arrives) / "c" (the peer's close arrives) for this stream             *)
(*   UserClose    : a user goroutine calls Close() at an arbitrary moment                                            *)
(*   CloseInOnData: OnData calls Close() during its first invocation                                                 *)
(* Properties: C20 (Serial, NoDupOffer, OrderOffer, NoStranding, NothingAfterClose), C10 callback part               *)
(* (CallbackOnce, PeerLearns).                                                                                       *)
EXTENDS Integers, Sequences, FiniteSets, TLC
CONSTANTS Events, UserClose, CloseInOnData
G == {1, 2}               \* at most two callback goroutines exist at a time (one leaving, one just spawned)
Callers == G \cup {0}     \* who can be inside Close()/close(): the user goroutine 0 and the callback goroutines
VARIABLES state,          \* "open" | "half" | "closed"
          pending, recv,  \* message ids in pendingData / in the read buffer
          offered,        \* history: ids handed to OnData, in order
          cip, ccs,       \* callbackInProcess, callbackCloseState
          epc, ei,        \* event loop: pc, index of the current event
          gpc,            \* callback goroutine pcs
          wg,             \* asyncGoroutineWg counter
          inOnData,       \* goroutines inside OnData
          upc,            \* user goroutine pc
          cpcOf, oldOf,   \* per caller: pc inside Close()/close(), the oldState register of close()
          peerNotified, localCb, remoteCb, localCloseCalled, closedInOnData,
          inTable,        \* the stream is still registered in the session (false once clean() ran): later events are dropped
          kf              \* ghost: classifier of the listed known findings
vars == <<state, pending, recv, offered, cip, ccs, epc, ei, gpc, wg, inOnData, upc, cpcOf, oldOf,
          peerNotified, localCb, remoteCb, localCloseCalled, closedInOnData, inTable, kf>>
DataIds == {i \in 1..Len(Events) : Events[i] = "d"}
Range(sq) == {sq[i] : i \in 1..Len(sq)}

Init == /\ state = "open" /\ pending = <<>> /\ recv = <<>> /\ offered = <<>>
        /\ cip = 0 /\ ccs = 0 /\ epc = "next" /\ ei = 1
        /\ gpc = [g \in G |-> "none"] /\ wg = 0 /\ inOnData = 0
        /\ upc = IF UserClose THEN "start" ELSE "done"
        /\ cpcOf = [c \in Callers |-> "none"] /\ oldOf = [c \in Callers |-> "open"]
        /\ peerNotified = FALSE /\ localCb = 0 /\ remoteCb = 0 /\ localCloseCalled = FALSE
        /\ closedInOnData = FALSE /\ inTable = TRUE /\ kf = ""

Unoffered == {d \in DataIds : d < ei} \ Range(offered)
KeepKf == kf' = kf
U1 == UNCHANGED <<peerNotified, localCb, remoteCb, localCloseCalled, closedInOnData, inTable>>

-----------------------------------------------------------------------------
\* event loop: one event at a time
EData ==    \* handlePolling -> fillDataToReadBuffer: pendingData.add(buf)
    /\ epc = "next" /\ ei <= Len(Events) /\ Events[ei] = "d"
    /\ IF inTable THEN pending' = Append(pending, ei) /\ epc' = "chk" /\ ei' = ei
                  ELSE pending' = pending /\ epc' = "next" /\ ei' = ei + 1     \* unknown stream (client end): buffer recycled
    /\ UNCHANGED <<state, recv, offered, cip, ccs, gpc, wg, inOnData, upc, cpcOf, oldOf>> /\ U1 /\ KeepKf
EChk ==     \* Stream.getStreamState:LoadUint32   "stream had closed": drop what arrived (pendingData.clear)
    /\ epc = "chk"
    /\ IF state = "closed"
         THEN /\ pending' = <<>> /\ epc' = "drop"
         ELSE /\ UNCHANGED pending /\ epc' = "cas"
    /\ UNCHANGED <<state, recv, ei, offered, cip, ccs, gpc, wg, inOnData, upc, cpcOf, oldOf>> /\ U1 /\ KeepKf
EDrop ==    \* Stream.fillDataToReadBuffer:LoadUint32 callbackInProcess: the read buffer is recycled here only when no callback
            \* goroutine can be inside OnData (otherwise close(), which waits for it, recycles it in clean())
    /\ epc = "drop"
    /\ recv' = IF cip = 0 THEN <<>> ELSE recv
    /\ epc' = "next" /\ ei' = ei + 1
    /\ UNCHANGED <<state, pending, offered, cip, ccs, gpc, wg, inOnData, upc, cpcOf, oldOf>> /\ U1 /\ KeepKf
ECas ==     \* Stream.fillDataToReadBuffer:CompareAndSwapUint32 (callbackInProcess 0 -> 1), wg.Add(1)
    /\ epc = "cas"
    /\ IF cip = 0
         THEN /\ cip' = 1 /\ wg' = wg + 1 /\ epc' = "rechk" /\ ei' = ei
         ELSE /\ UNCHANGED <<cip, wg>> /\ epc' = "next" /\ ei' = ei + 1
    /\ UNCHANGED <<state, pending, recv, offered, ccs, gpc, inOnData, upc, cpcOf, oldOf>> /\ U1 /\ KeepKf
ERechk ==   \* Stream.getStreamState:LoadUint32 again, now that the goroutine is registered with the wait group: if the stream
            \* was closed meanwhile the registration is undone, otherwise gopool.Go
    /\ epc = "rechk"
    /\ IF state = "closed"
         THEN /\ epc' = "undo" /\ ei' = ei /\ gpc' = gpc
         ELSE /\ \E g \in G : /\ gpc[g] = "none"
                              /\ \A h \in G : (gpc[h] = "none" => g <= h)       \* deterministic choice of the free slot
                              /\ gpc' = [gpc EXCEPT ![g] = "go"]
              /\ epc' = "next" /\ ei' = ei + 1
    /\ UNCHANGED <<state, pending, recv, offered, cip, ccs, wg, inOnData, upc, cpcOf, oldOf>> /\ U1 /\ KeepKf
EUndo ==    \* Stream.fillDataToReadBuffer:StoreUint32 callbackInProcess = 0, wg.Done, pendingData.clear, recvBuf.recycle
    /\ epc = "undo"
    /\ cip' = 0 /\ wg' = wg - 1 /\ pending' = <<>> /\ recv' = <<>>
    /\ epc' = "next" /\ ei' = ei + 1
    /\ UNCHANGED <<state, offered, ccs, gpc, inOnData, upc, cpcOf, oldOf>> /\ U1 /\ KeepKf
EClose ==   \* a close element / stream-close event for this stream: handleStreamMessage -> halfClose
    /\ epc = "next" /\ ei <= Len(Events) /\ Events[ei] = "c"
    /\ IF inTable THEN epc' = "half" /\ ei' = ei ELSE epc' = "next" /\ ei' = ei + 1
    /\ UNCHANGED <<state, pending, recv, offered, cip, ccs, gpc, wg, inOnData, upc, cpcOf, oldOf>> /\ U1 /\ KeepKf
EHalf ==    \* Stream.halfClose:CompareAndSwapUint32 (open -> half), closeNotify, OnRemoteClose
    /\ epc = "half"
    /\ IF state = "open" THEN /\ state' = "half" /\ remoteCb' = remoteCb + 1
                              /\ kf' = IF kf = "" /\ Unoffered # {} THEN "peer-close-before-offer" ELSE kf
                         ELSE /\ UNCHANGED <<state, remoteCb>> /\ KeepKf
    /\ epc' = "next" /\ ei' = ei + 1
    /\ UNCHANGED <<pending, recv, offered, cip, ccs, gpc, wg, inOnData, upc, cpcOf, oldOf,
                   peerNotified, localCb, localCloseCalled, closedInOnData, inTable>>

-----------------------------------------------------------------------------
\* Close() (public) and close() for caller c
PubClose1(c) ==   \* Stream.Close:StoreUint32   callbackCloseState = waitExit
    /\ cpcOf[c] = "C1" /\ ccs' = 1 /\ localCloseCalled' = TRUE /\ cpcOf' = [cpcOf EXCEPT ![c] = "C2"]
    /\ UNCHANGED <<state, pending, recv, offered, cip, epc, ei, gpc, wg, inOnData, upc, oldOf,
                   peerNotified, localCb, remoteCb, closedInOnData, inTable>> /\ KeepKf
PubClose2(c) ==   \* Stream.Close:LoadUint32    callbackInProcess == 1 ?
    /\ cpcOf[c] = "C2"
    /\ cpcOf' = [cpcOf EXCEPT ![c] = IF cip = 1 THEN "C3" ELSE "begin"]
    /\ UNCHANGED <<state, pending, recv, offered, cip, ccs, epc, ei, gpc, wg, inOnData, upc, oldOf>> /\ U1 /\ KeepKf
PubClose3(c) ==   \* Stream.Close:CompareAndSwapUint32 (open -> half) and return: the close is deferred to the goroutine
    /\ cpcOf[c] = "C3"
    /\ state' = IF state = "open" THEN "half" ELSE state
    /\ cpcOf' = [cpcOf EXCEPT ![c] = "ret"]
    /\ kf' = IF kf = "" THEN "close-during-callback" ELSE kf
    /\ UNCHANGED <<pending, recv, offered, cip, ccs, epc, ei, gpc, wg, inOnData, upc, oldOf>> /\ U1
CloseBegin(c) ==  \* Stream.getStreamState:LoadUint32 in close()
    /\ cpcOf[c] = "begin"
    /\ IF state = "closed" THEN cpcOf' = [cpcOf EXCEPT ![c] = "ret"] /\ oldOf' = oldOf
                           ELSE cpcOf' = [cpcOf EXCEPT ![c] = "cas"] /\ oldOf' = [oldOf EXCEPT ![c] = state]
    /\ UNCHANGED <<state, pending, recv, offered, cip, ccs, epc, ei, gpc, wg, inOnData, upc>> /\ U1 /\ KeepKf
CloseCas(c) ==    \* Stream.close:CompareAndSwapUint32 (old -> closed); a lost CAS reloads the state and retries
    /\ cpcOf[c] = "cas"
    /\ IF state = oldOf[c] THEN state' = "closed" /\ cpcOf' = [cpcOf EXCEPT ![c] = "wait"]
                           ELSE state' = state /\ cpcOf' = [cpcOf EXCEPT ![c] = "begin"]
    /\ UNCHANGED <<pending, recv, offered, cip, ccs, epc, ei, gpc, wg, inOnData, upc, oldOf>> /\ U1 /\ KeepKf
CloseWait(c) ==   \* asyncGoroutineWg.Wait() returns; next access is getStreamState inside clean()
    /\ cpcOf[c] = "wait" /\ wg = 0 /\ cpcOf' = [cpcOf EXCEPT ![c] = "clean"]
    /\ UNCHANGED <<state, pending, recv, offered, cip, ccs, epc, ei, gpc, wg, inOnData, upc, oldOf>> /\ U1 /\ KeepKf
CloseClean(c) ==  \* clean(); if it was open: closeNotify, OnLocalClose, tell the peer
    /\ cpcOf[c] = "clean"
    /\ pending' = <<>> /\ recv' = <<>>
    /\ IF oldOf[c] = "open" THEN localCb' = localCb + 1 /\ peerNotified' = TRUE
                            ELSE UNCHANGED <<localCb, peerNotified>>
    /\ cpcOf' = [cpcOf EXCEPT ![c] = "ret"] /\ inTable' = FALSE
    /\ UNCHANGED <<state, offered, cip, ccs, epc, ei, gpc, wg, inOnData, upc, oldOf, remoteCb, localCloseCalled,
                   closedInOnData>> /\ KeepKf

\* user goroutine
UStart == /\ upc = "start" /\ upc' = "closing" /\ cpcOf' = [cpcOf EXCEPT ![0] = "C1"]
          /\ UNCHANGED <<state, pending, recv, offered, cip, ccs, epc, ei, gpc, wg, inOnData, oldOf>> /\ U1 /\ KeepKf
URet == /\ upc = "closing" /\ cpcOf[0] = "ret" /\ upc' = "done" /\ cpcOf' = [cpcOf EXCEPT ![0] = "none"]
        /\ UNCHANGED <<state, pending, recv, offered, cip, ccs, epc, ei, gpc, wg, inOnData, oldOf>> /\ U1 /\ KeepKf

-----------------------------------------------------------------------------
\* callback goroutine g (the closure given to gopool.Go)
GMove(g) ==       \* first step after the spawn: pendingData.moveTo(recvBuf); next access: IsOpen()
    /\ gpc[g] = "go" /\ recv' = recv \o pending /\ pending' = <<>> /\ gpc' = [gpc EXCEPT ![g] = "loop"]
    /\ UNCHANGED <<state, offered, cip, ccs, epc, ei, wg, inOnData, upc, cpcOf, oldOf>> /\ U1 /\ KeepKf
GLoop(g) ==       \* Stream.getStreamState:LoadUint32 (IsOpen) && recvBuf.Len() > 0 [Len also takes what is pending]
    /\ gpc[g] = "loop"
    /\ IF state = "open" /\ Len(recv \o pending) > 0
         THEN /\ offered' = offered \o recv \o pending /\ recv' = <<>> /\ pending' = <<>>   \* OnData reads everything
              /\ inOnData' = inOnData + 1 /\ gpc' = [gpc EXCEPT ![g] = "ondata"]
         ELSE /\ UNCHANGED <<offered, recv, pending, inOnData>> /\ gpc' = [gpc EXCEPT ![g] = "clr"]
    /\ UNCHANGED <<state, cip, ccs, epc, ei, wg, upc, cpcOf, oldOf>> /\ U1 /\ KeepKf
GOnDataClose(g) ==  \* OnData calls stream.Close()
    /\ gpc[g] = "ondata" /\ CloseInOnData /\ ~closedInOnData /\ cpcOf[g] = "none"
    /\ closedInOnData' = TRUE
    /\ cpcOf' = [cpcOf EXCEPT ![g] = "C1"] /\ gpc' = [gpc EXCEPT ![g] = "ondata_closing"]
    /\ UNCHANGED <<state, pending, recv, offered, cip, ccs, epc, ei, wg, inOnData, upc, oldOf,
                   peerNotified, localCb, remoteCb, localCloseCalled, inTable>> /\ KeepKf
GOnDataCloseRet(g) ==
    /\ gpc[g] = "ondata_closing" /\ cpcOf[g] = "ret"
    /\ cpcOf' = [cpcOf EXCEPT ![g] = "none"] /\ gpc' = [gpc EXCEPT ![g] = "ondata_end"]
    /\ UNCHANGED <<state, pending, recv, offered, cip, ccs, epc, ei, wg, inOnData, upc, oldOf>> /\ U1 /\ KeepKf
GOnDataEnd(g) ==  \* OnData returns; pendingData.moveTo; next access: IsOpen()
    /\ gpc[g] \in {"ondata", "ondata_end"} /\ (gpc[g] = "ondata" => ~(CloseInOnData /\ ~closedInOnData))
    /\ inOnData' = inOnData - 1
    /\ recv' = recv \o pending /\ pending' = <<>> /\ gpc' = [gpc EXCEPT ![g] = "loop"]
    /\ UNCHANGED <<state, offered, cip, ccs, epc, ei, wg, upc, cpcOf, oldOf>> /\ U1 /\ KeepKf
GClr(g) ==        \* Stream.fillDataToReadBuffer:StoreUint32   callbackInProcess = 0
    /\ gpc[g] = "clr" /\ cip' = 0 /\ gpc' = [gpc EXCEPT ![g] = "ldccs"]
    /\ UNCHANGED <<state, pending, recv, offered, ccs, epc, ei, wg, inOnData, upc, cpcOf, oldOf>> /\ U1 /\ KeepKf
GLdCcs(g) ==      \* Stream.fillDataToReadBuffer:LoadUint32   callbackCloseState; then len(pendingData.unread)
    /\ gpc[g] = "ldccs"
    /\ IF ccs = 1 THEN /\ wg' = wg - 1 /\ gpc' = [gpc EXCEPT ![g] = "closing"] /\ cpcOf' = [cpcOf EXCEPT ![g] = "begin"]
       ELSE IF Len(pending) > 0 THEN /\ gpc' = [gpc EXCEPT ![g] = "recas"] /\ UNCHANGED <<wg, cpcOf>>
       ELSE /\ wg' = wg - 1 /\ gpc' = [gpc EXCEPT ![g] = "none"] /\ UNCHANGED cpcOf
    /\ UNCHANGED <<state, pending, recv, offered, cip, ccs, epc, ei, inOnData, upc, oldOf>> /\ U1 /\ KeepKf
GClosingRet(g) == \* close() returned, the goroutine ends
    /\ gpc[g] = "closing" /\ cpcOf[g] = "ret" /\ gpc' = [gpc EXCEPT ![g] = "none"] /\ cpcOf' = [cpcOf EXCEPT ![g] = "none"]
    /\ UNCHANGED <<state, pending, recv, offered, cip, ccs, epc, ei, wg, inOnData, upc, oldOf>> /\ U1 /\ KeepKf
GReCas(g) ==      \* Stream.fillDataToReadBuffer:CompareAndSwapUint32 (second one): take the role again or leave
    /\ gpc[g] = "recas"
    /\ IF cip = 0 THEN /\ cip' = 1 /\ recv' = recv \o pending /\ pending' = <<>> /\ gpc' = [gpc EXCEPT ![g] = "loop"] /\ wg' = wg
                  ELSE /\ UNCHANGED <<cip, recv, pending>> /\ wg' = wg - 1 /\ gpc' = [gpc EXCEPT ![g] = "none"]
    /\ UNCHANGED <<state, offered, ccs, epc, ei, inOnData, upc, cpcOf, oldOf>> /\ U1 /\ KeepKf

EStep == EData \/ EChk \/ EDrop \/ ECas \/ ERechk \/ EUndo \/ EClose \/ EHalf
CStep(c) == PubClose1(c) \/ PubClose2(c) \/ PubClose3(c) \/ CloseBegin(c) \/ CloseCas(c) \/ CloseWait(c) \/ CloseClean(c)
GStep(g) == GMove(g) \/ GLoop(g) \/ GOnDataClose(g) \/ GOnDataCloseRet(g) \/ GOnDataEnd(g) \/ GClr(g) \/ GLdCcs(g)
            \/ GClosingRet(g) \/ GReCas(g)
Next == EStep \/ UStart \/ URet \/ (\E c \in Callers : CStep(c)) \/ (\E g \in G : GStep(g))
Spec == Init /\ [][Next]_vars
FairSpec == Spec /\ WF_vars(Next)
NoKnownFinding == kf = ""

-----------------------------------------------------------------------------
Settled == epc = "next" /\ ei > Len(Events) /\ (\A g \in G : gpc[g] = "none") /\ upc = "done"
Guard(P) == kf # "" \/ P
\* C20
Serial == Guard(inOnData <= 1)
NoDupOffer == Guard(\A i, j \in 1..Len(offered) : i # j => offered[i] # offered[j])
OrderOffer == Guard(\A i, j \in 1..Len(offered) : i < j => offered[i] < offered[j])
NoStranding == Guard((Settled /\ ~localCloseCalled) => DataIds \subseteq Range(offered))
NothingAfterClose == [][state = "closed" => offered' = offered]_vars
\* C10 (callback part)
PeerLearns == Guard((Settled /\ localCloseCalled) => (state = "closed" /\ (peerNotified \/ remoteCb > 0)))
CallbackOnce == Guard(localCb + remoteCb <= 1 /\ ((Settled /\ state = "closed") => localCb + remoteCb = 1))
\* the teardown is alone: once a caller of close() is past asyncGoroutineWg.Wait() (it is cleaning: pendingData.clear,
\* recvBuf.recycle - the read buffer has no lock against moveTo), no callback goroutine other than the caller itself
\* exists or can appear - except one that has already signed off (wg.Done) and is only calling close() itself, which
\* finds the stream closed. Its violation is a data race between moveTo (appends to the read buffer) and recycle.
CleanAlone == Guard(\A c \in Callers : cpcOf[c] = "clean" => \A g \in G : (g = c \/ gpc[g] \in {"none", "closing"}))
\* the event loop recycles the read buffer of a closed stream (EDrop) only when callbackInProcess = 0; that is safe because
\* a goroutine inside OnData always holds the role (before fix 4f9abf0 the recycle was unconditional: a data frame for a
\* stream closed by the user while a just spawned goroutine was inside OnData pulled the read buffer from under it)
OnDataHoldsRole == Guard(inOnData > 0 => cip = 1)
RecycleOnlyIdle == [][(epc = "drop" /\ epc' = "next" /\ recv' # recv) => inOnData = 0]_vars
\* the unguarded forms (used to show that the classifier is not vacuous / to re-find the listed findings)
RawNoStranding == (Settled /\ ~localCloseCalled) => DataIds \subseteq Range(offered)
RawPeerLearns == (Settled /\ localCloseCalled) => (state = "closed" /\ (peerNotified \/ remoteCb > 0))
EventuallySettled == <>Settled
=============================================================================
