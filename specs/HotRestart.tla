---------------------------- MODULE HotRestart ----------------------------
(* Hot restart (C16) and session healing (C17) of cloudwego/shmipc-go.                                              *)
(*                                                                                                                  *)
(* Shaped after: Listener.HotRestart / checkHotRestart / resetState (listener.go), handleHotRestartAck and         *)
(* handleHotRestart (protocol_manager.go), handleSessionManagerHotRestart, SessionManager.checkHotRestart, the     *)
(* per-pool goroutine of SessionManager.background and SessionManager.Close (session_manager.go).                   *)
(*                                                                                                                  *)
(* One "old" server (the listener that asks for the hot restart), optionally one "new" server that takes over the  *)
(* listen path, one client SessionManager with NP pools and one watcher goroutine per pool. A session is one        *)
(* record for both ends of a connection. Control messages HR(e) (server -> client) and Ack(e) (client -> server)    *)
(* travel per session in FIFO order with arbitrary delay.                                                           *)
(*                                                                                                                  *)
(* Named deviations from the code:                                                                                  *)
(*  D1 Listener.HotRestart is one action (the code holds Listener.mu over the whole loop; acks cannot be handled in *)
(*     between, and client reactions commute with the remaining sends).                                             *)
(*  D2 both ends of a session die together (close propagation is not a step).                                       *)
(*  D3 lchk/mchk of the code (a running checker goroutine) are not variables: a checker runs iff the state is hot.  *)
(*  D4 epochs announced by the server are strictly increasing (announcing the same epoch twice is not modelled).    *)
(*  D5 the old server exits only when it is not in the hot-restart state (it polls IsHotRestartDone first).          *)
(*  D6 TimerFIFO: both time-outs are the same constant (2 s), so running checkers time out in the order they were   *)
(*     started. The design check also runs without this restriction.                                                *)
(*  D7 Urgent = TRUE restricts the behaviours to those in which the steps the real code takes on its own within a   *)
(*     tick (checker ticks, watcher steps, the end of Close) happen before the next environment step. These are the *)
(*     behaviours a harness can realise deterministically on the real code; the unrestricted behaviours are decided *)
(*     on the design by TLC and validated on real traces.                                                           *)
EXTENDS Integers, Sequences, FiniteSets, TLC
CONSTANTS NP,          \* number of pools (SessionNum)
          MaxSess,     \* bound on sessions ever created
          Epochs,      \* epochs the server may announce / that may be injected
          MaxHR,       \* number of Listener.HotRestart calls
          MaxDie,      \* number of spontaneous losses of a single session (server side closes it)
          MaxInj,      \* number of injected stale/foreign HR or Ack messages
          AllowNew,    \* the new server may start
          AllowExit,   \* the old server may exit
          AllowNewExit,\* the new server may stop accepting (and a new one may start again)
          AllowGone,   \* the client end of a session of the old server may be closed without the server having noticed yet
          AllowClose,  \* SessionManager.Close may be called
          TimerFIFO, Urgent,
          Prune,       \* set of known-finding classes whose executions are not explored further
          Fixed        \* finding classes that have been repaired in the code (the model then takes the repaired step):
                       \*   "late-ack": handleHotRestartAck also requires listener and session to be in the hot-restart state
                       \*   "hr-after-close": handleSessionManagerHotRestart ignores events once the manager is closed
                       \*   "hr-on-closed-session": ... ignores events whose receiving session is closed
Pools == 1..NP
SessIds == 1..MaxSess
NoSess == 0
VARIABLES
  sess,        \* [id |-> [epoch, srv ("old"/"new"), alive, sstate ("def","hot","done"), pool]]
  nextId,
  s2c, c2s,    \* per session FIFO of control messages (epochs)
  lstate, lepoch, ack, hrCalls, oldUp, newUp,      \* old listener
  mstate, mepoch, cur, reserve, closed,            \* session manager; closed \in {"no","closing","closed"}
  wpc, wsess,                                      \* watcher of pool p: pc and the session whose close channel it waits on
  tq,                                              \* running checkers in start order, over {"L","M"}
  dies, injs,
  kf,                                              \* ghost: known-finding classes this behaviour has entered
  idAtClose,                                       \* ghost: nextId when Close returned
  gone                                             \* sessions whose client end is closed while the server has not handled the hang-up yet
vars == <<sess,nextId,s2c,c2s,lstate,lepoch,ack,hrCalls,oldUp,newUp,mstate,mepoch,cur,reserve,closed,wpc,wsess,tq,dies,injs,kf,idAtClose,gone>>

Live == {i \in 1..(nextId-1) : sess[i].alive}
Blank == [epoch |-> 0, srv |-> "old", alive |-> FALSE, sstate |-> "def", pool |-> 0]
Kill(S) == [i \in SessIds |-> IF i \in S THEN [sess[i] EXCEPT !.alive = FALSE] ELSE sess[i]]
Without(q, x) == SelectSeq(q, LAMBDA y : y # x)
\* newUp: "no" (not started) -> "up" -> "gone" (it bound the listen path and is not accepting any more: connects are refused
\* although the old server is still there) -> "up2" (a new server process again)
NewAccepts == newUp \in {"up", "up2"}
Connect == IF NewAccepts THEN "new" ELSE IF newUp = "gone" THEN "none" ELSE IF oldUp THEN "old" ELSE "none"
Sleeping(p) == wpc[p] \in {"sleep", "retry"}     \* "retry": at least one reconnect attempt of this loss has failed
ReserveSet == {reserve[q] : q \in Pools} \ {NoSess}

Init == /\ nextId = NP + 1
        /\ sess = [i \in SessIds |-> IF i <= NP THEN [epoch |-> 0, srv |-> "old", alive |-> TRUE, sstate |-> "def", pool |-> i] ELSE Blank]
        /\ s2c = [i \in SessIds |-> <<>>] /\ c2s = [i \in SessIds |-> <<>>]
        /\ lstate = "def" /\ lepoch = 0 /\ ack = 0 /\ hrCalls = 0 /\ oldUp = TRUE /\ newUp = "no"
        /\ mstate = "def" /\ mepoch = 0 /\ cur = [p \in Pools |-> p] /\ reserve = [p \in Pools |-> NoSess] /\ closed = "no"
        /\ wpc = [p \in Pools |-> "watch"] /\ wsess = [p \in Pools |-> p]
        /\ tq = <<>> /\ dies = 0 /\ injs = 0 /\ kf = {} /\ idAtClose = 0 /\ gone = {}

\* ---------------- steps the real code takes on its own within one tick (see D7)
LTickEn == lstate = "hot" /\ ack = 0
MDoneEn == mstate = "hot" /\ \A p \in Pools : reserve[p] # NoSess
WPickEn(p) == wpc[p] = "pick" /\ mstate # "hot"
WLostEn(p) == wpc[p] = "watch" /\ ~sess[wsess[p]].alive
\* (a rebuild whose timer has fired goes on although Close has been called meanwhile: Close waits for the watcher and closes
\*  the pools afterwards, so the session it stores is closed by Close)
WRebuildEn(p) == Sleeping(p) /\ closed # "closed"
                 /\ (sess[cur[p]].epoch # sess[wsess[p]].epoch \/ (Connect # "none" /\ nextId <= MaxSess))
\* a reconnect attempt fails (nobody accepts on the path): the loop sleeps another interval and tries again
WRetryEn(p) == wpc[p] = "sleep" /\ closed # "closed" /\ sess[cur[p]].epoch = sess[wsess[p]].epoch /\ Connect = "none"
WExitEn(p) == closed = "closing" /\ (wpc[p] \in {"watch", "sleep", "retry"} \/ (wpc[p] = "pick" /\ mstate # "hot"))
CloseFinEn == closed = "closing" /\ \A p \in Pools : wpc[p] = "exit"
Quiet == ~Urgent \/ ~(LTickEn \/ MDoneEn \/ CloseFinEn \/ \E p \in Pools : WPickEn(p) \/ WLostEn(p) \/ WRebuildEn(p) \/ WRetryEn(p) \/ WExitEn(p))

\* ---------------- environment
NewServerStarts == /\ Quiet /\ AllowNew /\ newUp \in {"no", "gone"} /\ newUp' = (IF newUp = "no" THEN "up" ELSE "up2")
                   /\ UNCHANGED <<sess,nextId,s2c,c2s,lstate,lepoch,ack,hrCalls,oldUp,mstate,mepoch,cur,reserve,closed,wpc,wsess,tq,dies,injs,kf,idAtClose,gone>>
\* the new server stops accepting (crash, or not ready yet after binding the path): its sessions are lost, connects are refused
NewServerExits == /\ Quiet /\ AllowNewExit /\ newUp = "up" /\ newUp' = "gone"
                  /\ sess' = Kill({i \in Live : sess[i].srv = "new"})
                  /\ UNCHANGED <<nextId,s2c,c2s,lstate,lepoch,ack,hrCalls,oldUp,mstate,mepoch,cur,reserve,closed,wpc,wsess,tq,dies,injs,kf,idAtClose,gone>>
OldServerExits == /\ Quiet /\ AllowExit /\ oldUp /\ lstate \notin {"hot", "stuck"}
                  /\ oldUp' = FALSE
                  /\ sess' = Kill({i \in Live : sess[i].srv = "old"})
                  /\ UNCHANGED <<nextId,s2c,c2s,lstate,lepoch,ack,hrCalls,newUp,mstate,mepoch,cur,reserve,closed,wpc,wsess,tq,dies,injs,kf,idAtClose,gone>>
\* a single session is lost (its server end is closed)
SessDies(i) == /\ Quiet /\ dies < MaxDie /\ i \in Live /\ dies' = dies + 1
               /\ sess' = Kill({i})
               /\ UNCHANGED <<nextId,s2c,c2s,lstate,lepoch,ack,hrCalls,oldUp,newUp,mstate,mepoch,cur,reserve,closed,wpc,wsess,tq,injs,kf,idAtClose,gone>>
\* a hot-restart event of an epoch the listener is not announcing reaches the client on session i (stale or foreign)
\* (an epoch that the listener may still announce later is excluded: that would be the same epoch twice, see D4)
InjectHR(i, e) == /\ Quiet /\ injs < MaxInj /\ i \in Live /\ e # lepoch /\ (e < lepoch \/ hrCalls = MaxHR) /\ injs' = injs + 1
                  /\ s2c' = [s2c EXCEPT ![i] = Append(@, e)]
                  /\ UNCHANGED <<sess,nextId,c2s,lstate,lepoch,ack,hrCalls,oldUp,newUp,mstate,mepoch,cur,reserve,closed,wpc,wsess,tq,dies,kf,idAtClose,gone>>
\* an acknowledgement of an epoch the listener is not announcing reaches the old server on session i
InjectAck(i, e) == /\ Quiet /\ injs < MaxInj /\ i \in Live /\ sess[i].srv = "old" /\ e # lepoch /\ (e < lepoch \/ hrCalls = MaxHR) /\ injs' = injs + 1
                   /\ c2s' = [c2s EXCEPT ![i] = Append(@, e)]
                   /\ UNCHANGED <<sess,nextId,s2c,lstate,lepoch,ack,hrCalls,oldUp,newUp,mstate,mepoch,cur,reserve,closed,wpc,wsess,tq,dies,kf,idAtClose,gone>>

\* ---------------- old listener
\* T: the sessions in Listener.sessions that are in the default state (every live one; trace validation passes the logged set).
\* G: those of them whose client end is already closed (the hang-up has not been handled yet): the write of the notification
\* fails, writeEventData calls exitErr -> Session.Close -> sessionCallback.OnShutdown -> sessions.removeShutdownSession, which
\* takes sessions.sessionMu -- held by this very goroutine (HotRestart holds Listener.mu and sessionMu over the loop): the
\* listener is stuck for ever with both locks taken (lstate "stuck": in the hot-restart state, no checker, nothing that needs
\* Listener.mu or sessionMu can run). Repaired ("hotrestart-write-deadlock" \in Fixed: the loop runs over a snapshot without
\* sessionMu): the session is closed inside the notification, it has been counted, only the time-out ends the restart.
LHotRestartT(e, T) ==
    LET G == T \cap gone IN
    /\ Quiet /\ oldUp /\ hrCalls < MaxHR /\ lstate \notin {"hot", "stuck"} /\ e > lepoch
    /\ hrCalls' = hrCalls + 1 /\ lepoch' = e
    /\ IF G # {} /\ "hotrestart-write-deadlock" \notin Fixed
         THEN /\ lstate' = "stuck" /\ kf' = kf \cup {"hotrestart-write-deadlock"}
              /\ UNCHANGED <<sess, s2c, ack, tq, gone>>
         ELSE /\ lstate' = "hot" /\ tq' = Append(tq, "L") /\ kf' = kf
              /\ sess' = [i \in SessIds |-> IF i \in T THEN [sess[i] EXCEPT !.sstate = "hot"] ELSE sess[i]]
              /\ s2c' = [i \in SessIds |-> IF i \in T \ G THEN Append(s2c[i], e) ELSE s2c[i]]
              /\ ack' = ack + Cardinality(T)
              /\ gone' = gone \ G
    /\ UNCHANGED <<nextId,c2s,oldUp,newUp,mstate,mepoch,cur,reserve,closed,wpc,wsess,dies,injs,idAtClose>>
LHotRestart(e) == /\ e \in Epochs
                  /\ LHotRestartT(e, {i \in Live : sess[i].srv = "old" /\ sess[i].sstate = "def"}
                                        \cup {i \in gone : sess[i].sstate = "def"})
\* the client end of session i (old server) is closed; the server's event loop has not run yet
PeerGone(i) == /\ Quiet /\ AllowGone /\ gone = {} /\ i \in Live /\ sess[i].srv = "old" /\ dies < MaxDie /\ dies' = dies + 1
               /\ sess' = Kill({i}) /\ gone' = {i}
               /\ UNCHANGED <<nextId,s2c,c2s,lstate,lepoch,ack,hrCalls,oldUp,newUp,mstate,mepoch,cur,reserve,closed,wpc,wsess,tq,injs,kf,idAtClose>>
\* the server handles the hang-up: Session.Close, removeShutdownSession (needs sessionMu)
ServerNotices(i) == /\ i \in gone /\ lstate # "stuck" /\ gone' = gone \ {i}
                    /\ UNCHANGED <<sess,nextId,s2c,c2s,lstate,lepoch,ack,hrCalls,oldUp,newUp,mstate,mepoch,cur,reserve,closed,wpc,wsess,tq,dies,injs,kf,idAtClose>>
\* handleHotRestartAck: checks the epoch only
LAck(i) == /\ Quiet /\ oldUp /\ lstate # "stuck" /\ i \in Live /\ sess[i].srv = "old" /\ c2s[i] # <<>>
           /\ c2s' = [c2s EXCEPT ![i] = Tail(@)]
           /\ IF Head(c2s[i]) = lepoch /\ ("late-ack" \in Fixed => (lstate = "hot" /\ sess[i].sstate = "hot"))
                THEN /\ ack' = ack - 1 /\ sess' = [sess EXCEPT ![i].sstate = "done"]
                     /\ kf' = IF lstate # "hot" THEN kf \cup {"late-ack"} ELSE kf
                ELSE /\ ack' = ack /\ sess' = sess /\ kf' = kf
           /\ UNCHANGED <<nextId,s2c,lstate,lepoch,hrCalls,oldUp,newUp,mstate,mepoch,cur,reserve,closed,wpc,wsess,tq,dies,injs,idAtClose,gone>>
\* checkHotRestart ticker branch that finds the count at zero
LCheckTick == /\ LTickEn
              /\ lstate' = "done" /\ tq' = Without(tq, "L")
              /\ UNCHANGED <<sess,nextId,s2c,c2s,lepoch,ack,hrCalls,oldUp,newUp,mstate,mepoch,cur,reserve,closed,wpc,wsess,dies,injs,kf,idAtClose,gone>>
\* checkHotRestart time-out branch: resetState
LTimeout == /\ Quiet /\ lstate = "hot" /\ (~TimerFIFO \/ Head(tq) = "L")
            /\ lstate' = "def" /\ ack' = 0 /\ tq' = Without(tq, "L")
            /\ sess' = [i \in SessIds |-> IF i < nextId /\ sess[i].srv = "old" THEN [sess[i] EXCEPT !.sstate = "def"] ELSE sess[i]]
            /\ UNCHANGED <<nextId,s2c,c2s,lepoch,hrCalls,oldUp,newUp,mstate,mepoch,cur,reserve,closed,wpc,wsess,dies,injs,kf,idAtClose,gone>>

\* ---------------- session manager: handleSessionManagerHotRestart for the event received on session i.
\* The event is handled in a lambda posted to the dispatcher when it was read, so session i may have been closed in
\* between (every event in s2c[i] may already have been read): no liveness guard on i. The handler does not look at
\* whether the manager has been closed either.
MOnHR(i) == /\ Quiet /\ i < nextId /\ s2c[i] # <<>>
            /\ LET e == Head(s2c[i])
                   p == sess[i].pool
                   starting == mstate # "hot"
                   ignore == \/ mstate = "hot" /\ mepoch # e
                             \* (replay restriction: a handler never starts before and ends after the cancellation)
                             \/ "hr-after-close" \in Fixed /\ (closed = "closed" \/ (Urgent /\ closed = "closing"))
                             \/ "hr-on-closed-session" \in Fixed /\ ~sess[i].alive
                   res0 == IF starting THEN [q \in Pools |-> NoSess] ELSE reserve
                   killed == IF starting THEN ReserveSet ELSE {}
                   swap == res0[p] = NoSess /\ Connect # "none"
               IN
               /\ (ignore \/ ~swap \/ nextId <= MaxSess)
               /\ s2c' = [s2c EXCEPT ![i] = Tail(@)]
               /\ kf' = kf \cup (IF ~ignore /\ closed # "no" /\ "hr-after-close" \notin Fixed THEN {"hr-after-close"} ELSE {})
                         \cup (IF ~ignore /\ ~sess[i].alive THEN {"hr-on-closed-session"} ELSE {})
                         \cup (IF starting /\ e = mepoch /\ mepoch # 0 THEN {"same-epoch-round"} ELSE {})
               /\ IF ignore THEN UNCHANGED <<sess,nextId,mstate,mepoch,cur,reserve,tq>>
                  ELSE /\ mstate' = "hot" /\ mepoch' = e
                       /\ tq' = IF starting THEN Append(tq, "M") ELSE tq
                       /\ IF ~swap
                            THEN /\ reserve' = res0 /\ cur' = cur /\ nextId' = nextId /\ sess' = Kill(killed)
                            ELSE /\ reserve' = [res0 EXCEPT ![p] = cur[p]]
                                 /\ cur' = [cur EXCEPT ![p] = nextId]
                                 /\ nextId' = nextId + 1
                                 /\ sess' = [Kill(killed) EXCEPT ![nextId] = [epoch |-> e, srv |-> Connect, alive |-> TRUE, sstate |-> "def", pool |-> p]]
            /\ UNCHANGED <<c2s,lstate,lepoch,ack,hrCalls,oldUp,newUp,closed,wpc,wsess,dies,injs,idAtClose,gone>>
\* repaired handler, Close under way: an event whose handler starts after Close has cancelled the context is dropped; one
\* whose handler had started before goes through (MOnHR above) and Close, which closes the pools under the manager lock after
\* the watchers have exited, closes what it swapped in
MIgnoreClosing(i) == /\ ~Urgent /\ "hr-after-close" \in Fixed /\ closed = "closing" /\ i < nextId /\ s2c[i] # <<>>
                     /\ s2c' = [s2c EXCEPT ![i] = Tail(@)]
                     /\ UNCHANGED <<sess,nextId,c2s,lstate,lepoch,ack,hrCalls,oldUp,newUp,mstate,mepoch,cur,reserve,closed,wpc,wsess,tq,dies,injs,kf,idAtClose,gone>>
\* SessionManager.checkHotRestart ticker branch: every pool has been swapped, acknowledge on the old sessions
MCheckDone == /\ MDoneEn
              /\ mstate' = "def" /\ tq' = Without(tq, "M")
              /\ c2s' = [i \in SessIds |-> IF i \in ReserveSet /\ i \in Live THEN Append(c2s[i], mepoch) ELSE c2s[i]]
              /\ UNCHANGED <<sess,nextId,s2c,lstate,lepoch,ack,hrCalls,oldUp,newUp,mepoch,cur,reserve,closed,wpc,wsess,dies,injs,kf,idAtClose,gone>>
\* time-out branch: back to the default state, the reserve pools are closed
MTimeout == /\ Quiet /\ mstate = "hot" /\ (~TimerFIFO \/ Head(tq) = "M")
            /\ mstate' = "def" /\ tq' = Without(tq, "M")
            /\ sess' = Kill(ReserveSet)
            /\ reserve' = [q \in Pools |-> NoSess]
            /\ UNCHANGED <<nextId,s2c,c2s,lstate,lepoch,ack,hrCalls,oldUp,newUp,mepoch,cur,closed,wpc,wsess,dies,injs,kf,idAtClose,gone>>

\* ---------------- watcher goroutine of pool p (SessionManager.background)
\* loop top: not while hot; captures the pool object in sm.pools[p] and waits on the close channel of its session
WPick(p) == /\ WPickEn(p) /\ closed = "no"
            /\ wsess' = [wsess EXCEPT ![p] = cur[p]]
            /\ wpc' = [wpc EXCEPT ![p] = "watch"]
            /\ kf' = kf
            /\ UNCHANGED <<sess,nextId,s2c,c2s,lstate,lepoch,ack,hrCalls,oldUp,newUp,mstate,mepoch,cur,reserve,closed,tq,dies,injs,idAtClose,gone>>
\* the watched session is closed: during a hot restart go back to the loop top, otherwise close the pool and sleep
WLost(p) == /\ WLostEn(p) /\ closed = "no"
            /\ wpc' = [wpc EXCEPT ![p] = IF mstate = "hot" THEN "pick" ELSE "sleep"]
            /\ UNCHANGED <<sess,nextId,s2c,c2s,lstate,lepoch,ack,hrCalls,oldUp,newUp,mstate,mepoch,cur,reserve,closed,wsess,tq,dies,injs,kf,idAtClose,gone>>
\* after rebuildInterval: skip if the pool was replaced by a hot restart (epoch comparison), otherwise reconnect and
\* store the new session into the CAPTURED pool object (which is sm.pools[p], or the reserve pool, or neither)
WRebuild(p) == /\ WRebuildEn(p)
               /\ IF sess[cur[p]].epoch # sess[wsess[p]].epoch
                    THEN /\ wpc' = [wpc EXCEPT ![p] = "pick"] /\ UNCHANGED <<sess,nextId,cur,reserve>>
                    ELSE /\ sess' = [sess EXCEPT ![nextId] = [epoch |-> mepoch, srv |-> Connect, alive |-> TRUE, sstate |-> "def", pool |-> p]]
                         /\ cur' = [cur EXCEPT ![p] = IF cur[p] = wsess[p] THEN nextId ELSE @]
                         /\ reserve' = [reserve EXCEPT ![p] = IF cur[p] # wsess[p] /\ reserve[p] = wsess[p] THEN nextId ELSE @]
                         /\ nextId' = nextId + 1
                         /\ wpc' = [wpc EXCEPT ![p] = "pick"]
               /\ UNCHANGED <<s2c,c2s,lstate,lepoch,ack,hrCalls,oldUp,newUp,mstate,mepoch,closed,wsess,tq,dies,injs,kf,idAtClose,gone>>
WRetry(p) == /\ WRetryEn(p)
             /\ wpc' = [wpc EXCEPT ![p] = "retry"]
             /\ UNCHANGED <<sess,nextId,s2c,c2s,lstate,lepoch,ack,hrCalls,oldUp,newUp,mstate,mepoch,cur,reserve,closed,wsess,tq,dies,injs,kf,idAtClose,gone>>
WExit(p) == /\ WExitEn(p)
            /\ wpc' = [wpc EXCEPT ![p] = "exit"]
            /\ UNCHANGED <<sess,nextId,s2c,c2s,lstate,lepoch,ack,hrCalls,oldUp,newUp,mstate,mepoch,cur,reserve,closed,wsess,tq,dies,injs,kf,idAtClose,gone>>
\* SessionManager.Close: cancel, wait for the watchers, close sm.pools (not the reserve pools)
SMClose == /\ Quiet /\ AllowClose /\ closed = "no" /\ closed' = "closing"
           /\ UNCHANGED <<sess,nextId,s2c,c2s,lstate,lepoch,ack,hrCalls,oldUp,newUp,mstate,mepoch,cur,reserve,wpc,wsess,tq,dies,injs,kf,idAtClose,gone>>
SMCloseFin == /\ CloseFinEn /\ closed' = "closed"
              /\ sess' = Kill({cur[p] : p \in Pools})
              /\ idAtClose' = nextId
              /\ UNCHANGED <<nextId,s2c,c2s,lstate,lepoch,ack,hrCalls,oldUp,newUp,mstate,mepoch,cur,reserve,wpc,wsess,tq,dies,injs,kf,gone>>

\* ghost: the watcher of p waits on a live session that is no longer the pool's session while the pool's session is dead
StaleWatch(p) == wpc[p] = "watch" /\ wsess[p] # cur[p] /\ sess[wsess[p]].alive /\ ~sess[cur[p]].alive /\ closed = "no"

Next == \/ NewServerStarts \/ OldServerExits \/ NewServerExits
        \/ \E e \in Epochs : LHotRestart(e)
        \/ \E i \in SessIds : LAck(i) \/ MOnHR(i) \/ MIgnoreClosing(i) \/ SessDies(i) \/ PeerGone(i) \/ ServerNotices(i)
        \/ \E i \in SessIds, e \in Epochs : InjectHR(i, e) \/ InjectAck(i, e)
        \/ LCheckTick \/ LTimeout \/ MCheckDone \/ MTimeout
        \/ \E p \in Pools : WPick(p) \/ WLost(p) \/ WRebuild(p) \/ WRetry(p) \/ WExit(p)
        \/ SMClose \/ SMCloseFin
Fair == /\ \A i \in SessIds : WF_vars(ServerNotices(i))
        /\ WF_vars(LCheckTick) /\ WF_vars(LTimeout) /\ WF_vars(MCheckDone) /\ WF_vars(MTimeout)
        /\ \A p \in Pools : WF_vars(WPick(p)) /\ WF_vars(WLost(p)) /\ WF_vars(WRebuild(p))
Spec == Init /\ [][Next]_vars /\ Fair

\* executions that have entered a listed known-finding class are not explored further
StaleNow == \E p \in Pools : StaleWatch(p)
NotPruned == (kf \cap Prune = {}) /\ ("stale-watch" \in Prune => ~StaleNow)
Bounded == nextId <= MaxSess + 1

----------------------------------------------------------------------------
TypeOK == /\ ack \in -MaxSess..MaxSess /\ lstate \in {"def","hot","done","stuck"} /\ mstate \in {"def","hot"}
          /\ \A p \in Pools : cur[p] \in 1..(nextId-1) /\ reserve[p] \in 0..(nextId-1) /\ wsess[p] \in 1..(nextId-1)
          /\ Len(tq) <= 2 /\ ("L" \in {tq[k] : k \in 1..Len(tq)} <=> lstate = "hot") /\ ("M" \in {tq[k] : k \in 1..Len(tq)} <=> mstate = "hot")
\* C16 ack bookkeeping: the counter is the number of notified sessions that have not acknowledged
AckNonNeg == ack >= 0
AckExact == lstate = "hot" => ack >= Cardinality({i \in Live : sess[i].srv = "old" /\ sess[i].sstate = "hot"})
\* the listener reports "done" only when no notified session is still waiting to acknowledge
DoneMeansAllAcked == (lstate = "done") => \A i \in Live : sess[i].srv = "old" => sess[i].sstate # "hot"
\* a session is marked done only by an acknowledgement of the announced epoch received during that hot restart
\* when the manager completes a hand-over every pool is on a session of the announced epoch
CompletedMeansSwapped == MDoneEn => \A p \in Pools : sess[cur[p]].epoch = mepoch /\ cur[p] # reserve[p]
\* old sessions stay usable until the old server lets go: a reserve session dies only by the old server's exit, by
\* the manager's own time-out / next restart, or by an injected loss -- in the spec by construction; checked on the code.
\* GetStream: the session behind each pool is live, or a watcher is on its way to replace it
Healing(p) == \/ closed # "no" \/ wpc[p] \in {"sleep", "retry", "pick"}
              \/ (wpc[p] = "watch" /\ (wsess[p] = cur[p] \/ ~sess[wsess[p]].alive))
GetStreamWorks == \A p \in Pools : sess[cur[p]].alive \/ Healing(p)
\* no session is created that no pool refers to (a rebuilt session stored into a dropped pool object)
NoOrphan == \A i \in Live : sess[i].pool # 0 /\ closed = "no" => (cur[sess[i].pool] = i \/ reserve[sess[i].pool] = i)
\* C17: after Close has returned no further session is created, and no session of a pool is left open
AfterCloseNoNew == closed = "closed" => (nextId = idAtClose /\ \A p \in Pools : ~sess[cur[p]].alive)
\* the invariants as checked: states inside a listed known-finding class are outside the claim
K_AckNonNeg == NotPruned => AckNonNeg
K_AckExact == NotPruned => AckExact
K_DoneMeansAllAcked == NotPruned => DoneMeansAllAcked
K_CompletedMeansSwapped == NotPruned => CompletedMeansSwapped
K_GetStreamWorks == NotPruned => GetStreamWorks
K_NoOrphan == NotPruned => NoOrphan
K_AfterCloseNoNew == NotPruned => AfterCloseNoNew
\* stale / foreign epochs: action properties
StaleAckNoEffect == [][\A i \in SessIds : (c2s[i] # <<>> /\ c2s' = [c2s EXCEPT ![i] = Tail(@)] /\ Head(c2s[i]) # lepoch)
                          => UNCHANGED <<lstate,lepoch,ack,sess>>]_vars
StaleHRNoEffect == [][\A i \in SessIds : (s2c[i] # <<>> /\ s2c' = [s2c EXCEPT ![i] = Tail(@)] /\ mstate = "hot" /\ Head(s2c[i]) # mepoch)
                          => UNCHANGED <<mstate,mepoch,cur,reserve,nextId,sess>>]_vars
\* liveness (fairness of ticks, time-outs and watcher steps)
ListenerLeaves == (lstate \in {"hot", "stuck"}) ~> (lstate \notin {"hot", "stuck"})
ManagerLeaves == (mstate = "hot") ~> (mstate # "hot")
Heals == \A p \in Pools : (~sess[cur[p]].alive /\ closed = "no") ~> (sess[cur[p]].alive \/ Connect = "none" \/ nextId > MaxSess \/ closed # "no")
=============================================================================
