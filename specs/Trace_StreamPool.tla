------------------------- MODULE Trace_StreamPool -------------------------
(* Validation of an invoke/return history recorded from free-running concurrent callers of the REAL
   SessionManager.GetStream / PutBack (harness/zz_streampool_test.go, spRunConcurrent) against StreamPool.tla:
   is there a linearisation - each call taking effect as ONE atomic StreamPool action somewhere between its invoke
   and its return event - that yields exactly the recorded results?  Streams are numbered by their real stream ids
   (the order of OpenStream), which is the order in which the spec numbers them.
   Accepted  <=>  TLC can consume the whole log, i.e. the invariant TNotDone is VIOLATED.  *)
EXTENDS Integers, Sequences, FiniteSets

CONSTANTS TCallers, TCap, TN, Log

VARIABLES sess, cur, bg, nid, owner, st, tab, unread, ufb, fb, rsv, cons, srv, owed, holder, ring, leaked, late, wbuf, wstale,
          cb, inproc, armed, cbleak, pc,
          i,      \* next log line
          pend    \* [TCallers -> [op, s, ph, out]]   ph: "idle" | "called" | "done"

SP == INSTANCE StreamPool WITH Callers <- TCallers, Cap <- TCap, N <- TN, MaxSess <- 1, MaxOwed <- 1, MaxUnread <- 1,
                               DropCloses <- TRUE, GetChecksUnread <- TRUE, PutChecksWbuf <- TRUE, CloseArmsAlways <- TRUE,
                               ResetClearsCbFirst <- FALSE, PushBeforeRelease <- FALSE,
                               Feat <- {}

spvars == <<sess, cur, bg, nid, owner, st, tab, unread, ufb, fb, rsv, cons, srv, owed, holder, ring, leaked, late, wbuf, wstale,
            cb, inproc, armed, cbleak, pc>>
Idle == [op |-> "none", s |-> 0, ph |-> "idle", out |-> ""]

TInit == SP!Init /\ i = 1 /\ pend = [c \in TCallers |-> Idle]

Inv == /\ i <= Len(Log) /\ Log[i].ev = "inv"
       /\ LET e == Log[i] IN
          /\ pend[e.c].ph = "idle"
          /\ (e.op = "put" => holder[e.c] = e.s)
          /\ (e.op = "get" => holder[e.c] = 0)
          /\ pend' = [pend EXCEPT ![e.c] = [op |-> e.op, s |-> e.s, ph |-> "called", out |-> ""]]
       /\ i' = i + 1
       /\ UNCHANGED spvars

Lin(c) == /\ pend[c].ph = "called"
          /\ \/ /\ pend[c].op = "get" /\ SP!Get(c)
                /\ pend' = [pend EXCEPT ![c].ph = "done", ![c].s = holder'[c], ![c].out = IF holder'[c] = 0 THEN "err" ELSE "ok"]
             \/ /\ pend[c].op = "put" /\ SP!Put(c)
                /\ pend' = [pend EXCEPT ![c].ph = "done",
                                        ![c].out = IF pend[c].s \in SP!Range(ring') THEN "pooled" ELSE "closed"]
          /\ UNCHANGED i

Ret == /\ i <= Len(Log) /\ Log[i].ev = "ret"
       /\ LET e == Log[i] IN
          /\ pend[e.c].ph = "done" /\ pend[e.c].op = e.op
          /\ pend[e.c].out = e.out
          /\ (e.op = "get" => pend[e.c].s = e.s)
          /\ pend' = [pend EXCEPT ![e.c] = Idle]
       /\ i' = i + 1
       /\ UNCHANGED spvars

(* several recorded runs are validated in one go: a "reset" line separates them (a fresh pool and session) *)
Reset == /\ i <= Len(Log) /\ Log[i].ev = "reset"
         /\ \A c \in TCallers : pend[c].ph = "idle"
         /\ sess' = [k \in {1} |-> "live"] /\ cur' = 1 /\ bg' = "idle" /\ nid' = 0
         /\ owner' = [s \in 1..TN |-> 0]
         /\ st' = [s \in 1..TN |-> "none"] /\ tab' = [s \in 1..TN |-> FALSE]
         /\ unread' = [s \in 1..TN |-> 0] /\ ufb' = [s \in 1..TN |-> FALSE] /\ fb' = [s \in 1..TN |-> FALSE]
         /\ rsv' = [s \in 1..TN |-> FALSE] /\ cons' = [s \in 1..TN |-> FALSE]
         /\ srv' = [s \in 1..TN |-> "none"] /\ owed' = [s \in 1..TN |-> 0]
         /\ holder' = [c \in TCallers |-> 0] /\ ring' = <<>> /\ leaked' = {} /\ late' = {}
         /\ wbuf' = [s \in 1..TN |-> FALSE] /\ wstale' = {}
         /\ cb' = [s \in 1..TN |-> FALSE] /\ inproc' = [s \in 1..TN |-> FALSE] /\ armed' = [s \in 1..TN |-> FALSE]
         /\ cbleak' = {} /\ pc' = [c \in TCallers |-> "idle"]
         /\ i' = i + 1 /\ UNCHANGED pend

TNext == Inv \/ Ret \/ Reset \/ \E c \in TCallers : Lin(c)
TSpec == TInit /\ [][TNext]_<<spvars, i, pend>>

TNotDone == i <= Len(Log)
TExclusive == SP!Exclusive
TNoLeak == SP!NoLeakModKnown /\ SP!TableShape /\ SP!CapOK
=============================================================================
