------------------------------ MODULE Session ------------------------------
(* Multiplexed streams of one session between the client end "A" and the server end "B", synchronous (blocking) API.  *)
(* Shaped after the code:                                                                                              *)
(*  Stream.Flush    : shared-memory path = put an element on the sender's IO queue, then wakeUpPeer = CAS the working  *)
(*                    flag and, if won, write a polling event on the socket (three separate steps: a writer can be     *)
(*                    anywhere between them while others run); socket-fallback path (sticky per stream once used)      *)
(*                    = one fallback-data event on the socket; queue full after the retries = error, nothing sent.     *)
(*  Stream.Close    : local state -> closed, stream leaves the table, unread data dropped; if it was open the peer is  *)
(*                    told: a close element through the queue (+ wake-up), or a stream-close event on the socket when  *)
(*                    the queue is full. Closing a half-closed stream tells nobody.                                    *)
(*  event loop      : handles ONE socket event at a time, in socket order. polling = drain the queue to empty, then    *)
(*                    clear the flag; fallback-data / stream-close events act on one stream.                           *)
(*  reader          : takes everything pending (ReadBytes(Len) + release) or learns EOS / closed.                      *)
(* Each message occupies one shared-memory buffer (or none when it went through the socket); `inuse` is the ledger.    *)
(* Named deviation kept from the code: the server end re-creates a stream (a new incarnation, `gen`) when data arrives *)
(* for an id it does not know any more - e.g. it had closed the stream locally while the client was still sending.     *)
(* Properties: C07 (Order, CloseAfterData), C09 (LedgerExact, AllBack), C10 (Monotone, ClosedIsFinal, PeerLearns).     *)
EXTENDS Integers, Sequences, FiniteSets, TLC
CONSTANTS Streams, QCap, MaxMsgs,     \* MaxMsgs[side] = messages each stream may flush from that side
          MaxExh,                     \* how many times the environment may exhaust / refill the shared memory
          MaxBad                      \* fault budget: corrupt queue elements (invalid buffer offset) the client end may publish
Sides == {"A", "B"}
Peer(e) == IF e = "A" THEN "B" ELSE "A"

VARIABLES sst,       \* [side][stream] : "none" | "open" | "half" | "closed"
          wpc,       \* [side][stream] : writer pc "idle" | "cas" | "send"
          nmsg,      \* [side][stream] : messages this end tried to flush
          okmsg,     \* [side][stream] : seq of message numbers flushed successfully (history)
          fbk,       \* [side][stream] : sticky fallback state of the writer
          queue,     \* [side] : IO queue of that sender: seq of <<stream, "d"|"c", msg>>
          sock,      \* [side] : socket events written by that side: <<"poll">> | <<"fb", s, m>> | <<"sc", s>>
          flag,      \* [side] : working flag of that sender's queue
          pend,      \* [side][stream] : messages delivered to this end and not yet taken by the reader: <<m, viaShm>>
          got,       \* [side][stream] : messages disposed of at this end, in order: offered to the reader, or dropped
                     \*                   because this end had closed the stream itself (history)
          gen,       \* [side][stream] : incarnation of the stream object at this end (server side re-creates)
          eos,       \* [side][stream] : reader has been told the stream ended
          exh, nexh, \* shared memory exhausted (environment), toggles used
          nbad,      \* corrupt queue elements published so far (fault PutBad)
          inuse,     \* ledger: shared-memory buffers allocated
          lastErr,   \* result of the last API call (observation only)
          kf         \* ghost: classifier of the listed known findings ("" = execution outside every listed class)
vars == <<sst, wpc, nmsg, okmsg, fbk, queue, sock, flag, pend, got, gen, eos, exh, nexh, nbad, inuse, lastErr, kf>>

Init == /\ sst = [e \in Sides |-> [s \in Streams |-> "none"]]
        /\ wpc = [e \in Sides |-> [s \in Streams |-> "idle"]]
        /\ nmsg = [e \in Sides |-> [s \in Streams |-> 0]]
        /\ okmsg = [e \in Sides |-> [s \in Streams |-> <<>>]]
        /\ fbk = [e \in Sides |-> [s \in Streams |-> FALSE]]
        /\ queue = [e \in Sides |-> <<>>] /\ sock = [e \in Sides |-> <<>>] /\ flag = [e \in Sides |-> 0]
        /\ pend = [e \in Sides |-> [s \in Streams |-> <<>>]]
        /\ got = [e \in Sides |-> [s \in Streams |-> <<>>]]
        /\ gen = [e \in Sides |-> [s \in Streams |-> 0]]
        /\ eos = [e \in Sides |-> [s \in Streams |-> FALSE]]
        /\ exh = FALSE /\ nexh = 0 /\ nbad = 0 /\ inuse = 0 /\ lastErr = "none" /\ kf = ""

Set2(f, e, s, v) == [f EXCEPT ![e][s] = v]
ShmCount(sq) == Cardinality({i \in 1..Len(sq) : sq[i][2]})

\* ghost classifier of the listed known findings (both are "close or data on one transport overtakes earlier data of
\* the same stream that travels on the other transport"):
\*  close-via-queue-after-fallback : a close element is put on the queue while a fallback-data event of the same stream
\*                                   is still unread on the socket
\*  socket-before-poll             : a stream writes a socket event (fallback data / stream close) while earlier data of
\*                                   it sits in the queue and no polling event for that data has been written yet
LastOf(sq) == sq[Len(sq)]
\*  server-recreates-closed-stream : data for a stream the server end has already closed locally makes the server create a
\*                                   new stream object under the same id, which the client never closes again
KfStep == kf' = IF kf # "" THEN kf
               ELSE IF \E s \in Streams : gen'["B"][s] > 1 THEN "server-recreates-closed-stream"
               ELSE IF \E e \in Sides : /\ Len(queue'[e]) = Len(queue[e]) + 1 /\ LastOf(queue'[e])[2] = "c"
                                       /\ \E i \in 1..Len(sock[e]) : sock[e][i][1] = "fb" /\ sock[e][i][2] = LastOf(queue'[e])[1]
                      THEN "close-via-queue-after-fallback"
               ELSE IF \E e \in Sides : /\ Len(sock'[e]) = Len(sock[e]) + 1 /\ LastOf(sock'[e])[1] \in {"fb", "sc"}
                                       /\ \E i \in 1..Len(queue[e]) : queue[e][i][1] = LastOf(sock'[e])[2] /\ queue[e][i][2] = "d"
                                       /\ ~\E j \in 1..Len(sock[e]) : sock[e][j][1] = "poll"
                      THEN "socket-before-poll"
               ELSE ""

-----------------------------------------------------------------------------
\* environment
Exhaust == /\ nexh < MaxExh /\ exh' = ~exh /\ nexh' = nexh + 1 /\ lastErr' = "none"
           /\ UNCHANGED <<sst, wpc, nmsg, okmsg, fbk, queue, sock, flag, pend, got, gen, eos, inuse, nbad>>
           /\ KfStep
\* fault: a queue element of stream s whose buffer offset is not a buffer (a protocol bug or a scribbled queue) appears on
\* the client's queue. It holds no buffer and brings no wake-up of its own: it is consumed by the polling round that the
\* next Flush / Close (or one already in flight) causes. The code logs and skips it when the reader drains pending data.
PutBad(s) == /\ nbad < MaxBad /\ sst["A"][s] = "open" /\ Len(queue["A"]) < QCap
             /\ queue' = [queue EXCEPT !["A"] = Append(@, <<s, "x", 0>>)]
             /\ nbad' = nbad + 1 /\ lastErr' = "none"
             /\ UNCHANGED <<sst, wpc, nmsg, okmsg, fbk, sock, flag, pend, got, gen, eos, exh, nexh, inuse>>
             /\ KfStep

\* API calls of end e on stream s
Open(s) ==     \* Session.OpenStream (client only)
    /\ sst["A"][s] = "none" /\ sst' = Set2(sst, "A", s, "open") /\ lastErr' = "ok"
    /\ UNCHANGED <<wpc, nmsg, okmsg, fbk, queue, sock, flag, pend, got, gen, eos, exh, nexh, nbad, inuse>>
    /\ KfStep

FlushClosed(e, s) ==   \* Flush on a stream that is not open any more: ErrStreamClosed, buffer recycled
    /\ sst[e][s] \in {"half", "closed"} /\ wpc[e][s] = "idle" /\ nmsg[e][s] < MaxMsgs[e]
    /\ nmsg' = Set2(nmsg, e, s, nmsg[e][s] + 1) /\ lastErr' = "ErrStreamClosed"
    /\ UNCHANGED <<sst, wpc, okmsg, fbk, queue, sock, flag, pend, got, gen, eos, exh, nexh, nbad, inuse>>
    /\ KfStep
FlushFallback(e, s) == \* shared memory exhausted now, or earlier on this stream: the message travels on the socket
    /\ sst[e][s] = "open" /\ wpc[e][s] = "idle" /\ nmsg[e][s] < MaxMsgs[e] /\ (exh \/ fbk[e][s])
    /\ nmsg' = Set2(nmsg, e, s, nmsg[e][s] + 1)
    /\ okmsg' = Set2(okmsg, e, s, Append(okmsg[e][s], nmsg[e][s] + 1))
    /\ fbk' = Set2(fbk, e, s, TRUE)
    /\ sock' = [sock EXCEPT ![e] = Append(@, <<"fb", s, nmsg[e][s] + 1>>)]
    /\ lastErr' = "ok"
    /\ UNCHANGED <<sst, wpc, queue, flag, pend, got, gen, eos, exh, nexh, nbad, inuse>>
    /\ KfStep
FlushPut(e, s) ==      \* shared-memory path, first step: the element is on the queue (the buffer now belongs to it)
    /\ sst[e][s] = "open" /\ wpc[e][s] = "idle" /\ nmsg[e][s] < MaxMsgs[e] /\ ~exh /\ ~fbk[e][s]
    /\ Len(queue[e]) < QCap
    /\ nmsg' = Set2(nmsg, e, s, nmsg[e][s] + 1)
    /\ okmsg' = Set2(okmsg, e, s, Append(okmsg[e][s], nmsg[e][s] + 1))
    /\ queue' = [queue EXCEPT ![e] = Append(@, <<s, "d", nmsg[e][s] + 1>>)]
    /\ inuse' = inuse + 1
    /\ wpc' = Set2(wpc, e, s, "cas") /\ lastErr' = "ok"
    /\ UNCHANGED <<sst, fbk, sock, flag, pend, got, gen, eos, exh, nexh, nbad>>
    /\ KfStep
FlushFull(e, s) ==     \* queue still full after the retries: ErrQueueFull, buffer recycled, nothing sent
    /\ sst[e][s] = "open" /\ wpc[e][s] = "idle" /\ nmsg[e][s] < MaxMsgs[e] /\ ~exh /\ ~fbk[e][s]
    /\ Len(queue[e]) >= QCap
    /\ nmsg' = Set2(nmsg, e, s, nmsg[e][s] + 1) /\ lastErr' = "ErrQueueFull"
    /\ UNCHANGED <<sst, wpc, okmsg, fbk, queue, sock, flag, pend, got, gen, eos, exh, nexh, nbad, inuse>>
    /\ KfStep
WCas(e, s) ==          \* wakeUpPeer: markWorking()
    /\ wpc[e][s] = "cas"
    /\ IF flag[e] = 0 THEN flag' = [flag EXCEPT ![e] = 1] /\ wpc' = Set2(wpc, e, s, "send")
                      ELSE flag' = flag /\ wpc' = Set2(wpc, e, s, "idle")
    /\ lastErr' = "none"
    /\ UNCHANGED <<sst, nmsg, okmsg, fbk, queue, sock, pend, got, gen, eos, exh, nexh, nbad, inuse>>
    /\ KfStep
WSend(e, s) ==         \* wakeUpPeer: the polling event is written
    /\ wpc[e][s] = "send"
    /\ sock' = [sock EXCEPT ![e] = Append(@, <<"poll">>)]
    /\ wpc' = Set2(wpc, e, s, "idle") /\ lastErr' = "none"
    /\ UNCHANGED <<sst, nmsg, okmsg, fbk, queue, flag, pend, got, gen, eos, exh, nexh, nbad, inuse>>
    /\ KfStep

\* data of stream s still travelling towards end e
InFlightTo(e, s) == \/ \E i \in 1..Len(queue[Peer(e)]) : queue[Peer(e)][i][1] = s /\ queue[Peer(e)][i][2] = "d"
                    \/ \E i \in 1..Len(sock[Peer(e)]) : sock[Peer(e)][i][1] = "fb" /\ sock[Peer(e)][i][2] = s
                    \/ wpc[Peer(e)][s] # "idle"
Close(e, s) ==
    /\ sst[e][s] \in {"open", "half"} /\ wpc[e][s] = "idle"
    /\ sst' = Set2(sst, e, s, "closed")
    /\ pend' = Set2(pend, e, s, <<>>)            \* unread data dropped, its buffers recycled
    /\ inuse' = inuse - ShmCount(pend[e][s])
    /\ IF sst[e][s] = "open"
         THEN IF Len(queue[e]) < QCap
                THEN /\ queue' = [queue EXCEPT ![e] = Append(@, <<s, "c", 0>>)]
                     /\ wpc' = Set2(wpc, e, s, "cas") /\ sock' = sock
                ELSE /\ sock' = [sock EXCEPT ![e] = Append(@, <<"sc", s>>)]
                     /\ UNCHANGED <<queue, wpc>>
         ELSE UNCHANGED <<queue, sock, wpc>>
    /\ got' = Set2(got, e, s, got[e][s] \o [i \in 1..Len(pend[e][s]) |-> pend[e][s][i][1]])   \* dropped by its own close
    /\ lastErr' = "ok"
    /\ UNCHANGED <<nmsg, okmsg, fbk, flag, gen, eos, exh, nexh, nbad>>
    /\ KfStep
CloseAgain(e, s) ==    \* Close is idempotent
    /\ sst[e][s] = "closed" /\ wpc[e][s] = "idle" /\ lastErr' = "ok"
    /\ UNCHANGED <<sst, wpc, nmsg, okmsg, fbk, queue, sock, flag, pend, got, gen, eos, exh, nexh, nbad, inuse>>
    /\ KfStep

\* one message m for stream s arrives at end e (shm tells whether it holds a buffer). W is the record of the variables
\* the event loop changes: [st, pd, iu, gt, gn, es]
Arrive(e, s, m, shm, W) ==
    IF W.st[e][s] \in {"none", "closed"} /\ e = "B"
      THEN [W EXCEPT !.st = Set2(W.st, e, s, "open"), !.pd = Set2(W.pd, e, s, <<<<m, shm>>>>),     \* server: a (new) stream surfaces
                     !.gn = Set2(W.gn, e, s, W.gn[e][s] + 1), !.es = Set2(W.es, e, s, FALSE)]
      ELSE IF W.st[e][s] \in {"open", "half"}
             THEN [W EXCEPT !.pd = Set2(W.pd, e, s, Append(W.pd[e][s], <<m, shm>>))]
             ELSE [W EXCEPT !.iu = IF shm THEN W.iu - 1 ELSE W.iu,                                  \* client, unknown / closed: dropped
                            !.gt = Set2(W.gt, e, s, Append(W.gt[e][s], m))]
HalfClose(e, s, W) == IF W.st[e][s] = "open" THEN [W EXCEPT !.st = Set2(W.st, e, s, "half")] ELSE W

\* a corrupt element: nothing is delivered and nothing recycled; the server end still lets a stream surface for an id it
\* does not know (getStream creates it before the element is looked at)
Skip(e, s, W) == IF W.st[e][s] \in {"none", "closed"} /\ e = "B"
                   THEN [W EXCEPT !.st = Set2(W.st, e, s, "open"), !.pd = Set2(W.pd, e, s, <<>>),
                                  !.gn = Set2(W.gn, e, s, W.gn[e][s] + 1), !.es = Set2(W.es, e, s, FALSE)]
                   ELSE W
RECURSIVE Drain(_, _, _)
Drain(e, q, W) ==
    IF q = <<>> THEN W
    ELSE LET x == Head(q) IN
           IF x[2] = "d" THEN Drain(e, Tail(q), Arrive(e, x[1], x[3], TRUE, W))
           ELSE IF x[2] = "x" THEN Drain(e, Tail(q), Skip(e, x[1], W))
                         ELSE Drain(e, Tail(q), HalfClose(e, x[1], W))
Now == [st |-> sst, pd |-> pend, iu |-> inuse, gt |-> got, gn |-> gen, es |-> eos]
Apply(W) == /\ sst' = W.st /\ pend' = W.pd /\ inuse' = W.iu /\ got' = W.gt /\ gen' = W.gn /\ eos' = W.es

Deliver(e) ==          \* the event loop of end e handles the next socket event written by its peer
    LET p == Peer(e) IN
    /\ sock[p] # <<>>
    /\ LET ev == Head(sock[p]) IN
         /\ sock' = [sock EXCEPT ![p] = Tail(@)]
         /\ CASE ev[1] = "poll" ->
                   /\ Apply(Drain(e, queue[p], Now))
                   /\ queue' = [queue EXCEPT ![p] = <<>>] /\ flag' = [flag EXCEPT ![p] = 0]
              [] ev[1] = "fb" ->
                   /\ Apply(Arrive(e, ev[2], ev[3], FALSE, Now)) /\ UNCHANGED <<queue, flag>>
              [] ev[1] = "sc" ->
                   /\ Apply(HalfClose(e, ev[2], Now)) /\ UNCHANGED <<queue, flag>>
    /\ lastErr' = "none"
    /\ UNCHANGED <<wpc, nmsg, okmsg, fbk, exh, nexh, nbad>>
    /\ KfStep

Read(e, s) ==          \* the reader takes everything that is pending and releases it
    /\ sst[e][s] \in {"open", "half"} /\ pend[e][s] # <<>>
    /\ got' = Set2(got, e, s, got[e][s] \o [i \in 1..Len(pend[e][s]) |-> pend[e][s][i][1]])
    /\ pend' = Set2(pend, e, s, <<>>)
    /\ inuse' = inuse - ShmCount(pend[e][s])
    /\ fbk' = IF \E i \in 1..Len(pend[e][s]) : ~pend[e][s][i][2]
                THEN Set2(fbk, e, s, TRUE) ELSE fbk      \* receiving fallback data makes this end use the socket too
    /\ lastErr' = "ok"
    /\ UNCHANGED <<sst, wpc, nmsg, okmsg, queue, sock, flag, gen, eos, exh, nexh, nbad>>
    /\ KfStep
ReadEnd(e, s) ==       \* nothing pending and the stream is not open: end of stream (half-closed) or closed error
    /\ sst[e][s] \in {"half", "closed"} /\ pend[e][s] = <<>>
    /\ IF sst[e][s] = "half" THEN eos' = Set2(eos, e, s, TRUE) /\ lastErr' = "ErrEndOfStream"
                             ELSE eos' = eos /\ lastErr' = "ErrStreamClosed"
    /\ UNCHANGED <<sst, wpc, nmsg, okmsg, fbk, queue, sock, flag, pend, got, gen, exh, nexh, nbad, inuse>>
    /\ KfStep

Next == \/ Exhaust
        \/ \E s \in Streams : Open(s) \/ PutBad(s)
        \/ \E e \in Sides, s \in Streams :
             \/ FlushClosed(e, s) \/ FlushFallback(e, s) \/ FlushPut(e, s) \/ FlushFull(e, s)
             \/ WCas(e, s) \/ WSend(e, s) \/ Close(e, s) \/ CloseAgain(e, s) \/ Read(e, s) \/ ReadEnd(e, s)
        \/ \E e \in Sides : Deliver(e)
Spec == Init /\ [][Next]_vars
View == <<sst, wpc, nmsg, okmsg, fbk, queue, sock, flag, pend, got, gen, eos, exh, nexh, nbad, inuse, kf>>
NoKnownFinding == kf = ""

-----------------------------------------------------------------------------
IsPrefix(a, b) == Len(a) <= Len(b) /\ \A i \in 1..Len(a) : a[i] = b[i]
\* C07: a reader is only ever offered the messages flushed on its own stream and direction, in order
Order == \A e \in Sides, s \in Streams : IsPrefix(got[e][s], okmsg[Peer(e)][s])
\* C07: it is told the stream ended only after it has been offered everything the peer flushed successfully
CloseAfterData == \A e \in Sides, s \in Streams : eos[e][s] => got[e][s] = okmsg[Peer(e)][s]
\* C09: the ledger is exact, and everything is back once all streams are finished and the session is settled
Settled == /\ \A e \in Sides : queue[e] = <<>> /\ sock[e] = <<>>
           /\ \A e \in Sides, s \in Streams : wpc[e][s] = "idle"
LedgerExact == inuse = (Cardinality({<<e, i>> \in Sides \X (1..QCap) : i <= Len(queue[e]) /\ queue[e][i][2] = "d"})
                        + Cardinality({<<e, s, i>> \in Sides \X Streams \X (1..(MaxMsgs["A"] + MaxMsgs["B"])) :
                                          i <= Len(pend[e][s]) /\ pend[e][s][i][2]}))
AllBack == (Settled /\ \A e \in Sides, s \in Streams : sst[e][s] \in {"none", "closed"}) => inuse = 0
\* C10
Rank(x) == CASE x = "none" -> 0 [] x = "open" -> 1 [] x = "half" -> 2 [] x = "closed" -> 3
Monotone == [][\A e \in Sides, s \in Streams : gen'[e][s] = gen[e][s] => Rank(sst'[e][s]) >= Rank(sst[e][s])]_vars
\* once an end has closed and everything in flight has been handled, the peer's end of that stream is not open
PeerLearns == \A e \in Sides, s \in Streams :
                (sst[e][s] = "closed" /\ Settled) => sst[Peer(e)][s] # "open"
\* the same properties outside the listed known-finding classes (TLC also evaluates invariants on the first state that
\* violates a CONSTRAINT, so the classifier has to guard them)
G_Order == kf # "" \/ Order
G_CloseAfterData == kf # "" \/ CloseAfterData
G_LedgerExact == kf # "" \/ LedgerExact
G_AllBack == kf # "" \/ AllBack
G_PeerLearns == kf # "" \/ PeerLearns
=============================================================================
