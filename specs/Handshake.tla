------------------------------ MODULE Handshake ------------------------------
(* Session establishment of shmipc-go (C12).                                                                          *)
(* Shaped after: Session.newSession / initMemManager / initProtocol (session.go), protocolAdaptor.client/server-      *)
(* GetProtocolInitializer, handleExchangeVersion, handleShareMemoryByFilePath, handleShareMemoryByMemFd,              *)
(* sendShareMemoryByFilePath, sendMemFdToPeer, waitEventHeader (protocol_manager.go), protocolInitializerV2/V3        *)
(* (protocol_initializer.go), blockReadFull / blockWriteFull / sendFd / blockReadOutOfBoundForFd (block_io.go),       *)
(* queueManager.unmap (queue.go), addGlobalBufferManagerRefCount / bufferManager.unmap (buffer_manager.go).           *)
(*                                                                                                                    *)
(* One action per blocking IO operation (one message written / one message read) of either end, plus the error return *)
(* of newSession (Fail = the cleanup block after initProtocol) and the time-out arm of initProtocol.                  *)
(* A scenario `cfg` is chosen in Init: client mapping type, client protocol generation, server generation, transport, *)
(* and a fault: side x stops answering (stall) or closes its socket (close) instead of performing its k-th IO         *)
(* operation, optionally after emitting a truncated message (half kinds).                                               *)
(*                                                                                                                    *)
(* Messages (protocol_event.go): EXCH = ExchangeProtoVersion, PATH = ShareMemoryByFilePath (header + paths),          *)
(* MEMFD = ShareMemoryByMemfd (header + names), ACKRDY = AckReadyRecvFD, FDS = the SCM_RIGHTS message carrying the    *)
(* buffer and queue descriptors (one dummy byte), ACK = AckShareMemory.                                               *)
(*                                                                                                                    *)
(* Named deviations from the code:                                                                                    *)
(*  D1 a message is one unit; header and body reads are one receive. A truncated message (whole = FALSE) makes the    *)
(*     receiver hang in the read ("hung") until EOF or the time-out.                                                  *)
(*  D2 the time-out arm fires only when nothing else can happen (the timer is long compared with message delays).     *)
(*  D3 the failing end's duplicated socket descriptor is closed by the os.File finaliser, not by newSession; the spec *)
(*     closes it in Fail (the harness forces GC before it looks).                                                     *)
(*  D4 server generations "v2strict" (knows only ShareMemoryByFilePath with version 2) and "v2exch" (answers the      *)
(*     version exchange with 2, then expects ShareMemoryByFilePath, no ack) are emulations: no such code is in the    *)
(*     tree. Client (file, protocol 3) exists in the tree only as protocolInitializerV3.clientInit's unreachable      *)
(*     branch; it is played by a scripted peer. (memfd, protocol 2) does not exist (no descriptor passing in v2).     *)
(*  D5 a write to a socket whose peer is closed either fails (EPIPE) or is accepted and lost; both are allowed.       *)
(*  D6 memory identity is abstract: mem[x] = "C" means x maps the regions created by the client.                      *)
EXTENDS Integers, Sequences, FiniteSets, TLC

CONSTANTS Maps,        \* subset of {"file", "memfd"}
          CProtos,     \* subset of {2, 3}
          SGens,       \* subset of {"cur", "v2strict", "v2exch"}
          Transports,  \* subset of {"unix", "tcp"}
          FKinds,      \* subset of {"stall", "close", "halfstall", "halfclose"}
          MaxStep,     \* fault steps 0..MaxStep
          Strict,      \* TRUE: no exemption for the known one-sided-success classes
          RefuseMemfdDowngrade  \* FALSE: the tree as it is (a memfd client answered "version 2" goes on with protocol 2);
                                \* TRUE: the proposed repair (it fails instead), see checks/handshake_NOTES.md
CONSTANT BufferFdLeaks          \* TRUE: the tree as it is (getGlobalBufferManagerWithMemFd does not close the received buffer
                                \* descriptor when the mapping fails); FALSE: repaired
CONSTANT TimeoutStopsGoroutine  \* FALSE: the tree as it is (initProtocol's goroutine outlives the time-out arm);
                                \* TRUE: the proposed repair (shutdown of connFd + wait for the goroutine)

VARIABLES cfg, pc, res, open, ver, led, mem, io, chan, wire, zombie
vars == <<cfg, pc, res, open, ver, led, mem, io, chan, wire, zombie>>

Sides == {"c", "s"}
O(x) == IF x = "c" THEN "s" ELSE "c"
Min(a, b) == IF a < b THEN a ELSE b

Scenarios ==
  { c \in [map: Maps, cproto: CProtos, sgen: SGens, tr: Transports,
           fside: {"none", "c", "s"}, fstep: 0..MaxStep, fkind: FKinds] :
      /\ ~(c.map = "memfd" /\ c.cproto = 2)
      /\ (c.fside = "none" => c.fstep = 0 /\ c.fkind = "stall")
      \* kinds "nobuf"/"badbuf": the client does not stop, but the buffer it announces cannot be mapped by the server
      \* (nobuf: the buffer file is already removed - the library's client removes the buffer file before the queue file
      \* when it tears down or dies right after sending the paths; badbuf: it holds no valid buffer manager)
      /\ (c.fkind \in {"nobuf", "badbuf"} => c.fside = "c" /\ c.fstep = 0)
      /\ ~(c.fkind = "nobuf" /\ c.map = "memfd") }

Msg(t, v) == [t |-> t, v |-> v, whole |-> TRUE]
HeaderTypes == {"EXCH", "PATH", "MEMFD", "ACKRDY", "ACK"}

ClientRes == IF cfg.map = "file" THEN {"conn", "qfile", "bfile", "qmap", "bmap"}
                                 ELSE {"conn", "qfd", "bfd", "qmap", "bmap"}
ByPathRes == {"qmap", "bmap"}
ByFdRes   == {"qfd", "bfd", "qmap", "bmap"}

SMax == IF cfg.sgen = "cur" THEN 3 ELSE 2
MinVer == Min(cfg.cproto, SMax)

IsHalf  == cfg.fkind \in {"halfstall", "halfclose"}
IsClose == cfg.fkind \in {"close", "halfclose"}
FaultNow(x) == cfg.fside = x /\ io[x] = cfg.fstep /\ cfg.fkind \notin {"late", "nobuf", "badbuf"}
BadBuffer == cfg.fside = "c" /\ cfg.fkind \in {"nobuf", "badbuf"}
\* kind "late": the faulty side pauses before its k-th IO operation until the other end has given up, then goes on
Paused(x) == cfg.fside = x /\ io[x] = cfg.fstep /\ cfg.fkind = "late" /\ res[IF x = "c" THEN "s" ELSE "c"] = "run"
\* the code of initProtocol runs on its own goroutine; the time-out arm does not stop it (zombie)
Active(x) == res[x] = "run" \/ zombie[x]

Init == /\ cfg \in Scenarios
        /\ pc = [x \in Sides |-> "start"]
        /\ res = [x \in Sides |-> "run"]
        /\ open = [x \in Sides |-> TRUE]
        /\ ver = [x \in Sides |-> 2]                 \* communicationVersion: protoVersion
        /\ led = [x \in Sides |-> {}]
        /\ mem = [x \in Sides |-> "none"]
        /\ io = [x \in Sides |-> 0]
        /\ chan = [x \in Sides |-> <<>>]             \* chan[x]: messages written by x, not yet read by O(x)
        /\ wire = <<>>
        /\ zombie = [x \in Sides |-> FALSE]       \* initProtocol's goroutine outliving the time-out

-----------------------------------------------------------------------------
\* generic pieces
Goto(x, q) == pc' = [pc EXCEPT ![x] = q]

\* error return of newSession on side x: queueManager.unmap, buffer manager reference dropped, socket closed (D3)
Fail(x, kind) ==
    IF zombie[x]
      THEN /\ zombie' = [zombie EXCEPT ![x] = FALSE]         \* the error goes into resultCh, which nobody reads any more
           /\ open' = [open EXCEPT ![x] = FALSE]
           /\ Goto(x, "end")
           /\ UNCHANGED <<cfg, res, led, mem, ver, io, chan, wire>>
      ELSE /\ res' = [res EXCEPT ![x] = kind]
           /\ led' = [led EXCEPT ![x] = {}]
           /\ mem' = [mem EXCEPT ![x] = "none"]
           /\ open' = [open EXCEPT ![x] = FALSE]
           /\ Goto(x, "end")
           /\ UNCHANGED <<cfg, zombie, ver, io, chan, wire>>

\* the faulty side stops here (its resources are its own business)
FaultAt(x, m, sending) ==
    /\ FaultNow(x)
    /\ res' = [res EXCEPT ![x] = IF IsClose THEN "closed" ELSE "stalled"]
    /\ open' = [open EXCEPT ![x] = ~IsClose]
    /\ Goto(x, "end")
    /\ IF sending /\ IsHalf
         THEN /\ chan' = [chan EXCEPT ![x] = Append(@, [m EXCEPT !.whole = FALSE])]
              /\ wire' = Append(wire, <<x, m.t, m.v, "half">>)
         ELSE UNCHANGED <<chan, wire>>
    /\ UNCHANGED <<cfg, zombie, ver, led, mem, io>>

\* blockWriteFull / sendFd of message m at pc p, then q
SendStep(x, p, m, q) ==
    /\ pc[x] = p /\ Active(x) /\ ~Paused(x)
    /\ \/ FaultAt(x, m, TRUE)
       \/ /\ ~FaultNow(x) /\ open[O(x)]
          /\ chan' = [chan EXCEPT ![x] = Append(@, m)]
          /\ wire' = Append(wire, <<x, m.t, m.v, "sent">>)
          /\ io' = [io EXCEPT ![x] = @ + 1] /\ Goto(x, q)
          /\ UNCHANGED <<cfg, zombie, res, open, ver, led, mem>>
       \/ /\ ~FaultNow(x) /\ ~open[O(x)]                      \* D5: accepted and lost
          /\ wire' = Append(wire, <<x, m.t, m.v, "lost">>)
          /\ io' = [io EXCEPT ![x] = @ + 1] /\ Goto(x, q)
          /\ UNCHANGED <<cfg, zombie, res, open, ver, led, mem, chan>>
       \/ /\ ~FaultNow(x) /\ ~open[O(x)] /\ Fail(x, "err_pipe")   \* D5: EPIPE

Avail(x) == Len(chan[O(x)]) > 0
Front(x) == Head(chan[O(x)])
RecvPcs == {"recvExch", "recvAckRdy", "recvAck", "recvFirst", "recvSecond", "recvFds", "hung"}
Waiting(x) == Active(x) /\ pc[x] \in RecvPcs /\ ~FaultNow(x) /\ ~Paused(x)

\* a whole message is taken at pc p
Take(x, p) == /\ pc[x] = p /\ Active(x) /\ ~FaultNow(x) /\ ~Paused(x) /\ Avail(x) /\ Front(x).whole
Consume(x) == /\ chan' = [chan EXCEPT ![O(x)] = Tail(@)]
              /\ io' = [io EXCEPT ![x] = @ + 1]
\* Fail after having consumed the message
FailTaking(x, kind) ==
    IF zombie[x]
      THEN /\ zombie' = [zombie EXCEPT ![x] = FALSE]
           /\ open' = [open EXCEPT ![x] = FALSE]
           /\ Goto(x, "end") /\ Consume(x)
           /\ UNCHANGED <<cfg, res, led, mem, ver, wire>>
      ELSE /\ res' = [res EXCEPT ![x] = kind]
           /\ led' = [led EXCEPT ![x] = {}]
           /\ mem' = [mem EXCEPT ![x] = "none"]
           /\ open' = [open EXCEPT ![x] = FALSE]
           /\ Goto(x, "end") /\ Consume(x)
           /\ UNCHANGED <<cfg, zombie, ver, wire>>
ValidHeader(m) == m.v # 0 /\ m.t \in HeaderTypes          \* checkEventValid

\* generic receive behaviour at any receiving pc
RecvOther(x) ==
    /\ Active(x) /\ ~Paused(x) /\ pc[x] \in RecvPcs
    /\ \/ FaultAt(x, Msg("none", 0), FALSE)
       \/ /\ ~FaultNow(x) /\ Avail(x) /\ ~Front(x).whole /\ pc[x] # "hung"       \* D1: truncated message
          /\ chan' = [chan EXCEPT ![O(x)] = Tail(@)] /\ Goto(x, "hung")
          /\ UNCHANGED <<cfg, zombie, res, open, ver, led, mem, io, wire>>
       \/ /\ ~FaultNow(x) /\ ~Avail(x) /\ ~open[O(x)] /\ Fail(x, "err_eof")        \* read returns 0
\* time-out arm of initProtocol (D2)
PeerBlocked(x) == res[O(x)] # "run" \/ (Waiting(O(x)) /\ ~Avail(O(x))) \/ Paused(O(x))
Timeout(x) == /\ res[x] = "run" /\ Waiting(x) /\ ~Avail(x) /\ open[O(x)] /\ PeerBlocked(x)
              /\ res' = [res EXCEPT ![x] = "err_timeout"]
              /\ led' = [led EXCEPT ![x] = {}]             \* newSession's cleanup of what exists at this moment
              /\ mem' = [mem EXCEPT ![x] = "none"]
              /\ IF TimeoutStopsGoroutine
                   THEN /\ open' = [open EXCEPT ![x] = FALSE] /\ Goto(x, "end") /\ UNCHANGED zombie
                   ELSE /\ zombie' = [zombie EXCEPT ![x] = TRUE]     \* the goroutine stays in its read on connFd
                        /\ UNCHANGED <<pc, open>>
              /\ wire' = Append(wire, <<x, "TIMEOUT", 0, "timeout">>)
              /\ UNCHANGED <<cfg, ver, io, chan>>

Finish(x) == /\ pc[x] = "ok" /\ Active(x)
             /\ IF zombie[x]
                  THEN zombie' = [zombie EXCEPT ![x] = FALSE] /\ UNCHANGED res   \* asyncSendErr(resultCh, nil): unread
                  ELSE res' = [res EXCEPT ![x] = "ok"] /\ UNCHANGED zombie
             /\ Goto(x, "end")
             /\ UNCHANGED <<cfg, open, ver, led, mem, io, chan, wire>>

-----------------------------------------------------------------------------
\* client: newSession(config, conn, true)
CStart ==
    /\ pc["c"] = "start" /\ res["c"] = "run"
    /\ IF cfg.map = "memfd" /\ cfg.tr # "unix"
         THEN /\ res' = [res EXCEPT !["c"] = "err_cfg"]      \* rejected before anything is created; caller closes conn
              /\ open' = [open EXCEPT !["c"] = FALSE]
              /\ Goto("c", "end")
              /\ UNCHANGED <<led, mem>>
         ELSE /\ led' = [led EXCEPT !["c"] = ClientRes]      \* getConnDupFd + initMemManager
              /\ mem' = [mem EXCEPT !["c"] = "C"]
              /\ Goto("c", IF cfg.cproto = 2 THEN "sendPath" ELSE "sendExch")
              /\ UNCHANGED <<res, open>>
    /\ UNCHANGED <<cfg, zombie, ver, io, chan, wire>>

CSendExch == SendStep("c", "sendExch", Msg("EXCH", 3), "recvExch")
CRecvExch ==
    /\ Take("c", "recvExch")
    /\ LET m == Front("c")
           chosen == Min(3, m.v) IN
       IF /\ ValidHeader(m) /\ m.t = "EXCH" /\ chosen \in {2, 3}
          /\ ~(RefuseMemfdDowngrade /\ chosen = 2 /\ cfg.map = "memfd")
         THEN /\ ver' = [ver EXCEPT !["c"] = chosen]
              /\ Goto("c", IF chosen = 3 /\ cfg.map = "memfd" THEN "sendMemfd" ELSE "sendPath")
              /\ Consume("c")
              /\ UNCHANGED <<cfg, zombie, res, open, led, mem, wire>>
         ELSE FailTaking("c", "err_proto")
\* protocol 2: no acknowledgement is awaited
CSendPath == SendStep("c", "sendPath", Msg("PATH", ver["c"]), IF ver["c"] = 3 THEN "recvAck" ELSE "ok")
CSendMemfd == SendStep("c", "sendMemfd", Msg("MEMFD", ver["c"]), "recvAckRdy")
CRecvAckRdy ==
    /\ Take("c", "recvAckRdy")
    /\ IF ValidHeader(Front("c")) /\ Front("c").t = "ACKRDY"
         THEN Goto("c", "sendFds") /\ Consume("c") /\ UNCHANGED <<cfg, zombie, res, open, ver, led, mem, wire>>
         ELSE FailTaking("c", "err_proto")
CSendFds == SendStep("c", "sendFds", Msg("FDS", 1), "recvAck")
CRecvAck ==
    /\ Take("c", "recvAck")
    /\ IF ValidHeader(Front("c")) /\ Front("c").t = "ACK"
         THEN Goto("c", "ok") /\ Consume("c") /\ UNCHANGED <<cfg, zombie, res, open, ver, led, mem, wire>>
         ELSE FailTaking("c", "err_proto")

Client == CStart \/ CSendExch \/ CRecvExch \/ CSendPath \/ CSendMemfd \/ CRecvAckRdy \/ CSendFds \/ CRecvAck
          \/ Finish("c")

-----------------------------------------------------------------------------
\* server: newSession(config, conn, false)
SStart ==
    /\ pc["s"] = "start" /\ res["s"] = "run"
    /\ led' = [led EXCEPT !["s"] = {"conn"}]
    /\ Goto("s", "recvFirst")
    /\ UNCHANGED <<cfg, zombie, res, open, ver, mem, io, chan, wire>>

\* mappingQueueManager + getGlobalBufferManager by path: needs file-backed client memory
MapByPath(q, v) ==
    IF cfg.map = "file" /\ BadBuffer
      THEN /\ led' = [led EXCEPT !["s"] = @ \cup {"qmap"}]      \* mappingQueueManager succeeded, s.queueManager = qm
           /\ ver' = [ver EXCEPT !["s"] = v]
           /\ Goto("s", "mapBuffer") /\ Consume("s")
           /\ UNCHANGED <<cfg, zombie, res, open, mem, wire>>
    ELSE IF cfg.map = "file"
      THEN /\ led' = [led EXCEPT !["s"] = @ \cup ByPathRes]
           /\ mem' = [mem EXCEPT !["s"] = "C"]
           /\ ver' = [ver EXCEPT !["s"] = v]
           /\ Goto("s", q) /\ Consume("s")
           /\ UNCHANGED <<cfg, zombie, res, open, wire>>
      ELSE FailTaking("s", "err_map")

SRecvFirst ==
    /\ Take("s", "recvFirst")
    /\ LET m == Front("s") IN
       CASE cfg.sgen = "cur" /\ ValidHeader(m) /\ m.v = 2 /\ m.t = "PATH" ->
                MapByPath("ok", 2)
         [] cfg.sgen = "cur" /\ ValidHeader(m) /\ m.v = 3 /\ m.t = "EXCH" ->
                /\ ver' = [ver EXCEPT !["s"] = 3] /\ Goto("s", "sendExch") /\ Consume("s")
                /\ UNCHANGED <<cfg, zombie, res, open, led, mem, wire>>
         [] cfg.sgen # "cur" /\ ValidHeader(m) /\ m.v = 2 /\ m.t = "PATH" ->
                MapByPath("ok", 2)
         [] cfg.sgen = "v2exch" /\ ValidHeader(m) /\ m.t = "EXCH" ->
                /\ ver' = [ver EXCEPT !["s"] = 2] /\ Goto("s", "sendExch") /\ Consume("s")
                /\ UNCHANGED <<cfg, zombie, res, open, led, mem, wire>>
         [] OTHER -> FailTaking("s", "err_proto")
SSendExch == SendStep("s", "sendExch", Msg("EXCH", SMax), "recvSecond")
SRecvSecond ==
    /\ Take("s", "recvSecond")
    /\ LET m == Front("s") IN
       CASE cfg.sgen = "cur" /\ ValidHeader(m) /\ m.t = "PATH" -> MapByPath("sendAck", ver["s"])
         [] cfg.sgen = "cur" /\ ValidHeader(m) /\ m.t = "MEMFD" ->
                /\ Goto("s", "sendAckRdy") /\ Consume("s")
                /\ UNCHANGED <<cfg, zombie, res, open, ver, led, mem, wire>>
         [] cfg.sgen = "v2exch" /\ ValidHeader(m) /\ m.t = "PATH" /\ m.v = 2 -> MapByPath("ok", ver["s"])
         [] OTHER -> FailTaking("s", "err_proto")
SSendAckRdy == SendStep("s", "sendAckRdy", Msg("ACKRDY", ver["s"]), "recvFds")
SRecvFds ==
    /\ Take("s", "recvFds")
    /\ IF Front("s").t = "FDS" /\ BadBuffer
         THEN /\ led' = [led EXCEPT !["s"] = @ \cup {"qfd", "bfd", "qmap"}]   \* descriptors received, queue mapped
              /\ Goto("s", "mapBuffer") /\ Consume("s")
              /\ UNCHANGED <<cfg, zombie, res, open, ver, mem, wire>>
       ELSE IF Front("s").t = "FDS"
         THEN /\ led' = [led EXCEPT !["s"] = @ \cup ByFdRes]
              /\ mem' = [mem EXCEPT !["s"] = "C"]
              /\ Goto("s", "sendAck") /\ Consume("s")
              /\ UNCHANGED <<cfg, zombie, res, open, ver, wire>>
         ELSE FailTaking("s", "err_proto")
SSendAck == SendStep("s", "sendAck", Msg("ACK", ver["s"]), "ok")
\* getGlobalBufferManager / getGlobalBufferManagerWithMemFd fails with the queue already mapped: the handler returns the
\* error and newSession's cleanup has to reach the queue mapping through s.queueManager. With BufferFdLeaks (the tree as
\* it is) the received buffer descriptor is closed by nobody on this path.
SMapBufferFails ==
    /\ pc["s"] = "mapBuffer" /\ Active("s")
    /\ IF zombie["s"] THEN Fail("s", "err_map")
       ELSE /\ res' = [res EXCEPT !["s"] = "err_map"]
            /\ led' = [led EXCEPT !["s"] = IF BufferFdLeaks /\ "bfd" \in @ THEN {"bfd"} ELSE {}]
            /\ mem' = [mem EXCEPT !["s"] = "none"]
            /\ open' = [open EXCEPT !["s"] = FALSE]
            /\ Goto("s", "end")
            /\ UNCHANGED <<cfg, zombie, ver, io, chan, wire>>

Server == SStart \/ SRecvFirst \/ SSendExch \/ SRecvSecond \/ SSendAckRdy \/ SRecvFds \/ SSendAck \/ SMapBufferFails
          \/ Finish("s")

Next == Client \/ Server \/ (\E x \in Sides : RecvOther(x) \/ Timeout(x))
Spec == Init /\ [][Next]_vars /\ WF_vars(Next)

-----------------------------------------------------------------------------
\* properties (C12)
NonFaulty(x) == cfg.fside # x
Resolved(x) == res[x] # "run"
Terminal == \A x \in Sides : Resolved(x)
Errs == {"err_cfg", "err_pipe", "err_eof", "err_timeout", "err_proto", "err_map"}

TypeOK == /\ zombie \in [Sides -> BOOLEAN]
          /\ \A x \in Sides : res[x] \in {"run", "ok", "stalled", "closed"} \cup Errs
          /\ \A x \in Sides : ver[x] \in {2, 3}

\* the known one-sided-success classes (see checks/handshake_NOTES.md)
KnownV2NoAck       == cfg.fside = "s" /\ ver["c"] = 2        \* protocol 2 has no acknowledgement at all
KnownMemfdDowngrade == cfg.map = "memfd" /\ cfg.sgen = "v2exch" \* memfd names sent as file paths after downgrade
KnownLateGoroutine == cfg.fkind = "late"                       \* the goroutine of a timed-out initProtocol goes on
KnownBufferFdLeak == BufferFdLeaks /\ cfg.map = "memfd" /\ cfg.fkind = "badbuf"
Exempt == ~Strict /\ (KnownV2NoAck \/ KnownMemfdDowngrade)

\* without faults: both succeed with the lower version on the same memory, or both fail
Agreement ==
    (Terminal /\ cfg.fside = "none" /\ ~Exempt) =>
        /\ (res["c"] = "ok") <=> (res["s"] = "ok")
        /\ res["c"] = "ok" => /\ ver["c"] = ver["s"] /\ ver["c"] = MinVer
                              /\ mem["c"] = "C" /\ mem["s"] = "C"
\* with a peer that stops: the surviving end succeeds only soundly ...
SurvivorSound ==
    \A x \in Sides : (NonFaulty(x) /\ res[x] = "ok") => ver[x] = MinVer /\ mem[x] = "C" /\ "conn" \in led[x]
\* ... and a client reports success only if the server really maps the memory
NoOneSidedSuccess ==
    (Terminal /\ NonFaulty("c") /\ res["c"] = "ok" /\ ~Exempt) => mem["s"] = "C"
ServerSuccessMeansClientSentAll ==
    (NonFaulty("s") /\ res["s"] = "ok") => mem["s"] = "C" /\ mem["c"] = "C"
\* an end that fails leaves nothing behind
Cleanup == \A x \in Sides : (NonFaulty(x) /\ res[x] \in Errs /\ ~zombie[x] /\ ~(~Strict /\ (KnownLateGoroutine \/ KnownBufferFdLeak)))
                               => led[x] = {} /\ mem[x] = "none" /\ ~open[x]
\* nobody waits forever: a state without successor has both ends resolved (the time-out arm is always there)
Bounded == (~ENABLED Next) => Terminal
Termination == <>[]Terminal
=============================================================================
