------------------------------ MODULE Blocking ------------------------------
(* C11 - no stream or session call blocks forever.                                                                     *)
(* Five waiters of the library, each with the environment events that are supposed to release it. One module: every   *)
(* behaviour picks its waiter (`mode`) and configuration in Init, so ONE TLC run covers all of them; the variables of  *)
(* the other waiters stay at their initial value.                                                                      *)
(*                                                                                                                     *)
(*  Mode "read"   Stream.readMore (behind ReadBytes/Peek/Discard/Read...) shaped after stream.go: one reader action per *)
(*                stretch of code between two accesses to state shared with other goroutines:                          *)
(*                   a1  pendingData.moveTo            (entry)                                                         *)
(*                   a2  recvBuf.Len() = moveTo again, then the length test                                            *)
(*                   b   IsOpen()        (only when the buffer is empty); not open: bm1 bm2 = moveTo, Len()=moveTo +   *)
(*                       test once more (data delivered together with the close), b2 getStreamState() -> EOS / closed  *)
(*                   --  arm the read timer when the stream has a read deadline                                        *)
(*                   ps  in front of the select (a scheduling point of its own: events can be delivered after the      *)
(*                       state test and before the select is evaluated)                                                *)
(*                   sel select { recvNotifyCh (capacity 1) | closeNotifyCh | timer }                                  *)
(*                   m1 m2   moveTo, Len()=moveTo + test      (notify arm; back to sel when still short)               *)
(*                   c1 c2   moveTo, Len()=moveTo + test      (close arm)      c3  getStreamState() -> EOS / closed    *)
(*                on return the deferred Stop+drain leaves the timer channel empty.                                    *)
(*                Configuration flag cb (callback mode): the reader is the callback goroutine started by the first      *)
(*                message (g1 moveTo, g2 IsOpen, g3 Len) whose OnData does ReadBytes(Need); Close while it is active   *)
(*                is only deferred (CloseCb); the teardown lambda is not modelled; the behaviour ends with the read.   *)
(*                Environment = everything that can release the reader:                                                *)
(*                   ArrBegin/ArrAdd/ArrNotify  fillDataToReadBuffer in the event loop: entered, pendingData.add, then  *)
(*                                      (state test) asyncNotify - the reader can run between any two of them          *)
(*                   HalfClose          peer closed: state open->half + close(closeNotifyCh)                           *)
(*                   CloseCAS/CloseFin  Stream.Close by another local goroutine: state->closed, stream leaves the      *)
(*                                      session table | unread data dropped, close(closeNotifyCh)                      *)
(*                   SessNotify         Session.Close / exitErr (peer disappeared): shutdown=1, closeNotifyCh of every *)
(*                                      stream still in the table, shutdownCh                                          *)
(*                   SessLambda         the posted teardown: Stream.Close on every stream of the table                 *)
(*                   Tick / TimerFire   the clock reaches the deadline | the runtime puts a value in the timer channel *)
(*  Mode "flush"  the queue-full retry loop of Stream.Flush: attempt 0 + at most MaxRetry retries, each after a 10 ms  *)
(*                timer, against the write deadline and closeNotifyCh; the peer may or may not consume.                *)
(*  Mode "accept" Session.AcceptStream: select { acceptCh | shutdownCh }.                                              *)
(*  Mode "send"   Session.waitForSendErr (used by the socket fallback and by close-through-the-socket) against the send *)
(*                loop: select { sendCh<- | shutdownCh | timer } then select { errCh | shutdownCh | timer }; and the    *)
(*                slow path of Session.wakeUpPeer / hotRestart: select { sendCh <- x | shutdownCh }.                   *)
(*  Mode "init"   Session.initProtocol (the handshake inside newSession) against a peer that answers, stalls or closes. *)
(*                                                                                                                     *)
(* Named deviations from the code: (1) byte counts instead of slices; (2) HalfClose and the load+CAS of Stream.close  *)
(* are single steps; (3) a nil return of the read consumes Need bytes (what ReadBytes does next); (4) the event loop   *)
(* is one goroutine: ArrAdd..ArrNotify, HalfClose and SessLambda do not interleave with each other; (5) Go's select    *)
(* takes any ready arm: modelled as nondeterminism; (6) time is a tick counter, timers fire at or after their tick.    *)
EXTENDS Integers, Sequences, FiniteSets, TLC
CONSTANTS Modes,          \* which waiters this run covers: subset of {"read", "flush", "accept", "send"}
          ReadCfgs,       \* set of records [id, dl, chunks, maxarr, events, maxt, inittok]: per read configuration the
                          \* deadline tick of the k-th read (0 = none), message sizes, #messages, the releasing events the
                          \* environment may produce (subset of {"arr","half","close","sess"}), the clock bound and the
                          \* possible initial contents of the notification channel
          FlushCfgs,      \* set of records [id, qcap, preload, wdl, maxt]
          Need,           \* bytes a read asks for
          AllChunks,      \* union of the message sizes of all read configurations (constant bound of the quantifier)
          MaxRetry,       \* retries of Flush after the first failed put (10 in the code)
          MaxBacklog,     \* accept: streams the peer may open
          SCap, SPre, CWT, SMaxT,  \* send: capacity of sendCh, foreign entries already in it, tick of
                                   \* ConnectionWriteTimeout, clock bound
          NSteps, IT, IMaxT        \* init: messages the peer has to send for the handshake to succeed, tick of
                                   \* InitializeTimeout, clock bound
VARIABLES
  mode, rc, fc,   \* the waiter and configuration of this behaviour (chosen in Init, never changed)
  now,        \* clock
  \* ---- read
  rpc, rd, res, pend, rbuf, tok, cls, st, sess, tmr, tdl, dpc, dsz, arr, peerClosed, cpc, bad, lead,
  \* ---- flush
  fpc, ftry, qn, fst, fcls, fres, fdone, fsess,
  \* ---- accept
  apc, backlog, asess, ares, nnew,
  \* ---- send
  spc, sres, mine, ahead, behind, lp, cur, wblk, ssess, stm, kpc,
  \* ---- init (handshake)
  ipc, ik, ipeer, ires, igo

cvars == <<mode, rc, fc>>
rvars == <<rpc, rd, res, pend, rbuf, tok, cls, st, sess, tmr, tdl, dpc, dsz, arr, peerClosed, cpc, bad, lead>>
fvars == <<fpc, ftry, qn, fst, fcls, fres, fdone, fsess>>
avars == <<apc, backlog, asess, ares, nnew>>
svars == <<spc, sres, mine, ahead, behind, lp, cur, wblk, ssess, stm, kpc>>
ivars == <<ipc, ik, ipeer, ires, igo>>
vars == <<cvars, now, rvars, fvars, avars, svars, ivars>>

NoRC == [id |-> 0, dl |-> <<0>>, chunks |-> {1}, maxarr |-> 0, events |-> {}, maxt |-> 0, inittok |-> {0}, cb |-> FALSE]
NoFC == [id |-> 0, qcap |-> 1, preload |-> 0, wdl |-> 0, maxt |-> 0]
Deadlines == rc.dl
Chunks == rc.chunks
MaxArr == rc.maxarr
Events == rc.events
QCap == fc.qcap
WDeadline == fc.wdl
MaxT == CASE mode = "read" -> rc.maxt [] mode = "flush" -> fc.maxt [] mode = "send" -> SMaxT [] mode = "init" -> IMaxT
             [] OTHER -> 0

Init ==
  /\ mode \in Modes
  /\ rc \in (IF mode = "read" THEN ReadCfgs ELSE {NoRC})
  /\ fc \in (IF mode = "flush" THEN FlushCfgs ELSE {NoFC})
  /\ now = 0
  /\ rpc = "idle" /\ rd = 0 /\ res = "none" /\ pend = 0 /\ rbuf = 0 /\ tok \in rc.inittok /\ cls = FALSE /\ st = "open"
  /\ sess = "up" /\ tmr = "off" /\ tdl = 0 /\ dpc = "idle" /\ dsz = 0 /\ arr = 0 /\ peerClosed = FALSE /\ cpc = "idle"
  /\ bad = "" /\ lead = FALSE
  /\ fpc = "idle" /\ ftry = 0 /\ qn = fc.preload /\ fst = "open" /\ fcls = FALSE /\ fres = "none" /\ fdone = FALSE
  /\ fsess = "up"
  /\ apc = "idle" /\ backlog = 0 /\ asess = "up" /\ ares = "none" /\ nnew = 0
  \* send: the regime of interest - the peer has stopped reading the socket, the send loop is inside a blocked write of
  \* a foreign entry (the `writing` flag is held) and SPre more foreign entries wait in sendCh
  /\ spc = "idle" /\ sres = "none" /\ mine = "none" /\ ahead = SPre /\ behind = 0 /\ lp = "writing" /\ cur = "other"
  /\ wblk = TRUE /\ ssess = "up" /\ stm = "off" /\ kpc = "idle"
  /\ ipc = "idle" /\ ik = 0 /\ ipeer = "up" /\ ires = "none" /\ igo = "none"

Tick == /\ now < MaxT /\ now' = now + 1
NotR == mode = "read" /\ UNCHANGED <<cvars, fvars, avars, svars, ivars>>
NotF == mode = "flush" /\ UNCHANGED <<cvars, rvars, avars, svars, ivars>>
NotA == mode = "accept" /\ UNCHANGED <<cvars, rvars, fvars, svars, ivars>>
NotS == mode = "send" /\ UNCHANGED <<cvars, rvars, fvars, avars, ivars>>
NotI == mode = "init" /\ UNCHANGED <<cvars, rvars, fvars, avars, svars>>

-----------------------------------------------------------------------------
\* =============================== Mode "read" ===============================
Dl == IF rd = 0 THEN 0 ELSE Deadlines[rd]          \* deadline of the current read

\* the reader returns r. Ghosts: bad = a result the property forbids; lead = EOS after the peer's close (no local Close involved) although enough bytes had arrived
Return(r, nrbuf, npend) ==
  /\ rpc' = "idle" /\ res' = r /\ tmr' = "off" /\ tdl' = 0
  /\ pend' = npend
  /\ rbuf' = IF r = "nil" THEN nrbuf - Need ELSE nrbuf
  /\ bad' = IF bad # "" THEN bad
            ELSE IF r = "nil" /\ nrbuf < Need THEN "nil-without-enough-data"
            ELSE IF r = "timeout" /\ (Dl = 0 \/ now < Dl) THEN "timeout-before-deadline"
            ELSE IF r \in {"eos", "closed"} /\ ~cls /\ st = "open" THEN "error-without-a-cause"
            ELSE ""
  /\ lead' = (lead \/ (r = "eos" /\ peerClosed /\ cpc = "idle" /\ nrbuf + npend >= Need))

Arm == IF Dl # 0 THEN tmr' = "armed" /\ tdl' = Dl ELSE UNCHANGED <<tmr, tdl>>
Keep == UNCHANGED <<now, rd, tok, cls, st, sess, dpc, dsz, arr, peerClosed, cpc>> /\ NotR

RStart ==      \* ReadBytes(Need) is called; it enters readMore only when the buffer is short
  /\ ~rc.cb /\ rpc = "idle" /\ rd < Len(Deadlines) /\ rd' = rd + 1
  /\ IF rbuf >= Need
       THEN /\ rbuf' = rbuf - Need /\ res' = "nil" /\ UNCHANGED <<rpc>>
       ELSE /\ rpc' = "a1" /\ res' = "none" /\ UNCHANGED <<rbuf>>
  /\ UNCHANGED <<now, pend, tok, cls, st, sess, tmr, tdl, dpc, dsz, arr, peerClosed, cpc, bad, lead>> /\ NotR

\* callback goroutine before OnData: moveTo | for s.IsOpen() && | s.recvBuf.Len() > 0 { OnData -> ReadBytes(Need) }
R_g1 == /\ rpc = "g1" /\ rbuf' = rbuf + pend /\ pend' = 0 /\ rpc' = "g2"
        /\ UNCHANGED <<res, tmr, tdl, bad, lead>> /\ Keep
R_g2 == /\ rpc = "g2"            \* not open: OnData is not called; the goroutine goes round again while data is pending
        /\ rpc' = (IF st = "open" THEN "g3" ELSE IF pend > 0 THEN "g1" ELSE "idle")
        /\ UNCHANGED <<res, pend, rbuf, tmr, tdl, bad, lead>> /\ Keep
R_g3 == /\ rpc = "g3"
        /\ LET n == rbuf + pend IN
           IF n >= Need THEN Return("nil", n, 0)                                \* ReadBytes finds enough: no readMore
           ELSE /\ rbuf' = n /\ pend' = 0 /\ rpc' = (IF n = 0 THEN "idle" ELSE "a1")
                /\ UNCHANGED <<res, tmr, tdl, bad, lead>>
        /\ Keep
R_a1 == /\ rpc = "a1" /\ rbuf' = rbuf + pend /\ pend' = 0 /\ rpc' = "a2"
        /\ UNCHANGED <<res, tmr, tdl, bad, lead>> /\ Keep
R_a2 == /\ rpc = "a2"
        /\ LET n == rbuf + pend IN
           IF n >= Need THEN Return("nil", n, 0)
           ELSE /\ rbuf' = n /\ pend' = 0 /\ UNCHANGED <<res, bad, lead>>
                /\ IF n = 0 THEN rpc' = "b" /\ UNCHANGED <<tmr, tdl>> ELSE rpc' = "ps" /\ Arm
        /\ Keep
R_b ==  /\ rpc = "b"
        /\ IF st = "open" THEN rpc' = "ps" /\ Arm ELSE rpc' = "bm1" /\ UNCHANGED <<tmr, tdl>>
        /\ UNCHANGED <<res, pend, rbuf, bad, lead>> /\ Keep
\* (since commit 45496fc) the stream is not open: take what arrived together with the close before reporting the end
R_bm1 == /\ rpc = "bm1" /\ rbuf' = rbuf + pend /\ pend' = 0 /\ rpc' = "bm2"
         /\ UNCHANGED <<res, tmr, tdl, bad, lead>> /\ Keep
R_bm2 == /\ rpc = "bm2"
         /\ LET n == rbuf + pend IN
            IF n >= Need THEN Return("nil", n, 0)
            ELSE /\ rbuf' = n /\ pend' = 0 /\ UNCHANGED <<res, bad, lead>>
                 /\ IF n = 0 THEN rpc' = "b2" /\ UNCHANGED <<tmr, tdl>> ELSE rpc' = "ps" /\ Arm
         /\ Keep
R_b2 == /\ rpc = "b2" /\ Return(IF st = "half" THEN "eos" ELSE "closed", rbuf, pend) /\ Keep
\* ps: in front of the select (arrived from the tests above or from the bottom of the loop). Evaluating the select with no
\* ready arm = the reader blocks (sel); with a ready arm the R_sel* step follows at once.
R_enter == /\ rpc = "ps" /\ rpc' = "sel" /\ UNCHANGED <<res, pend, rbuf, tmr, tdl, bad, lead>> /\ Keep
R_selTok == /\ rpc = "sel" /\ tok = 1 /\ tok' = 0 /\ rpc' = "m1"
            /\ UNCHANGED <<now, rd, res, pend, rbuf, cls, st, sess, tmr, tdl, dpc, dsz, arr, peerClosed, cpc, bad, lead>>
            /\ NotR
R_selCls == /\ rpc = "sel" /\ cls /\ rpc' = "c1"
            /\ UNCHANGED <<res, pend, rbuf, tmr, tdl, bad, lead>> /\ Keep
R_selTmr == /\ rpc = "sel" /\ tmr = "fired" /\ Return("timeout", rbuf, pend) /\ Keep
R_m1 == /\ rpc = "m1" /\ rbuf' = rbuf + pend /\ pend' = 0 /\ rpc' = "m2"
        /\ UNCHANGED <<res, tmr, tdl, bad, lead>> /\ Keep
R_m2 == /\ rpc = "m2"
        /\ LET n == rbuf + pend IN
           IF n >= Need THEN Return("nil", n, 0)
           ELSE rbuf' = n /\ pend' = 0 /\ rpc' = "ps" /\ UNCHANGED <<res, tmr, tdl, bad, lead>>
        /\ Keep
R_c1 == /\ rpc = "c1" /\ rbuf' = rbuf + pend /\ pend' = 0 /\ rpc' = "c2"
        /\ UNCHANGED <<res, tmr, tdl, bad, lead>> /\ Keep
R_c2 == /\ rpc = "c2"
        /\ LET n == rbuf + pend IN
           IF n >= Need THEN Return("nil", n, 0)
           ELSE rbuf' = n /\ pend' = 0 /\ rpc' = "c3" /\ UNCHANGED <<res, tmr, tdl, bad, lead>>
        /\ Keep
R_c3 == /\ rpc = "c3" /\ Return(IF st = "half" THEN "eos" ELSE "closed", rbuf, pend) /\ Keep

ReaderStep == R_g1 \/ R_g2 \/ R_g3 \/ R_a1 \/ R_a2 \/ R_b \/ R_bm1 \/ R_bm2 \/ R_b2 \/ R_enter \/ R_selTok \/ R_selCls \/ R_selTmr \/ R_m1 \/ R_m2 \/ R_c1 \/ R_c2 \/ R_c3

RKeep == UNCHANGED <<rpc, rd, res, bad, lead>> /\ NotR
ArrBegin(k) ==      \* the event loop enters fillDataToReadBuffer with a k-byte message (nothing shared touched yet)
  /\ k \in Chunks /\ "arr" \in Events /\ dpc = "idle" /\ arr < MaxArr /\ st # "closed" /\ sess = "up" /\ ~peerClosed
  /\ dpc' = "pre" /\ dsz' = k /\ arr' = arr + 1
  /\ UNCHANGED <<now, pend, rbuf, tok, cls, st, sess, tmr, tdl, peerClosed, cpc>> /\ RKeep
ArrAdd ==           \* pendingData.add
  /\ dpc = "pre" /\ pend' = pend + dsz /\ dpc' = "mid"
  /\ UNCHANGED <<now, rbuf, tok, cls, st, sess, tmr, tdl, dsz, arr, peerClosed, cpc>> /\ RKeep
ArrNotify ==        \* state test, then asyncNotify(recvNotifyCh) (or drop everything when closed locally)
  /\ dpc = "mid" /\ dpc' = "idle" /\ dsz' = 0
  /\ IF st = "closed" THEN pend' = 0 /\ rbuf' = 0 /\ UNCHANGED tok
                      ELSE tok' = 1 /\ UNCHANGED <<pend, rbuf>>
  \* callback mode: CAS(callbackInProcess, 0, 1) wins for the first message -> the callback goroutine is started (it will
  \* call OnData, whose ReadBytes(Need) is the read under test; one read per behaviour)
  /\ IF rc.cb /\ st # "closed" /\ rpc = "idle" /\ rd = 0 THEN rpc' = "g1" /\ rd' = 1 ELSE UNCHANGED <<rpc, rd>>
  /\ UNCHANGED <<now, cls, st, sess, tmr, tdl, arr, peerClosed, cpc, res, bad, lead>> /\ NotR
HalfClose ==
  /\ "half" \in Events /\ ~peerClosed /\ dpc = "idle" /\ sess = "up" /\ peerClosed' = TRUE
  /\ IF st = "open" THEN st' = "half" /\ cls' = TRUE ELSE UNCHANGED <<st, cls>>
  /\ UNCHANGED <<now, pend, rbuf, tok, sess, tmr, tdl, dpc, dsz, arr, cpc>> /\ RKeep
CloseCAS ==
  /\ ~rc.cb /\ "close" \in Events /\ cpc = "idle" /\ st # "closed" /\ st' = "closed" /\ cpc' = "mid"
  /\ UNCHANGED <<now, pend, rbuf, tok, cls, sess, tmr, tdl, dpc, dsz, arr, peerClosed>> /\ RKeep
CloseFin ==
  /\ cpc = "mid" /\ cpc' = "done" /\ pend' = 0 /\ rbuf' = 0 /\ cls' = TRUE
  /\ UNCHANGED <<now, tok, st, sess, tmr, tdl, dpc, dsz, arr, peerClosed>> /\ RKeep
CloseCb ==          \* callback mode, Stream.Close by another goroutine while the callback goroutine is active
                    \* (callbackInProcess = 1): the close is deferred - callbackCloseState := waitExit, CAS open -> half,
                    \* safeCloseNotify (since commit 0f276d8; before it closeNotifyCh stayed open and TLC refuted
                    \* ReadReturnsAnyClose: finding callback-close-leaves-reader-blocked), return. The real close happens
                    \* when the callback goroutine leaves.
  /\ rc.cb /\ "close" \in Events /\ cpc = "idle" /\ rpc # "idle" /\ st # "closed" /\ cpc' = "done"
  /\ st' = (IF st = "open" THEN "half" ELSE st) /\ cls' = TRUE
  /\ UNCHANGED <<now, pend, rbuf, tok, sess, tmr, tdl, dpc, dsz, arr, peerClosed>> /\ RKeep
SessNotify ==
  /\ "sess" \in Events /\ sess = "up" /\ sess' = "notified"
  /\ cls' = (IF st = "closed" THEN cls ELSE TRUE)       \* a stream that already left the table is not notified
  /\ UNCHANGED <<now, pend, rbuf, tok, st, tmr, tdl, dpc, dsz, arr, peerClosed, cpc>> /\ RKeep
SessLambda ==
  /\ ~rc.cb /\ sess = "notified" /\ dpc = "idle" /\ sess' = "down"
  /\ IF st # "closed" THEN st' = "closed" /\ pend' = 0 /\ rbuf' = 0 ELSE UNCHANGED <<st, pend, rbuf>>
  /\ UNCHANGED <<now, tok, cls, tmr, tdl, dpc, dsz, arr, peerClosed, cpc>> /\ RKeep
TimerFire ==
  /\ tmr = "armed" /\ now >= tdl /\ tmr' = "fired"
  /\ UNCHANGED <<now, pend, rbuf, tok, cls, st, sess, tdl, dpc, dsz, arr, peerClosed, cpc>> /\ RKeep
RTick == Tick /\ UNCHANGED <<pend, rbuf, tok, cls, st, sess, tmr, tdl, dpc, dsz, arr, peerClosed, cpc>> /\ RKeep

ReadNext == RStart \/ R_g1 \/ R_g2 \/ R_g3 \/ R_a1 \/ R_a2 \/ R_b \/ R_bm1 \/ R_bm2 \/ R_b2 \/ R_enter \/ R_selTok \/ R_selCls \/ R_selTmr \/ R_m1 \/ R_m2 \/ R_c1 \/ R_c2
            \/ R_c3 \/ (\E k \in AllChunks : ArrBegin(k)) \/ ArrAdd \/ ArrNotify \/ HalfClose \/ CloseCAS \/ CloseFin \/ CloseCb \/ SessNotify
            \/ SessLambda \/ TimerFire \/ RTick

\* the event that should release the reader has happened (and its deliverer has finished)
Released == \/ cls
            \/ (tmr \in {"armed", "fired"} /\ now >= tdl)
            \/ (dpc = "idle" /\ pend + rbuf >= Need)
ReadFair == WF_vars(ReaderStep) /\ WF_vars(ArrAdd) /\ WF_vars(ArrNotify) /\ WF_vars(CloseFin) /\ WF_vars(TimerFire)
ReadReturns == (rpc # "idle" /\ Released) ~> (rpc = "idle")
\* what the property asks for, independent of closeNotifyCh: a completed close by EITHER end releases the reader (in callback
\* mode a local Close is only deferred, CloseCb; before commit 0f276d8 it gave no notification and TLC refuted this formula).
ReadReturnsAnyClose == (rpc # "idle" /\ (Released \/ (cpc = "done" /\ st # "open"))) ~> (rpc = "idle")
NoBadResult == bad = ""
NoEosWithData == ~lead           \* not a C11 verdict (the read did return); holds since commit 45496fc, see the notes
ReadTypeOK == /\ tok \in {0, 1} /\ pend >= 0 /\ rbuf >= 0
              /\ (rpc = "idle" => tmr = "off")           \* the timer never outlives the call that armed it

-----------------------------------------------------------------------------
\* =============================== Mode "flush" ==============================
FRet(r) == fpc' = "idle" /\ fres' = r /\ fdone' = TRUE
FStart == /\ fpc = "idle" /\ ~fdone /\ ftry' = 0
          /\ IF fst = "open" /\ fsess = "up"             \* (the session test since commit 075bc66)
               THEN fpc' = "put" /\ UNCHANGED <<fres, fdone>> ELSE FRet("closed")
          /\ UNCHANGED <<now, qn, fst, fcls, fsess>> /\ NotF
FAttempt == /\ fpc = "put"
            /\ IF qn < QCap THEN qn' = qn + 1 /\ FRet("nil") /\ UNCHANGED ftry
               ELSE IF ftry = MaxRetry THEN FRet("queuefull") /\ UNCHANGED <<qn, ftry>>
               ELSE fpc' = "wait" /\ UNCHANGED <<qn, ftry, fres, fdone>>
            /\ UNCHANGED <<now, fst, fcls, fsess>> /\ NotF
FWaitTimer == /\ fpc = "wait" /\ fpc' = "put" /\ ftry' = ftry + 1
              /\ UNCHANGED <<now, qn, fst, fcls, fres, fdone, fsess>> /\ NotF
FWaitDeadline == /\ fpc = "wait" /\ WDeadline # 0 /\ now >= WDeadline /\ FRet("timeout")
                 /\ UNCHANGED <<now, ftry, qn, fst, fcls, fsess>> /\ NotF
FWaitClosed == /\ fpc = "wait" /\ fcls /\ FRet("closed") /\ UNCHANGED <<now, ftry, qn, fst, fcls, fsess>> /\ NotF
FlushStep == FAttempt \/ FWaitTimer \/ FWaitDeadline \/ FWaitClosed
FKeep == UNCHANGED <<fpc, ftry, fres, fdone>> /\ NotF
Consume == /\ qn > 0 /\ qn' = 0 /\ UNCHANGED <<now, fst, fcls, fsess>> /\ FKeep       \* the peer drains the whole queue
FHalfClose == /\ fst = "open" /\ fsess = "up" /\ fst' = "half" /\ fcls' = TRUE /\ UNCHANGED <<now, qn, fsess>> /\ FKeep
FSessClose == /\ fsess = "up" /\ fsess' = "closed" /\ fcls' = TRUE /\ UNCHANGED <<now, qn, fst>> /\ FKeep
FTick == Tick /\ UNCHANGED <<qn, fst, fcls, fsess>> /\ FKeep
FlushNext == FStart \/ FAttempt \/ FWaitTimer \/ FWaitDeadline \/ FWaitClosed \/ Consume \/ FHalfClose \/ FSessClose
             \/ FTick
FlushFair == WF_vars(FlushStep)
FlushReturns == (fpc # "idle") ~> (fpc = "idle")        \* no fairness of the environment: the queue may stay full
FlushResultOK == /\ (fres = "timeout" => WDeadline # 0 /\ now >= WDeadline)
                 /\ (fres = "closed" => fcls \/ fst # "open")
                 /\ (fres = "queuefull" => ftry = MaxRetry)

-----------------------------------------------------------------------------
\* =============================== Mode "accept" =============================
AStart == /\ apc = "idle" /\ ares = "none" /\ apc' = "sel" /\ UNCHANGED <<now, backlog, asess, ares, nnew>> /\ NotA
ASelStream == /\ apc = "sel" /\ backlog > 0 /\ backlog' = backlog - 1 /\ apc' = "idle" /\ ares' = "stream"
              /\ UNCHANGED <<now, asess, nnew>> /\ NotA
ASelShut == /\ apc = "sel" /\ asess = "closed" /\ apc' = "idle" /\ ares' = "shutdown"
            /\ UNCHANGED <<now, backlog, asess, nnew>> /\ NotA
AcceptStep == ASelStream \/ ASelShut
NewStream == /\ asess = "up" /\ nnew < MaxBacklog /\ nnew' = nnew + 1 /\ backlog' = backlog + 1
             /\ UNCHANGED <<now, apc, asess, ares>> /\ NotA
ASessClose == /\ asess = "up" /\ asess' = "closed" /\ UNCHANGED <<now, apc, backlog, ares, nnew>> /\ NotA
AcceptNext == AStart \/ ASelStream \/ ASelShut \/ NewStream \/ ASessClose
AcceptFair == WF_vars(AcceptStep)
AcceptReturns == (apc = "sel" /\ (backlog > 0 \/ asess = "closed")) ~> (apc = "idle")
AcceptResultOK == (ares = "shutdown" => asess = "closed")

-----------------------------------------------------------------------------
\* =============================== Mode "send" ===============================
\* sendCh holds `ahead` foreign entries, then possibly the waiter's own, then `behind` foreign ones.
QLen == ahead + behind + (IF mine = "queued" THEN 1 ELSE 0)
SRet(r) == spc' = "idle" /\ sres' = r /\ stm' = "off"
SKeepQ == UNCHANGED <<ahead, behind, lp, cur, wblk, ssess, kpc>> /\ NotS
SStart == /\ spc = "idle" /\ sres = "none" /\ spc' = "enq" /\ stm' = "armed"
          /\ UNCHANGED <<now, sres, mine>> /\ SKeepQ
SEnq == /\ spc = "enq" /\ QLen < SCap /\ mine' = "queued" /\ spc' = "wait"
        /\ UNCHANGED <<now, sres, stm>> /\ SKeepQ
SShut == /\ spc \in {"enq", "wait"} /\ ssess # "up" /\ SRet("shutdown") /\ UNCHANGED <<now, mine>> /\ SKeepQ
STimeout == /\ spc \in {"enq", "wait"} /\ stm = "fired" /\ SRet("timeout") /\ UNCHANGED <<now, mine>> /\ SKeepQ
SAck == /\ spc = "wait" /\ mine \in {"written", "failed"}
        /\ SRet(IF mine = "written" THEN "nil" ELSE "writeerr") /\ UNCHANGED <<now, mine>> /\ SKeepQ
SendStep == SEnq \/ SShut \/ STimeout \/ SAck
STimerFire == /\ stm = "armed" /\ now >= CWT /\ stm' = "fired"
              /\ UNCHANGED <<now, spc, sres, mine>> /\ SKeepQ
\* the send loop
SK1 == UNCHANGED <<now, spc, sres, wblk, ssess, stm, kpc>> /\ NotS
LoopTake == /\ lp = "idle" /\ QLen > 0 /\ lp' = "writing"
            /\ IF ahead > 0 THEN ahead' = ahead - 1 /\ cur' = "other" /\ UNCHANGED <<mine, behind>>
               ELSE IF mine = "queued" THEN mine' = "taken" /\ cur' = "mine" /\ UNCHANGED <<ahead, behind>>
               ELSE behind' = behind - 1 /\ cur' = "other" /\ UNCHANGED <<mine, ahead>>
            /\ SK1
LoopWritten == /\ lp = "writing" /\ ~wblk /\ ssess # "down" /\ lp' = "idle" /\ cur' = "none"
               /\ mine' = (IF cur = "mine" THEN "written" ELSE mine)
               /\ UNCHANGED <<ahead, behind>> /\ SK1
LoopWriteFails == /\ lp = "writing" /\ ssess = "down" /\ lp' = "idle" /\ cur' = "none"   \* connection closed: EPIPE
                  /\ mine' = (IF cur = "mine" THEN "failed" ELSE mine)
                  /\ UNCHANGED <<ahead, behind>> /\ SK1
LoopExit == /\ lp = "idle" /\ ssess # "up" /\ lp' = "exited"
            /\ UNCHANGED <<mine, ahead, behind, cur>> /\ SK1
LoopStep == LoopTake \/ LoopWritten \/ LoopWriteFails \/ LoopExit
\* the slow path of wakeUpPeer / hotRestart (taken when the `writing` flag is held by the send loop):
\* select { sendCh <- x | shutdownCh }   (before commit 4dc1e7e a bare send: TLC refuted WakeReturns, finding wakeup-bare-send)
SK2 == UNCHANGED <<now, spc, sres, mine, ahead, lp, cur, stm>> /\ NotS
KStart == /\ kpc = "idle" /\ lp = "writing" /\ kpc' = "send" /\ UNCHANGED <<behind, wblk, ssess>> /\ SK2
KSend == /\ kpc = "send" /\ QLen < SCap /\ behind' = behind + 1 /\ kpc' = "done" /\ UNCHANGED <<wblk, ssess>> /\ SK2
KShut == /\ kpc = "send" /\ ssess # "up" /\ kpc' = "shut" /\ UNCHANGED <<behind, wblk, ssess>> /\ SK2
\* environment
SUnblock == /\ wblk /\ wblk' = FALSE      \* the peer reads the socket again
            /\ UNCHANGED <<behind, ssess, kpc>> /\ SK2
SSessClose == /\ ssess = "up" /\ ssess' = "closed" /\ UNCHANGED <<behind, wblk, kpc>> /\ SK2
SSessLambda == /\ ssess = "closed" /\ ssess' = "down" /\ wblk' = FALSE /\ UNCHANGED <<behind, kpc>> /\ SK2
STick == Tick /\ UNCHANGED svars /\ NotS
SendNext == SStart \/ SEnq \/ SShut \/ STimeout \/ SAck \/ STimerFire \/ LoopTake \/ LoopWritten \/ LoopWriteFails
            \/ LoopExit \/ KStart \/ KSend \/ KShut \/ SUnblock \/ SSessClose \/ SSessLambda \/ STick
SendFair == WF_vars(SendStep) /\ WF_vars(STimerFire) /\ WF_vars(LoopStep) /\ WF_vars(KSend \/ KShut) /\ WF_vars(SSessLambda)
\* waitForSendErr returns once the write is done, the session is shut down or the write timeout has passed
SendReturns == (spc # "idle" /\ (mine \in {"written", "failed"} \/ ssess # "up" \/ now >= CWT)) ~> (spc = "idle")
SendResultOK == /\ (sres = "timeout" => now >= CWT)
                /\ (sres = "shutdown" => ssess # "up")
\* the slow-path send returns once the session is shut down (room in sendCh may be taken by competing senders)
WakeReturns == (kpc = "send" /\ ssess # "up") ~> (kpc # "send")

-----------------------------------------------------------------------------
\* =============================== Mode "init" ===============================
\* Session.initProtocol (newSession, both ends): the handshake runs in its own goroutine (igo) doing blocking reads on the
\* connection; the caller waits in select { resultCh | InitializeTimeout }; on the timeout it shuts the socket down and
\* waits for the goroutine to leave (commit cf62095). The peer sends its NSteps messages, stalls at any point, or closes.
IStart == /\ ipc = "idle" /\ ires = "none" /\ ipc' = "wait" /\ igo' = "reading"
          /\ UNCHANGED <<now, ik, ipeer, ires>> /\ NotI
PeerReply == /\ ipc # "idle" /\ ipeer = "up" /\ ik < NSteps /\ ik' = ik + 1
             /\ UNCHANGED <<now, ipc, ipeer, ires, igo>> /\ NotI
PeerClose == /\ ipeer = "up" /\ ipeer' = "closed" /\ UNCHANGED <<now, ipc, ik, ires, igo>> /\ NotI
\* the handshake goroutine: finishes when it has read everything, fails when the connection ends or was shut down
GoDone == /\ igo = "reading" /\ ik = NSteps /\ igo' = "ok" /\ UNCHANGED <<now, ipc, ik, ipeer, ires>> /\ NotI
GoFail == /\ igo = "reading" /\ ik < NSteps /\ (ipeer = "closed" \/ ipc = "shut") /\ igo' = "err"
          /\ UNCHANGED <<now, ipc, ik, ipeer, ires>> /\ NotI
IResult == /\ ipc = "wait" /\ igo \in {"ok", "err"} /\ ipc' = "done" /\ ires' = igo
           /\ UNCHANGED <<now, ik, ipeer, igo>> /\ NotI
ITimeout == /\ ipc = "wait" /\ now >= IT /\ ipc' = "shut"          \* timer arm: syscall.Shutdown(connFd), then <-resultCh
            /\ UNCHANGED <<now, ik, ipeer, ires, igo>> /\ NotI
IJoin == /\ ipc = "shut" /\ igo \in {"ok", "err"} /\ ipc' = "done" /\ ires' = "timeout"
         /\ UNCHANGED <<now, ik, ipeer, igo>> /\ NotI
InitStep == GoDone \/ GoFail \/ IResult \/ ITimeout \/ IJoin
ITick == Tick /\ UNCHANGED ivars /\ NotI
InitNext == IStart \/ PeerReply \/ PeerClose \/ GoDone \/ GoFail \/ IResult \/ ITimeout \/ IJoin \/ ITick
InitFair == WF_vars(InitStep)
InitReturns == (ipc \in {"wait", "shut"} /\ (ik = NSteps \/ ipeer = "closed" \/ now >= IT)) ~> (ipc = "done")
InitResultOK == /\ (ires = "timeout" => now >= IT)
                /\ (ires = "ok" => ik = NSteps)

-----------------------------------------------------------------------------
Next == ReadNext \/ FlushNext \/ AcceptNext \/ SendNext \/ InitNext
Spec == Init /\ [][Next]_vars /\ ReadFair /\ FlushFair /\ AcceptFair /\ SendFair /\ InitFair
=============================================================================
