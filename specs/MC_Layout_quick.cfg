SPECIFICATION Spec
CONSTANTS
  MemLens <- MCMemLens
  Sizes <- MCSizes
  Percents <- MCPercents
  Sizes2 <- MCSizes2
  Percents2 <- MCPercents2
  Sizes3 <- MCSizes3
  Percents3 <- MCPercents3
  Globals = TRUE
  Extra <- MCExtra
  QueueCaps <- MCQueueCaps
  Arms <- MCArms
  Helds <- MCHelds
  SmallCap = 40
  M = 0
  Emit = FALSE
INVARIANTS NoPanic PeerMaps LayoutSound PeerSame HeldWords SortedThroughGlobal QueueSound CrossWired ArmAligned

CHECK_DEADLOCK FALSE
