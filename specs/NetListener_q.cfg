\* hand-runnable copy of the quick "1x1-all" configuration (checks/netlistener.py generates its cfgs itself):
\*   tlc -config NetListener_q.cfg NetListener.tla
SPECIFICATION Spec
CONSTANTS
  NS = 1
  NK = 1
  WSizes = {2}
  RSizes = {1, 3}
  MaxW = 1
  BCap = 1
  Sync = TRUE
  Feat = {"sessclose", "lclose2", "pread"}
INVARIANTS TypeOK CounterNonNeg CounterExact AtMostOnce Surfaces AcceptNotStuck BacklogSane ReadNotStuck NoPrematureEnd HeldStaysUsable WaiterOnlyAfterClose SessionEndsModuloOrphan
CHECK_DEADLOCK FALSE
