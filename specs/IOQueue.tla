------------------------------ MODULE IOQueue ------------------------------
(* The shared-memory IO queue (queue.go: put / pop / markWorking / markNotWorking), the producer's wake-up            *)
(* (Session.wakeUpPeer, session.go) and the consumer's drain-and-go-idle loop (handlePolling, protocol_manager.go).   *)
(* ONE ACTION PER SHARED ACCESS of the real code; the comment on each action is the label of the scheduling point     *)
(* the source rewriter puts in front of that access. Elements are <<producer, k>> written into all three fields of a  *)
(* slot so that tearing is visible. `inflight` = polling events written to the socket (or queued for the send loop)   *)
(* and not yet taken by the event loop.                                                                               *)
(* Properties: C04 (Bounded, Intact, Fifo, FullTruth), C05 (NoStranding, EventuallyDrained).                          *)
EXTENDS Integers, Sequences, FiniteSets, TLC
CONSTANTS Cap, Producers, PerProducer, Start
VARIABLES head, tail, ring, flag, lock, writing, inflight,    \* shared memory + socket
          ppc, pk, ptail, pres, psz,                          \* producers: pc, elements done, registers
          cpc, chead, ce,                                     \* consumer: pc, registers
          enq, popped                                         \* ghost histories (linearisation order of puts, pops)
shared == <<head, tail, ring, flag, lock, writing, inflight>>
vars == <<shared, ppc, pk, ptail, pres, psz, cpc, chead, ce, enq, popped>>

None == <<0, 0>>
Elem(p, k) == <<p, k>>
Slot(i) == i % Cap

Init == /\ head = Start /\ tail = Start
        /\ ring = [i \in 0..Cap-1 |-> <<None, None, None>>]
        /\ flag = 0 /\ lock = 0 /\ writing = 0 /\ inflight = 0
        /\ ppc = [p \in Producers |-> "idle"] /\ pk = [p \in Producers |-> 0]
        /\ ptail = [p \in Producers |-> 0] /\ pres = [p \in Producers |-> "none"] /\ psz = [p \in Producers |-> 0]
        /\ cpc = "idle" /\ chead = 0 /\ ce = <<None, None, None>>
        /\ enq = <<>> /\ popped = <<>>

PG(p, l) == ppc' = [ppc EXCEPT ![p] = l]
UC == UNCHANGED <<cpc, chead, ce, popped>>
UP == UNCHANGED <<ppc, pk, ptail, pres, psz, enq>>

-----------------------------------------------------------------------------
\* producer p: err := q.put(e); if err == nil { wakeUpPeer() }
PLock(p) ==       \* queue.put:lock#1
    /\ ppc[p] = "idle" /\ pk[p] < PerProducer /\ lock = 0
    /\ lock' = p /\ PG(p, "p_lt") /\ pres' = [pres EXCEPT ![p] = "none"]
    /\ UNCHANGED <<head, tail, ring, flag, writing, inflight, pk, ptail, psz, enq>> /\ UC
PLoadTail(p) ==   \* queue.put:LoadInt64#2
    /\ ppc[p] = "p_lt" /\ ptail' = [ptail EXCEPT ![p] = tail] /\ PG(p, "p_lh")
    /\ UNCHANGED <<shared, pk, pres, psz, enq>> /\ UC
PLoadHead(p) ==   \* queue.put:LoadInt64#3   tail - load(head) >= cap ?
    /\ ppc[p] = "p_lh"
    /\ psz' = [psz EXCEPT ![p] = ptail[p] - head]
    /\ IF ptail[p] - head >= Cap THEN PG(p, "p_unlockF") ELSE PG(p, "p_w1")
    /\ UNCHANGED <<shared, pk, ptail, pres, enq>> /\ UC
PUnlockFull(p) == \* queue.put:unlock#4      return ErrQueueFull
    /\ ppc[p] = "p_unlockF" /\ lock' = 0 /\ pres' = [pres EXCEPT ![p] = "full"]
    /\ pk' = [pk EXCEPT ![p] = @ + 1] /\ PG(p, "idle")
    /\ UNCHANGED <<head, tail, ring, flag, writing, inflight, ptail, psz, enq>> /\ UC
PW(p, i, from, to) == \* queue.put:mem#5/#6/#7
    /\ ppc[p] = from
    /\ ring' = [ring EXCEPT ![Slot(ptail[p])][i] = Elem(p, pk[p] + 1)]
    /\ PG(p, to)
    /\ UNCHANGED <<head, tail, flag, lock, writing, inflight, pk, ptail, pres, psz, enq>> /\ UC
PPub(p) ==        \* queue.put:AddInt64#8    tail++   (linearisation point of the enqueue)
    /\ ppc[p] = "p_pub" /\ tail' = tail + 1 /\ enq' = Append(enq, Elem(p, pk[p] + 1)) /\ PG(p, "p_unlock")
    /\ UNCHANGED <<head, ring, flag, lock, writing, inflight, pk, ptail, pres, psz>> /\ UC
PUnlock(p) ==     \* queue.put:unlock#9      return nil
    /\ ppc[p] = "p_unlock" /\ lock' = 0 /\ pres' = [pres EXCEPT ![p] = "ok"]
    /\ pk' = [pk EXCEPT ![p] = @ + 1] /\ PG(p, "p_casflag")
    /\ UNCHANGED <<head, tail, ring, flag, writing, inflight, ptail, psz, enq>> /\ UC
PCasFlag(p) ==    \* queue.markWorking:CompareAndSwapUint32#1
    /\ ppc[p] = "p_casflag"
    /\ IF flag = 0 THEN flag' = 1 /\ PG(p, "p_caswr") ELSE flag' = flag /\ PG(p, "idle")
    /\ UNCHANGED <<head, tail, ring, lock, writing, inflight, pk, ptail, pres, psz, enq>> /\ UC
PCasWriting(p) == \* Session.wakeUpPeer:CompareAndSwapUint32   fast path: write the event; slow path: hand it to the send loop
    /\ ppc[p] = "p_caswr"
    /\ inflight' = inflight + 1
    /\ IF writing = 0 THEN writing' = 1 /\ PG(p, "p_stwr") ELSE writing' = writing /\ PG(p, "idle")
    /\ UNCHANGED <<head, tail, ring, flag, lock, pk, ptail, pres, psz, enq>> /\ UC
PStoreWriting(p) == \* Session.wakeUpPeer:StoreUint32
    /\ ppc[p] = "p_stwr" /\ writing' = 0 /\ PG(p, "idle")
    /\ UNCHANGED <<head, tail, ring, flag, lock, inflight, pk, ptail, pres, psz, enq>> /\ UC

-----------------------------------------------------------------------------
\* consumer (event loop): one polling event -> handlePolling
CTake ==          \* event taken from the socket; queue.pop:LoadInt64#1
    /\ cpc = "idle" /\ inflight > 0 /\ inflight' = inflight - 1
    /\ chead' = head /\ cpc' = "c_lt"
    /\ UNCHANGED <<head, tail, ring, flag, lock, writing, ce, popped>> /\ UP
CLoadHead ==      \* queue.pop:LoadInt64#1   (next iteration of the drain loop)
    /\ cpc = "c_lh" /\ chead' = head /\ cpc' = "c_lt"
    /\ UNCHANGED <<shared, ce, popped>> /\ UP
CLoadTail ==      \* queue.pop:LoadInt64#2
    /\ cpc = "c_lt"
    /\ cpc' = IF chead >= tail THEN "c_st0" ELSE "c_r1"
    /\ UNCHANGED <<shared, chead, ce, popped>> /\ UP
CR(i, from, to) == \* queue.pop:mem#3/#4/#5
    /\ cpc = from /\ ce' = [ce EXCEPT ![i] = ring[Slot(chead)][i]] /\ cpc' = to
    /\ UNCHANGED <<shared, chead, popped>> /\ UP
CAdv ==           \* queue.pop:AddInt64#6    head++ ; the element is dispatched
    /\ cpc = "c_adv" /\ head' = head + 1 /\ popped' = Append(popped, ce) /\ cpc' = "c_lh"
    /\ UNCHANGED <<tail, ring, flag, lock, writing, inflight, chead, ce>> /\ UP
CStore0 ==        \* queue.markNotWorking:StoreUint32#1
    /\ cpc = "c_st0" /\ flag' = 0 /\ cpc' = "c_szt"
    /\ UNCHANGED <<head, tail, ring, lock, writing, inflight, chead, ce, popped>> /\ UP
CSizeTail ==      \* queue.size:LoadInt64#1
    /\ cpc = "c_szt" /\ chead' = tail /\ cpc' = "c_szh"     \* chead reused as the temporary
    /\ UNCHANGED <<shared, ce, popped>> /\ UP
CSizeHead ==      \* queue.size:LoadInt64#2
    /\ cpc = "c_szh" /\ cpc' = IF chead - head = 0 THEN "idle" ELSE "c_st1"
    /\ UNCHANGED <<shared, chead, ce, popped>> /\ UP
CStore1 ==        \* queue.markNotWorking:StoreUint32#2
    /\ cpc = "c_st1" /\ flag' = 1 /\ cpc' = "c_lh"
    /\ UNCHANGED <<head, tail, ring, lock, writing, inflight, chead, ce, popped>> /\ UP

PStep(p) == \/ PLock(p) \/ PLoadTail(p) \/ PLoadHead(p) \/ PUnlockFull(p)
            \/ PW(p, 1, "p_w1", "p_w2") \/ PW(p, 2, "p_w2", "p_w3") \/ PW(p, 3, "p_w3", "p_pub")
            \/ PPub(p) \/ PUnlock(p) \/ PCasFlag(p) \/ PCasWriting(p) \/ PStoreWriting(p)
CStep == \/ CTake \/ CLoadHead \/ CLoadTail \/ CR(1, "c_r1", "c_r2") \/ CR(2, "c_r2", "c_r3") \/ CR(3, "c_r3", "c_adv")
         \/ CAdv \/ CStore0 \/ CSizeTail \/ CSizeHead \/ CStore1
Next == (\E p \in Producers : PStep(p)) \/ CStep
Fair == WF_vars(CStep) /\ \A p \in Producers : WF_vars(PStep(p))
Spec == Init /\ [][Next]_vars
FairSpec == Spec /\ Fair

-----------------------------------------------------------------------------
\* C04
Bounded == 0 <= tail - head /\ tail - head <= Cap
Intact == \A i \in 1..Len(popped) : popped[i][1] = popped[i][2] /\ popped[i][2] = popped[i][3] /\ popped[i][1] # None
\* exactly once and in order: what has been popped is a prefix of the enqueue (linearisation) order
Fifo == /\ Len(popped) <= Len(enq)
        /\ \A i \in 1..Len(popped) : popped[i][1] = enq[i]
PerProducerOrder == \A i, j \in 1..Len(enq) : (i < j /\ enq[i][1] = enq[j][1]) => enq[i][2] < enq[j][2]
FullTruth == \A p \in Producers : ppc[p] = "p_unlockF" => psz[p] >= Cap
\* C05
Quiescent == (\A p \in Producers : ppc[p] = "idle") /\ inflight = 0 /\ cpc = "idle"
NoStranding == Quiescent => head = tail
IdleNonEmptyHasWakeup == (cpc = "idle" /\ head # tail) =>
                            (inflight > 0 \/ \E p \in Producers : ppc[p] \in {"p_unlock", "p_casflag", "p_caswr"})
AllDelivered == Quiescent => popped = [i \in 1..Len(enq) |-> <<enq[i], enq[i], enq[i]>>]
EventuallyDrained == <>[](head = tail)
=============================================================================
