---- MODULE MC_Layout ----
\* Default wrapper (quick exact grid, 3 sample random configurations). checks/layout.py generates its own wrapper and cfg
\* for every run (tuple-valued constants cannot be written in a cfg file). By hand: tlc -config MC_Layout_quick.cfg MC_Layout.tla
EXTENDS Layout
MCMemLens == {0, 1, 7, 8, 44, 45, 65, 81, 117, 200, 256, 400, 600, 1000, 2500}
MCSizes == {0, 1, 2, 3, 4, 5, 6, 7, 8, 9, 10, 11, 12, 13, 14, 15, 16, 17, 18, 19, 20, 21, 22, 23, 24, 25, 26, 27, 28, 29, 30, 31, 32, 33, 34, 35, 36, 37, 38, 39, 40, 41, 42, 43, 44, 100, 1000}
MCPercents == {0, 1, 2, 5, 10, 33, 50, 90, 99, 100, 101}
MCSizes2 == {0, 1, 3, 16, 40}
MCPercents2 == {0, 1, 10, 33, 50, 100}
MCSizes3 == {1, 3, 16}
MCPercents3 == {10, 33, 50}
MCQueueCaps == {0, 1, 2, 3, 4, 7, 8, 100, 8192}
MCArms == {FALSE, TRUE}
MCHelds == {-1, 0, 1}
MCExtra == <<<<1048576, <<<<16384, 3>>, <<32748, 59>>, <<49210, 38>>>>, TRUE>>, <<1048576, <<<<1024, 1>>, <<256, 47>>, <<16038, 21>>, <<1048576, 31>>>>, TRUE>>, <<1051550, <<<<289858, 12>>, <<1024, 18>>, <<32748, 11>>, <<11267, 18>>>>, TRUE>>>>
====
