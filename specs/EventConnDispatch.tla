--------------------------- MODULE EventConnDispatch ---------------------------
(* The event-mask dimension of connEventHandler.handleEvent (event_dispatcher_linux.go / _race_linux.go) on a          *)
(* FULL-DUPLEX connection: one endpoint A with a writer that has run into EAGAIN and parks on `<-onWriteReadyCh`,      *)
(* inbound data for A, the peer closing, and the edge-triggered epoll item of A's fd.                                   *)
(*                                                                                                                      *)
(*   kernel / epoll (ET): an edge (peer read -> write space, peer wrote -> data, peer closed) puts A's item on the      *)
(*     ready list (`ready`); ONE epoll round (`Harvest`) takes it off and reports the CURRENT level mask                 *)
(*     {IN if bytes are queued, OUT if the send buffer is not full, RDHUP if the peer closed} in ONE event - so edges    *)
(*     that happened while the dispatcher goroutine was busy arrive coalesced (IN+OUT, RDHUP+IN, ...);                   *)
(*   handleEvent(mask): `if RDHUP {onRemoteClose; return}  if IN {onReadReady}  if OUT {onWriteReady}` - three          *)
(*     independent tests, one action (it runs on the dispatcher goroutine under d.lock);                                 *)
(*   writer: connEventHandler.write of a message of Fills socket-fulls plus a tail: it writes until EAGAIN and parks;    *)
(*     a token makes it retry (EAGAIN again when nothing was drained, next fill, or the tail and return).                *)
(*                                                                                                                      *)
(* out: 0 = nothing in flight, 1 = some (the tail), 2 = send buffer full.  The peer either drains everything or          *)
(* nothing (PeerDrainAll), sends one unit at a time, and may close after it has sent everything (MayClose).              *)
(* FirstMatchOnly = TRUE is NOT the code: it is the `switch`-shaped dispatch (only the first matching test runs), kept   *)
(* as a sensitivity instance - TLC must report a deadlock (stranded writer) for it.                                      *)
(* Eager = TRUE: the woken writer runs before anything else happens (what the free-running goroutine does while the      *)
(* dispatcher is held between two epoll rounds) - replay instance; the verdict is taken with Eager = FALSE.              *)
(* Named deviation / observation: with RDHUP in the mask the code returns before reading, so bytes that arrived together *)
(* with the close are never offered (ghost lostAtClose); C18 does not quantify over close, the spec follows the code.    *)
EXTENDS Integers, FiniteSets, TLC

CONSTANTS Fills,           \* how many times the message fills the send buffer before its tail fits
          MaxIn,           \* units the peer sends to A
          MayClose,        \* may the peer close at the end
          FirstMatchOnly,  \* FALSE = the code
          Eager

VARIABLES wpc, left, tok,          \* writer: "idle" | "wait" (parked after EAGAIN) | "done" | "failed"; fills left; onWriteReadyCh
          out, inq, peerClosed,    \* kernel: A's send buffer level, bytes queued for A, peer has closed
          ready,                   \* A's epoll item is on the ready list
          sentIn, delivered,       \* units sent to A / offered to A's callback
          closedSeen, lostAtClose, \* onRemoteClose called; ghost: units in the socket at that moment
          drained, lastMask        \* fills+tail the peer has taken; ghost: mask of the last event
vars == <<wpc, left, tok, out, inq, peerClosed, ready, sentIn, delivered, closedSeen, lostAtClose, drained, lastMask>>

Init == /\ wpc = "idle" /\ left = Fills /\ tok = 0
        /\ out = 0 /\ inq = 0 /\ peerClosed = FALSE
        /\ ready = TRUE                 \* EPOLL_CTL_ADD reports the initial readiness (OUT): the stale token
        /\ sentIn = 0 /\ delivered = 0 /\ closedSeen = FALSE /\ lostAtClose = 0 /\ drained = 0 /\ lastMask = {}

WakeEnabled == wpc = "wait" /\ tok = 1
Visible == ~Eager \/ ~WakeEnabled

\* write(msg): syscalls until the buffer is full, EAGAIN; a stale token makes it retry once (EAGAIN again); parks
\* (after the peer has closed the first syscall fails with EPIPE: write returns the error at once - "failed")
WBegin == /\ Visible /\ wpc = "idle" /\ ~closedSeen
          /\ IF peerClosed THEN wpc' = "failed" /\ UNCHANGED <<out, left, tok>>
             ELSE out' = 2 /\ left' = left - 1 /\ tok' = 0 /\ wpc' = "wait"
          /\ UNCHANGED <<inq, peerClosed, ready, sentIn, delivered, closedSeen, lostAtClose, drained, lastMask>>

\* `<-onWriteReadyCh` returns, `continue`
WWake == /\ WakeEnabled
         /\ tok' = 0
         /\ IF peerClosed THEN wpc' = "failed" /\ UNCHANGED <<left, out>>            \* EPIPE
            ELSE IF out = 2 THEN UNCHANGED <<wpc, left, out>>                         \* EAGAIN again, parks again
            ELSE IF left > 0 THEN out' = 2 /\ left' = left - 1 /\ UNCHANGED wpc       \* next fill, EAGAIN, parks
            ELSE out' = 1 /\ wpc' = "done" /\ UNCHANGED left                          \* the tail fits: write returns
         /\ UNCHANGED <<inq, peerClosed, ready, sentIn, delivered, closedSeen, lostAtClose, drained, lastMask>>

PeerDrainAll == /\ Visible /\ out > 0 /\ ~peerClosed
                /\ out' = 0 /\ drained' = drained + 1
                /\ ready' = TRUE                                                      \* sock_wfree -> write space wake-up
                /\ UNCHANGED <<wpc, left, tok, inq, peerClosed, sentIn, delivered, closedSeen, lostAtClose, lastMask>>

PeerSend == /\ Visible /\ sentIn < MaxIn /\ ~peerClosed
            /\ inq' = inq + 1 /\ sentIn' = sentIn + 1 /\ ready' = TRUE
            /\ UNCHANGED <<wpc, left, tok, out, peerClosed, delivered, closedSeen, lostAtClose, drained, lastMask>>

PeerClose == /\ Visible /\ MayClose /\ ~peerClosed /\ sentIn = MaxIn
             /\ peerClosed' = TRUE /\ ready' = TRUE
             /\ UNCHANGED <<wpc, left, tok, out, inq, sentIn, delivered, closedSeen, lostAtClose, drained, lastMask>>

\* level mask. OUT: with a small send buffer (the replay uses the minimum) the socket is poll-writable only while nothing
\* is in flight (AF_UNIX: wmem_alloc*4 <= sndbuf), although write(2) still accepts bytes until the buffer is full.
Mask == (IF inq > 0 THEN {"IN"} ELSE {}) \cup (IF out = 0 THEN {"OUT"} ELSE {}) \cup (IF peerClosed THEN {"RDHUP"} ELSE {})

\* one epoll round of the dispatcher goroutine: epoll_wait reports A's item with the current level mask, handleEvent(mask)
Harvest ==
    /\ Visible /\ ready /\ ~closedSeen
    /\ ready' = FALSE /\ lastMask' = Mask
    /\ LET m == Mask
           doClose == "RDHUP" \in m
           doRead == "IN" \in m /\ ~doClose
           doWrite == "OUT" \in m /\ ~doClose /\ (~FirstMatchOnly \/ ~doRead)
       IN /\ closedSeen' = doClose
          /\ lostAtClose' = IF doClose THEN inq ELSE lostAtClose
          /\ IF doRead THEN delivered' = delivered + inq /\ inq' = 0
             ELSE IF doClose THEN inq' = 0 /\ UNCHANGED delivered        \* never read: counted in lostAtClose
             ELSE UNCHANGED <<delivered, inq>>
          /\ tok' = IF doWrite THEN 1 ELSE tok
    /\ UNCHANGED <<wpc, left, out, peerClosed, sentIn, drained>>

Finished == \/ closedSeen
            \/ wpc = "done" /\ out = 0 /\ ~ready /\ sentIn = MaxIn /\ inq = 0 /\ ~peerClosed
Terminated == Finished /\ UNCHANGED vars

Next == WBegin \/ WWake \/ PeerDrainAll \/ PeerSend \/ PeerClose \/ Harvest \/ Terminated
Spec == Init /\ [][Next]_vars

-----------------------------------------------------------------------------
\* C18 on the open connection: with deadlock checking on, a state in which nothing can happen any more is Finished -
\* i.e. the parked writer is always woken once the peer has read (its message is written out completely) ...
NotStranded == (wpc = "wait" /\ out = 0 /\ ~ready /\ tok = 0) => closedSeen
\* ... and everything the peer sent has been offered to the callback, exactly once
InboundOK == /\ delivered + inq + lostAtClose = sentIn
             /\ (Finished /\ ~closedSeen) => delivered = sentIn
\* the peer has taken exactly what the writer has put into the socket: fills done + (tail when done) = drains + in flight
OutboundOK == drained <= (Fills - left) + (IF wpc = "done" THEN 1 ELSE 0)
\* a token only ever comes from an event that carried OUT
TokenOK == tok = 1 => "OUT" \in lastMask
=============================================================================
