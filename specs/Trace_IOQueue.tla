-------------------------- MODULE Trace_IOQueue --------------------------
(* Trace validation for IOQueue: each NDJSON line is one shared access executed by the real queue.put / queue.pop /   *)
(* markWorking / markNotWorking / Session.wakeUpPeer / handlePolling under the serialising scheduler, with the        *)
(* projected shared memory after it. Registers and program counters are inferred by TLC.                              *)
EXTENDS IOQueue, Json, TracePath
VARIABLE l
Trace == ndJsonDeserialize(TracePath)
tvars == <<vars, l>>
Line == Trace[l]
Code(e) == e[1] * 16 + e[2]

Matches(st) == /\ head' = st[1] /\ tail' = st[2] /\ flag' = st[3] /\ lock' = st[4] /\ writing' = st[5]
               /\ inflight' = st[6]
               /\ \A i \in 0..Cap-1 : \A j \in 1..3 : Code(ring'[i][j]) = st[6 + 3*i + j]

TraceInit == Init /\ l = 1

TraceReset == /\ l <= Len(Trace) /\ Line.ev = "reset"
              /\ head' = Start /\ tail' = Start
              /\ ring' = [i \in 0..Cap-1 |-> <<None, None, None>>]
              /\ flag' = 0 /\ lock' = 0 /\ writing' = 0 /\ inflight' = 0
              /\ ppc' = [p \in Producers |-> "idle"] /\ pk' = [p \in Producers |-> 0]
              /\ ptail' = [p \in Producers |-> 0] /\ pres' = [p \in Producers |-> "none"]
              /\ psz' = [p \in Producers |-> 0]
              /\ cpc' = "idle" /\ chead' = 0 /\ ce' = <<None, None, None>>
              /\ enq' = <<>> /\ popped' = <<>>
              /\ l' = l + 1

TraceStep == /\ l <= Len(Trace) /\ Line.ev = "step"
             /\ IF Line.t = 0
                  THEN IF Line.k = 1 THEN CTake ELSE cpc # "idle" /\ CStep
                  ELSE /\ Line.t \in Producers
                       /\ IF Line.k = 1 THEN PLock(Line.t) ELSE ppc[Line.t] # "idle" /\ PStep(Line.t)
             /\ Matches(Line.st)
             /\ l' = l + 1

TraceNext == TraceReset \/ TraceStep
TraceSpec == TraceInit /\ [][TraceNext]_tvars
TraceAccepted == LET d == TLCGet("stats").diameter IN
                   IF d - 1 = Len(Trace) THEN TRUE
                   ELSE Print(<<"TRACE-REJECTED-AT-LINE", d>>, FALSE)
=============================================================================
