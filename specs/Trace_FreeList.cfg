SPECIFICATION TraceSpec
CONSTANTS
  NSlots = 3
  Threads = {1, 2}
  MaxOps = 100000
  MaxRetry = 200
  MaxLinks = 0
  RetryView = 200
INVARIANTS TraceNoDoubleOwner TraceNoForeignWrite TraceSizeBound TraceIdleSizeExact TraceQuiescent
POSTCONDITION TraceAccepted
CHECK_DEADLOCK FALSE
