SPECIFICATION Spec
CONSTANTS
  NSlots = 3
  Threads = {1, 2}
  MaxOps = 2
  MaxRetry = 200
  MaxLinks = 0
  RetryView = 2
CONSTRAINT RetryBound
CONSTRAINT NoAbaSoFar
VIEW View
INVARIANTS NoDoubleOwner NoSelfDouble NoForeignWrite SizeBound IdleSizeExact QuiescentWellFormed
CHECK_DEADLOCK FALSE
