\* Listener.tla as pinned (Feat = {}): the two finding classes are in the state space, the property invariants are guarded
\* by the classifier (G_...). `tlc -config Listener_q.cfg Listener.tla`; checks/listenermod.py generates its cfgs itself.
SPECIFICATION Spec
CONSTANTS
  NSess = 2
  NClosers = 1
  MaxTemp = 0
  MaxFail = 0
  Fatal = FALSE
  Unlink = TRUE
  MaxStreams = 0
  Feat = {}
INVARIANTS TypeOK ShutdownAtMostOnce ShutdownDelivered ReasonRight LockOrder SetClosed LnClosed RunDoneClosed G_NoSelfDeadlock G_NoStale G_SweptGone G_Final
CHECK_DEADLOCK FALSE
