package shmipc

// Binding B2 for BufMgr (C01/C02 at the buffer-manager level): every history (path of BufMgr's state graph) is executed
// on the REAL bufferManager (several size classes, including two classes of the same size), comparing the outcome of each
// call and every class's free count with the spec; plus seeded concurrent programs of manager operations under the
// serialising scheduler with the C01/C02 oracles.

import (
	"encoding/json"
	"fmt"
	"math/rand"
	"os"
	"testing"
	"unsafe"
)

type bmConf struct {
	Caps   []int `json:"caps"`
	Counts []int `json:"counts"`
}

type bmJob struct {
	Conf      bmConf          `json:"conf"`
	Edges     [][]interface{} `json:"edges"` // [src, dst, op, size/class, got...]
	Init      int             `json:"init"`
	Histories [][]int         `json:"histories"`
	AllPaths  bool            `json:"all_paths"`
	Random    struct {
		N     int      `json:"n"`
		Seed  int64    `json:"seed"`
		Confs []bmConf `json:"confs"`
	} `json:"random"`
}

type bmViolation struct {
	Property string   `json:"property"`
	Kind     string   `json:"kind"`
	Detail   string   `json:"detail"`
	Conf     bmConf   `json:"conf"`
	History  []string `json:"history"`
	Edges    []int    `json:"edges"`
	Seed     int64    `json:"seed"`
	Run      int      `json:"run"`
}

type bmResult struct {
	Histories  int           `json:"histories"`
	Ops        int           `json:"ops"`
	Conforming int           `json:"conforming"`
	Drift      []string      `json:"drift"`
	DriftCount int           `json:"drift_count"`
	Violations []bmViolation `json:"violations"`
	RandomRuns int           `json:"random_runs"`
	RandomOps  int           `json:"random_ops"`
	Quiescent  int           `json:"quiescent_checks"`
	Samples    []string      `json:"samples"`
}

type bmWorld struct {
	conf   bmConf
	mem    []byte
	bm     *bufferManager
	bm2    *bufferManager
	held   map[uint32]*bufferSlice // offset -> slice
	origin map[uint32]int          // offset -> class index (1-based) by region
	viol   *bmViolation
}

func bmNew(conf bmConf) (*bmWorld, error) {
	w := &bmWorld{conf: conf, held: map[uint32]*bufferSlice{}, origin: map[uint32]int{}}
	total := bufferManagerHeaderSize
	for i := range conf.Caps {
		total += int(countBufferListMemSize(uint32(conf.Counts[i]), uint32(conf.Caps[i])))
	}
	// exact buffer counts per class cannot always be expressed as percentages: the classes are laid out with the library's
	// own createFreeBufferList behind a manager header written the way createBufferManager writes it, and both views are
	// obtained with mappingBufferManager (what a peer process does)
	w.mem = make([]byte, total) // no slack: the last slot ends exactly at the end of the mapped memory
	*(*uint16)(unsafe.Pointer(&w.mem[0])) = uint16(len(conf.Caps))
	off := uint32(bufferManagerHeaderSize)
	for i := range conf.Caps {
		if _, err := createFreeBufferList(uint32(conf.Counts[i]), uint32(conf.Caps[i]), w.mem, off); err != nil {
			return nil, err
		}
		off += countBufferListMemSize(uint32(conf.Counts[i]), uint32(conf.Caps[i]))
	}
	*(*uint32)(unsafe.Pointer(&w.mem[bmCapOffset])) = off - bufferManagerHeaderSize
	bm, err := mappingBufferManager("", w.mem, 0)
	if err != nil {
		return nil, err
	}
	w.bm = bm
	w.bm2, err = mappingBufferManager("", w.mem, 0)
	return w, err
}

func (w *bmWorld) fail(prop, kind, detail string) {
	if w.viol == nil {
		w.viol = &bmViolation{Property: prop, Kind: kind, Detail: detail, Conf: w.conf}
	}
}

// classOf: which class region the offset lies in, and whether it is at a slot boundary
func (w *bmWorld) classOf(off uint32, capWant uint32) (int, bool) {
	for i, l := range w.bm.lists {
		start := l.bufferRegionOffsetInShm
		end := start + uint32(len(l.bufferRegion))
		if off >= start && off < end {
			stride := *l.capPerBuffer + bufferHeaderSize
			return i + 1, (off-start)%stride == 0 && off+stride <= end && *l.capPerBuffer == capWant
		}
	}
	return 0, false
}

// took: a buffer was handed out by the allocator
func (w *bmWorld) took(s *bufferSlice, who string) int {
	c, ok := w.classOf(s.offsetInShm, s.cap)
	if !ok || len(s.data) != int(s.cap) {
		w.fail("C01", "malformed-buffer", fmt.Sprintf("%s returned offset %d cap %d len %d: not a slot of a class with that capacity", who, s.offsetInShm, s.cap, len(s.data)))
		return c
	}
	if _, dup := w.held[s.offsetInShm]; dup {
		w.fail("C01", "double-owner", fmt.Sprintf("%s returned the buffer at offset %d which is still held", who, s.offsetInShm))
		return c
	}
	w.held[s.offsetInShm] = s
	w.origin[s.offsetInShm] = c
	for i := range s.data {
		s.data[i] = byte(0x80 + c)
	}
	return c
}

func (w *bmWorld) freeCounts() []int {
	out := []int{}
	for _, l := range w.bm.lists {
		out = append(out, int(*l.size))
	}
	return out
}

func (w *bmWorld) checkQuiescent() {
	// every class (grouped by size) offers its full capacity again and its chain is intact
	bySizeFree, bySizeCap := map[int]int{}, map[int]int{}
	dup := false
	for i, l := range w.bm.lists {
		bySizeFree[w.conf.Caps[i]] += int(*l.size)
		bySizeCap[w.conf.Caps[i]] += w.conf.Counts[i]
		for j := range w.bm.lists {
			if j != i && w.conf.Caps[j] == w.conf.Caps[i] {
				dup = true
			}
		}
	}
	for sz, f := range bySizeFree {
		if f != bySizeCap[sz] {
			w.fail("C02", "quiescent-size", fmt.Sprintf("everything recycled but classes of size %d offer %d of %d buffers (free counts %v)", sz, f, bySizeCap[sz], w.freeCounts()))
			return
		}
	}
	for i, l := range w.bm.lists {
		if !dup && int(*l.size) != w.conf.Counts[i] {
			w.fail("C02", "quiescent-size", fmt.Sprintf("class %d offers %d of %d buffers", i+1, *l.size, w.conf.Counts[i]))
			return
		}
		// walk the chain: it must visit *size distinct slot-aligned offsets and end at tail
		seen := map[uint32]bool{}
		cur := *l.head
		last := cur
		for n := 0; n <= int(*l.size)+1; n++ {
			if seen[cur] || int(cur)+bufferHeaderSize > cap(l.bufferRegion) {
				w.fail("C02", "quiescent-chain", fmt.Sprintf("class %d: free chain broken at relative offset %d after %d slots", i+1, cur, len(seen)))
				return
			}
			seen[cur] = true
			last = cur
			h := bufferHeader(l.bufferRegion[cur : cur+bufferHeaderSize])
			if h[bufferFlagOffset]&hasNextBufferFlag == 0 {
				break
			}
			cur = *(*uint32)(unsafe.Pointer(&h[nextBufferOffset]))
		}
		if len(seen) != int(*l.size) || last != *l.tail {
			w.fail("C02", "quiescent-chain", fmt.Sprintf("class %d: free chain visits %d slots, free count %d, ends at %d, tail %d", i+1, len(seen), *l.size, last, *l.tail))
			return
		}
	}
}

func (w *bmWorld) payloadIntact(s *bufferSlice) {
	c := w.origin[s.offsetInShm]
	for i := range s.data {
		if s.data[i] != byte(0x80+c) {
			w.fail("C01", "foreign-payload-write", fmt.Sprintf("payload of held buffer at offset %d altered", s.offsetInShm))
			return
		}
	}
}

func TestVS_BufMgr(t *testing.T) {
	var job bmJob
	b, err := os.ReadFile(os.Getenv("VS_IN_JOB"))
	if err != nil {
		t.Skip("no job")
	}
	if err := json.Unmarshal(b, &job); err != nil {
		t.Fatal(err)
	}
	res := &bmResult{Violations: []bmViolation{}, Drift: []string{}, Samples: []string{}}
	defer func() {
		out, _ := json.Marshal(res)
		os.WriteFile(os.Getenv("VS_OUT"), out, 0o644)
	}()
	type edge struct {
		src, dst int
		op       string
		arg      int
		got      []int
	}
	edges := make([]edge, len(job.Edges))
	outE := map[int][]int{}
	for i, e := range job.Edges {
		ed := edge{src: int(e[0].(float64)), dst: int(e[1].(float64)), op: e[2].(string), arg: int(e[3].(float64))}
		for _, g := range e[4].([]interface{}) {
			ed.got = append(ed.got, int(g.(float64)))
		}
		edges[i] = ed
		outE[ed.src] = append(outE[ed.src], i)
	}
	execute := func(path []int) bool {
		w, err := bmNew(job.Conf)
		if err != nil {
			t.Fatalf("world: %v", err)
		}
		names := []string{}
		drift := false
		func() {
			defer func() {
				if r := recover(); r != nil {
					w.fail("C01", "panic", fmt.Sprint(r))
				}
			}()
			byClass := map[int][]uint32{} // origin class -> held offsets in allocation order
			for _, ei := range path {
				e := edges[ei]
				names = append(names, fmt.Sprintf("%s(%d)", e.op, e.arg))
				res.Ops++
				var got []int
				switch e.op {
				case "alloc":
					s, err := w.bm.allocShmBuffer(uint32(e.arg))
					if err == nil {
						c := w.took(s, names[len(names)-1])
						got = []int{c}
						byClass[c] = append(byClass[c], s.offsetInShm)
						if int(s.cap) < e.arg {
							w.fail("C01", "too-small", fmt.Sprintf("allocShmBuffer(%d) returned capacity %d", e.arg, s.cap))
						}
					}
				case "allocmany":
					sl := newSliceList()
					n := w.bm2.allocShmBuffers(sl, uint32(e.arg))
					sum := int64(0)
					for s := sl.front(); s != nil; s = s.next() {
						c := w.took(s, names[len(names)-1])
						got = append(got, c)
						byClass[c] = append(byClass[c], s.offsetInShm)
						sum += int64(s.cap)
					}
					if sum != n {
						w.fail("C01", "alloc-size", fmt.Sprintf("allocShmBuffers(%d) reported %d bytes, handed out %d", e.arg, n, sum))
					}
				case "recycle":
					lst := byClass[e.arg]
					if len(lst) == 0 {
						if !drift {
							drift = true
							res.DriftCount++
							if len(res.Drift) < 5 {
								res.Drift = append(res.Drift, fmt.Sprintf("%v: nothing of class %d is held", names, e.arg))
							}
						}
						continue
					}
					off := lst[0]
					byClass[e.arg] = lst[1:]
					s := w.held[off]
					w.payloadIntact(s)
					delete(w.held, off)
					w.bm2.recycleBuffer(s)
				}
				if w.viol != nil {
					return
				}
				capsOf := func(cs []int) []int {
					out := []int{}
					for _, c := range cs {
						if c >= 1 && c <= len(w.conf.Caps) {
							out = append(out, w.conf.Caps[c-1])
						} else {
							out = append(out, -1)
						}
					}
					return out
				}
				// compared by capacity: with two classes of one size a buffer may live in either region (named deviation)
				if e.op != "recycle" && !drift && fmt.Sprint(capsOf(got)) != fmt.Sprint(capsOf(e.got)) {
					drift = true
					res.DriftCount++
					if len(res.Drift) < 5 {
						res.Drift = append(res.Drift, fmt.Sprintf("%v: classes handed out %v, spec %v", names, got, e.got))
					}
				}
				// C02: free + held never exceeds the capacity
				tot, capTot := len(w.held), 0
				for i, f := range w.freeCounts() {
					tot += f
					capTot += w.conf.Counts[i]
				}
				if tot > capTot {
					w.fail("C02", "size-bound", fmt.Sprintf("free %v + held %d > capacity %d after %v", w.freeCounts(), len(w.held), capTot, names))
					return
				}
				for _, s := range w.held {
					w.payloadIntact(s)
				}
			}
			// recycle everything (half through the chain walker), then the quiescent oracle
			var rest []*bufferSlice
			for _, s := range w.held {
				rest = append(rest, s)
			}
			for _, s := range rest {
				delete(w.held, s.offsetInShm)
				w.bm.recycleBuffer(s)
			}
			w.checkQuiescent()
			res.Quiescent++
		}()
		res.Histories++
		if !drift {
			res.Conforming++
		}
		if len(res.Samples) < 3 && len(names) >= 4 && res.Histories%37 == 1 {
			res.Samples = append(res.Samples, fmt.Sprintf("caps=%v counts=%v %v", job.Conf.Caps, job.Conf.Counts, names))
		}
		if w.viol != nil {
			w.viol.History, w.viol.Edges = names, path
			res.Violations = append(res.Violations, *w.viol)
			return len(res.Violations) < 4
		}
		return true
	}
	for _, h := range job.Histories {
		if !execute(h) {
			return
		}
	}
	if job.AllPaths {
		var path []int
		var dfs func(n int) bool
		dfs = func(n int) bool {
			es := outE[n]
			if len(es) == 0 {
				return execute(append([]int(nil), path...))
			}
			for _, ei := range es {
				path = append(path, ei)
				ok := dfs(edges[ei].dst)
				path = path[:len(path)-1]
				if !ok {
					return false
				}
			}
			return true
		}
		if !dfs(job.Init) {
			return
		}
	}

	// concurrent programs of manager operations under the serialising scheduler (oracles only)
	rng := rand.New(rand.NewSource(job.Random.Seed))
	for run := 0; run < job.Random.N && len(job.Random.Confs) > 0; run++ {
		conf := job.Random.Confs[rng.Intn(len(job.Random.Confs))]
		w, err := bmNew(conf)
		if err != nil {
			t.Fatalf("world: %v", err)
		}
		nt := 2 + rng.Intn(2)
		type thr struct {
			th   *vsThread
			next func()
			mine []*bufferSlice
		}
		vsReset(vsSched)
		var ths []*thr
		for i := 0; i < nt; i++ {
			x := &thr{}
			x.th = vsSpawn(i+1, func(th *vsThread) {
				for {
					vsYield("idle")
					if x.next == nil {
						return
					}
					f := x.next
					x.next = nil
					f()
				}
			})
			vsStep(x.th)
			ths = append(ths, x)
		}
		sizes := []int{1}
		for _, c := range conf.Caps {
			sizes = append(sizes, c, c+1)
		}
		func() {
			defer func() {
				if r := recover(); r != nil {
					w.fail("C01", "panic", fmt.Sprint(r))
				}
			}()
			opsLeft := 6 * nt
			for step := 0; step < 6000; step++ {
				var cand []*thr
				for _, x := range ths {
					if x.th.pos != "idle" {
						if vsEnabled(x.th) {
							cand = append(cand, x)
						}
					} else if opsLeft > 0 {
						cand = append(cand, x)
					}
				}
				if len(cand) == 0 {
					break
				}
				x := cand[rng.Intn(len(cand))]
				if x.th.pos == "idle" {
					opsLeft--
					view := w.bm
					if rng.Intn(2) == 0 {
						view = w.bm2
					}
					switch r := rng.Intn(10); {
					case r < 4:
						sz := sizes[rng.Intn(len(sizes))]
						x.next = func() {
							if s, err := view.allocShmBuffer(uint32(sz)); err == nil {
								w.took(s, fmt.Sprintf("allocShmBuffer(%d)", sz))
								x.mine = append(x.mine, s)
							}
						}
					case r < 6:
						sz := sizes[rng.Intn(len(sizes))] * (1 + rng.Intn(3))
						x.next = func() {
							sl := newSliceList()
							view.allocShmBuffers(sl, uint32(sz))
							for s := sl.front(); s != nil; {
								nx := s.next()
								s.nextSlice = nil
								w.took(s, fmt.Sprintf("allocShmBuffers(%d)", sz))
								x.mine = append(x.mine, s)
								s = nx
							}
						}
					case r < 8 && len(x.mine) >= 2:
						// link two of its buffers into a message chain and recycle the chain
						a, b2 := x.mine[0], x.mine[1]
						x.mine = x.mine[2:]
						x.next = func() {
							w.payloadIntact(a)
							w.payloadIntact(b2)
							a.nextSlice = b2
							a.update()
							a.nextSlice = nil
							delete(w.held, a.offsetInShm)
							delete(w.held, b2.offsetInShm)
							view.recycleBuffers(a)
						}
					case len(x.mine) > 0:
						s := x.mine[0]
						x.mine = x.mine[1:]
						x.next = func() {
							w.payloadIntact(s)
							delete(w.held, s.offsetInShm)
							view.recycleBuffer(s)
						}
					default:
						x.next = func() {}
					}
					vsStep(x.th)
					if x.th.pos == "idle" {
						continue
					}
				}
				vsStep(x.th)
				res.RandomOps++
				if w.viol != nil {
					break
				}
			}
			// finish operations in progress, recycle the rest
			for g := 0; g < 100000; g++ {
				moved := false
				for _, x := range ths {
					if x.th.pos != "idle" && vsEnabled(x.th) {
						vsStep(x.th)
						moved = true
					}
				}
				if !moved {
					break
				}
			}
		}()
		for _, x := range ths {
			if !x.th.done && x.th.pos == "idle" {
				x.next = nil
				vsStep(x.th)
			}
		}
		vsReset(vsOff)
		if w.viol == nil {
			func() {
				defer func() {
					if r := recover(); r != nil {
						w.fail("C01", "panic", fmt.Sprint(r))
					}
				}()
				for _, x := range ths {
					for _, s := range x.mine {
						delete(w.held, s.offsetInShm)
						w.bm.recycleBuffer(s)
					}
				}
				if len(w.held) == 0 {
					w.checkQuiescent()
					res.Quiescent++
				}
			}()
		}
		res.RandomRuns++
		if w.viol != nil {
			w.viol.Seed, w.viol.Run = job.Random.Seed, run
			w.viol.History = []string{fmt.Sprintf("random concurrent program seed=%d run=%d threads=%d", job.Random.Seed, run, nt)}
			res.Violations = append(res.Violations, *w.viol)
			if len(res.Violations) >= 4 {
				return
			}
		}
	}
}
