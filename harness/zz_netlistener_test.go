package shmipc

// Binding B2 for the NetListener module (property C19): the real ListenWithBacklog / listener / streamWrapper / Stream
// are walked through the settle-synchronous state graph that TLC produced from specs/NetListener.tla. One world =
// one real listener on a unix socket + real client sessions in this process. After every API call the harness waits
// until the real objects have settled on the projection of one of the spec's successor states, compares the return
// values and the completions of parked calls with the predictions on the edge, and evaluates the C19 oracles with its
// own ledger (which bytes were written / read on which stream, which streams surfaced, which conns were closed).

import (
	"encoding/json"
	"fmt"
	"io"
	"math/rand"
	"net"
	"os"
	"sort"
	"strings"
	"sync"
	"sync/atomic"
	"testing"
	"time"
	"unsafe"
)

type nlEdge struct {
	Src   int      `json:"src"`
	Dst   int      `json:"dst"`
	Op    string   `json:"op"`
	A     []int    `json:"a"`
	Res   string   `json:"res"`
	RN    []int    `json:"rn"`
	Comps []string `json:"comps"`
	Label string   `json:"label"`
	Proj  []int    `json:"proj,omitempty"` // explicit paths only: predicted projection after the step
}

type nlGraph struct {
	Name  string   `json:"name"`
	NS    int      `json:"ns"`
	NK    int      `json:"nk"`
	BCap  int      `json:"bcap"`
	Init  int      `json:"init"`
	Nodes [][]int  `json:"nodes"`
	Edges []nlEdge `json:"edges"`
}

type nlPath struct {
	Name  string   `json:"name"`
	NS    int      `json:"ns"`
	NK    int      `json:"nk"`
	BCap  int      `json:"bcap"`
	Unit  int      `json:"unit"`
	Small bool     `json:"small"`
	Steps []nlEdge `json:"steps"`
}

type nlJob struct {
	Graphs      []nlGraph `json:"graphs"`
	Paths       []nlPath  `json:"paths"`
	Seed        int64     `json:"seed"`
	Workers     int       `json:"workers"`
	MaxAttempts int       `json:"max_attempts"`
	BudgetMs    int       `json:"budget_ms"`
	MaxPathLen  int       `json:"max_path_len"`
	Known       bool      `json:"known"`
	Units       []int     `json:"units"`
	// do not execute Write on a conn whose session has been torn down (the probe run has shown that it kills the process)
	PruneDeadWrite bool `json:"prune_dead_write"`
	// concurrent Close/Close of one accepted conn under the serialising scheduler (needs the instrumented build)
	Conc *nlConcJob `json:"conc"`
}

type nlConcJob struct {
	StartProj []int    `json:"start_proj"`
	Scheds    []nlPath `json:"scheds"`
	Random    int      `json:"random"`
	Unit      int      `json:"unit"`
	Small     bool     `json:"small"`
}

type nlViolation struct {
	Kind   string `json:"kind"`
	Detail string `json:"detail"`
	Graph  string `json:"graph"`
	Path   nlPath `json:"path"`
}

type nlGraphStat struct {
	Name        string   `json:"name"`
	Edges       int      `json:"edges"`
	Covered     int      `json:"covered"`
	NDUncovered []string `json:"nd_uncovered"`
	Uncovered   int      `json:"uncovered"`
	Paths       int      `json:"paths"`
	Steps       int      `json:"steps"`
	Conforming  int      `json:"conforming"`
}

type nlResult struct {
	Graphs       []nlGraphStat `json:"graphs"`
	Paths        int           `json:"paths"`
	Steps        int           `json:"steps"`
	Conforming   int           `json:"conforming"`
	DriftCount   int           `json:"drift_count"`
	Drift        []string      `json:"drift"`
	Violations   []nlViolation `json:"violations"`
	KnownHits    int           `json:"known_hits"`
	KnownWitness *nlViolation  `json:"known_witness"`
	Samples      []string      `json:"samples"`
	Counters     map[string]int `json:"counters"`
	HarnessErr   []string      `json:"harness_err"`
	NDDiverged   int           `json:"nd_diverged"`
	EnvAborted   int           `json:"env_aborted"`
}

// ---------------------------------------------------------------------------------------------------------------
// world

type nlStream struct {
	cs       *Stream
	conn     net.Conn
	sw       *streamWrapper
	surfaced int
	reached  bool
	wr       [2]int // bytes successfully written: [0] client->server, [1] server->client
	rd       [2]int // bytes read at the receiving end of that direction
	sclosed  bool
	cclosed  bool
}

type nlSess struct {
	cl       *Session
	srv      *Session
	wg       *sync.WaitGroup
	clClosed bool
	failed   bool
	streams  []*nlStream
}

type nlAccRes struct {
	conn net.Conn
	err  error
}

type nlReadRes struct {
	n   int
	err error
	buf []byte
}

type nlObs struct {
	res  string
	rn   []int
	note string
}

type nlWorld struct {
	ns, nk, bcap int
	unit         int
	small        bool
	rng          *rand.Rand
	path         string
	l            net.Listener
	ll           *listener
	lclosed      bool
	sess         []*nlSess
	known        map[*Session]bool
	accCh        chan nlAccRes
	accPending   bool
	prCh         chan nlReadRes
	prPending    bool
	prSide       int
	prC, prK     int
	log          []nlEdge
	ledgerBad    string // set by ledger oracles (independent of the spec)
	knownHit     bool
	cnt          map[string]int
	knownListed  bool
	pruneDead    bool
	envAbort     string // the environment (not the code under test) made this path unusable
	free         bool   // explicit path without predicted projections
	wcT          map[int]*vsThread // goroutines inside streamWrapper.Close of the target conn (scheduler threads)
	wcBase       int               // WaitGroup counter when the target conn was accepted
}

var nlWorldSeq int64
var nlWgOK = func() bool {
	var wg sync.WaitGroup
	wg.Add(3)
	ok := nlWgCount(&wg) == 3
	wg.Add(-3)
	return ok && nlWgCount(&wg) == 0
}()

// counter of a sync.WaitGroup (go1.20+: state atomic.Uint64 after noCopy; high 32 bits = counter); self-tested above
func nlWgCount(wg *sync.WaitGroup) int {
	type wgLayout struct {
		state atomic.Uint64
		sema  uint32
	}
	st := (*wgLayout)(unsafe.Pointer(wg)).state.Load()
	return int(int32(st >> 32))
}

func nlPattern(c, k, dir, off, n int) []byte {
	b := make([]byte, n)
	for i := range b {
		j := off + i
		b[i] = byte(c*131 + k*31 + dir*17 + j*7 + j/251)
	}
	return b
}

func nlNewWorld(ns, nk, bcap, unit int, small bool, seed int64, dir string, known bool) (*nlWorld, error) {
	w := &nlWorld{ns: ns, nk: nk, bcap: bcap, unit: unit, small: small, rng: rand.New(rand.NewSource(seed)),
		known: map[*Session]bool{}, accCh: make(chan nlAccRes, 4), prCh: make(chan nlReadRes, 4), cnt: map[string]int{},
		knownListed: known}
	id := atomic.AddInt64(&nlWorldSeq, 1)
	w.path = fmt.Sprintf("%s/nl%d_%d.sock", dir, os.Getpid(), id)
	l, err := ListenWithBacklog(w.path, bcap)
	if err != nil {
		return nil, err
	}
	w.l = l
	w.ll = l.(*listener)
	for c := 0; c < ns; c++ {
		s := &nlSess{}
		for k := 0; k < nk; k++ {
			s.streams = append(s.streams, &nlStream{})
		}
		w.sess = append(w.sess, s)
	}
	return w, nil
}

func (w *nlWorld) clientConf(id int64) *Config {
	conf := DefaultConfig()
	conf.MemMapType = MemMapTypeMemFd
	conf.ShareMemoryPathPrefix = fmt.Sprintf("/dev/shm/vsnl_%d_%d", os.Getpid(), id)
	conf.QueuePath = fmt.Sprintf("/dev/shm/vsnl_q_%d_%d", os.Getpid(), id)
	conf.LogOutput = io.Discard
	if os.Getenv("VS_NL_LOG") != "" {
		conf.LogOutput = os.Stdout
	}
	if w.small {
		conf.ShareMemoryBufferCap = 1 << 20
		conf.BufferSliceSizes = []*SizePercentPair{{Size: 64, Percent: 50}, {Size: 256, Percent: 30}, {Size: 1024, Percent: 20}}
	} else {
		conf.ShareMemoryBufferCap = 4 << 20
	}
	return conf
}

func (w *nlWorld) connect(c int) nlObs {
	s := w.sess[c-1]
	note := ""
	// The handshake has a 1s time-out inside the library (DefaultConfig().InitializeTimeout, not configurable through
	// Listen); on a loaded machine it sometimes expires. A session pair that is dead on arrival is retried twice before
	// it is taken as the listener's answer.
	for attempt := 0; attempt < 4; attempt++ {
		conn, err := net.DialTimeout("unix", w.path, 2*time.Second)
		if err != nil {
			s.failed = true
			return nlObs{res: "err", note: err.Error()}
		}
		cl, err := newSession(w.clientConf(atomic.AddInt64(&nlWorldSeq, 1)), conn, true)
		if err != nil {
			conn.Close()
			note = err.Error()
			w.cnt["connect_retries"]++
			continue
		}
		// find the server side session the listener registered for this connection
		var srv *Session
		var wg *sync.WaitGroup
		dl := time.Now().Add(2 * time.Second)
		for time.Now().Before(dl) && srv == nil && !cl.IsClosed() {
			w.ll.mu.Lock()
			for ss, g := range w.ll.sessions {
				// the server end of THIS connection: both ends know the queue path (a late server session of an
				// abandoned earlier attempt must not be mistaken for it)
				if !w.known[ss] && ss.sessionName() == cl.sessionName() {
					w.known[ss] = true
					srv, wg = ss, g
				}
			}
			w.ll.mu.Unlock()
			if srv == nil {
				time.Sleep(200 * time.Microsecond)
			}
		}
		if srv == nil || cl.IsClosed() {
			cl.Close()
			note = "session pair dead on arrival (server session not registered or client session closed at once)"
			w.cnt["connect_retries"]++
			time.Sleep(20 * time.Millisecond)
			continue
		}
		s.cl, s.srv, s.wg = cl, srv, wg
		return nlObs{res: "ok"}
	}
	// four handshakes in a row died: with the listener open that is the 1s time-out on a starved machine, not a verdict
	w.envAbort = "connect: " + note
	return nlObs{res: "env", note: note}
}

func (w *nlWorld) stream(c, k int) *nlStream { return w.sess[c-1].streams[k-1] }

func (w *nlWorld) open(c, k int) nlObs {
	s := w.sess[c-1]
	if s.cl == nil {
		return nlObs{res: "err", note: "no client session"}
	}
	st, err := s.cl.OpenStream()
	if err != nil {
		return nlObs{res: "err", note: err.Error()}
	}
	w.stream(c, k).cs = st
	return nlObs{res: "ok"}
}

func (w *nlWorld) endpoint(side, c, k int) net.Conn {
	st := w.stream(c, k)
	if side == 0 {
		if st.cs == nil {
			return nil
		}
		return st.cs
	}
	return st.conn
}

func (w *nlWorld) write(side, c, k, n int) nlObs {
	ep := w.endpoint(side, c, k)
	if ep == nil {
		return nlObs{res: "err", note: "no endpoint"}
	}
	st := w.stream(c, k)
	if w.pruneDead {
		s := w.sess[c-1]
		if (side == 0 && s.cl != nil && s.cl.IsClosed()) || (side == 1 && s.srv != nil && s.srv.IsClosed()) {
			w.cnt["pruned_write_after_session_teardown"]++
			return nlObs{res: "err", note: "not executed: Write after session teardown (known finding, kills the process)"}
		}
	}
	p := nlPattern(c, k, side, st.wr[side], n*w.unit)
	if w.rng.Intn(3) == 0 {
		ep.SetWriteDeadline(time.Now().Add(5 * time.Second))
		defer ep.SetWriteDeadline(time.Time{})
	}
	m, err := ep.Write(p)
	w.cnt["writes"]++
	if err != nil {
		// io.Writer: a failed Write may report how much it took; nothing of it may be claimed as delivered
		if (side == 0 && st.cclosed) || (side == 1 && st.sclosed) {
			w.cnt["write_after_close_refused"]++
		}
		return nlObs{res: "err", note: err.Error()}
	}
	if m != len(p) {
		w.ledgerBad = fmt.Sprintf("Write(%d bytes) returned n=%d with a nil error (io.Writer: n < len(p) needs an error)", len(p), m)
		return nlObs{res: "short"}
	}
	if (side == 0 && st.cclosed) || (side == 1 && st.sclosed) {
		w.ledgerBad = "Write succeeded on a conn that was closed locally before"
	}
	st.wr[side] += m
	w.cnt["bytes_written"] += m
	if side == 0 {
		st.reached = true
	}
	return nlObs{res: "ok"}
}

// checkRead verifies n bytes read at the receiving end of direction dir against the ledger
func (w *nlWorld) checkRead(c, k, dir int, buf []byte, n int, size int) {
	st := w.stream(c, k)
	if n < 0 || n > size {
		w.ledgerBad = fmt.Sprintf("Read returned n=%d outside 0..len(p)=%d", n, size)
		return
	}
	if st.rd[dir]+n > st.wr[dir] {
		w.ledgerBad = fmt.Sprintf("Read returned %d bytes but only %d of the %d written bytes were unread (bytes nobody wrote, or duplicates)",
			n, st.wr[dir]-st.rd[dir], st.wr[dir])
		return
	}
	exp := nlPattern(c, k, dir, st.rd[dir], n)
	for i := 0; i < n; i++ {
		if buf[i] != exp[i] {
			w.ledgerBad = fmt.Sprintf("stream (%d,%d) dir %d: byte %d of the stream read as %#x, written as %#x (order/content broken)",
				c, k, dir, st.rd[dir]+i, buf[i], exp[i])
			return
		}
	}
	st.rd[dir] += n
	w.cnt["bytes_read"] += n
}

func nlIsTimeout(err error) bool {
	if err == ErrTimeout {
		return true
	}
	if ne, ok := err.(net.Error); ok && ne.Timeout() {
		return true
	}
	return false
}

const nlShortDL = 30 * time.Millisecond
const nlLongDL = 5 * time.Second

func (w *nlWorld) read(side, c, k, sz int, expTimeout bool) nlObs {
	ep := w.endpoint(side, c, k)
	if ep == nil {
		return nlObs{res: "err", note: "no endpoint"}
	}
	dir := 1 - side // the client reads direction 1 (server->client), the server reads direction 0
	buf := make([]byte, sz*w.unit)
	dl := nlLongDL
	if expTimeout {
		dl = nlShortDL
	}
	useDeadline := expTimeout || w.rng.Intn(2) == 0
	t0 := time.Now()
	var n int
	var err error
	if useDeadline {
		if w.rng.Intn(2) == 0 {
			ep.SetReadDeadline(t0.Add(dl))
		} else {
			ep.SetDeadline(t0.Add(dl))
		}
	}
	// with or without deadline (no deadline at all is the common way to use a conn): a watchdog turns a hang into an
	// observation instead of a dead harness
	ch := make(chan nlReadRes, 1)
	go func() {
		n, err := ep.Read(buf)
		ch <- nlReadRes{n: n, err: err}
	}()
	select {
	case r := <-ch:
		n, err = r.n, r.err
		if useDeadline {
			ep.SetDeadline(time.Time{})
		}
	case <-time.After(dl + 3*time.Second):
		w.cnt["read_hung"]++
		if useDeadline {
			w.ledgerBad = fmt.Sprintf("Read with a deadline of %v did not return within %v", dl, dl+3*time.Second)
		}
		return nlObs{res: "timeout", rn: []int{0}, note: "hung: Read did not return"}
	}
	el := time.Since(t0)
	w.cnt["reads"]++
	if err == nil {
		if n == 0 {
			w.ledgerBad = "Read(len(p)>0) returned 0, nil"
			return nlObs{res: "ok", rn: []int{0}}
		}
		w.checkRead(c, k, dir, buf, n, len(buf))
		if n%w.unit != 0 {
			return nlObs{res: "ok", rn: []int{-(1000 + n)}, note: "not a multiple of the unit"}
		}
		return nlObs{res: "ok", rn: []int{n / w.unit}}
	}
	if n != 0 {
		// allowed by io.Reader, but then the bytes count
		w.checkRead(c, k, dir, buf, n, len(buf))
	}
	if nlIsTimeout(err) {
		w.cnt["read_timeouts"]++
		if useDeadline && (el < dl-2*time.Millisecond || el > dl+3*time.Second) {
			w.ledgerBad = fmt.Sprintf("read deadline of %v: Read returned the timeout error after %v", dl, el)
		}
		return nlObs{res: "timeout", rn: []int{0}, note: err.Error()}
	}
	return nlObs{res: "err", rn: []int{0}, note: err.Error()}
}

func (w *nlWorld) readStart(side, c, k, sz int) nlObs {
	ep := w.endpoint(side, c, k)
	if ep == nil {
		return nlObs{res: "err", note: "no endpoint"}
	}
	buf := make([]byte, sz*w.unit)
	w.prPending, w.prSide, w.prC, w.prK = true, side, c, k
	go func() {
		n, err := ep.Read(buf)
		w.prCh <- nlReadRes{n: n, err: err, buf: buf}
	}()
	select {
	case r := <-w.prCh:
		w.prCh <- r // leave it for the completion collector
		return nlObs{res: "returned"}
	case <-time.After(20 * time.Millisecond):
	}
	w.cnt["reads_parked"]++
	return nlObs{res: "parked"}
}

func (w *nlWorld) cclose(c, k int) nlObs {
	st := w.stream(c, k)
	if st.cs == nil {
		return nlObs{res: "err", note: "no stream"}
	}
	st.cs.Close()
	st.cclosed = true
	return nlObs{res: "ok"}
}

func (w *nlWorld) sclose(c, k int) nlObs {
	st := w.stream(c, k)
	if st.conn == nil {
		return nlObs{res: "err", note: "no conn"}
	}
	err := st.conn.Close()
	st.sclosed = true
	if err != nil {
		return nlObs{res: "err", note: err.Error()}
	}
	return nlObs{res: "ok"}
}

// identify maps a conn returned by Accept to the client stream it belongs to (0,0 if there is none)
func (w *nlWorld) identify(conn net.Conn) (int, int) {
	sw, ok := conn.(*streamWrapper)
	if !ok || sw.stream == nil {
		return 0, 0
	}
	for ci, s := range w.sess {
		if s.srv != nil && s.srv == sw.stream.session {
			for ki, st := range s.streams {
				if st.cs != nil && st.cs.id == sw.stream.id {
					return ci + 1, ki + 1
				}
			}
		}
	}
	return 0, 0
}

func (w *nlWorld) surfacedConn(conn net.Conn) (int, int) {
	c, k := w.identify(conn)
	w.cnt["conns_surfaced"]++
	if c == 0 {
		w.ledgerBad = "Accept returned a conn that belongs to no stream a client opened"
		return 0, 0
	}
	st := w.stream(c, k)
	st.surfaced++
	if st.surfaced > 1 {
		w.ledgerBad = fmt.Sprintf("stream (%d,%d) surfaced %d times through Accept", c, k, st.surfaced)
	}
	if !st.reached {
		w.ledgerBad = fmt.Sprintf("stream (%d,%d) surfaced although the client never sent anything on it", c, k)
	}
	st.conn = conn
	st.sw = conn.(*streamWrapper)
	if conn.LocalAddr() == nil || conn.RemoteAddr() == nil {
		w.ledgerBad = "accepted conn has nil LocalAddr/RemoteAddr"
	}
	return c, k
}

func (w *nlWorld) accept(expPark bool) nlObs {
	if w.accPending {
		return nlObs{res: "err", note: "accept already parked"}
	}
	go func() {
		conn, err := w.l.Accept()
		w.accCh <- nlAccRes{conn, err}
	}()
	wait := nlLongDL
	if expPark {
		wait = 40 * time.Millisecond
	}
	select {
	case r := <-w.accCh:
		if r.err != nil {
			if r.conn != nil {
				w.ledgerBad = "Accept returned both a conn and an error"
			}
			return nlObs{res: "err", note: r.err.Error()}
		}
		c, k := w.surfacedConn(r.conn)
		return nlObs{res: "conn", rn: []int{c, k}}
	case <-time.After(wait):
	}
	w.accPending = true
	w.cnt["accepts_parked"]++
	return nlObs{res: "park"}
}

func (w *nlWorld) lclose() nlObs {
	err := w.l.Close()
	first := !w.lclosed
	w.lclosed = true
	if first {
		if err != nil {
			return nlObs{res: "first", note: "first Close returned " + err.Error()}
		}
		return nlObs{res: "first"}
	}
	return nlObs{res: "again"}
}

func (w *nlWorld) sessclose(c int) nlObs {
	s := w.sess[c-1]
	if s.cl == nil {
		return nlObs{res: "err"}
	}
	s.cl.Close()
	s.clClosed = true
	return nlObs{res: "ok"}
}

// completions of parked calls that have returned since the last look
func (w *nlWorld) collect(comps *[]string) {
	for {
		select {
		case r := <-w.accCh:
			w.accPending = false
			if r.err != nil {
				*comps = append(*comps, "accept:err")
				if !w.lclosed {
					w.ledgerBad = "a parked Accept returned an error although the listener is open: " + r.err.Error()
				}
			} else {
				c, k := w.surfacedConn(r.conn)
				*comps = append(*comps, fmt.Sprintf("accept:conn:%d:%d", c, k))
			}
		case r := <-w.prCh:
			w.prPending = false
			if r.err == nil {
				w.checkRead(w.prC, w.prK, 1-w.prSide, r.buf, r.n, len(r.buf))
				if r.n == 0 {
					w.ledgerBad = "parked Read returned 0, nil"
				}
				if r.n%w.unit != 0 {
					*comps = append(*comps, fmt.Sprintf("read:ok:%d", -(1000 + r.n)))
				} else {
					*comps = append(*comps, fmt.Sprintf("read:ok:%d", r.n/w.unit))
				}
			} else {
				if nlIsTimeout(r.err) {
					w.ledgerBad = "a Read without deadline returned the timeout error"
				}
				*comps = append(*comps, "read:err:0")
			}
		default:
			return
		}
	}
}

func nlStreamState(s *Stream) int {
	switch streamState(atomic.LoadUint32(&s.state)) {
	case streamOpened:
		return 1
	case streamClosed:
		return 2
	default:
		return 3
	}
}

// nlPending: bytes received for the stream and still parked in pendingData (not yet moved into recvBuf). The lock is
// held while the shared memory chain is walked: Stream.clean() needs the same lock before the session may unmap.
func nlPending(s *Stream) int {
	s.pendingData.Lock()
	defer s.pendingData.Unlock()
	n := 0
	for _, w := range s.pendingData.unread {
		if w.fallbackSlice != nil {
			n += w.fallbackSlice.size()
			continue
		}
		bm := s.session.bufferManager
		if bm == nil {
			return -1000000
		}
		for off, hops := w.offset, 0; hops < 100000; hops++ {
			sl, err := bm.readBufferSlice(off)
			if err != nil {
				return -1000000
			}
			n += sl.size()
			more := sl.hasNext()
			off = sl.nextBufferOffset()
			putBackBufferSlice(sl)
			if !more {
				break
			}
		}
	}
	return n
}

// project reads the structural projection off the real objects (same layout as project() in checks/netlistener.py)
func (w *nlWorld) project() []int {
	v := make([]int, 0, 4+w.ns*5+w.ns*w.nk*8)
	b2i := func(b bool) int {
		if b {
			return 1
		}
		return 0
	}
	v = append(v, int(atomic.LoadUint32(&w.ll.closed)), len(w.ll.backlog), b2i(w.accPending), b2i(w.prPending))
	for _, s := range w.sess {
		cl, sv, inmap, wg, acch := 0, 0, 0, 0, 0
		if s.failed {
			cl = 4
		} else if s.cl != nil {
			cl = 1
			if s.cl.IsClosed() {
				cl = 2
			}
		}
		if s.srv != nil {
			sv = 1
			if s.srv.IsClosed() {
				sv = 2
			}
			w.ll.mu.Lock()
			_, in := w.ll.sessions[s.srv]
			w.ll.mu.Unlock()
			inmap = b2i(in)
			if nlWgOK {
				wg = nlWgCount(s.wg)
			}
			acch = len(s.srv.acceptCh)
		}
		v = append(v, cl, sv, inmap, wg, acch)
	}
	for _, s := range w.sess {
		for _, st := range s.streams {
			cst, sst, held, wcl, sp, sb, cp, cb := 0, 0, 0, 0, 0, 0, 0, 0
			if st.cs != nil {
				cst = nlStreamState(st.cs)
				cp = nlPending(st.cs)
				cb = st.cs.recvBuf.len // the field, not Len(): Len() moves pendingData into the buffer
			}
			if s.srv != nil && st.cs != nil {
				var ss *Stream
				if st.sw != nil && atomic.LoadUint32(&st.sw.closed) == 0 {
					ss = st.sw.stream
				} else {
					ss = s.srv.getStreamById(st.cs.id)
				}
				if ss != nil {
					x := nlStreamState(ss)
					if x != 2 {
						sst = x
						sp = nlPending(ss)
						sb = ss.recvBuf.len
					}
				}
			}
			if st.sw != nil {
				held = 1
				wcl = int(atomic.LoadUint32(&st.sw.closed))
			}
			if cb%w.unit != 0 || sb%w.unit != 0 || cp%w.unit != 0 || sp%w.unit != 0 {
				cb, sb, cp, sp = -(1000 + cb), -(1000 + sb), -(1000 + cp), -(1000 + sp)
			} else {
				cb, sb, cp, sp = cb/w.unit, sb/w.unit, cp/w.unit, sp/w.unit
			}
			v = append(v, cst, sst, held, wcl, sp, sb, cp, cb)
		}
	}
	if !nlWgOK {
		// WaitGroup layout unknown: the counter is not part of the comparison
		for c := 0; c < w.ns; c++ {
			v[4+c*5+3] = -1
		}
	}
	return v
}

func nlEqInts(a, b []int) bool {
	if len(a) != len(b) {
		return false
	}
	for i := range a {
		if a[i] != b[i] && a[i] != -1 && b[i] != -1 {
			return false
		}
	}
	return true
}

func nlEqStrs(a, b []string) bool {
	if len(a) != len(b) {
		return false
	}
	x := append([]string{}, a...)
	y := append([]string{}, b...)
	sort.Strings(x)
	sort.Strings(y)
	for i := range x {
		if x[i] != y[i] {
			return false
		}
	}
	return true
}

type nlCand struct {
	e    *nlEdge
	proj []int
	idx  int
}

// sessionOracle: "closing the listener lets sessions end once their connections are closed" - and not earlier.
// Evaluated from the ledger only. Returns a violation text, and whether the known-finding class was met.
func (w *nlWorld) sessionOracle() (string, bool) {
	hit := false
	for ci, s := range w.sess {
		if s.srv == nil || s.clClosed {
			continue
		}
		allClosed, orphan := true, false
		for _, st := range s.streams {
			if st.surfaced > 0 && !st.sclosed {
				allClosed = false
			}
			if st.reached && st.surfaced == 0 {
				orphan = true
			}
		}
		closed := s.srv.IsClosed()
		if w.free && w.lclosed && allClosed && !closed {
			// hand-written path (no predicted state to settle on): give the teardown time before calling it pinned
			for dl := time.Now().Add(2500 * time.Millisecond); !closed && time.Now().Before(dl); closed = s.srv.IsClosed() {
				time.Sleep(time.Millisecond)
			}
		}
		if w.lclosed && allClosed && !closed {
			if orphan {
				hit = true
				continue
			}
			return fmt.Sprintf("session %d is still open although the listener is closed and every conn that Accept returned for it is closed", ci+1), hit
		}
		if closed && !(w.lclosed && allClosed) {
			return fmt.Sprintf("session %d was ended by the adapter although %s", ci+1,
				map[bool]string{true: "a conn returned by Accept is still open", false: "the listener is still open"}[w.lclosed]), hit
		}
	}
	return "", hit
}

// obsBad: is the observed result of the call wrong with respect to the property, given the prediction e?
func (w *nlWorld) obsBad(e *nlEdge, got nlObs, comps []string) string {
	switch e.Op {
	case "connect":
		if e.Res == "ok" && got.res != "ok" {
			return "a client could not connect to the open listener: " + got.note
		}
		if e.Res == "err" && got.res == "ok" {
			return "a client connected although the listener is closed"
		}
	case "write":
		if got.res == "short" {
			return "short Write without error"
		}
		if e.Res == "ok" && got.res != "ok" {
			return fmt.Sprintf("Write on an open connection failed: %s", got.note)
		}
	case "read":
		if e.Res == "ok" && got.res != "ok" {
			return fmt.Sprintf("Read returned %s (%s) although %d unit(s) were delivered and unread", got.res, got.note, e.RN[0])
		}
		if e.Res == "timeout" && got.res == "err" {
			return "Read on an open idle connection returned an error instead of waiting for its deadline: " + got.note
		}
		if e.Res == "err" && got.res == "timeout" {
			return "Read blocks (until the deadline) on a connection that is closed / at end of stream: " + got.note
		}
	case "readstart":
		if got.res == "returned" {
			for _, c := range comps {
				if strings.HasPrefix(c, "read:err") {
					return "a Read on an open idle connection returned an error instead of blocking"
				}
			}
		}
	case "accept":
		switch e.Res {
		case "conn":
			if got.res == "park" {
				return fmt.Sprintf("stream (%d,%d) does not surface: Accept blocks although the client opened it and sent data", e.RN[0], e.RN[1])
			}
		case "park":
			if got.res == "err" {
				return "Accept failed on an open listener: " + got.note
			}
		case "err":
			if got.res == "park" {
				return "Accept blocks on a closed listener"
			}
		}
	case "sclose":
		if got.res != "ok" {
			return "conn.Close returned an error: " + got.note
		}
	}
	// completions of parked calls
	want := map[string]int{}
	for _, c := range e.Comps {
		want[strings.SplitN(c, ":", 2)[0]]++
	}
	have := map[string]int{}
	for _, c := range comps {
		have[strings.SplitN(c, ":", 2)[0]]++
	}
	if want["accept"] > have["accept"] {
		return fmt.Sprintf("the parked Accept was not released by %s (expected %v)", e.Label, e.Comps)
	}
	if want["read"] > have["read"] {
		return fmt.Sprintf("the parked Read was not released by %s (expected %v)", e.Label, e.Comps)
	}
	for _, c := range e.Comps {
		if strings.HasPrefix(c, "read:ok") {
			for _, h := range comps {
				if strings.HasPrefix(h, "read:err") {
					return "the parked Read returned an error although data was delivered"
				}
			}
		}
	}
	if have["read"] > want["read"] {
		for _, h := range comps {
			if strings.HasPrefix(h, "read:err") {
				return "a parked Read on an open idle connection returned an error"
			}
		}
	}
	return ""
}

type nlStepOut struct {
	matched   int    // index into cands, -1 none
	violation string // property violation (real observable wrong)
	drift     string
	ndStop    bool
	env       bool
}

func (w *nlWorld) exec(op string, a []int, cands []nlCand) (nlObs, []string) {
	expTimeout, expPark := false, false
	for _, c := range cands {
		if c.e.Res == "timeout" {
			expTimeout = true
		}
		if c.e.Res == "park" {
			expPark = true
		}
	}
	var got nlObs
	switch op {
	case "connect":
		got = w.connect(a[0])
	case "open":
		got = w.open(a[0], a[1])
	case "write":
		got = w.write(a[0], a[1], a[2], a[3])
	case "read":
		got = w.read(a[0], a[1], a[2], a[3], expTimeout)
	case "readstart":
		got = w.readStart(a[0], a[1], a[2], a[3])
	case "cclose":
		got = w.cclose(a[0], a[1])
	case "sclose":
		got = w.sclose(a[0], a[1])
	case "accept":
		got = w.accept(expPark)
	case "lclose":
		got = w.lclose()
	case "sessclose":
		got = w.sessclose(a[0])
	case "wcbegin":
		got = w.wcBegin(a[0], a[1], a[2])
	case "point":
		// one scheduling point of closer a[0] (replay of a random interleaving)
		if th := w.wcT[a[0]]; th != nil && !th.done {
			vsStep(th)
			w.cnt["conc_sched_points"]++
			w.wcCheck(th)
		}
		got = nlObs{res: "ok"}
	case "wcguard", "wcstream", "wcstore", "wcdone":
		got = w.wcAdvance(op, a[0], a[1], a[2])
	case "await_session_end":
		// hand-written paths only: wait (up to 8s) until both ends of session a[0] are closed and torn down
		got = nlObs{res: "timeout"}
		ss := w.sess[a[0]-1]
		for dl := time.Now().Add(8 * time.Second); time.Now().Before(dl); time.Sleep(time.Millisecond) {
			if ss.srv != nil && ss.srv.IsClosed() && ss.cl != nil && ss.cl.IsClosed() {
				ss.srv.streamLock.Lock()
				gone := ss.srv.streams == nil
				ss.srv.streamLock.Unlock()
				if gone {
					got = nlObs{res: "ok"}
					break
				}
			}
		}
		time.Sleep(20 * time.Millisecond)
	case "race_write_sclose":
		// staged interleaving (found by TLC with Sync = FALSE): the client's Write is still on its way when the server
		// closes the conn - no settle between the two calls
		// closes the conn - no settle between the two calls. The event loop is held off for the two calls through the
		// dispatcher's own mutex (the loop takes it around every batch of events), so the order is not left to chance.
		var gate *sync.Mutex
		if d, ok := defaultDispatcher.(*epollDispatcher); ok {
			gate = &d.lock
			gate.Lock()
		}
		got = w.write(0, a[0], a[1], a[2])
		if got.res == "ok" {
			got = w.sclose(a[0], a[1])
		}
		if gate != nil {
			gate.Unlock()
		}
	default:
		got = nlObs{res: "err", note: "unknown op " + op}
	}
	return got, nil
}

// step executes one API call and settles. cands = the spec's alternatives for this call in the current state.
func (w *nlWorld) step(op string, a []int, cands []nlCand) nlStepOut {
	tExec := time.Now()
	got, _ := w.exec(op, a, cands)
	w.cnt["us_exec_"+op] += int(time.Since(tExec) / time.Microsecond)
	tSettle := time.Now()
	defer func() { w.cnt["us_settle"] += int(time.Since(tSettle) / time.Microsecond) }()
	comps := []string{}
	var prev []int
	same := 0
	lastChange := time.Now()
	match := func(proj []int) int {
		for i, c := range cands {
			if c.e.Res == got.res && nlEqInts(c.e.RN, got.rn) && nlEqStrs(c.e.Comps, comps) {
				if len(c.proj) == 0 {
					// hand-written path without a predicted projection: settled = projection unchanged for 12 polls
					if prev != nil && nlEqInts(prev, proj) {
						same++
					} else {
						same = 0
						lastChange = time.Now()
					}
					prev = proj
					if same >= 12 && time.Since(lastChange) > 60*time.Millisecond {
						return i
					}
					continue
				}
				if nlEqInts(c.proj, proj) {
					return i
				}
			}
		}
		return -1
	}
	resPossible := false
	for _, c := range cands {
		if c.e.Res == got.res && nlEqInts(c.e.RN, got.rn) {
			resPossible = true
		}
	}
	limit := 5 * time.Second
	if !resPossible {
		limit = 150 * time.Millisecond
	}
	dl := time.Now().Add(limit)
	last, stable, iter := -1, 0, 0
	var proj []int
	m := -1
	for {
		w.collect(&comps)
		proj = w.project()
		m = match(proj)
		if m >= 0 && m == last {
			stable++
			if stable >= 3 {
				break
			}
		} else if m >= 0 {
			last, stable = m, 1
		} else {
			last, stable = -1, 0
		}
		if time.Now().After(dl) {
			m = -1
			// a hand-written step has no predicted state: not coming to rest within the limit (overloaded machine) is
			// not an observation about the code as long as the result of the call is the expected one
			for i, c := range cands {
				if len(c.proj) == 0 && c.e.Res == got.res && nlEqInts(c.e.RN, got.rn) && nlEqStrs(c.e.Comps, comps) {
					m = i
				}
			}
			break
		}
		iter++
		if iter < 40 {
			time.Sleep(250 * time.Microsecond)
		} else {
			time.Sleep(2 * time.Millisecond)
		}
	}
	rec := nlEdge{Op: op, A: a, Res: got.res, RN: got.rn, Comps: comps, Label: got.note, Proj: proj}
	out := nlStepOut{matched: m}
	if m >= 0 {
		rec.Label = cands[m].e.Label
		// what is replayed later is the prediction, so that a replay is judged the same way
		rec.Res, rec.RN, rec.Comps, rec.Proj = cands[m].e.Res, cands[m].e.RN, cands[m].e.Comps, cands[m].proj
	} else if len(cands) > 0 {
		rec.Label = cands[0].e.Label
		rec.Res, rec.RN, rec.Comps, rec.Proj = cands[0].e.Res, cands[0].e.RN, cands[0].e.Comps, cands[0].proj
	}
	w.log = append(w.log, rec)
	if w.envAbort != "" {
		out.env = true
		return out
	}
	// oracles that do not depend on the spec
	if w.ledgerBad != "" {
		out.violation = w.ledgerBad
		return out
	}
	sv, hit := w.sessionOracle()
	if hit {
		w.knownHit = true
	}
	if m >= 0 {
		if sv != "" {
			out.violation = sv
		}
		return out
	}
	// no alternative of the spec matches the real behaviour: wrong observable (violation) or only structure (drift)?
	if sv != "" {
		out.violation = sv
		return out
	}
	allBad, first := len(cands) > 0, ""
	for _, c := range cands {
		b := w.obsBad(c.e, got, comps)
		if b == "" {
			allBad = false
		} else if first == "" {
			first = b
		}
	}
	if allBad {
		out.violation = first
		return out
	}
	if len(cands) == 1 && cands[0].e.Src == -2 {
		out.ndStop = true // explicit path, other ND branch taken
	}
	out.drift = fmt.Sprintf("%s(%v): real result %s%v comps %v proj %v; spec alternatives:", op, a, got.res, got.rn, comps, proj)
	for _, c := range cands {
		out.drift += fmt.Sprintf(" [%s%v comps %v proj %v]", c.e.Res, c.e.RN, c.e.Comps, c.proj)
	}
	if got.note != "" {
		out.drift += " note: " + got.note
	}
	return out
}

// finish: deliver-everything oracle, then tear the world down and check that nothing stays behind
func (w *nlWorld) finish(checkDrain bool) string {
	tFin := time.Now()
	defer func() { w.cnt["us_finish"] += int(time.Since(tFin) / time.Microsecond) }()
	bad := ""
	if checkDrain && w.ledgerBad == "" {
		for ci, s := range w.sess {
			if s.srv == nil || s.clClosed || s.srv.IsClosed() || s.cl == nil || s.cl.IsClosed() {
				continue
			}
			for ki, st := range s.streams {
				for side := 0; side < 2; side++ {
					dir := 1 - side
					if st.rd[dir] >= st.wr[dir] {
						continue
					}
					ep := w.endpoint(side, ci+1, ki+1)
					if ep == nil || (side == 0 && st.cclosed) || (side == 1 && st.sclosed) {
						continue
					}
					if w.prPending && w.prSide == side && w.prC == ci+1 && w.prK == ki+1 {
						continue
					}
					for st.rd[dir] < st.wr[dir] && w.ledgerBad == "" {
						buf := make([]byte, st.wr[dir]-st.rd[dir]+w.unit)
						ep.SetReadDeadline(time.Now().Add(300 * time.Millisecond))
						n, err := ep.Read(buf)
						ep.SetReadDeadline(time.Time{})
						if n > 0 {
							w.checkRead(ci+1, ki+1, dir, buf, n, len(buf))
						}
						if err != nil {
							bad = fmt.Sprintf("stream (%d,%d) dir %d: %d bytes were written successfully but only %d can be read (then: %v); "+
								"neither end was closed by its reader", ci+1, ki+1, dir, st.wr[dir], st.rd[dir], err)
							break
						}
					}
					w.cnt["drained_streams"]++
				}
			}
		}
		if w.ledgerBad != "" {
			bad = w.ledgerBad
		}
	}
	// teardown
	for _, s := range w.sess {
		for _, st := range s.streams {
			if st.conn != nil {
				st.conn.Close()
			}
			if st.cs != nil {
				st.cs.Close()
			}
		}
	}
	w.l.Close()
	w.lclosed = true
	for _, s := range w.sess {
		if s.cl != nil {
			s.cl.Close()
		}
	}
	dl := time.Now().Add(6 * time.Second)
	for _, s := range w.sess {
		for s.srv != nil && !s.srv.IsClosed() && time.Now().Before(dl) {
			time.Sleep(500 * time.Microsecond)
		}
		if s.srv != nil && !s.srv.IsClosed() && bad == "" {
			bad = "server session still open 6s after its client session was closed"
		}
	}
	// release parked calls
	t := time.After(2 * time.Second)
	for w.accPending || w.prPending {
		select {
		case <-w.accCh:
			w.accPending = false
		case <-w.prCh:
			w.prPending = false
		case <-t:
			if bad == "" {
				if w.accPending {
					bad = "a parked Accept is still parked 2s after the listener was closed"
				} else {
					bad = "a parked Read is still parked 2s after conn, session and listener were closed"
				}
			}
			w.accPending, w.prPending = false, false
		}
	}
	os.Remove(w.path)
	return bad
}

// ---------------------------------------------------------------------------------------------------------------
// graph walker

type nlWalker struct {
	g        *nlGraph
	mu       sync.Mutex
	out      [][]int // edge indexes by source node
	covered  []bool
	claimed  []bool
	attempts []int
	maxAtt   int
	stat     nlGraphStat
}

func nlNewWalker(g *nlGraph, maxAtt int) *nlWalker {
	wk := &nlWalker{g: g, out: make([][]int, len(g.Nodes)), covered: make([]bool, len(g.Edges)),
		claimed: make([]bool, len(g.Edges)), attempts: make([]int, len(g.Edges)), maxAtt: maxAtt}
	for i, e := range g.Edges {
		wk.out[e.Src] = append(wk.out[e.Src], i)
	}
	wk.stat = nlGraphStat{Name: g.Name, Edges: len(g.Edges), NDUncovered: []string{}}
	return wk
}

func nlSameCall(a, b *nlEdge) bool {
	if a.Op != b.Op || len(a.A) != len(b.A) {
		return false
	}
	for i := range a.A {
		if a.A[i] != b.A[i] {
			return false
		}
	}
	return true
}

func (wk *nlWalker) wanted(i int) bool {
	return !wk.covered[i] && !wk.claimed[i] && wk.attempts[i] < wk.maxAtt
}

// pick: the next call to make from node cur: an edge index whose call group is to be executed (claimed), or -1.
func (wk *nlWalker) pick(cur int, rng *rand.Rand) int {
	wk.mu.Lock()
	defer wk.mu.Unlock()
	var cand []int
	for _, i := range wk.out[cur] {
		if wk.wanted(i) {
			cand = append(cand, i)
		}
	}
	if len(cand) > 0 {
		i := cand[rng.Intn(len(cand))]
		wk.claimed[i] = true
		return i
	}
	// breadth-first search for the nearest node with a wanted edge; take the first hop towards it
	first := map[int]int{cur: -1}
	queue := []int{cur}
	for len(queue) > 0 {
		n := queue[0]
		queue = queue[1:]
		for _, i := range wk.out[n] {
			d := wk.g.Edges[i].Dst
			if _, seen := first[d]; seen {
				continue
			}
			hop := first[n]
			if n == cur {
				hop = i
			}
			first[d] = hop
			for _, j := range wk.out[d] {
				if wk.wanted(j) {
					return hop
				}
			}
			queue = append(queue, d)
		}
	}
	return -1
}

func (wk *nlWalker) group(i int) []int {
	e := &wk.g.Edges[i]
	var grp []int
	for _, j := range wk.out[e.Src] {
		if nlSameCall(e, &wk.g.Edges[j]) {
			grp = append(grp, j)
		}
	}
	return grp
}

func (wk *nlWalker) done(grp []int, taken int, planned int) {
	wk.mu.Lock()
	for _, j := range grp {
		if j == taken {
			wk.covered[j] = true
		} else if !wk.covered[j] {
			wk.attempts[j]++
		}
	}
	wk.claimed[planned] = false
	wk.mu.Unlock()
}

func (wk *nlWalker) remaining() bool {
	wk.mu.Lock()
	defer wk.mu.Unlock()
	for i := range wk.covered {
		if !wk.covered[i] && wk.attempts[i] < wk.maxAtt {
			return true
		}
	}
	return false
}

type nlRun struct {
	job     *nlJob
	res     *nlResult
	mu      sync.Mutex
	dir     string
	stop    int32
	pathSeq int64
}

func (r *nlRun) addViolation(v nlViolation) {
	r.mu.Lock()
	if len(r.res.Violations) < 8 {
		r.res.Violations = append(r.res.Violations, v)
	}
	r.mu.Unlock()
	atomic.StoreInt32(&r.stop, 1)
}

func (r *nlRun) journal(worker int, p *nlPath) {
	b, _ := json.Marshal(p)
	os.WriteFile(fmt.Sprintf("%s/nl_journal_%d.json", r.dir, worker), b, 0o644)
}

func (r *nlRun) merge(w *nlWorld, gname string, steps int, drift string, viol string, kind string) {
	p := nlPath{Name: gname, NS: w.ns, NK: w.nk, BCap: w.bcap, Unit: w.unit, Small: w.small, Steps: w.log}
	r.mu.Lock()
	if w.envAbort != "" {
		r.res.EnvAborted++
		r.mu.Unlock()
		return
	}
	r.res.Paths++
	r.res.Steps += steps
	for k, v := range w.cnt {
		r.res.Counters[k] += v
	}
	if drift != "" {
		r.res.DriftCount++
		if len(r.res.Drift) < 10 {
			r.res.Drift = append(r.res.Drift, gname+": "+drift)
		}
	} else if viol == "" {
		r.res.Conforming++
	}
	if w.knownHit {
		r.res.KnownHits++
		if r.res.KnownWitness == nil || len(p.Steps) < len(r.res.KnownWitness.Path.Steps) {
			r.res.KnownWitness = &nlViolation{Kind: "session-pinned-by-unsurfaced-stream", Graph: gname, Path: p,
				Detail: "listener closed, every conn returned by Accept closed, but the session stays open: a stream that reached the " +
					"adapter was never returned by Accept and holds a WaitGroup reference nobody can release"}
		}
	}
	if len(r.res.Samples) < 4 && len(w.log) > 6 {
		var sb strings.Builder
		for i, s := range w.log {
			if i > 0 {
				sb.WriteString(" ; ")
			}
			sb.WriteString(s.Label)
		}
		r.res.Samples = append(r.res.Samples, fmt.Sprintf("%s unit=%d small=%v: %s", gname, w.unit, w.small, sb.String()))
	}
	r.mu.Unlock()
	if viol != "" {
		r.addViolation(nlViolation{Kind: kind, Detail: viol, Graph: gname, Path: p})
	}
}

func (r *nlRun) walkOne(wk *nlWalker, worker int, rng *rand.Rand) bool {
	g := wk.g
	first := wk.pick(g.Init, rng)
	if first < 0 {
		return false
	}
	unit := r.job.Units[rng.Intn(len(r.job.Units))]
	small := rng.Intn(2) == 0
	w, err := nlNewWorld(g.NS, g.NK, g.BCap, unit, small, rng.Int63(), r.dir, r.job.Known)
	if err == nil {
		w.pruneDead = r.job.PruneDeadWrite
	}
	if err != nil {
		wk.done(nil, -1, first)
		r.mu.Lock()
		r.res.HarnessErr = append(r.res.HarnessErr, "listen: "+err.Error())
		r.mu.Unlock()
		return false
	}
	cur, steps := g.Init, 0
	next := first
	drift, viol := "", ""
	jp := nlPath{Name: g.Name, NS: g.NS, NK: g.NK, BCap: g.BCap, Unit: unit, Small: small}
	for next >= 0 && steps < r.job.MaxPathLen && atomic.LoadInt32(&r.stop) == 0 {
		grp := wk.group(next)
		cands := make([]nlCand, 0, len(grp))
		for _, j := range grp {
			cands = append(cands, nlCand{e: &g.Edges[j], proj: g.Nodes[g.Edges[j].Dst], idx: j})
		}
		pe := g.Edges[next]
		pe.Proj = g.Nodes[pe.Dst]
		jp.Steps = append(jp.Steps, pe)
		r.journal(worker, &jp)
		out := w.step(pe.Op, pe.A, cands)
		steps++
		taken := -1
		if out.matched >= 0 {
			taken = cands[out.matched].idx
		}
		if out.env {
			wk.mu.Lock()
			wk.claimed[next] = false
			wk.mu.Unlock()
			next = -1
			break
		}
		wk.done(grp, taken, next)
		if out.violation != "" {
			viol = out.violation
			break
		}
		if out.matched < 0 {
			drift = out.drift
			break
		}
		cur = g.Edges[taken].Dst
		next = wk.pick(cur, rng)
	}
	if next >= 0 {
		wk.mu.Lock()
		wk.claimed[next] = false
		wk.mu.Unlock()
	}
	fin := w.finish(viol == "" && drift == "" && w.envAbort == "")
	if viol == "" && fin != "" && w.envAbort == "" {
		viol = fin
	}
	wk.mu.Lock()
	wk.stat.Paths++
	wk.stat.Steps += steps
	if drift == "" && viol == "" && w.envAbort == "" {
		wk.stat.Conforming++
	}
	wk.mu.Unlock()
	r.merge(w, g.Name, steps, drift, viol, "walk")
	return true
}

// explicit path (replay of a violation / of the known-finding witness / simulated behaviours)
func (r *nlRun) runPath(p *nlPath, worker int, seed int64) {
	w, err := nlNewWorld(p.NS, p.NK, p.BCap, p.Unit, p.Small, seed, r.dir, r.job.Known)
	if err == nil {
		w.pruneDead = r.job.PruneDeadWrite
	}
	if err != nil {
		r.mu.Lock()
		r.res.HarnessErr = append(r.res.HarnessErr, "listen: "+err.Error())
		r.mu.Unlock()
		return
	}
	r.journal(worker, p)
	steps := 0
	drift, viol := "", ""
	w.free = len(p.Steps) > 0 && len(p.Steps[0].Proj) == 0
	for i := range p.Steps {
		e := p.Steps[i]
		e.Src = -2
		out := w.step(e.Op, e.A, []nlCand{{e: &e, proj: e.Proj}})
		steps++
		if out.env {
			break
		}
		if out.violation != "" {
			viol = out.violation
			break
		}
		if out.matched < 0 {
			if w.lclosed && (e.Op == "accept" || e.Op == "write" || e.Op == "lclose") {
				// after the listener is closed Go's select decides between alternatives; an explicit path has only one
				r.mu.Lock()
				r.res.NDDiverged++
				r.mu.Unlock()
			} else {
				drift = out.drift
			}
			break
		}
	}
	fin := w.finish(viol == "" && drift == "")
	if viol == "" && fin != "" {
		viol = fin
	}
	r.merge(w, p.Name, steps, drift, viol, "path")
}

// keep the shared epoll loop turning: dispatcher lambdas (session teardown) only run when epoll_wait returns
func nlStartKicker(dir string) func() {
	path := fmt.Sprintf("%s/nlkick%d.sock", dir, os.Getpid())
	l, err := ListenWithBacklog(path, 4)
	if err != nil {
		return func() {}
	}
	conn, err := net.Dial("unix", path)
	if err != nil {
		l.Close()
		return func() {}
	}
	conf := DefaultConfig()
	conf.MemMapType = MemMapTypeMemFd
	conf.ShareMemoryPathPrefix = fmt.Sprintf("/dev/shm/vsnl_kick_%d", os.Getpid())
	conf.QueuePath = fmt.Sprintf("/dev/shm/vsnl_kickq_%d", os.Getpid())
	conf.ShareMemoryBufferCap = 1 << 20
	conf.LogOutput = io.Discard
	cl, err := newSession(conf, conn, true)
	if err != nil {
		l.Close()
		return func() {}
	}
	stop := make(chan struct{})
	var wg sync.WaitGroup
	wg.Add(1)
	go func() {
		defer wg.Done()
		tk := time.NewTicker(2 * time.Millisecond)
		defer tk.Stop()
		for {
			select {
			case <-stop:
				return
			case <-tk.C:
				cl.waitForSend(nil, pollingEventWithVersion[cl.communicationVersion])
			}
		}
	}()
	return func() {
		close(stop)
		wg.Wait()
		l.Close()
		cl.Close()
		os.Remove(path)
	}
}

func TestVS_NetListener(t *testing.T) {
	in := os.Getenv("VS_IN_JOB")
	if in == "" {
		t.Skip("VS_IN_JOB not set")
	}
	var job nlJob
	b, err := os.ReadFile(in)
	if err != nil {
		t.Fatal(err)
	}
	if err := json.Unmarshal(b, &job); err != nil {
		t.Fatal(err)
	}
	if job.Workers <= 0 {
		job.Workers = 8
	}
	if job.MaxAttempts <= 0 {
		job.MaxAttempts = 6
	}
	if job.MaxPathLen <= 0 {
		job.MaxPathLen = 60
	}
	if len(job.Units) == 0 {
		job.Units = []int{1}
	}
	if os.Getenv("VS_NL_LOG") == "" {
		SetLogLevel(levelNoPrint)
	} else {
		SetLogLevel(levelInfo)
	}
	dir := os.Getenv("VS_DIR")
	if dir == "" {
		dir = os.TempDir()
	}
	res := &nlResult{Graphs: []nlGraphStat{}, Drift: []string{}, Violations: []nlViolation{}, Samples: []string{},
		Counters: map[string]int{}, HarnessErr: []string{}}
	run := &nlRun{job: &job, res: res, dir: dir}
	stopKick := nlStartKicker(dir)
	t0 := time.Now()
	budget := time.Duration(job.BudgetMs) * time.Millisecond
	if budget <= 0 {
		budget = 60 * time.Second
	}
	if job.Conc != nil {
		run.conc(job.Conc)
	}
	// explicit paths first
	if len(job.Paths) > 0 {
		var wg sync.WaitGroup
		ch := make(chan int, len(job.Paths))
		for i := range job.Paths {
			ch <- i
		}
		close(ch)
		for wi := 0; wi < job.Workers; wi++ {
			wg.Add(1)
			go func(wi int) {
				defer wg.Done()
				for i := range ch {
					if time.Since(t0) > budget {
						return
					}
					run.runPath(&job.Paths[i], wi, job.Seed*1000003+int64(i))
				}
			}(wi)
		}
		wg.Wait()
	}
	for gi := range job.Graphs {
		g := &job.Graphs[gi]
		wk := nlNewWalker(g, job.MaxAttempts)
		left := budget - time.Since(t0)
		if left < 0 {
			left = 0
		}
		gEnd := time.Now().Add(left / time.Duration(len(job.Graphs)-gi)) // the time not used by a graph goes to the next ones
		var wg sync.WaitGroup
		for wi := 0; wi < job.Workers; wi++ {
			wg.Add(1)
			go func(wi int) {
				defer wg.Done()
				rng := rand.New(rand.NewSource(job.Seed*7919 + int64(gi)*131 + int64(wi)))
				for atomic.LoadInt32(&run.stop) == 0 && time.Now().Before(gEnd) {
					if !run.walkOne(wk, wi, rng) {
						if !wk.remaining() {
							return
						}
						time.Sleep(2 * time.Millisecond) // everything wanted is claimed by other workers right now
					}
				}
			}(wi)
		}
		wg.Wait()
		for i, c := range wk.covered {
			if c {
				wk.stat.Covered++
			} else {
				wk.stat.Uncovered++
				if wk.attempts[i] >= wk.maxAtt && len(wk.stat.NDUncovered) < 12 {
					wk.stat.NDUncovered = append(wk.stat.NDUncovered, fmt.Sprintf("%d:%s", g.Edges[i].Src, g.Edges[i].Label))
				}
			}
		}
		res.Graphs = append(res.Graphs, wk.stat)
	}
	stopKick()
	out, _ := json.Marshal(res)
	if err := os.WriteFile(os.Getenv("VS_OUT"), out, 0o644); err != nil {
		t.Fatal(err)
	}
}

// ---------------------------------------------------------------------------------------------------------------
// concurrent Close of ONE accepted conn by two goroutines (net.Conn allows it), interleaved exactly: the build is
// instrumented (tools/instr: a scheduling point before every statement and every atomic of streamWrapper.Close), the
// two closers are threads of the serialising scheduler (zz_vs_sched.go). One world, one session, a witness conn that
// stays open, and a fresh target conn per schedule. Schedules: (1) the spec's interleavings of the steps guard CAS /
// stream.Close() / wg.Done() of two callers (TLC, edge cover, every step compared with the predicted projection),
// (2) seeded random interleavings at every scheduling point. Oracles on the real objects: no panic, the reference
// of the conn is released exactly once (WaitGroup counter), the session stays up and the witness conn still carries
// data both ways, the client sees the end of the closed stream; at the end the listener is closed, the session must
// stay while the witness is open and must end when the witness is closed (by two racing closers again).

func (w *nlWorld) wcBegin(t, c, k int) nlObs {
	st := w.stream(c, k)
	if st.conn == nil {
		return nlObs{res: "err", note: "no conn"}
	}
	if w.wcT == nil {
		w.wcT = map[int]*vsThread{}
	}
	conn := st.conn
	w.wcT[t] = vsSpawn(t, func(*vsThread) { _ = conn.Close() })
	return nlObs{res: "ok"}
}

func (w *nlWorld) wcCheck(th *vsThread) {
	if th.panicVal != nil {
		w.ledgerBad = fmt.Sprintf("conn.Close panicked while another goroutine was closing the same conn: %v", th.panicVal)
	}
	if nlWgOK && w.sess[0].wg != nil {
		if n := nlWgCount(w.sess[0].wg); n < w.wcBase-1 && w.ledgerBad == "" {
			w.ledgerBad = fmt.Sprintf("closing ONE conn (two goroutines at the same time) released %d references of the session's "+
				"WaitGroup (counter %d -> %d): the session will be shut down under its other open conns", w.wcBase-n, w.wcBase, n)
		}
	}
}

// wcAdvance lets closer t run up to and including the step named by op: the guard (its first atomic access to closed),
// stream.Close() (server stream gone), the store of the weak guard, wg.Done() (counter changed) - or to its end.
func (w *nlWorld) wcAdvance(op string, t, c, k int) nlObs {
	th := w.wcT[t]
	if th == nil {
		return nlObs{res: "err", note: "closer not started"}
	}
	st := w.stream(c, k)
	wg0 := 0
	if nlWgOK && w.sess[c-1].wg != nil {
		wg0 = nlWgCount(w.sess[c-1].wg)
	}
	atomics := 0
	for i := 0; i < 64 && !th.done; i++ {
		ex, _ := vsStep(th)
		w.cnt["conc_sched_points"]++
		if strings.Contains(ex, "Uint32") {
			atomics++
		}
		stop := false
		switch op {
		case "wcguard":
			stop = atomics >= 1
		case "wcstream":
			stop = st.sw != nil && nlStreamState(st.sw.stream) == 2
		case "wcstore":
			stop = atomics >= 1
		case "wcdone":
			stop = nlWgOK && nlWgCount(w.sess[c-1].wg) != wg0
		}
		if stop {
			break
		}
	}
	w.wcCheck(th)
	return nlObs{res: "ok"}
}

// wcFinish runs every closer that is still inside Close to its end (order given by rng) and returns when all are out
func (w *nlWorld) wcFinish(rng *rand.Rand) {
	for {
		var live []*vsThread
		for _, t := range []int{1, 2} {
			if th := w.wcT[t]; th != nil && !th.done {
				live = append(live, th)
			}
		}
		if len(live) == 0 {
			break
		}
		th := live[rng.Intn(len(live))]
		ex, _ := vsStep(th)
		w.cnt["conc_sched_points"]++
		w.log = append(w.log, nlEdge{Op: "point", A: []int{th.id}, Res: "ok", Label: fmt.Sprintf("t%d:%s", th.id, ex)})
		w.wcCheck(th)
	}
	w.wcT = nil
}

// witnessRoundTrip: the other conn of the session must be untouched by whatever happened to the target conn
func (w *nlWorld) witnessRoundTrip() string {
	for side := 0; side < 2; side++ {
		if o := w.write(side, 1, 2, 1); o.res != "ok" {
			return fmt.Sprintf("the other, open conn of the session no longer works: Write (side %d) -> %s %s", side, o.res, o.note)
		}
		ep := w.endpoint(1-side, 1, 2)
		buf := make([]byte, w.unit)
		got := 0
		ep.SetReadDeadline(time.Now().Add(3 * time.Second))
		for got < w.unit {
			n, err := ep.Read(buf[got:])
			got += n
			if err != nil {
				ep.SetReadDeadline(time.Time{})
				return fmt.Sprintf("the other, open conn of the session no longer works: Read (side %d) -> %v", 1-side, err)
			}
		}
		ep.SetReadDeadline(time.Time{})
		w.checkRead(1, 2, side, buf, got, len(buf))
		if w.ledgerBad != "" {
			return w.ledgerBad
		}
	}
	return ""
}

func (w *nlWorld) waitProj(want []int, d time.Duration) ([]int, bool) {
	dl := time.Now().Add(d)
	var p []int
	ok := 0
	for time.Now().Before(dl) {
		p = w.project()
		if nlEqInts(p, want) {
			ok++
			if ok >= 3 {
				return p, true
			}
		} else {
			ok = 0
		}
		time.Sleep(300 * time.Microsecond)
	}
	return p, false
}

func (r *nlRun) conc(cj *nlConcJob) {
	res := r.res
	fail := func(kind, detail string, w *nlWorld, name string) {
		p := nlPath{Name: name, NS: 1, NK: 2, BCap: 2, Unit: cj.Unit, Small: cj.Small}
		if w != nil {
			p.Steps = w.log
		}
		r.addViolation(nlViolation{Kind: kind, Detail: detail, Graph: "conc-close", Path: p})
	}
	vsReset(vsSched)
	defer vsReset(vsOff)
	rng := rand.New(rand.NewSource(r.job.Seed*2654435761 + 17))
	w, err := nlNewWorld(1, 2, 2, cj.Unit, cj.Small, r.job.Seed, r.dir, r.job.Known)
	if err != nil {
		res.HarnessErr = append(res.HarnessErr, "conc listen: "+err.Error())
		return
	}
	if o := w.connect(1); o.res != "ok" {
		res.EnvAborted++
		res.HarnessErr = append(res.HarnessErr, "conc: connect failed: "+o.note)
		w.finish(false)
		return
	}
	// witness conn (slot 2): opened, accepted, drained
	setup := func(k int) string {
		if o := w.open(1, k); o.res != "ok" {
			return "open: " + o.note
		}
		if o := w.write(0, 1, k, 2); o.res != "ok" {
			return "write: " + o.note
		}
		if o := w.accept(false); o.res != "conn" || len(o.rn) != 2 || o.rn[1] != k {
			return fmt.Sprintf("accept: %s %v %s", o.res, o.rn, o.note)
		}
		return ""
	}
	if e := setup(2); e != "" {
		res.HarnessErr = append(res.HarnessErr, "conc: witness setup: "+e)
		w.finish(false)
		return
	}
	if o := w.read(1, 1, 2, 3, false); o.res != "ok" {
		res.HarnessErr = append(res.HarnessErr, "conc: witness read: "+o.res+" "+o.note)
		w.finish(false)
		return
	}
	broken := false
	// one schedule on a fresh target conn (slot 1)
	one := func(name string, steps []nlEdge, random bool) {
		w.sess[0].streams[0] = &nlStream{}
		w.log = nil
		if e := setup(1); e != "" {
			res.HarnessErr = append(res.HarnessErr, "conc: target setup: "+e)
			broken = true
			return
		}
		if p, ok := w.waitProj(cj.StartProj, 3*time.Second); !ok {
			res.DriftCount++
			res.Drift = append(res.Drift, fmt.Sprintf("conc-close %s: start state: real proj %v, spec %v", name, p, cj.StartProj))
			broken = true
			return
		}
		w.wcBase = nlWgCount(w.sess[0].wg)
		drift := ""
		if random {
			w.wcBegin(1, 1, 1)
			w.wcBegin(2, 1, 1)
			for _, t := range []int{1, 2} {
				w.log = append(w.log, nlEdge{Op: "wcbegin", A: []int{t, 1, 1}, Res: "ok", Label: fmt.Sprintf("WcBegin(%d,1,1)", t)})
			}
			for w.ledgerBad == "" {
				var live []int
				for _, t := range []int{1, 2} {
					if !w.wcT[t].done {
						live = append(live, t)
					}
				}
				if len(live) == 0 {
					break
				}
				t := live[rng.Intn(len(live))]
				ex, _ := vsStep(w.wcT[t])
				w.cnt["conc_sched_points"]++
				w.log = append(w.log, nlEdge{Op: "point", A: []int{t}, Res: "ok", Label: fmt.Sprintf("t%d:%s", t, ex)})
				w.wcCheck(w.wcT[t])
			}
		} else {
			for i := range steps {
				e := steps[i]
				e.Src = -2
				out := w.step(e.Op, e.A, []nlCand{{e: &e, proj: e.Proj}})
				res.Steps++
				if out.violation != "" || w.ledgerBad != "" {
					break
				}
				if out.matched < 0 {
					drift = out.drift
					break
				}
			}
		}
		if len(w.wcT) == 0 {
			w.wcBegin(1, 1, 1) // a schedule without any closer (Reads only): the conn still has to be closed
		}
		w.wcFinish(rng)
		st := w.stream(1, 1)
		st.sclosed = true
		// at rest: exactly one reference released, the closed flag set, the server stream gone
		if w.ledgerBad == "" && nlWgOK {
			dl := time.Now().Add(2 * time.Second)
			for nlWgCount(w.sess[0].wg) != w.wcBase-1 && time.Now().Before(dl) {
				time.Sleep(300 * time.Microsecond)
			}
			if n := nlWgCount(w.sess[0].wg); n != w.wcBase-1 {
				w.ledgerBad = fmt.Sprintf("after Close of one conn by two goroutines the session's WaitGroup counter is %d, expected %d", n, w.wcBase-1)
			}
		}
		if w.ledgerBad == "" && (atomic.LoadUint32(&st.sw.closed) != 1 || nlStreamState(st.sw.stream) != 2) {
			w.ledgerBad = "after Close returned in both goroutines the conn is not closed (closed flag / stream state)"
		}
		if w.ledgerBad == "" {
			if sv, _ := w.sessionOracle(); sv != "" {
				w.ledgerBad = sv
			}
		}
		if w.ledgerBad == "" {
			if e := w.witnessRoundTrip(); e != "" {
				w.ledgerBad = e
			}
		}
		if w.ledgerBad == "" {
			// the client end learns the close: Read ends with an error (after what was still to be read), no hang
			buf := make([]byte, 4*w.unit)
			st.cs.SetReadDeadline(time.Now().Add(3 * time.Second))
			_, err := st.cs.Read(buf)
			st.cs.SetReadDeadline(time.Time{})
			if err == nil || nlIsTimeout(err) {
				w.ledgerBad = fmt.Sprintf("the client end of the closed conn does not see the close: Read -> %v", err)
			}
		}
		st.cs.Close()
		st.cclosed = true
		res.Paths++
		if random {
			w.cnt["conc_random_interleavings"]++
		} else {
			w.cnt["conc_spec_schedules"]++
		}
		if w.ledgerBad != "" {
			broken = true
			return
		}
		if drift != "" {
			res.DriftCount++
			if len(res.Drift) < 10 {
				res.Drift = append(res.Drift, "conc-close "+name+": "+drift)
			}
		} else {
			res.Conforming++
		}
	}
	for i := range cj.Scheds {
		if broken {
			break
		}
		one(cj.Scheds[i].Name, cj.Scheds[i].Steps, false)
	}
	for i := 0; i < cj.Random && !broken; i++ {
		one(fmt.Sprintf("random-%d", i), nil, true)
	}
	name := "conc-close"
	detail := w.ledgerBad
	// final phase: the listener closes; the session must live exactly as long as the witness conn is open
	w.sess[0].streams[0] = &nlStream{}
	w.lclose()
	time.Sleep(50 * time.Millisecond)
	if w.sess[0].srv.IsClosed() {
		msg := "after listener.Close the session was shut down although a conn returned by Accept (the witness) is still open"
		if detail == "" {
			detail = msg
		} else {
			detail += "; consequence: " + msg
		}
	} else if detail == "" {
		if e := w.witnessRoundTrip(); e != "" {
			detail = "after listener.Close: " + e
		}
	}
	if detail == "" {
		w.ledgerBad = ""
		w.wcBase = nlWgCount(w.sess[0].wg)
		w.wcT = map[int]*vsThread{}
		conn := w.stream(1, 2).conn
		for _, t := range []int{1, 2} {
			w.wcT[t] = vsSpawn(t, func(*vsThread) { _ = conn.Close() })
		}
		w.wcFinish(rng)
		w.stream(1, 2).sclosed = true
		if w.ledgerBad != "" {
			detail = w.ledgerBad
		} else {
			dl := time.Now().Add(4 * time.Second)
			for !w.sess[0].srv.IsClosed() && time.Now().Before(dl) {
				time.Sleep(time.Millisecond)
			}
			if !w.sess[0].srv.IsClosed() {
				detail = "listener closed and the last conn closed (by two goroutines at once): the session does not end"
			}
		}
	}
	for k, v := range w.cnt {
		res.Counters[k] += v
	}
	if detail != "" {
		fail("conc", detail, w, name)
		// no orderly teardown: the reference count of this world is wrong, closing more conns would panic
		func() {
			defer func() { recover() }()
			w.sess[0].cl.Close()
		}()
		return
	}
	w.ledgerBad = ""
	if fin := w.finish(false); fin != "" {
		fail("conc", fin, w, name)
	}
}
